(* Generic correspondence driver: one case per line on stdin, arguments separated
   by single spaces.  Argument syntax: "-" empty, "x<hex>" bytes, "u<n,n,...>"
   code points.  Calls the extracted [Model.run : n list list -> n list] and
   prints the result as u<n,n,...> (or "-" when empty). *)
open Model
let rec pos_of_int i = if i = 1 then XH else if i land 1 = 1 then XI (pos_of_int (i lsr 1)) else XO (pos_of_int (i lsr 1))
let n_of_int i = if i = 0 then N0 else Npos (pos_of_int i)
let rec int_of_pos = function XH -> 1 | XO p -> 2 * int_of_pos p | XI p -> 2 * int_of_pos p + 1
let int_of_n = function N0 -> 0 | Npos p -> int_of_pos p
let byte_tab = Array.init 256 n_of_int
let hexv c = match c with '0'..'9' -> Char.code c - 48 | 'a'..'f' -> Char.code c - 87 | 'A'..'F' -> Char.code c - 55 | _ -> failwith "hex"
let arg_of_string s =
  if s = "-" then [] else
  match s.[0] with
  | 'x' -> let n = (String.length s - 1) / 2 in
           let rec go i acc = if i < 0 then acc else go (i - 1) (byte_tab.(hexv s.[1 + 2*i] * 16 + hexv s.[2 + 2*i]) :: acc) in
           go (n - 1) []
  | 'u' -> List.rev (List.rev_map (fun t -> n_of_int (int_of_string t)) (String.split_on_char ',' (String.sub s 1 (String.length s - 1))))
  | _ -> failwith "bad arg"
let () =
  let buf = Buffer.create 65536 in
  try while true do
    let line = input_line stdin in
    let args = List.rev (List.rev_map arg_of_string (List.filter (fun a -> a <> "") (String.split_on_char ' ' line))) in
    let out = run args in
    Buffer.clear buf;
    (match out with [] -> Buffer.add_char buf '-' | _ ->
      Buffer.add_char buf 'u';
      List.iteri (fun i c -> if i > 0 then Buffer.add_char buf ','; Buffer.add_string buf (string_of_int (int_of_n c))) out);
    print_string (Buffer.contents buf); print_newline ()
  done with End_of_file -> ()
