Require Import Cap.
From Coq Require Import List NArith.
From Coq Require Extraction ExtrOcamlBasic.
Definition run (off len : N) (cs : list bytes) : bytes := rdata (feed (mkR off len nil) 0%N cs).
Extraction "capmodel.ml" run.
