From Coq Require Import List NArith Bool Arith.
Import ListNotations.
Open Scope N_scope.

Definition str := list N.
Definition cset := list (N * N).
Fixpoint cmem (c : N) (cs : cset) : bool :=
  match cs with [] => false | (lo, hi) :: t => ((lo <=? c) && (c <=? hi)) || cmem c t end.

Inductive re :=
| Eps | Chr (cs : cset) | Seq (a b : re) | Alt (a b : re)
| Rep (cs : cset) (mn : nat) (mx : option nat)
| Opt (a : re) | Group (i : nat) (a : re) | Bol | Eol.

Definition groups := list (nat * (N * N)).
Fixpoint gget (g : groups) (i : nat) : option (N * N) :=
  match g with [] => None | (j, v) :: t => if Nat.eqb i j then Some v else gget t i end.

Fixpoint run_len (cs : cset) (s : str) (mx : option nat) : nat :=
  match s with
  | [] => 0%nat
  | c :: t => match mx with
              | Some 0%nat => 0%nat
              | _ => if cmem c cs then S (run_len cs t (option_map pred mx)) else 0%nat
              end
  end.

Section M.
Variable R : Type.
Definition cont := str -> N -> groups -> option R.

Fixpoint try_counts (s : str) (p : N) (g : groups) (k : cont) (mn n : nat) : option R :=
  match k (skipn n s) (p + N.of_nat n) g with
  | Some x => Some x
  | None => match n with
            | O => None
            | S n' => if Nat.ltb n' mn then None else try_counts s p g k mn n'
            end
  end.

Fixpoint m (r : re) (s : str) (p : N) (g : groups) (k : cont) {struct r} : option R :=
  match r with
  | Eps => k s p g
  | Chr cs => match s with c :: t => if cmem c cs then k t (p + 1) g else None | [] => None end
  | Seq a b => m a s p g (fun s' p' g' => m b s' p' g' k)
  | Alt a b => match m a s p g k with Some x => Some x | None => m b s p g k end
  | Rep cs mn mx => let n := run_len cs s mx in
                    if Nat.ltb n mn then None else try_counts s p g k mn n
  | Opt a => match m a s p g k with Some x => Some x | None => k s p g end
  | Group i a => m a s p g (fun s' p' g' => k s' p' ((i, (p, p')) :: g'))
  | Bol => if p =? 0 then k s p g else None
  | Eol => match s with [] => k s p g | [10] => k s p g | _ => None end
  end.
End M.

Definition match_at (r : re) (s : str) (p : N) : option (N * groups) :=
  m _ r s p [] (fun _ p' g' => Some (p', g')).

(* template: list of literal chars or group refs *)
Inductive titem := TLit (c : N) | TGrp (i : nat).
Definition slice (whole : str) (a b : N) : str := firstn (N.to_nat (b - a)) (skipn (N.to_nat a) whole).
Fixpoint expand (t : list titem) (whole : str) (g : groups) : str :=
  match t with
  | [] => []
  | TLit c :: r => c :: expand r whole g
  | TGrp i :: r => match gget g i with Some (a, b) => slice whole a b | None => [] end ++ expand r whole g
  end.

(* re.sub for patterns that never match the empty string *)
Fixpoint sub_go (r : re) (t : list titem) (whole s : str) (p : N) (skip : nat) : str :=
  match s with
  | [] => []
  | c :: rest =>
    match skip with
    | S k => sub_go r t whole rest (p + 1) k
    | O => match match_at r s p with
           | Some (e, g) => if p <? e then expand t whole g ++ sub_go r t whole rest (p + 1) (N.to_nat (e - p) - 1)
                            else c :: sub_go r t whole rest (p + 1) 0
           | None => c :: sub_go r t whole rest (p + 1) 0
           end
    end
  end.
Definition sub (r : re) (t : list titem) (s : str) : str := sub_go r t s s 0 0.

Fixpoint prefixb (a s : str) : bool :=
  match a, s with [], _ => true | x :: a', y :: s' => (x =? y) && prefixb a' s' | _, [] => false end.
Fixpoint occurs (a s : str) : bool :=
  prefixb a s || match s with [] => false | _ :: t => occurs a t end.
