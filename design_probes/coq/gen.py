import sys, re
sys.path.insert(0,'/repo')
from oslo_utils import strutils
import re._parser as P, re._compiler as C
from re._constants import *
FLAGS = re.I | re.S
cache = {}
def ranges_of(item):
    key = repr(item)
    if key in cache: return cache[key]
    sp = P.SubPattern(P.State()); sp.data = [item]
    st = sp.state; st.flags = FLAGS | re.U
    pat = C.compile(sp, FLAGS)
    out=[]; start=None
    for x in range(0x110000):
        ok = pat.match(chr(x)) is not None
        if ok and start is None: start = x
        if not ok and start is not None: out.append((start, x-1)); start=None
    if start is not None: out.append((start, 0x10ffff))
    cache[key] = out
    return out
def cs(item): return '[' + ';'.join('(%d,%d)' % r for r in ranges_of(item)) + ']'
def tr_seq(items):
    if not items: return 'Eps'
    out = tr(items[-1])
    for it in reversed(items[:-1]): out = '(Seq %s %s)' % (tr(it), out)
    return out
def tr(item):
    op, av = item
    if op in (LITERAL, NOT_LITERAL, IN, ANY): return '(Chr %s)' % cs(item)
    if op is MAX_REPEAT:
        mn, mx, body = av
        if len(body) == 1 and body[0][0] in (LITERAL, NOT_LITERAL, IN, ANY):
            return '(Rep %s %d%%nat %s)' % (cs(body[0]), mn, 'None' if mx == MAXREPEAT else '(Some %d%%nat)' % mx)
        if (mn, mx) == (0, 1): return '(Opt %s)' % tr_seq(list(body))
        if mn == mx: return tr_seq(list(body) * mn)
        raise SystemExit('unsupported repeat')
    if op is SUBPATTERN:
        gid, af, df, body = av
        inner = tr_seq(list(body))
        return '(Group %d%%nat %s)' % (gid, inner) if gid is not None else inner
    if op is BRANCH:
        alts = [tr_seq(list(b)) for b in av[1]]
        out = alts[-1]
        for a in reversed(alts[:-1]): out = '(Alt %s %s)' % (a, out)
        return out
    if op is AT:
        if av is AT_BEGINNING: return 'Bol'
        if av is AT_END: return 'Eol'
    raise SystemExit('unsupported op %s' % op)
def lit(s): return '[' + ';'.join(str(ord(c)) for c in s) + ']'
keys = strutils._SANITIZE_KEYS
with open('GenSan.v','w') as f:
    f.write('From Coq Require Import List NArith.\nImport ListNotations.\nRequire Import Regex.\nOpen Scope N_scope.\n')
    f.write('Definition keys : list str := [%s].\n' % ';\n '.join(lit(k) for k in keys))
    for n,(name,pl) in enumerate([('p2', strutils._FORMAT_PATTERNS_2), ('p1', strutils._FORMAT_PATTERNS_1), ('pw', strutils._FORMAT_PATTERNS_WILDCARD)]):
        f.write('Definition %s : list (list re) := [\n' % name)
        rows=[]
        for k in keys:
            rows.append('  [' + ';\n   '.join(tr_seq(list(P.parse(p % {'key': k}, FLAGS))) for p in pl) + ']')
        f.write(';\n'.join(rows) + '].\n')
print('items', len(cache))
