From Coq Require Import List NArith Bool Lia.
Require Import Cap GenCap.
Open Scope N_scope.
(* obligation: the function regenerated from /repo's source equals the hand-written model *)
Lemma gen_capture_equiv r c p : gen_capture r c p = capture r c p.
Proof.
  unfold gen_capture, capture. cbv zeta.
  destruct (_ || _); [|destruct r; reflexivity].
  destruct (_ <? _); reflexivity.
Qed.
Print Assumptions gen_capture_equiv.
