"""Fail-closed translator for a tiny Python subset -> Gallina (shallow).
Supported: methods of a class whose fields are declared in FIELDS with types
int|bytes; locals inferred; statements: Assign, AugAssign(+=) on bytes,
If/Else, implicit return of self; expressions: ints, names, self.attr,
len(x), BinOp +,-, Compare (chained) with <,<=,==,!=,>,>=, BoolOp and/or,
Subscript slices x[a:], x[:b] on bytes."""
import ast, sys, textwrap, inspect
sys.path.insert(0, '/repo')
from oslo_utils.imageutils import format_inspector as fi

class Unsupported(Exception): pass
FIELDS = {'offset': 'int', 'length': 'int', 'data': 'bytes'}
CMP = {ast.Lt: '<?', ast.LtE: '<=?', ast.Eq: '=?'}

class Tr:
    def __init__(self, params):
        self.types = dict(params)   # local name -> type
    def expr(self, e):
        """returns (coq_text, type)"""
        if isinstance(e, ast.Constant) and isinstance(e.value, int) and not isinstance(e.value, bool):
            return '%d' % e.value, 'int'
        if isinstance(e, ast.Name):
            if e.id not in self.types: raise Unsupported('unknown name ' + e.id)
            return e.id, self.types[e.id]
        if isinstance(e, ast.Attribute) and isinstance(e.value, ast.Name) and e.value.id == 'self':
            if e.attr not in FIELDS: raise Unsupported('field ' + e.attr)
            return 'self_' + e.attr, FIELDS[e.attr]
        if isinstance(e, ast.Call) and isinstance(e.func, ast.Name) and e.func.id == 'len' and len(e.args) == 1:
            t, ty = self.expr(e.args[0])
            if ty != 'bytes': raise Unsupported('len of ' + ty)
            return '(blen %s)' % t, 'int'
        if isinstance(e, ast.BinOp) and isinstance(e.op, (ast.Add, ast.Sub)):
            a, ta = self.expr(e.left); b, tb = self.expr(e.right)
            if ta == tb == 'int':
                return '(%s %s %s)' % (a, '+' if isinstance(e.op, ast.Add) else '-', b), 'int'
            if ta == tb == 'bytes' and isinstance(e.op, ast.Add):
                return '(%s ++ %s)' % (a, b), 'bytes'
            raise Unsupported('binop types')
        if isinstance(e, ast.Compare):
            parts = []; left = e.left
            for op, right in zip(e.ops, e.comparators):
                a, ta = self.expr(left); b, tb = self.expr(right)
                if ta != 'int' or tb != 'int' or type(op) not in CMP: raise Unsupported('compare')
                parts.append('(%s %s %s)' % (a, CMP[type(op)], b)); left = right
            return '(' + ' && '.join(parts) + ')', 'bool'
        if isinstance(e, ast.BoolOp):
            ts = [self.expr(v) for v in e.values]
            if any(t != 'bool' for _, t in ts): raise Unsupported('boolop on non-bool')
            return '(' + (' && ' if isinstance(e.op, ast.And) else ' || ').join(t for t, _ in ts) + ')', 'bool'
        if isinstance(e, ast.Subscript) and isinstance(e.slice, ast.Slice) and e.slice.step is None:
            a, ta = self.expr(e.value)
            if ta != 'bytes': raise Unsupported('slice of ' + ta)
            lo, hi = e.slice.lower, e.slice.upper
            if lo is not None and hi is None:
                l, tl = self.expr(lo)
                if tl != 'int': raise Unsupported('slice bound')
                return '(bskip %s %s)' % (l, a), 'bytes'
            if lo is None and hi is not None:
                h, th = self.expr(hi)
                if th != 'int': raise Unsupported('slice bound')
                return '(btake %s %s)' % (h, a), 'bytes'
        raise Unsupported(ast.dump(e)[:80])
    def block(self, stmts, k):
        """continuation-style: k is Coq text for 'the rest' (returns the final state tuple)"""
        if not stmts: return k
        s, rest = stmts[0], stmts[1:]
        if isinstance(s, ast.Expr) and isinstance(s.value, ast.Constant) and isinstance(s.value.value, str):
            return self.block(rest, k)  # docstring
        if isinstance(s, ast.Assign) and len(s.targets) == 1:
            v, ty = self.expr(s.value); tgt = s.targets[0]
            if isinstance(tgt, ast.Name):
                if self.types.get(tgt.id, ty) != ty: raise Unsupported('retyped local')
                self.types[tgt.id] = ty
                return 'let %s := %s in\n%s' % (tgt.id, v, self.block(rest, k))
            if isinstance(tgt, ast.Attribute) and tgt.value.id == 'self' and FIELDS.get(tgt.attr) == ty:
                return 'let self_%s := %s in\n%s' % (tgt.attr, v, self.block(rest, k))
        if isinstance(s, ast.AugAssign) and isinstance(s.op, ast.Add):
            return self.block([ast.Assign(targets=[s.target], value=ast.BinOp(left=self._load(s.target), op=ast.Add(), right=s.value))] + rest, k)
        if isinstance(s, ast.If):
            c, tc = self.expr(s.test)
            if tc != 'bool': raise Unsupported('if on non-bool')
            # join point: both branches continue with the same rest; locals assigned in
            # only one branch are not allowed to escape (fail closed)
            saved = dict(self.types)
            a = self.block(s.body + rest, k); ta = dict(self.types); self.types = dict(saved)
            b = self.block(s.orelse + rest, k)
            return 'if %s then (\n%s) else (\n%s)' % (c, a, b)
        raise Unsupported(ast.dump(s)[:80])
    def _load(self, tgt):
        if isinstance(tgt, ast.Name): return ast.Name(id=tgt.id, ctx=ast.Load())
        return ast.Attribute(value=ast.Name(id='self', ctx=ast.Load()), attr=tgt.attr, ctx=ast.Load())

def method(cls, name, params):
    src = textwrap.dedent(inspect.getsource(getattr(cls, name)))
    fn = ast.parse(src).body[0]
    assert [a.arg for a in fn.args.args] == ['self'] + [p for p, _ in params]
    tr = Tr(params)
    body = tr.block(fn.body, 'mkR self_offset self_length self_data')
    args = ' '.join('(%s : %s)' % (p, 'N' if t == 'int' else 'bytes') for p, t in params)
    return ('Definition gen_%s (self : region) %s : region :=\n'
            'let self_offset := roff self in let self_length := rlen self in let self_data := rdata self in\n%s.\n' % (name, args, body))

out = 'From Coq Require Import List NArith Bool.\nRequire Import Cap.\nOpen Scope N_scope.\n' + method(fi.CaptureRegion, 'capture', [('chunk', 'bytes'), ('current_position', 'int')])
open('GenCap.v', 'w').write(out)
print(out)
