import sys
sys.path.insert(0,'/repo')
from oslo_utils import strutils
msgs = ["password=ab^cd", "{'password': 'abc', 'user': 'bob'}", "token=password=x", "<admin_password>a b</admin_password> and more text here", "nothing to see here at all, move along please",
        "'adminPass' : 'aaaaa'", "--password abc=def rest", "test = 'node.session.auth.password','-v','TL0EfN33','nomask'", 'u"auth_token": u"zzzz" x', "cephmanilaclientkey = 'q' "*3]
def lit(s): return '[' + ';'.join(str(ord(c)) for c in s) + ']'
with open('Cases.v','w') as f:
    f.write('From Coq Require Import List NArith.\nImport ListNotations.\nRequire Import Regex GenSan Mask.\nOpen Scope N_scope.\n')
    f.write('Definition msgs : list str := [%s].\n' % ';\n'.join(lit(m) for m in msgs))
    f.write('Definition expect : list str := [%s].\n' % ';\n'.join(lit(strutils.mask_password(m)) for m in msgs))
    f.write('Time Eval vm_compute in (map (fun p => if list_eq_dec N.eq_dec (mask [42;42;42] (fst p)) (snd p) then true else false) (combine msgs expect)).\n')
    f.write('Definition big := flat_map (fun _ => msgs) (seq 0 20).\nTime Eval vm_compute in length (map (mask [42;42;42]) big).\n')
