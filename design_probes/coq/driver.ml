open Capmodel
let rec n_of_int i = if i = 0 then N0 else Npos (pos_of_int i)
and pos_of_int i = if i = 1 then XH else if i land 1 = 1 then XI (pos_of_int (i lsr 1)) else XO (pos_of_int (i lsr 1))
let rec int_of_pos = function XH -> 1 | XO p -> 2 * int_of_pos p | XI p -> 2 * int_of_pos p + 1
let int_of_n = function N0 -> 0 | Npos p -> int_of_pos p
let bytes_of_string s = List.init (String.length s) (fun i -> n_of_int (Char.code s.[i]))
let () =
  let total = 300000 and csz = int_of_string Sys.argv.(1) in
  let data = String.init total (fun i -> Char.chr (i * 7 mod 251)) in
  let rec chunks pos acc = if pos >= total then List.rev acc else
     let l = min csz (total - pos) in chunks (pos + l) (bytes_of_string (String.sub data pos l) :: acc) in
  let cs = chunks 0 [] in
  let t0 = Sys.time () in
  let r = run (n_of_int 196608) (n_of_int 65536) cs in
  Printf.printf "len=%d first=%d t=%.3f\n" (List.length r) (int_of_n (List.hd r)) (Sys.time () -. t0)
