From Coq Require Import List NArith Lia Bool ZifyBool ZifyNat ZifyN.
Import ListNotations.
Open Scope N_scope.

Definition bytes := list N.
Definition blen (b : bytes) : N := N.of_nat (length b).
Definition bskip (n : N) (b : bytes) : bytes := skipn (N.to_nat n) b.
Definition btake (n : N) (b : bytes) : bytes := firstn (N.to_nat n) b.
Definition bslice (off len : N) (b : bytes) := btake len (bskip off b).

Record region := mkR { roff : N; rlen : N; rdata : bytes }.

(* CaptureRegion.capture, format_inspector.py:73-93 *)
Definition capture (r : region) (chunk : bytes) (pos : N) : region :=
  let rs := pos - blen chunk in
  if ((rs <=? roff r) && (roff r <=? pos)) || ((roff r <=? rs) && (rs <=? roff r + rlen r))
  then let gap := if rs <? roff r then roff r - rs else 0 in
       mkR (roff r) (rlen r) (btake (rlen r) (rdata r ++ bskip gap chunk))
  else r.

Definition complete (r : region) := rlen r =? blen (rdata r).

(* feed: FileInspector._capture for one region over a chunk list, starting at position pos0 *)
Fixpoint feed (r : region) (pos : N) (cs : list bytes) : region :=
  match cs with
  | [] => r
  | c :: cs' => let pos' := pos + blen c in
                feed (if complete r then r else capture r c pos') pos' cs'
  end.

Lemma blen_app a b : blen (a ++ b) = blen a + blen b.
Proof. unfold blen. rewrite app_length. lia. Qed.

Lemma bskip_app_le n a b : n <= blen a -> bskip n (a ++ b) = bskip n a ++ b.
Proof. unfold bskip, blen. intros H. rewrite skipn_app.
  replace (N.to_nat n - length a)%nat with 0%nat by lia. reflexivity. Qed.

Lemma bskip_app_ge n a b : blen a <= n -> bskip n (a ++ b) = bskip (n - blen a) b.
Proof. unfold bskip, blen. intros H. rewrite skipn_app.
  rewrite skipn_all2 by lia. simpl. f_equal. lia. Qed.

Lemma blen_bskip n a : blen (bskip n a) = blen a - n.
Proof. unfold blen, bskip. rewrite skipn_length. lia. Qed.

Lemma btake_all n a : blen a <= n -> btake n a = a.
Proof. unfold btake, blen. intros. apply firstn_all2. lia. Qed.

Lemma btake_app_ge n a b : n <= blen a -> btake n (a ++ b) = btake n a.
Proof. unfold btake, blen. intros. rewrite firstn_app.
  replace (N.to_nat n - length a)%nat with 0%nat by lia. simpl. apply app_nil_r. Qed.

Lemma blen_btake n a : blen (btake n a) = N.min n (blen a).
Proof. unfold blen, btake. rewrite firstn_length. lia. Qed.

Lemma bskip_nil n : bskip n [] = [].
Proof. unfold bskip. apply skipn_nil. Qed.

(* Invariant: after presenting the prefix [sofar] (in any chunking), a region
   that started empty holds exactly sofar[off : off+len]. *)
Lemma capture_step off len sofar c :
  let r := mkR off len (bslice off len sofar) in
  (if complete r then r else capture r c (blen sofar + blen c))
  = mkR off len (bslice off len (sofar ++ c)).
Proof.
  cbv zeta. unfold complete, capture, bslice. cbn [roff rlen rdata].
  rewrite blen_btake, blen_bskip.
  destruct (len =? N.min len (blen sofar - off)) eqn:Hc.
  - (* already complete: more data does not change the slice *)
    f_equal. destruct (N.le_gt_cases off (blen sofar)).
    + rewrite bskip_app_le by lia. rewrite btake_app_ge; [reflexivity|]. rewrite blen_bskip. lia.
    + assert (len = 0) by lia. subst. unfold btake. reflexivity.
  - replace (blen sofar + blen c - blen c) with (blen sofar) by lia.
    destruct (((blen sofar <=? off) && (off <=? blen sofar + blen c))
              || ((off <=? blen sofar) && (blen sofar <=? off + len))) eqn:Hcond.
    + f_equal. destruct (blen sofar <? off) eqn:Hlt.
      * rewrite (bskip_app_ge off sofar c) by lia.
        replace (bskip off sofar) with (@nil N).
        2:{ unfold bskip. rewrite skipn_all2; [reflexivity|]. unfold blen in *. lia. }
        unfold btake at 2. rewrite firstn_nil. reflexivity.
      * assert (off <= blen sofar) by lia.
        rewrite bskip_app_le by lia. unfold bskip at 2. cbn [N.to_nat skipn].
        rewrite (btake_all len (bskip off sofar)); [reflexivity|]. rewrite blen_bskip. lia.
    + f_equal.
      destruct (N.le_gt_cases off (blen sofar)).
      * exfalso. lia.
      * (* chunk ends before the region starts *)
        assert (blen sofar + blen c < off) by lia.
        replace (bskip off sofar) with (@nil N).
        2:{ unfold bskip. rewrite skipn_all2; [reflexivity|]. unfold blen in *. lia. }
        replace (bskip off (sofar ++ c)) with (@nil N).
        2:{ unfold bskip. rewrite skipn_all2; [reflexivity|]. rewrite app_length. unfold blen in *. lia. }
        reflexivity.
Qed.

Theorem feed_slice off len cs sofar :
  feed (mkR off len (bslice off len sofar)) (blen sofar) cs
  = mkR off len (bslice off len (sofar ++ concat cs)).
Proof.
  revert sofar. induction cs as [|c cs IH]; intros sofar; cbn [feed concat].
  - rewrite app_nil_r. reflexivity.
  - rewrite capture_step. rewrite <- blen_app. rewrite IH. rewrite app_assoc. reflexivity.
Qed.

Corollary chunking_irrelevant off len cs1 cs2 :
  concat cs1 = concat cs2 ->
  feed (mkR off len []) 0 cs1 = feed (mkR off len []) 0 cs2.
Proof.
  intros H.
  pose proof (feed_slice off len cs1 []) as H1. pose proof (feed_slice off len cs2 []) as H2.
  unfold bslice in *. rewrite bskip_nil in *. unfold btake in H1, H2. rewrite firstn_nil in *.
  cbn in H1, H2. rewrite H1, H2, H. reflexivity.
Qed.
Print Assumptions chunking_irrelevant.
