From Coq Require Import ZArith.
From Flocq Require Import IEEE754.BinarySingleNaN IEEE754.Bits.
Open Scope Z_scope.
Definition prec := 53. Definition emax := 1024.
Definition b64 := binary_float prec emax.
Instance Hprec : FLX.Prec_gt_0 prec. Proof. reflexivity. Defined.
Instance Hmax : Prec_lt_emax prec emax. Proof. reflexivity. Defined.
(* integer -> float, correctly rounded *)
Definition ofZ (z : Z) : b64 := binary_normalize prec emax Hprec Hmax mode_NE z 0 false.
Definition mul := Bmult (prec:=prec) (emax:=emax) mode_NE.
Definition div := Bdiv (prec:=prec) (emax:=emax) mode_NE.
Definition show (f : b64) := match f with B754_finite s m e _ => (if s then -1 else 1, Zpos m, e) | _ => (0,0,0) end.
(* 1.1 = 11/10, times 1024 *)
Eval vm_compute in show (mul (div (ofZ 11) (ofZ 10)) (ofZ 1024)).
Eval vm_compute in show (mul (ofZ 3) (ofZ (1000^10))).
Check Bmult_correct.
Check binary_normalize_correct.
