From Coq Require Import List NArith Bool.
Require Import Cap.
Open Scope N_scope.
Definition gen_capture (self : region) (chunk : bytes) (current_position : N) : region :=
let self_offset := roff self in let self_length := rlen self in let self_data := rdata self in
let read_start := (current_position - (blen chunk)) in
if (((read_start <=? self_offset) && (self_offset <=? current_position)) || ((self_offset <=? read_start) && (read_start <=? (self_offset + self_length)))) then (
if ((read_start <? self_offset)) then (
let lead_gap := ((self_offset - read_start) + 1) in
let self_data := (self_data ++ (bskip lead_gap chunk)) in
let self_data := (btake self_length self_data) in
mkR self_offset self_length self_data) else (
let lead_gap := 0 in
let self_data := (self_data ++ (bskip lead_gap chunk)) in
let self_data := (btake self_length self_data) in
mkR self_offset self_length self_data)) else (
mkR self_offset self_length self_data).
