From Coq Require Import List NArith Bool.
Import ListNotations.
Require Import Regex GenSan.
Open Scope N_scope.

(* ASCII-only lower for the probe *)
Definition lower1 (c : N) : N := if (65 <=? c) && (c <=? 90) then c + 32 else c.
Definition lower (s : str) := map lower1 s.

Definition t2 (secret : str) := TGrp 1 :: map TLit secret ++ [TGrp 2].
Definition t1 (secret : str) := TGrp 1 :: map TLit secret.
Definition tw := [TGrp 1].

Fixpoint zip3 {A B C D} (a : list A) (b : list B) (c : list C) (d : list D) : list (A * (B * (C * D))) :=
  match a, b, c, d with
  | x :: a', y :: b', z :: c', w :: d' => (x, (y, (z, w))) :: zip3 a' b' c' d'
  | _, _, _, _ => []
  end.

Definition mask (secret msg : str) : str :=
  fold_left (fun m kp =>
    let '(k, (r2, (r1, rw))) := kp in
    if occurs k (lower m) then
      let m := fold_left (fun m r => sub r (t2 secret) m) r2 m in
      let m := fold_left (fun m r => sub r (t1 secret) m) r1 m in
      fold_left (fun m r => sub r tw m) rw m
    else m) (zip3 keys p2 p1 pw) msg.
