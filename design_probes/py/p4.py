import sys
sys.path.insert(0,'/repo')
from oslo_utils import strutils, netutils, specs_matcher, versionutils, uuidutils, timeutils
import netaddr, inspect
sb = strutils.split_by_commas
for s in ['a,b', '"a,b",c', r'"a\"b",c', r'"a\nb"', r'"a\\nb"', 'a b,c', ' a , b ', '"a" ,"b"', 'a,,b', '', 'a,', '"a"b', r'"a\tb"', 'a\tb', '"a b"', "a'b", r'"\,"']:
    try: print(repr(s), '->', sb(s))
    except Exception as e: print(repr(s), 'EXC', type(e).__name__)
print(inspect.getsource(netaddr.valid_ipv4))
print(inspect.getsource(netaddr.valid_ipv6))
print(netaddr.strategy.ipv4._inet_pton, netaddr.strategy.ipv6._inet_pton if hasattr(netaddr.strategy.ipv6,'_inet_pton') else None)
for a in ['1.2.3.4','01.2.3.4','1.2.3','1.2.3.256','1.2.3.4 ',' 1.2.3.4','1.2.3.4\n','١.2.3.4', '0x1.2.3.4', '1', '1.2', '4294967295', '0377.1.1.1']:
    print(repr(a), netutils.is_valid_ipv4(a), netutils.is_valid_ipv4(a, strict=False))
for a in ['::1','::','1::','1:2:3:4:5:6:7:8','1:2:3:4:5:6:7:8:9','::ffff:1.2.3.4','fe80::1%eth0','fe80::1%','fe80::1%1234567890123456','fe80::1%123456789012345','::1%a%b','%eth0', ':::', '1::2::3', '12345::', '::1 ', 'FE80::1', '::01.2.3.4', '1:2:3:4:5:6:1.2.3.4', '0:0:0:0:0:0:0:0001', '::00001']:
    print(repr(a), netutils.is_valid_ipv6(a))
for p in [0, 65535, 65536, -1, '0', '65535', '65536', ' 80 ', '8_0', '+80', '٨٠', 80.5, True, None, '', '0x50', b'80', '80\n']:
    try: print(repr(p), netutils.is_valid_port(p))
    except Exception as e: print(repr(p), 'EXC', type(e).__name__)
for m in ['aa:bb:cc:dd:ee:ff','AA:BB:CC:DD:EE:FF','aa:bb:cc:dd:ee:ff\n','aa-bb-cc-dd-ee-ff','aa:bb:cc:dd:ee','aa:bb:cc:dd:ee:ff:00', 'İa:bb:cc:dd:ee:ff']:
    print(repr(m), bool(netutils.is_valid_mac(m)))
