import sys, struct, io, os, tempfile
sys.path.insert(0,'/repo'); sys.path.insert(0,'/tmp/probe')
from p2h import *
from oslo_utils import netutils

# F1: text mode depends on first chunk length
txt = b'# Disk DescriptorFile\nversion=1\ncreateType="monolithicSparse"\n' + b'RW 1 SPARSE "a.vmdk"\n'
txt = txt + b'#' * (600-len(txt)) + b'\n'
bad = txt[:100] + b'\xff' + txt[101:]
for cs in [64, 100, 101, 512, len(bad)]:
    print('F1 bad@100 chunk', cs, run(fi.VMDKInspector, bad, chunking(len(bad), cs)))
print()
for cs in [10, 64, 512, len(txt)]:
    print('text chunk', cs, run(fi.VMDKInspector, txt, chunking(len(txt), cs)))
# C02 note: extent w/ path after first chunk
evil = b'# Disk DescriptorFile\nversion=1\ncreateType="monolithicSparse"\nRW 1 SPARSE "a.vmdk"\n' + b'# pad\n'*700 + b'RW 1 SPARSE "/etc/passwd"\n'
print(len(evil))
for cs in [4096, len(evil)]:
    print('evil chunk', cs, run(fi.VMDKInspector, evil, chunking(len(evil), cs)))
with tempfile.NamedTemporaryFile(delete=False) as f:
    f.write(evil); p = f.name
r = os.system('cd /repo && /venv/bin/python -m oslo_utils.imageutils -v -i %s; echo exit=$?' % p)
# D2: text >512 bytes with non-ascii in first chunk after 512
d2 = b'hello world\n' * 50 + b'\xff' + b'more text\n'*400
with open(p,'wb') as f: f.write(d2)
try:
    print('detect', fi.detect_file_format(p))
except Exception as e:
    print('detect EXC', type(e).__name__, e)
os.unlink(p)
# D6
for a in ['10.0.0.0/8/8', '10.0.0.0/8', '10.0.0.0\x00/8', '::1/64/1', '1.2.3.4\x00']:
    for fn in [netutils.is_valid_cidr, netutils.is_valid_ipv6_cidr, netutils.is_valid_ipv4, netutils.is_valid_ipv6, netutils.is_valid_ip]:
        try:
            print(repr(a), fn.__name__, fn(a))
        except Exception as e:
            print(repr(a), fn.__name__, 'EXC', type(e).__name__, e)
