import sys, struct, io, uuid
sys.path.insert(0,'/repo')
from oslo_utils.imageutils import format_inspector as fi
import logging
logging.disable(logging.CRITICAL)

def guid_bytes(s):
    return uuid.UUID(s).bytes_le

def mk_vhdx(vsize=10*1024*1024, meta_off=2*1024*1024, item_off=64*1024, total=None, nreg=1, nmeta=1):
    total = total or (meta_off + item_off + 8 + 100)
    b = bytearray(total)
    b[0:8] = b'vhdxfile'
    hdr = 192*1024
    b[hdr:hdr+16] = struct.pack('<IIII', 0x69676572, 0, nreg, 0)
    # last entry is metadata region
    for i in range(nreg):
        e = hdr+16+i*32
        if i == nreg-1:
            b[e:e+16] = guid_bytes(fi.VHDXInspector.METAREGION)
            b[e+16:e+32] = struct.pack('<QII', meta_off, 1024*1024, 1)
    b[meta_off:meta_off+12] = struct.pack('<8sHH', b'metadata', 0, nmeta)
    for i in range(nmeta):
        e = meta_off+32+i*32
        if i == nmeta-1:
            b[e:e+16] = guid_bytes(fi.VHDXInspector.VIRTUAL_DISK_SIZE)
            b[e+16:e+28] = struct.pack('<III', item_off, 8, 0)
    b[meta_off+item_off:meta_off+item_off+8] = struct.pack('<Q', vsize)
    return bytes(b)

def run(cls, data, chunks):
    i = cls()
    pos = 0
    err = None
    for c in chunks:
        try:
            i.eat_chunk(data[pos:pos+c])
        except Exception as e:
            err = type(e).__name__ + ':' + str(e)
            break
        pos += c
    i.finish()
    def safe(f):
        try: return f()
        except Exception as e: return 'EXC:'+type(e).__name__
    def sc():
        try:
            i.safety_check(); return 'pass'
        except fi.SafetyCheckFailed as e: return 'fail:'+','.join(sorted(e.failures))
        except fi.ImageFormatError as e: return 'refused'
    return dict(err=err, match=safe(lambda: i.format_match), complete=safe(lambda: i.complete), vsize=safe(lambda: i.virtual_size), safety=safe(sc), ctx=safe(lambda: i.context_info))

def chunking(n, size):
    out=[]; 
    while n>0:
        out.append(min(size,n)); n-=size
    return out

d = mk_vhdx()
print('len', len(d))
for cs in [len(d), 1024*1024, 65536, 4096, 512]:
    print('VHDX chunk', cs, run(fi.VHDXInspector, d, chunking(len(d), cs)))
# backward pointer
d2 = mk_vhdx(meta_off=64*1024, total=512*1024)
for cs in [len(d2), 65536, 4096]:
    print('VHDX back', cs, run(fi.VHDXInspector, d2, chunking(len(d2), cs)))
# wrapper with 1MiB reads
for cs in [1024*1024, 4096]:
    w = fi.InspectWrapper(io.BytesIO(d))
    seq=[]
    while True:
        c = w.read(cs)
        if not c: break
        try: f = w.format
        except Exception as e: f = 'EXC'+type(e).__name__
        seq.append(str(f) if f is not None else None)
    w.close()
    print('wrapper', cs, seq[:8], '... final', str(w.format))
