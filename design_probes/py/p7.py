import sys
sys.path.insert(0,'/repo')
from oslo_utils import excutils
class E(Exception):
    def __init__(self, a): super().__init__(a)
orig = E('x')
try:
    try:
        raise orig
    except Exception:
        with excutils.save_and_reraise_exception() as ctxt:
            try:
                ctxt.force_reraise()
            except E as e:
                print('inner caught same?', e is orig)
except BaseException as e2:
    print('outer got', type(e2).__name__, e2, 'same?', e2 is orig)
class F(Exception): pass
orig = F('y')
try:
    try:
        raise orig
    except Exception:
        with excutils.save_and_reraise_exception() as ctxt:
            try:
                ctxt.force_reraise()
            except F as e:
                pass
except BaseException as e2:
    print('outer got', type(e2).__name__, repr(e2), 'same?', e2 is orig)
