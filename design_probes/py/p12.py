import sys, itertools, random, math, os, tempfile, hashlib
sys.path.insert(0,'/repo')
from fractions import Fraction
from oslo_utils import strutils, timeutils, fileutils
rnd = random.Random(11)
# ---- C10: exact for integer magnitudes when representable; exception class
bad=0
pre = {'IEC': ['K','Ki','M','Mi','G','Gi','T','Ti','P','Pi','E','Ei','Z','Zi','Y','Yi','R','Ri','Q','Qi',''], 'SI': ['k','M','G','T','P','E','Z','Y','R','Q',''], 'mixed': ['k','K','Ki','M','Mi','G','Gi','T','Ti','Q','Qi','ki','']}
for us, ps in pre.items():
    for p in ps:
        for unit in ['b','bit','B']:
            for mag in ['0','1','8','3','1000','123456789','0.5','.5','1.5','-2','+2','9007199254740993','0.1','1e3','1.','']:
                t = mag+p+unit
                try: r = strutils.string_to_bytes(t, us)
                except ValueError: r='VE'
                except Exception as e: r='EXC:'+type(e).__name__
                if isinstance(r,str) and r.startswith('EXC'):
                    bad+=1; print('C10 exc', t, us, r); continue
                okmag = mag not in ('1e3','1.','')
                if (r=='VE') != (not okmag): bad+=1; print('C10 accept?', t, us, r); continue
                if r=='VE': continue
                exp = {'': 0}.get(p, None)
                if exp is None: exp = 'KMGTPEZYRQ'.index(p[0].upper())+1
                base = 1024 if us=='IEC' else 1000 if us=='SI' else (1024 if p.endswith('i') else 1000)
                exact = Fraction(mag) * base**exp / (8 if unit!='B' else 1)
                if Fraction(r) != exact:
                    # acceptable only if inexact due to float rounding
                    rel = abs(Fraction(r)-exact)/abs(exact) if exact else 1
                    if rel > Fraction(1, 2**51): bad+=1; print('C10 val', t, us, r, float(exact))
                ri = strutils.string_to_bytes(t, us, return_int=True)
                if ri != math.ceil(r): bad+=1; print('C10 int', t, ri)
print('C10 mismatches', bad)
# ---- C13: StopWatch vs reference model, exhaustive len<=5
class Ref:
    def __init__(s, dur): s.st=None; s.a=None; s.b=None; s.sp=[]; s.d=dur
clock=[0]
def now():
    v = clock[0]; return float(v)
ops = ['start','stop','resume','restart','split','elapsed','leftover','expired']
def ref_step(r, op, t):
    # returns result or 'RE'
    if op=='start':
        if r.st=='S': return 'ok'
        r.a=t; r.b=None; r.st='S'; r.sp=[]; return 'ok'
    if op=='stop':
        if r.st=='T': return 'ok'
        if r.st!='S': return 'RE'
        r.b=t; r.st='T'; return 'ok'
    if op=='resume':
        if r.st=='T': r.st='S'; return 'ok'
        return 'RE'
    if op=='restart':
        if r.st=='S': r.b=t; r.st='T'
        r.a=t; r.b=None; r.st='S'; r.sp=[]; return 'ok'
    def el():
        if r.st=='T': return max(0.0, r.b-r.a)
        return max(0.0, t-r.a)
    if op=='elapsed':
        if r.st not in ('S','T'): return 'RE'
        return el()
    if op=='split':
        if r.st!='S': return 'RE'
        e=el(); l = max(0.0, e-r.sp[-1][0]) if r.sp else e
        r.sp.append((e,l)); return (e,l)
    if op=='leftover':
        if r.st!='S': return 'RE'
        if r.d is None: return 'RE'
        return max(0.0, r.d-el())
    if op=='expired':
        if r.st not in ('S','T'): return 'RE'
        if r.d is None: return False
        return el()>r.d
timeutils.now = now
bad=0; n=0
for dur in [None, 0, 3, 1000]:
    for L in range(1,6):
        for seq in itertools.product(ops, repeat=L):
            for pattern in ([1]*L, [0]*L, [5,-3,5,-3,5][:L]):
                w = timeutils.StopWatch(dur); r = Ref(dur); clock[0]=10
                for op, st in zip(seq, pattern):
                    clock[0]+=st
                    try:
                        x = getattr(w, op)()
                        if op in ('start','stop','resume','restart'): x='ok'
                        elif op=='split': x=(x.elapsed, x.length)
                    except RuntimeError: x='RE'
                    y = ref_step(r, op, float(clock[0]))
                    n+=1
                    if x!=y: bad+=1; print('SW', dur, seq, pattern, op, x, y); break
                if bad>5: break
print('StopWatch steps', n, 'mismatches', bad)
# ---- C20
d = tempfile.mkdtemp(dir='/var/tmp')
bad=0
for size in [0,1,2,7,63,64,65,128,129,4096,4097]:
    content = bytes(rnd.getrandbits(8) for _ in range(size))
    p = os.path.join(d,'f'); open(p,'wb').write(content)
    for cs in [1,2,7,64,4096,65536]:
        if size>300 and cs<7: continue
        for alg in ['sha256','md5']:
            if fileutils.compute_file_checksum(p, cs, alg) != hashlib.new(alg, content).hexdigest(): bad+=1; print('cksum', size, cs)
    for n in [0,1,size-1,size,size+1,10**9]:
        if n<0: continue
        r = fileutils.last_bytes(p, n)
        k=min(n,size)
        if r != (content[size-k:], size-k): bad+=1; print('last_bytes', size, n, r[1])
import shutil; shutil.rmtree(d)
print('C20 mismatches', bad)
