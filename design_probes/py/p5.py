import sys
sys.path.insert(0,'/repo')
from oslo_utils import netutils, strutils, versionutils, uuidutils
import netaddr
for a in ['1.2.3.4 junk', '1.2.3.4\tx', '1.2.3', '0x7f.1', '1.2.3.4.5', '256.1.1.1', '1.2.3.4/', '1..2']:
    print(repr(a), 'is_valid_ip', netutils.is_valid_ip(a))
for a in ['10.0.0.0/8','10.0.0.0/33','10.0.0.0/32','10.0.0.0/-1','10.0.0.0/','10.0.0.0','/8','10.0.0.0/255.0.0.0','10.0.0.0/0.0.0.255','10/8','::/0','::/128','::/129','1::/64','10.0.0.0/08','10.0.0.0/ 8','10.0.0.0/8 ', ' 10.0.0.0/8', '10.0.0.0/+8', '10.0.0.0/8\n', '1.2.3/24', '0x10.0.0.0/8', '::1%eth0/64', '10.0.0.1/8', '::ffff:1.2.3.4/96', '1.2.3.4/٨']:
    r=[]
    for fn in (netutils.is_valid_cidr, netutils.is_valid_ipv6_cidr):
        try: r.append(fn(a))
        except Exception as e: r.append('EXC '+type(e).__name__)
    print(repr(a), r)
print(netutils.get_ipv6_addr_by_EUI64('2001:db8::/64','00:16:3e:33:44:55'))
print(netutils.get_ipv6_addr_by_EUI64('2001:db8::1:2:3:4/64','00:16:3e:33:44:55'))
print(netutils.get_ipv6_addr_by_EUI64('2001:db8::1:2:3:4/96','00:16:3e:33:44:55'))
print(netutils.get_ipv6_addr_by_EUI64('2001:db8::','00:16:3e:33:44:55'))
for bad in [('1.2.3.4','00:16:3e:33:44:55'),('10','00:16:3e:33:44:55'),('zz','00:16:3e:33:44:55'),('2001:db8::/64','zz'),('2001:db8::/64','00:16:3e:33:44'), (5,'00:16:3e:33:44:55'), ('2001:db8::/64', 5), ('2001:db8::/64', None), ('1.2.3.0/24','00:16:3e:33:44:55')]:
    try: print(bad, netutils.get_ipv6_addr_by_EUI64(*bad))
    except Exception as e: print(bad, 'EXC', type(e).__name__, str(e)[:60])
ip = netutils.get_ipv6_addr_by_EUI64('fe80::/64','00:16:3e:33:44:55'); print(ip, netutils.get_mac_addr_by_ipv6(ip))
for a in ['server01:80','[::1]:80','[::1]','::1','[::1]:80:90','a:b:c','[::1]x:80',':80','host:','host:abc','[fe80::1%eth0]:80', '[]:80','[::1', 'a]b:80']:
    try: print(repr(a), netutils.parse_host_port(a, 1234))
    except Exception as e: print(repr(a), 'EXC', type(e).__name__, str(e)[:60])
print(versionutils.convert_version_to_int('1.2.3'), versionutils.convert_version_to_str(1002003), versionutils.convert_version_to_int('1.2.3rc1'), versionutils.convert_version_to_int((1,1000,5)), versionutils.convert_version_to_str(0), repr(versionutils.convert_version_to_int([1,2])))
for v in ['1.a','','1..2','1.-2','1. 2',' 1.2','1.2b','1_0.2','١.٢']:
    try: print(repr(v), versionutils.convert_version_to_int(v))
    except Exception as e: print(repr(v), 'EXC', type(e).__name__)
for u in ['{12345678-1234-5678-1234-567812345678}','urn:uuid:12345678-1234-5678-1234-567812345678','12345678123456781234567812345678','1234567812345678123456781234567','0x345678123456781234567812345678','+2345678123456781234567812345678','1234_678123456781234567812345678', ' 2345678123456781234567812345678', '12345678-1234-5678-1234-56781234567G', 'urn:urn:uuid:uuid:12345678123456781234567812345678', '{{12345678123456781234567812345678}}', '1-2-3-4-5-6-7-8-12345678123456781234567812345678'[16:], None, 5, b'12345678123456781234567812345678', '１2345678123456781234567812345678']:
    try: print(repr(u), uuidutils.is_uuid_like(u))
    except Exception as e: print(repr(u), 'EXC', type(e).__name__)
