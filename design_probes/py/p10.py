import sys, io, struct, random, uuid
sys.path.insert(0, '/tmp/probe/rc')
import logging; logging.disable(logging.CRITICAL)
from oslo_utils.imageutils import format_inspector as fi
def gb(s): return uuid.UUID(s).bytes_le
rnd = random.Random(int(sys.argv[1]) if len(sys.argv)>1 else 1)

def verdict_direct(cls, data, cuts):
    i = cls(); err=None; pos=0
    for c in cuts + [len(data)]:
        try: i.eat_chunk(data[pos:c])
        except Exception as e:
            err = type(e).__name__; break
        pos = c
    i.finish()
    def safe(f):
        try: return f()
        except Exception as e: return 'EXC:'+type(e).__name__
    def sc():
        try: i.safety_check(); return 'pass'
        except fi.SafetyCheckFailed as e: return 'fail:'+','.join(sorted(e.failures))
        except fi.ImageFormatError: return 'refused'
    if err:  # direct discipline: an exception voids the inspection
        return ('ERR', err)
    return (safe(lambda: i.format_match), safe(lambda: i.complete), safe(lambda: i.virtual_size), safe(sc))

def mk_vmdk():
    n = rnd.choice([64, 100, 511, 512, 513, 1024, 1535, 1536, 1598, 1599, 1600, 2048, 3000, 5000])
    b = bytearray(rnd.getrandbits(8) if rnd.random()<0.3 else 0 for _ in range(n))
    sig = b'KDMV' if rnd.random()<0.9 else b'KDMX'
    ver = rnd.choice([1,1,1,2,3,0,4])
    desc_sec = rnd.choice([1,1,1,1,0,2])
    desc_num = rnd.choice([0,1,1,2,3,2**40])
    gd = rnd.choice([0, 0, 0xffffffffffffffff, 0xffffffffffffffff, 5])
    hdr = struct.pack('<4sIIQQQQIQQ', sig, ver, 0, rnd.choice([0,1,2**32,2**55]), 128, desc_sec, desc_num, 512, 0, gd)
    b[0:len(hdr)] = hdr[:n]
    desc = rnd.choice([b'# Disk DescriptorFile\nversion=1\ncreateType="monolithicSparse"\nRW 1 SPARSE "a.vmdk"\n',
                       b'createType="streamOptimized"\nRW 1 SPARSE "a/b.vmdk"\n', b'createType="vmfs"\nRW 1 FLAT "x"\n', b'garbage line here\n', b'createType="monolithicSparse"\n', b'\xff\xfe', b'createtype="MonolithicSparse"\n\nddb.x = "1"\nRDONLY 5 SPARSE "q"\n'])
    if n > 512: b[512:512+len(desc)] = desc[:max(0,n-512)]
    if gd == 0xffffffffffffffff and n >= 1536 and rnd.random()<0.7:
        foot = bytearray(1536)
        foot[0:16] = struct.pack('<QII', 1, 0, 3)
        h2 = bytearray(hdr); 
        if rnd.random()<0.7: h2[56:64] = struct.pack('<Q', 7)
        foot[512:512+64] = h2
        if rnd.random()<0.2: foot[1024+8] = 1
        b[n-1536:n] = foot
    return bytes(b)

def mk_vhdx():
    meta_off = rnd.choice([256*1024, 256*1024+1, 300*1024, 256*1024+65536])
    nmeta = rnd.choice([1,1,2,5,0])
    esz = 32+nmeta*32
    item_off = rnd.choice([esz, esz+1, 65536, 70000, 100])
    ilen = rnd.choice([8,8,8,0,16])
    total = rnd.choice([meta_off+item_off+8, meta_off+item_off+7, meta_off+item_off+100, meta_off+10, 256*1024, 256*1024-1, meta_off+esz, meta_off+65536+10])
    b = bytearray(total)
    b[0:8] = b'vhdxfile' if rnd.random()<0.9 else b'vhdxfilX'
    hdr = 192*1024
    nreg = rnd.choice([1,2,3,0,2047,2048])
    if total >= hdr+16: b[hdr:hdr+16] = struct.pack('<IIII', 0x69676572 if rnd.random()<0.9 else 1, 0, nreg, 0)
    if nreg and nreg < 2048:
        e = hdr+16+(min(nreg,3)-1)*32
        if total >= e+32:
            b[e:e+16] = gb(fi.VHDXInspector.METAREGION)
            b[e+16:e+32] = struct.pack('<QII', meta_off, 1024*1024, 1)
    def put(off, data):
        if off < total:
            b[off:off+len(data)] = data[:total-off]
    put(meta_off, struct.pack('<8sHH', b'metadata', 0, nmeta))
    if nmeta:
        e = meta_off+32+(nmeta-1)*32
        put(e, gb(fi.VHDXInspector.VIRTUAL_DISK_SIZE) + struct.pack('<III', item_off, ilen, 0))
    put(meta_off+item_off, struct.pack('<Q', rnd.choice([0,1,2**63,12345])))
    return bytes(b[:total])

def cuts_for(n, bounds):
    kind = rnd.random()
    if kind < 0.2: return []
    if kind < 0.5:
        cs = rnd.choice([1,2,7,64,512,4096,65536]) if n < 5000 else rnd.choice([512,4096,65536, 100000])
        return list(range(cs, n, cs))
    pts = set()
    for b in rnd.sample(bounds, min(len(bounds), rnd.randint(1,3))):
        p = b + rnd.choice([-1,0,1])
        if 0 < p < n: pts.add(p)
    for _ in range(rnd.randint(0,3)):
        if n>1: pts.add(rnd.randint(1,n-1))
    out = sorted(pts)
    # empty chunks
    if out and rnd.random()<0.3: out.insert(rnd.randrange(len(out)), out[0])
    return sorted(out)

bad = 0
for it in range(int(sys.argv[2]) if len(sys.argv)>2 else 300):
    if rnd.random() < 0.6:
        cls, d = fi.VMDKInspector, mk_vmdk(); bounds=[4,64,512,1024, len(d)-1536, len(d)-1024, len(d)-512, 63, 576]
    else:
        cls, d = fi.VHDXInspector, mk_vhdx(); bounds=[32, 192*1024, 192*1024+16, 256*1024, 256*1024+32, 256*1024+64, 300*1024, len(d)-8, 256*1024+65536]
    bounds=[x for x in bounds if 0 < x < len(d)]
    ref = verdict_direct(cls, d, [])
    for k in range(4):
        cuts = cuts_for(len(d), bounds or [1])
        v = verdict_direct(cls, d, cuts)
        if v != ref:
            bad += 1
            print(cls.NAME, len(d), 'single:', ref, 'cuts', cuts[:6], len(cuts), '->', v, 'hdr', d[:4], struct.unpack('<Q', d[56:64]) if cls is fi.VMDKInspector else '')
            break
print('disagreements', bad)
