import sys, io, struct, random, tempfile, os
sys.path.insert(0, '/tmp/probe/rc')
import logging; logging.disable(logging.CRITICAL)
from oslo_utils.imageutils import format_inspector as fi
rnd = random.Random(int(sys.argv[1]))
SIG = {
 'qcow2': lambda b: b.__setitem__(slice(0,4), b'QFI\xfb'),
 'qed': lambda b: b.__setitem__(slice(0,4), b'QED\x00'),
 'vhd': lambda b: b.__setitem__(slice(0,8), b'conectix'),
 'vhdx': lambda b: b.__setitem__(slice(0,8), b'vhdxfile'),
 'vmdk': lambda b: b.__setitem__(slice(0,4), b'KDMV'),
 'vdi': lambda b: b.__setitem__(slice(0x40,0x44), struct.pack('<I', 0xbeda107f)),
 'iso': lambda b: b.__setitem__(slice(32769,32774), b'CD001'),
 'gpt': lambda b: b.__setitem__(slice(510,512), b'\x55\xaa'),
 'luks': lambda b: b.__setitem__(slice(0,6), b'LUKS\xba\xbe'),
 'fat': lambda b: (b.__setitem__(slice(510,512), b'\x55\xaa'), b.__setitem__(0x10, 2), b.__setitem__(0x15, 0xF8)),
}
def sig_present(name, b):
    n=len(b)
    return {'qcow2': n>=512 and b[:4]==b'QFI\xfb', 'qed': n>=512 and b[:4]==b'QED\x00', 'vhd': b[:8]==b'conectix', 'vhdx': b[:8]==b'vhdxfile',
            'vmdk': True, 'vdi': n>=512 and b[0x40:0x44]==struct.pack('<I',0xbeda107f), 'iso': n>=34816 and b[32769:32774] in (b'CD001',b'NSR02',b'NSR03'),
            'gpt': n>=512 and b[510:512]==b'\x55\xaa' and not (b[0x10]==2 and b[0x15]==0xF8), 'luks': b[:6]==b'LUKS\xba\xbe'}[name]
viol=0
for it in range(int(sys.argv[2])):
    n = rnd.choice([3,4,63,64,65,511,512,513,591,592,593,4096,32768,34815,34816,34817,40000,262144,262145,300000])
    bg = rnd.choice(['zero','rand','text'])
    b = bytearray(n) if bg=='zero' else bytearray(rnd.getrandbits(8) for _ in range(n)) if bg=='rand' else bytearray((b'hello world text\n'*(n//17+1))[:n])
    if bg=='text' and rnd.random()<0.3 and n>600: b[rnd.randrange(n)] = 0xff
    chosen = rnd.sample(list(SIG), rnd.choice([0,1,1,2,2,3]))
    for c in chosen:
        try: SIG[c](b)
        except Exception: pass
    b = bytes(b[:n])
    allowed = rnd.choice([None, None, ['raw','qcow2'], ['qcow2','vmdk','gpt'], ['iso','gpt','raw'], list(fi.ALL_FORMATS)])
    rs = rnd.choice([1 if n<2000 else 4096, 17, 512, 4096, 65536, 1<<20])
    w = fi.InspectWrapper(io.BytesIO(b), allowed_formats=allowed)
    decided=None
    def q():
        try:
            f = w.format
            return ('ok', None if f is None else str(f))
        except fi.ImageFormatError: return ('IFE', None)
        except Exception as e: return ('EXC', type(e).__name__)
    ok=True
    while True:
        c = w.read(rs)
        if not c: break
        r = q()
        if r[0]=='EXC': viol+=1; print('non-IFE', r, n, bg, chosen, allowed, rs); ok=False; break
        if decided is not None and r != decided: viol+=1; print('revised', decided, '->', r, n, bg, chosen, allowed, rs); ok=False; break
        if r != ('ok', None): decided = r
    if not ok: continue
    w.close()
    r = q()
    if r[0]=='EXC': viol+=1; print('non-IFE final', r, n, bg, chosen); continue
    if decided is not None and r != decided: viol+=1; print('revised at close', decided, '->', r, n, bg, chosen, allowed, rs)
    try: fl = w.formats
    except fi.ImageFormatError: fl = 'IFE'
    if r[0]=='ok' and r[1] not in (None,'raw'):
        if not sig_present(r[1], b): viol+=1; print('no signature', r, n, chosen)
        if allowed and r[1] not in allowed: viol+=1; print('outside allowed', r, allowed)
    if r == ('ok','raw') and allowed and 'raw' not in allowed: viol+=1; print('raw not allowed', allowed)
    if fl != 'IFE' and fl is not None:
        names = [str(x) for x in fl]
        if 'raw' in names and len(names)>1: viol+=1; print('raw with others', names)
        if len(names)>1 and r[0]!='IFE': viol+=1; print('multi without error', names, r)
print('violations', viol)
