import sys, io, struct
which = sys.argv[1]
sys.path.insert(0, which)
import logging; logging.disable(logging.CRITICAL)
from oslo_utils.imageutils import format_inspector as fi
print(fi.__file__)
import uuid
def gb(s): return uuid.UUID(s).bytes_le
def mk(total=400*1024, meta_off=256*1024, sig=b'metadata'):
    b = bytearray(total)
    b[0:8] = b'vhdxfile'
    hdr = 192*1024
    b[hdr:hdr+16] = struct.pack('<IIII', 0x69676572, 0, 1, 0)
    e = hdr+16
    b[e:e+16] = gb(fi.VHDXInspector.METAREGION)
    b[e+16:e+32] = struct.pack('<QII', meta_off, 1024*1024, 1)
    b[meta_off:meta_off+12] = struct.pack('<8sHH', sig, 0, 1)
    e = meta_off+32
    b[e:e+16] = gb(fi.VHDXInspector.VIRTUAL_DISK_SIZE)
    b[e+16:e+28] = struct.pack('<III', 65536, 8, 0)
    b[meta_off+65536:meta_off+65536+8] = struct.pack('<Q', 12345)
    return bytes(b)
d = mk(sig=b'metaXata')
for cs in [len(d), 65536, 4096, 16]:
    w = fi.InspectWrapper(io.BytesIO(d))
    while w.read(cs): pass
    w.close()
    f = w.format
    try:
        f.safety_check(); s='pass'
    except fi.SafetyCheckFailed: s='fail'
    except fi.ImageFormatError: s='refused'
    print(cs, str(f), f.complete, s, f.context_info)
