import sys
sys.path.insert(0,'/repo')
from oslo_utils import specs_matcher as sm
g = sm.make_grammar()
import pyparsing
for spec in ['>= 5','>=5','> = 5','=5','== 5 junk','<or> a <or> b','<or>a<or>b','<or> a b','<or> a <or>','<all-in> a b c','<range-in> [ 1 2 ]','<range-in> [ 1 2','s<= abc','s< abc','s<=abc','sabc','<', '< 5 6', 'abc def', '  abc', '<in>', '<in> x y', '5 >=', '!= 3', '! = 3', '<=  7', '\t>=\n7', '<or>', '=', '== ==', '<or> <or>', 's== <in>', '<in> s==', '>= <5']:
    try:
        t = list(g.parseString(spec))
    except pyparsing.ParseException as e:
        t = 'PARSEFAIL'
    print(repr(spec), '->', t)
for v,s in [('5','>= 5'),('5','= 4'),('abc','s<= abc'),('abc','<in> b'),("['a','b']",'<all-in> a b'),('x','<or> x <or> y'),('1.5','<range-in> ( 1 2 ]'),('1e1','== 10'),('0x10','== 16'),('nan','!= nan'),('5','5'),('5',' 5'),('inf','> 1e308'),('1_0','== 10'),(' 10 ','== 10'), ('abc','>= 5')]:
    try: print(v, '|', s, '->', sm.match(v,s))
    except Exception as e: print(v,'|',s,'EXC',type(e).__name__)
