import sys, itertools, random
sys.path.insert(0,'/repo')
from oslo_utils import strutils, versionutils, netutils, uuidutils
import netaddr
rnd = random.Random(7)
# ---- C19 split_path vs declarative reading
def spec_split_path(path, minsegs=1, maxsegs=None, rest=False):
    if not maxsegs: maxsegs = minsegs
    if minsegs > maxsegs: return 'VE'
    if not path.startswith('/'): return 'VE'
    body = path[1:]
    parts = body.split('/')
    if rest:
        # first maxsegs-1 segments separately; the remainder stays in last
        segs = body.split('/', maxsegs-1) if maxsegs >= 1 else None
        # impl: path.split('/', maxsegs) -> leading '' + up to maxsegs pieces
        segs = path.split('/', maxsegs)[1:]
        n = len(segs)
        if n < minsegs or n > maxsegs: return 'VE'
        if '' in segs[:minsegs]: return 'VE'
        return segs + [None]*(maxsegs-n)
    else:
        # single trailing slash tolerated only when there are exactly maxsegs segments before it?
        n = len(parts)
        if n == maxsegs + 1 and parts[-1] == '': parts = parts[:-1]; n -= 1
        if n < minsegs or n > maxsegs: return 'VE'
        if '' in parts[:minsegs]: return 'VE'
        return parts + [None]*(maxsegs-n)
bad=0
segs_alpha = ['a','','b.c','d e']
for nseg in range(0,7):
    for segs in itertools.product(segs_alpha, repeat=nseg):
        for lead in ['/','']:
            for trail in ['','/']:
                path = lead + '/'.join(segs) + trail
                for mn in range(1,5):
                    for mx in [None,0]+list(range(max(0,mn-1), mn+3)):
                        for rest in (False, True):
                            try: r = strutils.split_path(path, mn, mx, rest)
                            except ValueError: r='VE'
                            except Exception as e: r='EXC '+type(e).__name__
                            s = spec_split_path(path, mn, mx, rest)
                            if r != s:
                                bad+=1
                                if bad<=12: print('split_path', repr(path), mn, mx, rest, 'impl', r, 'spec', s)
print('split_path mismatches', bad)
# ---- C17 roundtrip/order
bad=0
vals=[0,1,9,10,99,100,999]
for L in range(1,6):
    for _ in range(400):
        t = tuple(rnd.choice(vals+[rnd.randint(0,999)]) for _ in range(L))
        if t[0]==0: continue
        s = '.'.join(map(str,t))
        i = versionutils.convert_version_to_int(s)
        if versionutils.convert_version_to_str(i) != s: bad+=1; print('rt', s, i, versionutils.convert_version_to_str(i))
        u = tuple(rnd.choice(vals) for _ in range(L))
        if (versionutils.convert_version_to_int(u) < i) != (u < t): bad+=1; print('ord', t, u)
print('C17 mismatches', bad)
# ---- C14 is_int_like
bad=0
for s in ['0','-0','+1','1','-1','01','1 ',' 1','1_0','١','1.0','','-','--1','1e3','0x1','10','-10','007', 1, -1, 0, True, 1.0, None, '१', b'1']:
    r = strutils.is_int_like(s)
    canon = isinstance(s,(str,int)) and not isinstance(s,bool) and (lambda x: x.lstrip('-').isascii() and x.lstrip('-').isdigit() and (x=='0' or (x[0]=='-' and len(x)>1 and x[1]!='0') or (x[0] not in '-0')) and x.count('-')<=1 and '-' not in x[1:])(str(s))
    if r != canon: print('is_int_like', repr(s), r, canon)
print([ (repr(x), strutils.is_int_like(x)) for x in [True, 1.0, '-0', b'1']])
# ---- C15 EUI64 roundtrip
bad=0
for _ in range(3000):
    mac = rnd.choice([0, 2**48-1, 2**41, 2**40, 2**47, 0x020000000000, 0xfffffe000000, rnd.getrandbits(48)])
    macs = ':'.join('%02x' % ((mac >> (8*i)) & 0xff) for i in reversed(range(6)))
    plen = rnd.choice([64,64,64,48,56,0,10])
    pfx = netaddr.IPAddress(rnd.getrandbits(128) & ~((1<<(128-plen))-1) if rnd.random()<0.5 else rnd.getrandbits(128), 6)
    try:
        ip = netutils.get_ipv6_addr_by_EUI64('%s/%d' % (pfx, plen), macs)
    except Exception as e:
        print('EUI EXC', pfx, plen, macs, e); bad+=1; continue
    back = netutils.get_mac_addr_by_ipv6(ip)
    if int(back) != mac: bad+=1; print('EUI rt', pfx, plen, macs, ip, back)
    net = netaddr.IPNetwork('%s/%d' % (pfx, plen))
    exp = net.first | (((mac >> 24) << 40 | 0xfffe << 24 | (mac & 0xffffff)) ^ (1<<57))
    if int(ip) != exp: bad+=1; print('EUI val', pfx, plen, macs, ip, netaddr.IPAddress(exp))
print('EUI mismatches', bad)
# ---- C16 slug
import string
bad=0
for _ in range(5000):
    s = ''.join(rnd.choice(string.printable + 'éßÅİKſ½ﬁ́　\x85\xa0\x1c😀') for _ in range(rnd.randint(0,12)))
    a = strutils.to_slug(s)
    if strutils.to_slug(a) != a or any(c not in 'abcdefghijklmnopqrstuvwxyz0123456789_-' for c in a) or '--' in a:
        bad+=1; print('slug', repr(s), repr(a), repr(strutils.to_slug(a)))
print('slug mismatches', bad)
