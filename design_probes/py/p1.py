import sys
sys.path.insert(0,'/repo')
from oslo_utils import strutils
mp = strutils.mask_password
tests = [
 "password=ab^cd",
 "{'password': 'abc', 'user': 'bob'}",
 "{'adminPass': 'TL0EfN33', 'foo': 'bar'}",
 '{"password": "abc", "user": "bob"}',
 "'password': 'abc'def'",
 "password = 'abc' and name = 'bob'",
 "<password>a<b</password>",
 "--password abc=def",
 "token=password=x",
 "paſſword=abc password=x",
 "PASSWORD=abc",
 "password2=abc",
 "test = 'password': 'abc', 'x': 'y', 'z': 'w'",
]
for t in tests:
    print(repr(t), '->', repr(mp(t)))
for t in ['1kib','1Kib','1kb','1Kb', '1KiB', '1ib']:
    for us in ['mixed','IEC','SI']:
        try:
            print(t, us, strutils.string_to_bytes(t, us))
        except Exception as e:
            print(t, us, type(e).__name__, e)
