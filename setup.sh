#!/bin/bash
# setup_cmd: regenerate Gen/ from /repo, full Coq build, extract + build every model driver. Offline.
cd "$(dirname "$0")"
export VERIF_REPO="${VERIF_REPO:-/repo}"
export PYTHONHASHSEED=0 PYTHONDONTWRITEBYTECODE=1 PYTHONPATH="$VERIF_REPO"
exec /venv/bin/python tools/setup_all.py
