From Coq Require Import String.
Require Import OV.Base.Bytes OV.Base.Py OV.Base.IO OV.Base.C06_WrapShape.
Require Import OV.Gen.C06_Wrapper OV.Model.Wrap OV.Model.C06.
From Coq Require Extraction ExtrOcamlBasic.

(* [run] is defined in Model/C06.v *)
Extraction "model.ml" run.
