(* Extract/C20_x.v — correspondence driver for C20.

   args: op, op arguments..., then the initial world as triples (kind, path, content)
   with kind "D" / "F".  Output: the outcome, and for the world-changing helpers the
   final world ("|"-separated entries kind:path:hexcontent, then the number of open
   descriptors).  The *_inj operations run the helper over a scripted runtime whose
   makedirs / remove returns the injected outcome (fault injection). *)
From Coq Require Import String.
Require Import OV.Base.Bytes OV.Base.Py OV.Base.PyInt OV.Base.Str OV.Base.IO.
Require Import OV.Gen.C20_Consts OV.Model.C20_OS OV.Model.C20 OV.Model.C20_FS.
From Coq Require Extraction ExtrOcamlBasic.
Open Scope Z_scope.

Fixpoint build_nodes (args : list bytes) (fuel : nat) : list (fskey * node) :=
  match fuel with
  | O => []
  | S k =>
      match args with
      | kind :: path :: content :: rest =>
          (fs_key path, if is_op "D" kind then NDir else NFile content) :: build_nodes rest k
      | _ => []
      end
  end.
Definition build_world (args : list bytes) : fsw := mk_fsw (build_nodes args (length args)) [] 3.

Definition hex_digit (n : N) : N := (if n <? 10 then 48 + n else 87 + n)%N.
Definition hex_of (b : bytes) : bytes := flat_map (fun c => [hex_digit (c / 16)%N; hex_digit (c mod 16)%N]) b.

Definition out_node (kn : fskey * node) : bytes :=
  match snd kn with
  | NDir => lit "D:" ++ join [47%N] (fst kn) ++ lit ":"
  | NFile c => lit "F:" ++ join [47%N] (fst kn) ++ lit ":" ++ hex_of c
  end.
Definition out_world (w : fsw) : bytes :=
  join bar (map out_node (fs_nodes w)) ++ lit " fds=" ++ out_Z (Z.of_nat (length (fs_fds w))).

Definition out_ores {A} (f : A -> bytes) (r : ores A) : bytes :=
  match r with
  | OOk a => lit "OK:" ++ f a
  | OErr e => lit "OSERR:" ++ out_Z (os_errno e) ++ lit ":" ++ os_class e
  | OExn x => out_exn x
  end.
Definition out_unit (_ : unit) : bytes := [].

Definition out_again (r2 : ores unit) (w w2 : fsw) : bytes :=
  lit " AGAIN=" ++ out_ores out_unit r2 ++ lit "," ++ (if beq (out_world w) (out_world w2) then lit "same" else lit "changed").

(* -1: the call succeeds; -2: it raises ValueError; otherwise an OSError instance with that errno:
   of the given class, or (no class given) of the class CPython derives from the errno *)
Definition inj_of (z : Z) (cls : bytes) : ores unit :=
  if z =? -1 then OOk tt else if z <? 0 then OExn ValueError
  else match cls with [] => OErr (std_oserror z) | _ => OErr (mk_oserror cls z) end.
(* per-call limit of write: 0 = the kernel's (MAX_RW_COUNT), otherwise the injected short-write limit *)
Definition write_limit (a : bytes) : Z := let z := arg_Z a in if z <=? 0 then max_rw_count else z.

(* ---------- operation sequences on one file-system state ----------
   "seq" n  <n world triples>  <steps of six arguments: kind a1 a2 a3 a4 a5>
   Helper steps (paths relative to the current directory): wtt content haspath path suffix prefix |
   ens path | del path | last path num | sum path chunk alg.
   Harness-side steps (paths relative to the sandbox root; they are what the harness does to the
   real tree between two calls, not part of the modelled code): rmtree p | mkdir p (make p a
   directory whatever is in the way) | put p content (make p a regular file with this content
   whatever is there) | chdir p (if p is a directory). *)
Fixpoint key_prefixb (a b : fskey) : bool :=
  match a, b with
  | [], _ => true
  | x :: a', y :: b' => beq x y && key_prefixb a' b'
  | _ :: _, [] => false
  end.
Definition set_nodes (w : fsw) (nodes : list (fskey * node)) : fsw := mk_fsw nodes (fs_fds w) (fs_next_fd w).
Definition rm_subtree (k : fskey) (w : fsw) : fsw :=
  set_nodes w (filter (fun kn => negb (key_prefixb k (fst kn))) (fs_nodes w)).
Definition is_file_node (n : node) : bool := match n with NFile _ => true | NDir => false end.
Definition force_dir (k : fskey) (w : fsw) : fsw :=
  match k with
  | [] => w
  | _ =>
    let pp := proper_prefixes k ++ [k] in
    let kept := filter (fun kn => negb (existsb (key_eqb (fst kn)) pp && is_file_node (snd kn))) (fs_nodes w) in
    set_nodes w (add_dirs pp kept)
  end.
Definition put_file (k : fskey) (c : bytes) (w : fsw) : fsw :=
  let w1 := rm_subtree k (force_dir (removelast k) w) in
  set_nodes w1 ((k, NFile c) :: fs_nodes w1).
Definition join_cwd (cwd p : bytes) : bytes := match cwd with [] => p | _ => cwd ++ [47%N] ++ p end.

Definition seq_step (kind a1 a2 a3 a4 a5 : bytes) (w : fsw) (cwd : bytes) : fsw * bytes * bytes :=
  if is_op "wtt" kind then
    let path := if arg_bool a2 then Some (join_cwd cwd a3) else None in
    let '(w1, r) := write_to_tempfile fs_runtime a1 path a4 a5 w in
    (w1, cwd, out_ores (fun p => p) r)
  else if is_op "ens" kind then
    let '(w1, r) := ensure_tree fs_runtime (join_cwd cwd a1) default_mode w in (w1, cwd, out_ores out_unit r)
  else if is_op "del" kind then
    let '(w1, r) := delete_if_exists (join_cwd cwd a1) (rt_unlink fs_runtime) w in (w1, cwd, out_ores out_unit r)
  else if is_op "last" kind then
    (w, cwd, out_ores (fun du => out_Z (snd du) ++ lit ":" ++ hex_of (fst du)) (last_bytes fs_runtime (join_cwd cwd a1) (arg_Z a2) w))
  else if is_op "sum" kind then
    (w, cwd, match compute_file_checksum fs_runtime (join_cwd cwd a1) (arg_Z a2) a3 w with
             | Some r => out_ores (fun _ => []) r
             | None => lit "OUT-OF-FUEL"
             end)
  else if is_op "rmtree" kind then (rm_subtree (fs_key a1) w, cwd, lit "-")
  else if is_op "mkdir" kind then (force_dir (fs_key a1) w, cwd, lit "-")
  else if is_op "put" kind then (put_file (fs_key a1) a2 w, cwd, lit "-")
  else if is_op "chdir" kind then
    (w, (if fs_isdir a1 w then a1 else cwd), lit "-")
  else (w, cwd, lit "BADSTEP").

Fixpoint run_steps (args : list bytes) (w : fsw) (cwd : bytes) : bytes :=
  match args with
  | kind :: a1 :: a2 :: a3 :: a4 :: a5 :: rest =>
      let '(w1, cwd1, out) := seq_step kind a1 a2 a3 a4 a5 w cwd in
      out ++ lit ";;" ++ run_steps rest w1 cwd1
  | _ => lit " " ++ out_world w
  end.

Definition run_seq (args : list bytes) : bytes :=
  let n := (3 * arg_nat (nth_arg args 1))%nat in
  run_steps (skipn (2 + n) args) (build_world (firstn n (skipn 2 args))) [].

Definition run (args : list bytes) : bytes :=
  let op := nth_arg args 0 in
  if is_op "ensure_tree" op then
    let '(w, r) := ensure_tree fs_runtime (nth_arg args 1) (arg_Z (nth_arg args 2)) (build_world (skipn 3 args)) in
    let '(w2, r2) := ensure_tree fs_runtime (nth_arg args 1) (arg_Z (nth_arg args 2)) w in
    out_ores out_unit r ++ lit " " ++ out_world w ++ out_again r2 w w2
  else if is_op "ensure_tree_inj" op then
    let '(_, r) := ensure_tree (script_rt (inj_of (arg_Z (nth_arg args 1)) (nth_arg args 3)) (arg_bool (nth_arg args 2))) (lit "p") default_mode tt in
    out_ores out_unit r
  else if is_op "delete_if_exists" op then
    let '(w, r) := delete_if_exists (nth_arg args 1) (rt_unlink fs_runtime) (build_world (skipn 2 args)) in
    let '(w2, r2) := delete_if_exists (nth_arg args 1) (rt_unlink fs_runtime) w in
    out_ores out_unit r ++ lit " " ++ out_world w ++ out_again r2 w w2
  else if is_op "delete_inj" op then
    let rt := script_rt (inj_of (arg_Z (nth_arg args 1)) (nth_arg args 2)) false in
    let '(_, r) := delete_if_exists (lit "p") (rt_unlink rt) tt in
    out_ores out_unit r
  else if is_op "write_to_tempfile" op then
    let path := if arg_bool (nth_arg args 2) then Some (nth_arg args 3) else None in
    let '(w, r) := write_to_tempfile (fs_runtime_lim (write_limit (nth_arg args 6))) (nth_arg args 1) path (nth_arg args 4) (nth_arg args 5) (build_world (skipn 7 args)) in
    out_ores (fun p => p) r ++ lit " " ++ out_world w
  else if is_op "write_to_tempfile_defaults" op then
    let path := if arg_bool (nth_arg args 2) then Some (nth_arg args 3) else None in
    let '(w, r) := write_to_tempfile (fs_runtime_lim (write_limit (nth_arg args 4))) (nth_arg args 1) path default_suffix default_prefix (build_world (skipn 5 args)) in
    out_ores (fun p => p) r ++ lit " " ++ out_world w
  else if is_op "checksum_default" op then
    match compute_file_checksum rec_runtime (nth_arg args 1) default_read_chunksize default_algorithm (build_world (skipn 2 args)) with
    | Some r => out_ores (fun d => d) r
    | None => lit "OUT-OF-FUEL"
    end
  else if is_op "checksum_default_chunk" op then
    match compute_file_checksum rec_runtime (nth_arg args 1) default_read_chunksize (nth_arg args 2) (build_world (skipn 3 args)) with
    | Some r => out_ores (fun d => d) r
    | None => lit "OUT-OF-FUEL"
    end
  else if is_op "checksum" op then
    match compute_file_checksum rec_runtime (nth_arg args 1) (arg_Z (nth_arg args 2)) (nth_arg args 3) (build_world (skipn 4 args)) with
    | Some r => out_ores (fun d => d) r
    | None => lit "OUT-OF-FUEL"
    end
  else if is_op "seq" op then run_seq args
  else if is_op "last_bytes" op then
    out_ores (fun du => out_Z (snd du) ++ lit ":" ++ fst du)
      (last_bytes fs_runtime (nth_arg args 1) (arg_Z (nth_arg args 2)) (build_world (skipn 3 args)))
  else lit "BADOP".
Extraction "model.ml" run.
