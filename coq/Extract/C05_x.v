(* Extract/C05_x.v — driver for property C05 (what context_info reports after every call).
   mem <fmt> <data> <sizes> <cont> <fin_at> :
     cut <data> into chunks of the given sizes (rest, if any, is one more chunk; 0 = empty chunk); call eat_chunk on
     each; before chunk number <fin_at> (0-based) call finish(); when <fin_at> >= number of chunks call finish() at the end.
     <cont> = 0: stop feeding at the first exception (InspectWrapper); 1: go on feeding the same object.
     One record after every call:   exn;name:length:len(data),...;sum(context_info.values())
     (exn = class name, '-' for none, 'F' for the finish() call), records joined by '|'.
   memc <fmt> <n> <block> <offs> <lens> <pbytes> <sizes> <cont> <fin_at> :
     the same on a stream given compactly: <block> repeated up to length <n>, then the patches (offset offs[j], the next lens[j]
     bytes of <pbytes>), clipped to the stream, applied in order (multi-MiB streams without shipping them). *)
From Coq Require Import String.
Require Import OV.Base.Bytes OV.Base.Py OV.Base.PyInt OV.Base.Str OV.Base.IO OV.Base.Insp_Struct.
Require Import OV.Gen.Insp_Consts OV.Model.Insp_Engine OV.Model.Insp_All OV.Model.C05.
From Coq Require Extraction ExtrOcamlBasic.
Open Scope N_scope.

Definition parse_fmt (b : bytes) : option fmt_id := List.find (fun f => beq (fmt_name f) b) all_formats.

(* one pass per chunk (thousands of 512-byte chunks of a multi-MiB stream) *)
Fixpoint take_rev (n : nat) (b acc : bytes) : bytes * bytes :=
  match n, b with
  | S n', x :: t => take_rev n' t (x :: acc)
  | _, _ => (rev' acc, b)
  end.
Fixpoint split_sizes (data : bytes) (sizes : list N) : list bytes :=
  match sizes with
  | [] => match data with [] => [] | _ => [data] end
  | n :: t => let '(c, rest) := take_rev (N.to_nat n) data [] in c :: split_sizes rest t
  end.

Definition out_region (p : rname * region) : bytes :=
  rname_str (fst p) ++ [58] ++ out_N (r_len (snd p)) ++ [58] ++ out_N (flen (r_data (snd p))).

Definition record (tag : bytes) (i : istate) : bytes :=
  tag ++ [59] ++ join [44] (map out_region (regions_of i)) ++ [59] ++ out_N (total (context_info i)).

Definition tag_of (e : option exn) : bytes := match e with Some x => exn_name x | None => [45] end.

(* k = index of the next chunk *)
Fixpoint feed (cont : bool) (fin_at : N) (k : N) (i : istate) (cs : list bytes) (acc : list bytes) : istate * list bytes :=
  match cs with
  | [] => (i, acc)
  | c :: t =>
    let '(i0, acc0) := if k =? fin_at then (let j := finish i in (j, record [70] j :: acc)) else (i, acc) in
    let '(i', e) := eat i0 c in
    let acc' := record (tag_of e) i' :: acc0 in
    match e with
    | Some _ => if cont then feed cont fin_at (k + 1) i' t acc' else (i', acc')
    | None => feed cont fin_at (k + 1) i' t acc'
    end
  end.

(* background: the block repeated, cut to n bytes *)
Fixpoint rep_app (k : nat) (blk acc : bytes) : bytes :=
  match k with O => acc | S k' => rep_app k' blk (blk ++ acc) end.
Definition background (n : N) (blk : bytes) : bytes :=
  match blk with
  | [] => []
  | _ => ntake n (rep_app (N.to_nat (n / flen blk + 1)) blk [])
  end.
Definition patch (off : N) (v : bytes) (b : bytes) : bytes :=
  if off <? flen b then
    let v' := ntake (flen b - off) v in ntake off b ++ v' ++ nskip (off + flen v') b
  else b.
Fixpoint patches (offs lens : list N) (pb : bytes) (b : bytes) : bytes :=
  match offs, lens with
  | o :: ot, l :: lt => patches ot lt (nskip l pb) (patch o (ntake l pb) b)
  | _, _ => b
  end.

Definition go (f : fmt_id) (data : bytes) (sizes : list N) (a_cont a_fin : bytes) : bytes :=
  let cs := split_sizes data sizes in
  let cont := negb (Z.eqb (arg_Z a_cont) 0) in
  let fin_at := Z.to_N (arg_Z a_fin) in
  let '(i, acc) := feed cont fin_at 0 (init f) cs [] in
  let acc1 := if N.of_nat (length cs) <=? fin_at then record [70] (finish i) :: acc else acc in
  join [124] (rev acc1).

Definition run (args : list bytes) : bytes :=
  let op := nth_arg args 0 in
  if is_op "mem" op then
    match parse_fmt (nth_arg args 1) with
    | None => lit "BADFMT"
    | Some f => go f (nth_arg args 2) (nth_arg args 3) (nth_arg args 4) (nth_arg args 5)
    end
  else if is_op "memc" op then
    match parse_fmt (nth_arg args 1) with
    | None => lit "BADFMT"
    | Some f =>
      let n := Z.to_N (arg_Z (nth_arg args 2)) in
      let data := patches (nth_arg args 4) (nth_arg args 5) (nth_arg args 6) (background n (nth_arg args 3)) in
      go f data (nth_arg args 7) (nth_arg args 8) (nth_arg args 9)
    end
  else lit "BADOP".
Extraction "model.ml" run.
