From Coq Require Import String.
Require Import OV.Base.Bytes OV.Base.Py OV.Base.PyInt OV.Base.Str OV.Base.IO OV.Base.C13_Types.
Require Import OV.Gen.C13_StopWatch OV.Model.C13.
From Coq Require Extraction ExtrOcamlBasic.
Open Scope Z_scope.

(* args: mode ("run" = every call, "last" = only the last call), durations (comma separated "N" | "D" = default | int),
   ops (comma separated tokens), then one or more clocks (comma separated readings).
   Output: per clock the calls joined by "|", clocks joined by "#"; a call is
   result;ticks;state,started,stopped,splits,duration *)

Definition opt_Z (b : bytes) : option Z := if is_op "N" b then None else Some (arg_Z b).

Definition parse_op (tok : bytes) : option op :=
  let parts := split_char 58%N tok in
  let name := nth_arg parts 0 in
  let arg := nth_arg parts 1 in
  let has_arg := Nat.ltb 1 (List.length parts) in
  if is_op "st" name then Some OStart
  else if is_op "sp" name then Some OStop
  else if is_op "rs" name then Some OResume
  else if is_op "rt" name then Some ORestart
  else if is_op "sl" name then Some OSplit
  else if is_op "el" name then Some (OElapsed (if has_arg then opt_Z arg else gen_elapsed_default_maximum))
  else if is_op "lo" name then Some (OLeftover (if has_arg then arg_bool arg else gen_leftover_default_return_none))
  else if is_op "ex" name then Some OExpired
  else if is_op "hs" name then Some OHasStarted
  else if is_op "hp" name then Some OHasStopped
  else if is_op "ss" name then Some OSplits
  else if is_op "en" name then Some OEnter
  else if is_op "xt" name then Some (OExit has_arg)     (* direct call: xt = (None, None, None), xt:V / xt:B = a real triple *)
  else if is_op "wx" name then Some (OExit has_arg)     (* the __exit__ of a real with block: wx / wx:V / wx:B *)
  else None.

Fixpoint parse_ops (toks : list bytes) : option (list op) :=
  match toks with
  | [] => Some []
  | t :: r => match parse_op t, parse_ops r with Some o, Some l => Some (o :: l) | _, _ => None end
  end.

Definition out_split (s : split) : bytes :=
  lit "S(" ++ out_Z (sp_elapsed s) ++ [44%N] ++ out_Z (sp_length s) ++ lit ")".
Definition out_splits (l : list split) : bytes := lit "[" ++ List.concat (map out_split l) ++ lit "]".
Definition out_value (v : value) : bytes :=
  match v with
  | VSelf => lit "self"
  | VNone => lit "None"
  | VNum z => out_Z z
  | VBool b => out_bool b
  | VSplit s => out_split s
  | VSplits l => out_splits l
  end.
Definition out_state (s : wstate) : bytes :=
  match s with SNone => lit "N" | SStarted => lit "R" | SStopped => lit "P" end.
Definition out_watch (w : watch) : bytes :=
  out_state (w_state w) ++ [44%N] ++ out_opt out_Z (w_started w) ++ [44%N] ++ out_opt out_Z (w_stopped w)
  ++ [44%N] ++ out_splits (w_splits w) ++ [44%N] ++ out_opt out_Z (w_duration w).

(* a with block whose body raised: __exit__ returned a false value (None), so the harness sees the
   body's exception propagate: PROP:<kind> *)
Definition with_exit_kind (tok : bytes) : option bytes :=
  let parts := split_char 58%N tok in
  if is_op "wx" (nth_arg parts 0) && Nat.ltb 1 (List.length parts) then Some (nth_arg parts 1) else None.

Definition out_call (t0 : nat) (tok : bytes) (c : cfg * res value) : bytes :=
  let '((w, t), r) := c in
  (match r, with_exit_kind tok with
   | Ok VNone, Some k => lit "PROP:" ++ k
   | _, _ => out_res out_value r
   end) ++ [59%N] ++ out_Z (Z.of_nat (t - t0)) ++ [59%N] ++ out_watch w.

Fixpoint out_calls (t0 : nat) (toks : list bytes) (l : list (cfg * res value)) : list bytes :=
  match l with
  | [] => []
  | c :: r => out_call t0 (hd [] toks) c :: out_calls (snd (fst c)) (tl toks) r
  end.

Definition run_clock (last_only : bool) (w0 : watch) (toks : list bytes) (ops : list op) (clock : bytes) : bytes :=
  let readings := map arg_Z (split_char 44%N clock) in
  let clk := fun n => nth n readings 0 in
  let calls := out_calls 0 toks (trace clk ops w0 0) in
  if last_only then List.last calls (lit "-") else join bar calls.

Definition run_duration (last_only : bool) (toks : list bytes) (ops : list op) (clocks : list bytes) (dur : bytes) : bytes :=
  let duration := if is_op "D" dur then gen_init_default_duration else opt_Z dur in
  match init duration with
  | Exn e => out_exn e
  | Ok w0 => join [35%N] (map (run_clock last_only w0 toks ops) clocks)
  end.

(* durations: comma separated list of "N" | "D" | int; one run per duration x clock *)
Definition run (args : list bytes) : bytes :=
  let mode := nth_arg args 0 in
  let toks := match nth_arg args 2 with [] => [] | s => split_char 44%N s end in
  match parse_ops toks with
  | None => lit "BADOP"
  | Some ops => join [35%N] (map (run_duration (is_op "last" mode) toks ops (skipn 3 args)) (split_char 44%N (nth_arg args 1)))
  end.
Extraction "model.ml" run.
