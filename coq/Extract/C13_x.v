From Coq Require Import String.
Require Import OV.Base.Bytes OV.Base.Py OV.Base.PyInt OV.Base.PyFloat OV.Base.Str OV.Base.IO OV.Base.C13_Types.
Require Import OV.Gen.C13_StopWatch OV.Model.C13 OV.Model.C13_Z OV.Model.C13_Float.
From Coq Require Extraction ExtrOcamlBasic.
Open Scope Z_scope.

(* args: mode, durations (comma separated "N" | "D" = default | number), ops (comma separated tokens), then one or
   more clocks (comma separated readings).
   mode "run" / "last": T := Z, numbers are decimal integers; "frun" / "flast": T := binary64, a number is written
   <m>p<e> and denotes the double m * 2^e exactly (|m| < 2^53; the harness sends math.frexp of the double), outputs
   are float.hex().  "last" / "flast" print only the last call.
   Output: per clock the calls joined by "|", clocks joined by "#"; a call is
   result;ticks;state,started,stopped,splits,duration *)

Section Driver.
Variable T : Type.
Variable N : num T.
Variable rd : bytes -> T.          (* read a number *)
Variable pr : T -> bytes.          (* print a number *)

Definition opt_num (b : bytes) : option T := if is_op "N" b then None else Some (rd b).

Definition parse_op (tok : bytes) : option (op T) :=
  let parts := split_char 58%N tok in
  let name := nth_arg parts 0 in
  let arg := nth_arg parts 1 in
  let has_arg := Nat.ltb 1 (List.length parts) in
  if is_op "st" name then Some OStart
  else if is_op "sp" name then Some OStop
  else if is_op "rs" name then Some OResume
  else if is_op "rt" name then Some ORestart
  else if is_op "sl" name then Some OSplit
  else if is_op "el" name then Some (OElapsed (if has_arg then opt_num arg else gen_elapsed_default_maximum T))
  else if is_op "lo" name then Some (OLeftover (if has_arg then arg_bool arg else gen_leftover_default_return_none T))
  else if is_op "ex" name then Some OExpired
  else if is_op "hs" name then Some OHasStarted
  else if is_op "hp" name then Some OHasStopped
  else if is_op "ss" name then Some OSplits
  else if is_op "en" name then Some OEnter
  else if is_op "xt" name then Some (OExit has_arg)     (* direct call: xt = (None, None, None), xt:V / xt:B = a real triple *)
  else if is_op "wx" name then Some (OExit has_arg)     (* the __exit__ of a real with block: wx / wx:V / wx:B *)
  else None.

Fixpoint parse_ops (toks : list bytes) : option (list (op T)) :=
  match toks with
  | [] => Some []
  | t :: r => match parse_op t, parse_ops r with Some o, Some l => Some (o :: l) | _, _ => None end
  end.

Definition out_split (s : split T) : bytes :=
  lit "S(" ++ pr (sp_elapsed s) ++ [44%N] ++ pr (sp_length s) ++ lit ")".
Definition out_splits (l : list (split T)) : bytes := lit "[" ++ List.concat (map out_split l) ++ lit "]".
Definition out_value (v : value T) : bytes :=
  match v with
  | VSelf => lit "self"
  | VNone => lit "None"
  | VNum z => pr z
  | VBool b => out_bool b
  | VSplit s => out_split s
  | VSplits l => out_splits l
  end.
Definition out_state (s : wstate) : bytes :=
  match s with SNone => lit "N" | SStarted => lit "R" | SStopped => lit "P" end.
Definition out_watch (w : watch T) : bytes :=
  out_state (w_state w) ++ [44%N] ++ out_opt pr (w_started w) ++ [44%N] ++ out_opt pr (w_stopped w)
  ++ [44%N] ++ out_splits (w_splits w) ++ [44%N] ++ out_opt pr (w_duration w).

(* a with block whose body raised: __exit__ returned a false value (None), so the harness sees the
   body's exception propagate: PROP:<kind> *)
Definition with_exit_kind (tok : bytes) : option bytes :=
  let parts := split_char 58%N tok in
  if is_op "wx" (nth_arg parts 0) && Nat.ltb 1 (List.length parts) then Some (nth_arg parts 1) else None.

Definition out_call (t0 : nat) (tok : bytes) (c : cfg T * res (value T)) : bytes :=
  let '((w, t), r) := c in
  (match r, with_exit_kind tok with
   | Ok VNone, Some k => lit "PROP:" ++ k
   | _, _ => out_res out_value r
   end) ++ [59%N] ++ out_Z (Z.of_nat (t - t0)) ++ [59%N] ++ out_watch w.

Fixpoint out_calls (t0 : nat) (toks : list bytes) (l : list (cfg T * res (value T))) : list bytes :=
  match l with
  | [] => []
  | c :: r => out_call t0 (hd [] toks) c :: out_calls (snd (fst c)) (tl toks) r
  end.

Definition run_clock (last_only : bool) (w0 : watch T) (toks : list bytes) (ops : list (op T)) (clock : bytes) : bytes :=
  let readings := map rd (split_char 44%N clock) in
  let clk := fun n => nth n readings (n_zero N) in
  let calls := out_calls 0 toks (trace N clk ops w0 0) in
  if last_only then List.last calls (lit "-") else join bar calls.

Definition run_duration (last_only : bool) (toks : list bytes) (ops : list (op T)) (clocks : list bytes) (dur : bytes) : bytes :=
  let duration := if is_op "D" dur then gen_init_default_duration T else opt_num dur in
  match init N duration with
  | Exn e => out_exn e
  | Ok w0 => join [35%N] (map (run_clock last_only w0 toks ops) clocks)
  end.

Definition run_with (last_only : bool) (args : list bytes) : bytes :=
  let toks := match nth_arg args 2 with [] => [] | s => split_char 44%N s end in
  match parse_ops toks with
  | None => lit "BADOP"
  | Some ops => join [35%N] (map (run_duration last_only toks ops (skipn 3 args)) (split_char 44%N (nth_arg args 1)))
  end.
End Driver.

(* <m>p<e>: the double m * 2^e (exact: the harness sends a 53-bit m) *)
Definition rd_float (b : bytes) : float64 :=
  let parts := split_char 112%N b in
  f_normalize (arg_Z (nth_arg parts 0)) (arg_Z (nth_arg parts 1)).

Definition run (args : list bytes) : bytes :=
  let mode := nth_arg args 0 in
  if is_op "run" mode then run_with Z Znum arg_Z out_Z false args
  else if is_op "last" mode then run_with Z Znum arg_Z out_Z true args
  else if is_op "frun" mode then run_with float64 Fnum rd_float float_hex false args
  else if is_op "flast" mode then run_with float64 Fnum rd_float float_hex true args
  else lit "BADMODE".
Extraction "model.ml" run.
