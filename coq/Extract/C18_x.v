From Coq Require Import String.
Require Import OV.Base.Bytes OV.Base.Py OV.Base.PyInt OV.Base.Str OV.Base.Regex OV.Base.IO OV.Base.PyFloat.
Require Import OV.Gen.C18_SpecsMatcher OV.Model.C18 OV.Model.C18_LitEval.
From Coq Require Extraction ExtrOcamlBasic.

(* one token: <length>:<text> *)
Definition out_tok (t : str) : bytes := out_N (blen t) ++ [58%N] ++ t.
Definition out_toks (l : list str) : bytes := out_N (blen (map (fun _ => 0%N) l)) ++ [59%N] ++ concat (map out_tok l).

Fixpoint out_pyval (v : pyval) : bytes :=
  match v with
  | PInt z => [73%N] ++ out_Z z
  | PFloat f => [70%N] ++ float_hex f
  | PStr s => [83%N] ++ out_tok s
  | PList l => [76%N] ++ out_N (N.of_nat (length l)) ++ [91%N] ++ concat (map (fun x => out_pyval x ++ [44%N]) l) ++ [93%N]
  | POther => [79%N]
  end.

Definition out_outcome (o : outcome) : bytes :=
  match o with Val b => out_bool b | Raise c => lit "EXN:" ++ c end.

Definition run (args : list bytes) : bytes :=
  let op := nth_arg args 0 in
  if is_op "match" op then
    out_outcome (match_ lev_total (nth_arg args 1) (nth_arg args 2)) ++ lit " T:" ++
    match parse_string (nth_arg args 2) with Some t => out_toks t | None => lit "EXN:ParseException" end
  else if is_op "lev" op then
    match lev_model (nth_arg args 1) with
    | Some (LVal v) => out_pyval v
    | Some (LRaise c) => lit "EXN:" ++ c
    | None => E_Unmodelled
    end
  else lit "BADOP".
Extraction "model.ml" run.
