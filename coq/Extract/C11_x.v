From Coq Require Import String.
Require Import OV.Base.Bytes OV.Base.Py OV.Base.PyInt OV.Base.Str OV.Base.Regex OV.Base.IO OV.Base.C11_Lib.
Require Import OV.Gen.C11_Netutils OV.Model.C11.
From Coq Require Extraction ExtrOcamlBasic.

Definition aexn_name (e : aexn) : bytes :=
  lit match e with
      | AValueError => "ValueError" | ATypeError => "TypeError" | AAddrFormatError => "AddrFormatError"
      | AOSError => "OSError" | AOther => "Other"
      end.
Definition out_ares (r : ares) : bytes :=
  match r with AOk b => out_bool b | ARaise e => lit "EXN:" ++ aexn_name e end.
Definition arg_ares (b : bytes) : ares :=
  if is_op "True" b then AOk true
  else if is_op "False" b then AOk false
  else if is_op "EXN:ValueError" b then ARaise AValueError
  else if is_op "EXN:TypeError" b then ARaise ATypeError
  else if is_op "EXN:AddrFormatError" b then ARaise AAddrFormatError
  else if is_op "EXN:OSError" b then ARaise AOSError
  else ARaise AOther.
Definition arg_pyval (kind payload : bytes) : pyval :=
  if is_op "str" kind then VStr payload
  else if is_op "int" kind then VInt (arg_Z payload)
  else if is_op "bool" kind then VBool (arg_bool payload)
  else VNone.

Definition run (args : list bytes) : bytes :=
  let op := nth_arg args 0 in
  let a1 := nth_arg args 1 in
  let a2 := nth_arg args 2 in
  if is_op "ipv4" op then out_ares (is_valid_ipv4 ipv4_strict_default (ARaise AOther) a1)
  else if is_op "ipv4_strict" op then out_ares (is_valid_ipv4 true (ARaise AOther) a1)
  else if is_op "ipv4_ns" op then out_ares (is_valid_ipv4 false (arg_ares a2) a1)
  else if is_op "ipv6" op then out_ares (is_valid_ipv6 a1)
  else if is_op "ip" op then out_ares (is_valid_ip (arg_ares a2) a1)
  else if is_op "cidr" op then out_ares (is_valid_cidr (arg_ares a2) a1)
  else if is_op "cidr6" op then out_ares (is_valid_ipv6_cidr (arg_ares a2) a1)
  else if is_op "mac" op then out_bool (is_valid_mac a1)
  else if is_op "port" op then out_res out_bool (is_valid_port (arg_pyval a1 a2))
  else if is_op "icmp_type" op then out_res out_bool (is_valid_icmp_type (arg_pyval a1 a2))
  else if is_op "icmp_code" op then out_res out_bool (is_valid_icmp_code (arg_pyval a1 a2))
  else if is_op "pton4" op then out_ares (inet_pton false a1)
  else if is_op "pton6" op then out_ares (inet_pton true a1)
  else lit "BADOP".
Extraction "model.ml" run.
