(* Extract/C02_x.v — driver for property C02.
   safety <fmt> <data> <sizes>
       cut <data> by <sizes> (rest = one more chunk), feed a fresh inspector until the first exception, finish;
       print  exn;format_match;complete;safety;checks  (exn = class of the exception that escaped eat_chunk or '-';
       checks = the registered check names)
   spec <fmt> <data>
       the declarative byte-level acceptance predicate (static formats; sparse VMDK outside the zones F1/F3): True/False, '-' = not characterised
   cli <path_ok> <detect_ok> <safety> <vsize_ok> <verbose>
       exit status of the translated body of cli.main in that environment *)
From Coq Require Import String.
Require Import OV.Base.Bytes OV.Base.Py OV.Base.PyInt OV.Base.Str OV.Base.IO OV.Base.Insp_Struct.
Require Import OV.Gen.Insp_Consts OV.Model.Insp_Engine OV.Model.Insp_All OV.Model.C02 OV.Model.C02_Cli OV.Gen.C02_Cli.
From Coq Require Extraction ExtrOcamlBasic.
Open Scope N_scope.

Definition parse_fmt (b : bytes) : option fmt_id := List.find (fun f => beq (fmt_name f) b) all_formats.

Fixpoint split_sizes (data : bytes) (sizes : list N) : list bytes :=
  match sizes with
  | [] => match data with [] => [] | _ => [data] end
  | n :: t => ntake n data :: split_sizes (nskip n data) t
  end.

Definition out_safety (r : safety_result) : bytes :=
  match r with
  | Pass => lit "pass"
  | Fail names => lit "fail:" ++ join [44] (map cname_str names)
  | Refused => lit "refused"
  | Crash e => lit "crash:" ++ exn_name e
  end.

Definition parse_safety (b : bytes) : safety_result :=
  if is_op "pass" b then Pass else if is_op "fail" b then Fail [] else if is_op "refused" b then Refused
  else if is_op "crash:SafetyCheckFailed" b then Crash SafetyCheckFailed
  else if is_op "crash:ImageFormatError" b then Crash ImageFormatError else Crash OtherError.

Definition run (args : list bytes) : bytes :=
  let op := nth_arg args 0 in
  if is_op "safety" op then
    match parse_fmt (nth_arg args 1) with
    | None => lit "BADFMT"
    | Some f =>
      let '(i0, e) := eat_list (init f) (split_sizes (nth_arg args 2) (nth_arg args 3)) in
      let i := finish i0 in
      (match e with Some x => exn_name x | None => [45] end) ++ [59]
      ++ out_res out_bool (format_match i) ++ [59] ++ out_bool (complete i) ++ [59] ++ out_safety (safety i) ++ [59]
      ++ join [44] (map cname_str (checks_of i))
    end
  else if is_op "spec" op then
    match parse_fmt (nth_arg args 1) with
    | None => lit "BADFMT"
    | Some f => match (match f with F_vmdk => vmdk_sparse_safeb (nth_arg args 2) | _ => static_safeb f (nth_arg args 2) end) with
                Some v => out_bool v | None => [45] end
    end
  else if is_op "cli" op then
    let env := mkCenv (arg_bool (nth_arg args 1))
                      (if arg_bool (nth_arg args 2) then Ok tt else Exn ImageFormatError)
                      (parse_safety (nth_arg args 3)) (arg_bool (nth_arg args 4)) (arg_bool (nth_arg args 5)) in
    out_Z (cli_exec cli_main env)
  else lit "BADOP".
Extraction "model.ml" run.
