(* Extract/C07_x.v — driver for C07 (virtual_size).
   vs <fmt> <data> <sizes> :
     cut <data> into chunks of the given sizes (the rest, if any, is one more chunk; 0 = empty chunk), feed a
     fresh inspector of <fmt> until the first exception, then finish().  One record after every eat_chunk and
     one after finish:   exn;virtual_size     (exn = class name or '-', virtual_size = decimal or EXN:Class),
     records joined by '|'. *)
From Coq Require Import String.
Require Import OV.Base.Bytes OV.Base.Py OV.Base.PyInt OV.Base.Str OV.Base.IO OV.Base.Insp_Struct.
Require Import OV.Gen.Insp_Consts OV.Model.Insp_Engine OV.Model.Insp_All.
From Coq Require Extraction ExtrOcamlBasic.
Open Scope N_scope.

Definition parse_fmt (b : bytes) : option fmt_id := List.find (fun f => beq (fmt_name f) b) all_formats.

Fixpoint split_sizes (data : bytes) (sizes : list N) : list bytes :=
  match sizes with
  | [] => match data with [] => [] | _ => [data] end
  | n :: t => ntake n data :: split_sizes (nskip n data) t
  end.

Definition record (e : option exn) (i : istate) : bytes :=
  (match e with Some x => exn_name x | None => [45] end) ++ [59] ++ out_res out_Z (virtual_size i).

Fixpoint feed (i : istate) (cs : list bytes) (acc : list bytes) : istate * list bytes :=
  match cs with
  | [] => (i, acc)
  | c :: t =>
    let '(i', e) := eat i c in
    let acc' := record e i' :: acc in
    match e with Some _ => (i', acc') | None => feed i' t acc' end
  end.

Definition run (args : list bytes) : bytes :=
  let op := nth_arg args 0 in
  if is_op "vs" op then
    match parse_fmt (nth_arg args 1) with
    | None => lit "BADFMT"
    | Some f =>
      let cs := split_sizes (nth_arg args 2) (nth_arg args 3) in
      let '(i, acc) := feed (init f) cs [] in
      join [124] (rev (record None (finish i) :: acc))
    end
  else lit "BADOP".
Extraction "model.ml" run.
