(* Extract/C08_x.v — driver entry for the C08 model.
   args:  "mdp" secret ntable (message secret result){ntable}  <value tokens>
   value tokens (pre-order):  S str | O tag | M kind n (key value){n}   ; key tokens: s str | o tag
   The Section variable mask_password is instantiated by the finite graph of the REAL function
   that the harness supplies with the case (every (string value, secret) pair the call can reach).
   output: serialised result (same format as tools/props/C08.py: ser) or EXN:<class>. *)
From Coq Require Import String.
Require Import OV.Base.Bytes OV.Base.Py OV.Base.PyInt OV.Base.Str OV.Base.IO.
Require Import OV.Model.C08_Syntax OV.Gen.C08_Keys OV.Gen.C08_Shape OV.Gen.C08_Frame OV.Model.C08 OV.Model.C08_Heap.
From Coq Require Extraction ExtrOcamlBasic.

Definition parse_key (ts : list bytes) : option (key * list bytes) :=
  match ts with
  | t :: x :: r => if is_op "s" t then Some (KStr x, r) else if is_op "o" t then Some (KOther x, r) else None
  | _ => None
  end.

Fixpoint parse_value (fuel : nat) (ts : list bytes) : option (value * list bytes) :=
  match fuel with
  | O => None
  | S f =>
      match ts with
      | t :: rest =>
          if is_op "S" t then match rest with x :: r => Some (VStr x, r) | [] => None end
          else if is_op "O" t then match rest with x :: r => Some (VOther x, r) | [] => None end
          else if is_op "M" t then
            match rest with
            | kd :: n :: r =>
                match
                  (fix items (n : nat) (ts : list bytes) : option (list (key * value) * list bytes) :=
                     match n with
                     | O => Some ([], ts)
                     | S n' =>
                         match parse_key ts with
                         | None => None
                         | Some (k, ts1) =>
                             match parse_value f ts1 with
                             | None => None
                             | Some (v, ts2) =>
                                 match items n' ts2 with
                                 | None => None
                                 | Some (l, ts3) => Some ((k, v) :: l, ts3)
                                 end
                             end
                         end
                     end) (arg_nat n) r
                with
                | Some (l, r') => Some (VMap (arg_N kd) l, r')
                | None => None
                end
            | _ => None
            end
          else None
      | [] => None
      end
  end.

Definition ser_str (tagc : string) (s : bytes) : bytes := lit tagc ++ dec_of_N (blen s) ++ [58%N] ++ s.
Definition ser_key (k : key) : bytes :=
  match k with KStr s => ser_str "s" s | KOther t => ser_str "o" t end.
Fixpoint ser (v : value) : bytes :=
  match v with
  | VStr s => ser_str "S" s
  | VOther t => ser_str "O" t
  | VMap kd items =>
      lit "M" ++ dec_of_N kd ++ [44%N] ++ dec_of_N (N.of_nat (length items)) ++ [58%N]
      ++ flat_map (fun kv => ser_key (fst kv) ++ ser (snd kv)) items
  end.

Fixpoint parse_table (n : nat) (ts : list bytes) : list (str * str * str) * list bytes :=
  match n with
  | O => ([], ts)
  | S n' => match ts with
            | m :: s :: r :: rest => let (l, rest') := parse_table n' rest in ((m, s, r) :: l, rest')
            | _ => ([], ts)
            end
  end.
Fixpoint table_mp (tbl : list (str * str * str)) (m s : str) : str :=
  match tbl with
  | [] => lit "<mask_password: pair not in the supplied table>"
  | (m', s', r) :: t => if beq m m' && beq s s' then r else table_mp t m s
  end.

(* ---------- heap model (object identity) ----------
   args: "mdph" fuel secret_loc report(0|1) root_loc ntable (message secret result){ntable} nobj <objects>
   object tokens:  S str | O tag | D kind n (key-tokens loc){n}
   output: the result read back from the final heap, every slot annotated with its identity:
     dict / other:  @<loc> = the argument object at that location, # = allocated by the call
     str:           @s = the secret object (only when report = 1: the secret object is not also an object
                    of the argument), ~ = not compared (mask_password's result) *)
Fixpoint parse_items_l (n : nat) (ts : list bytes) : option (list (key * loc) * list bytes) :=
  match n with
  | O => Some ([], ts)
  | S n' =>
      match parse_key ts with
      | Some (k, l :: r) =>
          match parse_items_l n' r with
          | Some (its, r') => Some ((k, arg_nat l) :: its, r')
          | None => None
          end
      | _ => None
      end
  end.
Fixpoint parse_heap (n : nat) (ts : list bytes) : option (heap * list bytes) :=
  match n with
  | O => Some ([], ts)
  | S n' =>
      match ts with
      | t :: rest =>
          match
            (if is_op "S" t then match rest with x :: r => Some (PStr x, r) | [] => None end
             else if is_op "O" t then match rest with x :: r => Some (POther x, r) | [] => None end
             else if is_op "D" t then
               match rest with
               | kd :: cnt :: r => match parse_items_l (arg_nat cnt) r with
                                   | Some (its, r') => Some (PDict (arg_N kd) its, r')
                                   | None => None
                                   end
               | _ => None
               end
             else None)
          with
          | Some (o, r) => match parse_heap n' r with Some (h, r') => Some (o :: h, r') | None => None end
          | None => None
          end
      | [] => None
      end
  end.

Definition mp_h_tbl (tbl : list (str * str * str)) (h : heap) (m s : loc) : heap * loc :=
  match hget h m, hget h s with
  | Some (PStr ms), Some (PStr ss) => halloc h (PStr (table_mp tbl ms ss))
  | _, _ => halloc h (PStr (lit "<mask_password: not called on strings>"))
  end.

Fixpoint ser_h (fuel : nat) (narg : nat) (secret : loc) (h : heap) (l : loc) : bytes :=
  match fuel with
  | O => lit "!"
  | S f =>
      let ident := if Nat.ltb l narg then lit "@" ++ dec_of_N (N.of_nat l) else lit "#" in
      match hget h l with
      | None => lit "?"
      | Some (PStr x) => ser_str "S" x ++ (if Nat.eqb l secret then lit "@s" else lit "~")
      | Some (POther t) => ser_str "O" t ++ ident
      | Some (PDict kd items) =>
          lit "M" ++ dec_of_N kd ++ [44%N] ++ dec_of_N (N.of_nat (length items)) ++ ident ++ [58%N]
          ++ flat_map (fun kl => ser_key (fst kl) ++ ser_h f narg secret h (snd kl)) items
      end
  end.

Definition run_h (args : list bytes) : bytes :=
  let fuel := arg_nat (nth_arg args 1) in
  let secret := arg_nat (nth_arg args 2) in
  let report := arg_bool (nth_arg args 3) in
  let root := arg_nat (nth_arg args 4) in
  let (tbl, rest) := parse_table (arg_nat (nth_arg args 5)) (skipn 6 args) in
  match rest with
  | nobj :: rest' =>
      match parse_heap (arg_nat nobj) rest' with
      | Some (h, []) =>
          match mdp_h (mp_h_tbl tbl) fuel h secret root with
          | Ok (h', r) => ser_h (S (length h')) (length h) (if report then secret else length h') h' r
          | Exn e => out_exn e
          end
      | _ => lit "BADHEAP"
      end
  | [] => lit "BADARGS"
  end.

Definition run (args : list bytes) : bytes :=
  let op := nth_arg args 0 in
  if is_op "mdp" op then
    let secret := nth_arg args 1 in
    let (tbl, rest) := parse_table (arg_nat (nth_arg args 2)) (skipn 3 args) in
    match parse_value (S (length rest)) rest with
    | Some (d, []) => out_res ser (mdp (table_mp tbl) secret d)
    | _ => lit "BADARGS"
    end
  else if is_op "mdph" op then run_h args
  else if is_op "key" op then
    (* the key test observed the way the harness observes it: mask_dict_password({k: 0}, 'M') *)
    match mdp (table_mp []) (lit "M") (VMap 0 [(KStr (nth_arg args 1), VOther (lit "i0"))]) with
    | Ok (VMap 0 [(_, VStr m)]) => if beq m (lit "M") then lit "True" else lit "OTHER"
    | Ok (VMap 0 [(_, VOther t)]) => if beq t (lit "i0") then lit "False" else lit "OTHER"
    | Ok _ => lit "OTHER"
    | Exn e => out_exn e
    end
  else lit "BADOP".
Extraction "model.ml" run.
