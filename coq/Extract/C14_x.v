From Coq Require Import String.
Require Import OV.Base.Bytes OV.Base.Py OV.Base.PyInt OV.Base.Str OV.Base.IO.
Require Import OV.Model.C14_Py OV.Gen.C14 OV.Model.C14.
From Coq Require Extraction ExtrOcamlBasic.
Open Scope N_scope.

(* ---- decoding of driver arguments (harness side of the protocol) ---- *)
Definition hexv1 (c : N) : N :=
  if (48 <=? c) && (c <=? 57) then c - 48 else if (97 <=? c) && (c <=? 102) then c - 87 else 0.
Definition hexval (s : bytes) : N := fold_left (fun a c => a * 16 + hexv1 c) s 0.

(* integers: "P<hex>" | "M<hex>" (negative) ; optional: "N" *)
Definition dec_int (b : bytes) : Z :=
  match b with
  | 77 :: t => (- Z.of_N (hexval t))%Z
  | _ :: t => Z.of_N (hexval t)
  | [] => 0%Z
  end.
Definition dec_optint (b : bytes) : option Z :=
  match b with 78 :: _ => None | _ => Some (dec_int b) end.

Definition dec_exn (b : bytes) : exn :=
  if beq b (lit "ValueError") then ValueError
  else if beq b (lit "TypeError") then TypeError
  else if beq b (lit "OverflowError") then OverflowError
  else if beq b (lit "AttributeError") then AttributeError
  else OtherError.

(* a value = three arguments: tag, a, b *)
Definition dec_val (tag a b : bytes) : pyval :=
  match tag with
  | 83 :: _ => PStr a                                   (* S text *)
  | 73 :: _ => PInt (dec_int a)                         (* I int *)
  | 66 :: _ => PBool (arg_bool a)                       (* B 1|0 *)
  | 78 :: _ => PNone                                    (* N *)
  | _ => POther a (match b with 69 :: t => Exn (dec_exn t) | _ => Ok (dec_int b) end)   (* O str(v) int(v) *)
  end.

Definition out_val (v : pyval) : bytes :=
  match v with
  | PStr s => lit "S:" ++ s
  | PInt z => lit "I:" ++ dec_of_Z z
  | PBool b => out_bool b
  | PNone => lit "None"
  | POther sv _ => lit "O:" ++ sv
  end.
Definition out_unit (_ : unit) : bytes := lit "None".

Definition run (args : list bytes) : bytes :=
  let op := nth_arg args 0 in
  let lim := arg_N (nth_arg args 1) in
  let v := dec_val (nth_arg args 2) (nth_arg args 3) (nth_arg args 4) in
  if is_op "bool_from_string" op then
    out_res out_val (bool_from_string lim v (arg_bool (nth_arg args 5))
                       (dec_val (nth_arg args 6) (nth_arg args 7) (nth_arg args 8)))
  else if is_op "int_from_bool" op then out_res out_Z (int_from_bool_as_string lim v)
  else if is_op "is_valid_boolstr" op then out_res out_bool (is_valid_boolstr lim v)
  else if is_op "is_int_like" op then out_res out_bool (is_int_like lim v)
  else if is_op "check_string_length" op then
    out_res out_unit (check_string_length v (dec_int (nth_arg args 5)) (dec_optint (nth_arg args 6)))
  else if is_op "validate_integer" op then
    out_res out_Z (validate_integer lim v (dec_optint (nth_arg args 5)) (dec_optint (nth_arg args 6)))
  else if is_op "is_uuid_like" op then out_res out_bool (is_uuid_like lim v)
  else if is_op "format_uuid" op then format_uuid_string (nth_arg args 3)
  else if is_op "generate_uuid" op then generate_uuid (hexval (nth_arg args 3)) (arg_bool (nth_arg args 5))
  else if is_op "int" op then
    out_opt out_Z (int_parse lim (arg_N (nth_arg args 5)) (nth_arg args 3))
  else if is_op "lower" op then py_lower (nth_arg args 3)
  else if is_op "strip" op then strip (nth_arg args 3)
  else lit "BADOP".
Extraction "model.ml" run.
