From Coq Require Import String.
Require Import OV.Base.Bytes OV.Base.Py OV.Base.PyInt OV.Base.Str OV.Base.Regex OV.Base.IO OV.Base.C04_Tmpl.
Require Import OV.Gen.C04_Sanitize OV.Gen.C04_Concrete OV.Model.C04.
From Coq Require Extraction ExtrOcamlBasic.

Definition out_span (x : option (N * N * groups)) : bytes :=
  match x with
  | None => lit "None"
  | Some (a, e, g) =>
      out_N a ++ [44%N] ++ out_N e ++
      flat_map (fun i => [59%N] ++ match gget g i with Some (x, y) => out_N x ++ [44%N] ++ out_N y | None => [45%N] end) [1%nat; 2%nat]
  end.

(* pattern #j (0..9 = _2, 10 = _1, 11 = wildcard) of key #i *)
Definition pat_of (i j : nat) : re :=
  match nth_error gen_concrete i with
  | Some (_, (p2, (p1, pw))) => nth j (p2 ++ p1 ++ pw) Eps
  | None => Eps
  end.
(* engine validation templates (fixed here, independent of gen_steps) *)
Definition tmpl_of (j : nat) (secret : str) : list titem :=
  if Nat.ltb j 10 then TGrp 1 :: map TLit secret ++ [TGrp 2]
  else if Nat.eqb j 10 then TGrp 1 :: map TLit secret else [TGrp 1].

Definition run (args : list bytes) : bytes :=
  let op := nth_arg args 0 in
  if is_op "mask" op then mask_password (nth_arg args 1) (nth_arg args 2)
  else if is_op "zone" op then lit "K12:" ++ out_bool (zone_K12 (nth_arg args 1)) ++ lit " K14:" ++ out_bool (zone_K14 (nth_arg args 1))
  else if is_op "search" op then
    out_span (re_search (pat_of (arg_nat (nth_arg args 1)) (arg_nat (nth_arg args 2))) (nth_arg args 3))
  else if is_op "sub" op then
    re_sub (pat_of (arg_nat (nth_arg args 1)) (arg_nat (nth_arg args 2))) (tmpl_of (arg_nat (nth_arg args 2)) (nth_arg args 4)) (nth_arg args 3)
  else lit "BADOP".
Extraction "model.ml" run.
