(* Extract/C03_x.v — driver for the C03 model: the generic wrapper over the ten concrete inspectors.
   wrap <kind f|i|g> <expected S<name>|N> <allowed L,a,b|N> <order ,a,b,..> <data> <lens> <ops>
     the wrapper's inspector collection is put in <order> (the iteration order of the Python set in
     the real run); ops: 0 next, 1 close, 9 read(-1), 10+n read(n), 2 stop-at-first-exception mode; one record per op:
       B<len>.<cksum> | E<Class> | N   @ <source position> | <formats> | <format> | name:complete:match,... | <_finished>
     preceded by the record of the fresh wrapper (without the first two fields).
   detect <data>   ->  <result>@<position>|<closed>|<formats>|<format>|...                       *)
From Coq Require Import String.
Require Import OV.Base.Bytes OV.Base.Py OV.Base.PyInt OV.Base.Str OV.Base.IO OV.Base.C06_WrapShape OV.Base.Insp_Struct.
Require Import OV.Gen.Insp_Consts OV.Gen.C06_Wrapper OV.Model.Insp_Engine OV.Model.Insp_All OV.Model.Wrap OV.Model.C03.
From Coq Require Extraction ExtrOcamlBasic.
Open Scope N_scope.

(* checksum of a chunk (same function in tools/props/C03.py) *)
Fixpoint cksum_aux (b : bytes) (s1 s2 : N) : N :=
  match b with
  | [] => s1 + 257 * s2
  | x :: [] => s1 + x + 257 * s2
  | x :: y :: t => cksum_aux t (s1 + x + y) (s2 + y)
  end.
Definition cksum (b : bytes) : N := cksum_aux b 0 0.

Definition parse_names (b : bytes) : list str := tl (split_char 44 b).
Definition parse_allowed (b : bytes) : list str := match b with 76 :: t => parse_names t | _ => [] end.
Definition parse_expected (b : bytes) : option str := match b with 83 :: t => Some t | _ => None end.

Fixpoint split_lens (data : bytes) (lens : list N) : list bytes :=
  match lens with [] => [] | n :: t => ntake n data :: split_lens (nskip n data) t end.

Fixpoint pick_slots (slots : list cslot) (order : list str) : option (list cslot) :=
  match order with
  | [] => Some []
  | nm :: t =>
    match List.find (fun s => beq (s_name s) nm) slots, pick_slots slots t with
    | Some s, Some r => Some (s :: r)
    | _, _ => None
    end
  end.
Fixpoint nodupb (l : list str) : bool :=
  match l with [] => true | x :: t => negb (existsb (beq x) t) && nodupb t end.

Definition out_output (o : output) : bytes :=
  match o with
  | OutChunk c => lit "B" ++ out_N (flen c) ++ lit "." ++ out_N (cksum c)
  | OutExn e => lit "E" ++ exn_name e
  | OutNone => lit "N"
  end.

(* names in ALL_FORMATS order (the order inside the Python list depends on set iteration) *)
Definition out_names (l : list cslot) : bytes :=
  join (lit "+") (filter (fun nm => existsb (fun s => beq (s_name s) nm) l) (map fst C06_Wrapper.all_formats)).

Definition out_slot (s : cslot) : bytes :=
  s_name s ++ lit ":" ++ out_bool (complete (s_insp s)) ++ lit ":" ++ out_res out_bool (format_match (s_insp s)).

Definition out_state (w : cwrapper) : bytes :=
  out_res (out_opt out_names) (formats_r w) ++ lit "|" ++
  out_res (out_opt (fun s => s_name s)) (format_r w) ++ lit "|" ++
  join (lit ",") (map out_slot (w_slots w)) ++ lit "|" ++ out_bool (w_finished w).

Inductive source := SrcF (s : fsrc) | SrcI (s : isrc).
Definition out_pos (s : source) : bytes :=
  match s with
  | SrcF f => out_N (f_pos f)
  | SrcI i => out_N (N.of_nat (length (i_chunks i)))       (* chunks LEFT in the iterator *)
  end.

Definition do_op (w : cwrapper) (s : source) (op : N) : cwrapper * source * bytes :=
  match s with
  | SrcF f =>
    if op =? 1 then let (w', f') := w_close_f istate finish w f in (w', SrcF f', out_output OutNone)
    else if op =? 0 then (w, s, lit "BADOP")
    else let size := if op =? 9 then (-1)%Z else (Z.of_N op - 10)%Z in
         let '(w', f', _, _, o) := cw_read w f size in (w', SrcF f', out_output o)
  | SrcI i =>
    if op =? 1 then let (w', i') := w_close_i istate finish w i in (w', SrcI i', out_output OutNone)
    else if op =? 0 then let '(w', i', _, _, o) := cw_next w i in (w', SrcI i', out_output o)
    else (w, s, lit "BADOP")
  end.

(* op 2 switches to a reader that STOPS at the first exception: after a call raised, read/next ops are skipped
   (nothing is printed for them); close (op 1) is still performed *)
Definition is_exn_out (o : bytes) : bool := match o with 69 :: _ => true | _ => false end.
Fixpoint do_ops (stopping stopped : bool) (w : cwrapper) (s : source) (ops : list N) : list bytes :=
  match ops with
  | [] => []
  | op :: rest =>
    if op =? 2 then do_ops true stopped w s rest
    else if stopping && stopped && negb (op =? 1) then do_ops stopping stopped w s rest
    else
      let '(w', s', o) := do_op w s op in
      (o ++ lit "@" ++ out_pos s' ++ lit "|" ++ out_state w') :: do_ops stopping (stopped || is_exn_out o) w' s' rest
  end.

Definition run (args : list bytes) : bytes :=
  let op := nth_arg args 0 in
  if is_op "wrap" op then
    let kind := nth_arg args 1 in
    let expected := parse_expected (nth_arg args 2) in
    let allowed := parse_allowed (nth_arg args 3) in
    let order := parse_names (nth_arg args 4) in
    let data := nth_arg args 5 in
    let lens := nth_arg args 6 in
    let ops := nth_arg args 7 in
    let w0 := cw_new expected allowed in
    match pick_slots (w_slots w0) order with
    | Some ss =>
      if negb (Nat.eqb (length ss) (length (w_slots w0)) && nodupb order) then lit "BADSET" else
      let w := with_slots istate w0 ss in
      let s := if is_op "f" kind then SrcF {| f_data := data; f_pos := 0; f_closed := false |}
               else SrcI {| i_chunks := split_lens data lens; i_has_close := is_op "g" kind |} in
      out_state w ++ lit ";" ++ join (lit ";") (do_ops false false w s ops)
    | None => lit "BADSET"
    end
  else if is_op "detect" op then
    let data := nth_arg args 1 in
    let '(w, s, _, r) := detect_r data in
    out_res (out_opt (fun nm => nm)) r ++ lit "@" ++ out_N (f_pos s) ++ lit "|" ++ out_bool (f_closed s) ++ lit "|" ++ out_state w
  else lit "BADOP".
Extraction "model.ml" run.
