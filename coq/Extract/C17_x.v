From Coq Require Import String.
Require Import OV.Base.Bytes OV.Base.Py OV.Base.PyInt OV.Base.Str OV.Base.Regex OV.Base.IO.
Require Import OV.Gen.Versionutils OV.Model.C17.
From Coq Require Extraction ExtrOcamlBasic.

Definition out_op (o : cmpop) : bytes :=
  match o with OpLt => lit "<" | OpLe => lit "<=" | OpEq => lit "==" | OpGt => lit ">" | OpGe => lit ">=" | OpNe => lit "!=" end.

Definition csv_Z (b : bytes) : list Z := map arg_Z (split_char 44%N b).
Definition show_str (o : option str) : bytes := match o with Some s => s | None => lit "DIVERGES" end.

Definition run (args : list bytes) : bytes :=
  let op := nth_arg args 0 in
  if is_op "roundtrip" op then
    match tuple_to_int (map arg_Z (tl args)) with
    | Exn e => out_exn e
    | Ok n => out_Z n ++ [32%N] ++ show_str (convert_version_to_str n)
    end
  else if is_op "str_roundtrip" op then
    match convert_version_to_int_str (nth_arg args 1) with
    | Exn e => out_exn e
    | Ok n => out_Z n ++ [32%N] ++ show_str (convert_version_to_str n)
    end
  else if is_op "order" op then
    out_res out_Z (tuple_to_int (csv_Z (nth_arg args 1))) ++ [32%N] ++ out_res out_Z (tuple_to_int (csv_Z (nth_arg args 2)))
  else if is_op "to_int_str" op then out_res out_Z (convert_version_to_int_str (nth_arg args 1))
  else if is_op "to_tuple" op then
    out_opt (out_list out_Z) (version_to_tuple (nth_arg args 1))
  else if is_op "int" op then out_opt out_Z (py_int (nth_arg args 1))
  else if is_op "suffix" op then
    out_res out_Z (convert_version_to_int_str (nth_arg args 1)) ++ [32%N] ++ out_res out_Z (convert_version_to_int_str (nth_arg args 2))
  else if is_op "to_str" op then show_str (convert_version_to_str (arg_Z (nth_arg args 1)))
  else if is_op "parse_pred" op then
    out_opt (out_list (fun p => out_op (fst p) ++ [32%N] ++ snd p)) (parse_predicates (nth_arg args 1))
  else lit "BADOP".
Extraction "model.ml" run.
