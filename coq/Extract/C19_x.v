From Coq Require Import String.
Require Import OV.Base.Bytes OV.Base.Py OV.Base.PyInt OV.Base.Str OV.Base.IO OV.Base.C19_PyList.
Require Import OV.Gen.C19_Grammar OV.Gen.C19_SplitPath OV.Model.C19.
From Coq Require Extraction ExtrOcamlBasic.

(* "OK" then for every entry "|N" (None) or "|S<code points separated by dots>" *)
Definition out_codes (s : str) : bytes := join [46%N] (map dec_of_N s).
Definition out_entry (o : option str) : bytes :=
  match o with None => [124%N; 78%N] | Some s => [124%N; 83%N] ++ out_codes s end.
Definition out_entries (l : list (option str)) : bytes := lit "OK" ++ flat_map out_entry l.

Definition arg_optZ (b : bytes) : option Z := if is_op "None" b then None else Some (arg_Z b).

Definition run (args : list bytes) : bytes :=
  let op := nth_arg args 0 in
  if is_op "sp" op then
    out_res out_entries (split_path (nth_arg args 1) (arg_Z (nth_arg args 2)) (arg_optZ (nth_arg args 3)) (arg_bool (nth_arg args 4)))
  else if is_op "spd" op then
    out_res out_entries (split_path (nth_arg args 1) gen_default_minsegs gen_default_maxsegs gen_default_rest_with_last)
  else if is_op "sbc" op then
    out_res (fun l => out_entries (map Some l)) (split_by_commas (nth_arg args 1))
  else if is_op "quote" op then
    join_items (split_char 0%N (nth_arg args 1))
  else lit "BADOP".
Extraction "model.ml" run.
