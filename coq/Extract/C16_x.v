From Coq Require Import String.
Require Import OV.Base.Bytes OV.Base.Py OV.Base.PyInt OV.Base.Str OV.Base.Regex OV.Base.IO OV.Base.C16_Py.
Require Import OV.Gen.C16_Slug OV.Gen.C16_Code OV.Gen.C16_Aliases OV.Gen.C16_Fold OV.Model.C16 OV.Model.C16_Codecs.
From Coq Require Extraction ExtrOcamlBasic.

(* argument conventions (each value is two driver arguments: kind, payload)
     value    : "s" str | "b" bytes | "o" anything else
     optional : "n" None | "s" str
     defaulted: "d" use the default written in the source | "s" str *)
Definition arg_pval (k p : bytes) : pval :=
  if is_op "s" k then PStr p else if is_op "b" k then PBytes p else POther 0%N.
Definition arg_opt (k p : bytes) : option str := if is_op "s" k then Some p else None.
Definition arg_dflt (d : str) (k p : bytes) : str := if is_op "s" k then p else d.

Definition out_cexn (e : cexn) : bytes := lit "EXN:" ++ cexn_name e.
Definition out_str (r : cres str) : bytes := match r with COk s => lit "s:" ++ s | CExn e => out_cexn e end.
Definition out_bytes (r : cres bytes) : bytes := match r with COk s => lit "b:" ++ s | CExn e => out_cexn e end.
Definition out_pval (r : cres pval) : bytes :=
  match r with
  | COk (PStr s) => lit "s:" ++ s
  | COk (PBytes s) => lit "b:" ++ s
  | COk (POther _) => lit "o:"
  | CExn e => out_cexn e
  end.
Definition out_codec (c : option codec_id) : bytes :=
  match c with Some CUtf8 => lit "utf-8" | Some CLatin1 => lit "iso8859-1" | Some CAscii => lit "ascii" | None => lit "EXN:LookupError" end.

(* two results in one line: <length of the first>|<first><second> *)
Definition pair_out (x y : bytes) : bytes := out_N (blen x) ++ [124%N] ++ x ++ y.

Definition run (args : list bytes) : bytes :=
  let op := nth_arg args 0 in
  let a := nth_arg args in
  if is_op "safe_decode" op then     (* dflt, value(2), incoming(2), errors(2) *)
    out_str (safe_decode (world3 (a 1%nat)) (arg_pval (a 2%nat) (a 3%nat)) (arg_opt (a 4%nat) (a 5%nat))
                         (arg_dflt safe_decode_default_errors (a 6%nat) (a 7%nat)))
  else if is_op "safe_encode" op then  (* dflt, value(2), incoming(2), encoding(2), errors(2) *)
    out_pval (safe_encode (world3 (a 1%nat)) (arg_pval (a 2%nat) (a 3%nat)) (arg_opt (a 4%nat) (a 5%nat))
                          (arg_dflt safe_encode_default_encoding (a 6%nat) (a 7%nat))
                          (arg_dflt safe_encode_default_errors (a 8%nat) (a 9%nat)))
  else if is_op "roundtrip" op then    (* dflt, text, encoding, errors: safe_decode(safe_encode(t, encoding=e, errors), incoming=e, errors) *)
    let w := world3 (a 1%nat) in
    match safe_encode w (PStr (a 2%nat)) None (a 3%nat) (a 4%nat) with
    | COk v => pair_out (out_pval (COk v)) (out_str (safe_decode w v (Some (a 3%nat)) (a 4%nat)))
    | CExn e => out_cexn e
    end
  else if is_op "to_utf8" op then out_pval (to_utf8 (world3 []) (arg_pval (a 1%nat) (a 2%nat)))
  else if is_op "to_slug" op then    (* dflt, value(2), incoming(2), errors(2) *)
    out_str (to_slug (world3 (a 1%nat)) (arg_pval (a 2%nat) (a 3%nat)) (arg_opt (a 4%nat) (a 5%nat))
                     (arg_dflt to_slug_default_errors (a 6%nat) (a 7%nat)))
  else if is_op "enc" op then out_bytes (str_encode (world3 []) (a 2%nat) (a 1%nat) (a 3%nat))
  else if is_op "dec" op then out_str (bytes_decode (world3 []) (a 2%nat) (a 1%nat) (a 3%nat))
  else if is_op "lookup" op then out_codec (lookup3 (a 1%nat))
  else if is_op "fold" op then nfkd_ascii (a 1%nat)
  else lit "BADOP".
Extraction "model.ml" run.
