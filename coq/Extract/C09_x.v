From Coq Require Import String.
Require Import OV.Base.Bytes OV.Base.Py OV.Base.PyInt OV.Base.Str OV.Base.IO.
Require Import OV.Base.C09_HL OV.Gen.C09_Excutils OV.Model.C09.
From Coq Require Extraction ExtrOcamlBasic.
From Coq Require Import List NArith ZArith Bool.
Import ListNotations.

(* ---- harness tables (tools/props/C09_prog.py: CLASS_INFO, PREDS, PRED_NONE) *)
Definition class_tab : list cls :=
  [mkcls 0 true true true; mkcls 1 false true true; mkcls 2 true false true; mkcls 3 false false true; mkcls 4 true true true;
   mkcls 5 true true true;
   (* classes whose instances are FALSE in a boolean context (__len__ -> 0 / __bool__ -> False) *)
   mkcls 6 true true false; mkcls 7 false true false; mkcls 8 true false false; mkcls 9 false false false].
Definition cls_idx (z : Z) : cls := nth (Z.to_nat z) class_tab (mkcls 0 true true true).
Definition pred_tab : list (list N) :=
  [[0;0;0;0;0;0;0;0;0;0]; [1;1;1;1;1;1;1;1;1;1]; [1;0;0;1;0;1;1;0;1;0]; [0;1;1;0;1;0;0;1;0;1]; [2;2;2;2;2;2;2;2;2;2];
   [1;0;2;0;1;2;0;1;2;1]]%N.
Definition pred_none : list N := [0;1;0;1;2;0]%N.
Definition verdict (n : N) : pverdict := match n with 0%N => PFalsy | 1%N => PTruthy | _ => PRaise end.
(* frames between the filter and the predicate: decorator-made (1, 5), method (2, 3, 6) *)
Definition use_frames (u : Z) : list frame :=
  if Z.eqb u 1 || Z.eqb u 5 then [FDeco] else if Z.eqb u 2 || Z.eqb u 3 || Z.eqb u 6 then [FMeth] else [].
Definition base_pred (p : Z) (l : N) (u : Z) : predspec :=
  let row := nth (Z.to_nat p) pred_tab [] in
  let dn := verdict (nth (Z.to_nat p) pred_none 0%N) in
  mkpred (fun oc => match oc with
                    | None => dn
                    | Some c => if N.ltb (cid c) 10 then verdict (nth (N.to_nat (cid c)) row 0%N) else dn
                    end)
         (cls_idx 0) (1000 + l)%N (use_frames u).
(* how the filter object is built: 0-3 exception_filter(<function / decorated / method>); 4-6 the same wrapped a SECOND
   time; 7 exception_filter(exception_filter(<callable instance without __name__>)); 8 exception_filter(<such an instance>) *)
Definition mkp (p : Z) (l : N) (u : Z) : predspec :=
  let b := base_pred p l u in
  if Z.eqb u 4 || Z.eqb u 5 || Z.eqb u 6 then filt_pred (filt_init (CFilt (filt_init (CFun true b))))
  else if Z.eqb u 7 then filt_pred (filt_init (CFilt (filt_init (CFun false b))))
  else if Z.eqb u 8 then filt_pred (filt_init (CFun false b))
  else filt_pred (filt_init (CFun true b)).

(* ---- parser of the prefix token encoding of bodies *)
Definition zb (z : Z) : bool := negb (Z.eqb z 0).
Fixpoint parse (fuel : nat) (has_orig : option nat) (t : list Z) : option (body * list Z) :=
  match fuel with
  | O => None
  | S f =>
    match t with
    | 0%Z :: r => Some (Noop, r)
    | 1%Z :: c :: k :: l :: r => Some (RaiseNew (cls_idx c) (Z.to_N k) (Z.to_N l), r)
    | 2%Z :: v :: r => Some (SetReraise (zb v), r)
    | 3%Z :: r => match parse f has_orig r with
                  | Some (a, r1) => match parse f has_orig r1 with Some (b, r2) => Some (Seq a b, r2) | None => None end
                  | None => None end
    | 4%Z :: r => match parse f has_orig r with
                  | Some (a, r1) => match parse f has_orig r1 with Some (b, r2) => Some (Try a b, r2) | None => None end
                  | None => None end
    | 5%Z :: r0 :: l :: r => match parse f has_orig r with Some (b, r1) => Some (Nested (zb r0) (Z.to_N l) b, r1) | None => None end
    | 6%Z :: l :: r => Some (ForceReraise (Z.to_N l), r)
    | 7%Z :: l :: r => Some (CaptureDirect (Z.to_N l), r)
    | 8%Z :: p :: l :: r => match parse f has_orig r with Some (b, r1) => Some (Filter (mkp p (Z.to_N l) 0) (Z.to_N l) b, r1) | None => None end
    | 9%Z :: p :: a :: l :: r =>
        let arg := if Z.eqb a 0 then ACur else if Z.eqb a 1 then ANew (cls_idx 0) (2000 + Z.to_N l)
                   else if Z.eqb a 2 then ANone else if Z.eqb a 4 then AStored (cls_idx (Z.modulo l 10)) (2000 + Z.to_N l)
                   else match has_orig with Some i => AObj i | None => ANone end in
        Some (FilterCall (mkp p (Z.to_N l) 0) arg (Z.to_N l), r)
    | 10%Z :: l :: r => match parse f has_orig r with Some (b, r1) => Some (WithCtx (Z.to_N l) b, r1) | None => None end
    | 11%Z :: r => Some (Tamper, r)
    | _ => None
    end
  end.
Definition parse_rest (has_orig : option nat) (t : list Z) : list Z :=
  match parse (S (length t)) has_orig t with Some (_, r) => r | None => [] end.
Definition parse_body (has_orig : option nat) (t : list Z) : body :=
  match parse (S (length t)) has_orig t with Some (b, _) => b | None => Noop end.

(* ---- printer *)
Definition sp : bytes := [32%N].
Definition comma : bytes := [44%N].
Definition kind_name (k : rkind) : bytes :=
  lit match k with KVal => "val" | KWtb => "wtb" | KRt => "rt" | KCtor => "ctor" | KCall => "call" end.
Definition fn_name (f : hfn) : bytes :=
  lit match f with FnInit => "init" | FnForce => "force" | FnCapture => "capture" | FnEnter => "enter"
      | FnExit => "exit" | FnFiltExit => "fexit" | FnFiltCall => "fcall" end.
Definition frame_name (f : frame) : bytes :=
  match f with
  | FProg l => lit "p" ++ out_N l
  | FHelper fn k => fn_name fn ++ lit ":" ++ kind_name k
  | FOrig => lit "orig" | FPre => lit "pre" | FPred => lit "pred" | FDeco => lit "deco" | FMeth => lit "meth"
  | FRemover => lit "remover" | FRpoe => lit "rpoe" | FClExit => lit "clexit" | FRwc => lit "rwc"
  end.
Definition out_tb (t : list frame) : bytes := join comma (map frame_name t).
Definition out_org (o : origin) : bytes := match o with OSite l => lit "s" ++ out_N l | ONew => lit "new" end.
Definition out_obj (st : state) (x : option nat) : bytes :=
  match x with
  | None => lit "None"
  | Some i => out_org (eorg (heap st i)) ++ lit ":" ++ out_N (cid (ecls (heap st i)))
  end.
Definition out_log (st : state) (e : logent) : bytes :=
  lit "L" ++ out_N (llab e) ++ lit "=" ++
  (match lvalue e with None => lit "none" | Some i => out_org (eorg (heap st i)) end) ++
  lit "[" ++ out_tb (ltb_ e) ++ lit "]".
Definition report (st : state) (out : outcome) (flag : option bool) (done : bool) : bytes :=
  let x := match out with Normal => None | Raised i => Some i end in
  lit "out=" ++ out_obj st x ++ lit " tb=" ++ (match x with Some i => out_tb (tb_of st i) | None => [] end)
  ++ lit " flag=" ++ (match flag with None => lit "-" | Some true => lit "1" | Some false => lit "0" end)
  ++ lit " logs=" ++ join [59%N] (map (out_log st) (logs st))
  ++ lit " done=" ++ (if done then lit "1" else lit "0")
  ++ lit " rm=" ++ out_N (removed st).
Definition is_normal (o : outcome) : bool := match o with Normal => true | _ => false end.

(* the state after the program raised the original exception (id 0) and entered its handler *)
Definition enter_orig (oc ok : Z) : state :=
  match exec (RaiseOrig (cls_idx oc) (Z.to_N ok)) (sare_blank 0) st0 with
  | (_, st, Raised i) => push i st
  | (_, st, Normal) => st
  end.

Definition run (args : list bytes) : bytes :=
  let op := nth_arg args 0 in
  let zs := map arg_Z (tl args) in
  let z := fun n => nth n zs 0%Z in
  if is_op "sare" op then
    let mode := z 0%nat in let r0 := zb (z 1%nat) in
    let bd := parse_body (if Z.eqb mode 2 then None else Some 0%nat) (skipn 4 zs) in
    if Z.eqb mode 0 then
      let '(s3, st3, outb, out) := with_sare r0 2 (FProg 2) (fun s st => exec bd s st) (enter_orig (z 2%nat) (z 3%nat)) in
      report (pop st3) out (Some (reraise s3)) (is_normal outb)
    else if Z.eqb mode 2 then
      let '(s3, st3, outb, out) := with_sare r0 2 (FProg 2) (fun s st => exec bd s st) st0 in
      report st3 out (Some (reraise s3)) (is_normal outb)
    else if Z.eqb mode 5 then
      (* a shared context object: ctx = sare(r0); <pre: earlier uses of ctx under other exceptions>; then
         try: raise_orig() except: with ctx: body *)
      let toks := skipn 4 zs in
      let pre := parse_body None toks in
      let '(s1, st1, o1) := exec pre (sare_new r0 2 st0) st0 in
      match o1 with
      | Raised j => report st1 (Raised j) None false
      | Normal =>
          let oid := next st1 in
          let bd2 := parse_body (Some oid) (parse_rest None toks) in
          match exec (RaiseOrig (cls_idx (z 2%nat)) (Z.to_N (z 3%nat))) s1 st1 with
          | (_, st2, Raised i) =>
              let '(s3, st3, outb, out) := with_same (FProg 2) (fun s st => exec bd2 s st) s1 (push i st2) in
              report (pop st3) out (Some (reraise s3)) (is_normal outb)
          | (_, st2, Normal) => lit "BAD"
          end
      end
    else if Z.leb 3 mode then
      (* the context object is used again after its with block (what the with raised was caught):
         mode 3: ctx.force_reraise()      mode 4: ctx.capture(); ctx.force_reraise() *)
      let '(s3, st3, outb, _) := with_sare r0 2 (FProg 2) (fun s st => exec bd s st) (enter_orig (z 2%nat) (z 3%nat)) in
      match (if Z.eqb mode 4 then do_capture_stmt (FProg 4) s3 st3 else (s3, st3, Normal)) with
      | (s4, st4, Raised j) => report (pop st4) (Raised j) (Some (reraise s4)) (is_normal outb)
      | (s4, st4, Normal) =>
          let '(s5, st5, out) := do_force (FProg 3) s4 st4 in report (pop st5) out (Some (reraise s5)) (is_normal outb)
      end
    else
      let st := enter_orig (z 2%nat) (z 3%nat) in
      match do_capture_stmt (FProg 2) (sare_new r0 2 st) st with
      | (s1, st1, Raised j) => report (pop st1) (Raised j) (Some (reraise s1)) false
      | (s1, st1, Normal) =>
          match exec bd s1 st1 with
          | (s2, st2, Raised j) => report (pop st2) (Raised j) (Some (reraise s2)) false
          | (s2, st2, Normal) =>
              let '(s3, st3, out) := do_force (FProg 3) s2 st2 in report (pop st3) out (Some (reraise s3)) true
          end
      end
  else if is_op "filter" op then
    let bd := parse_body None (skipn 2 zs) in
    let '(s1, st1, outb) := exec bd (sare_blank 0) st0 in
    let '(_, st2, out) := with_exit FnFiltExit gen_filt_exit (mkp (z 0%nat) 2 (z 1%nat)) (FProg 2) s1 st1 outb in
    report st2 out None (is_normal outb)
  else if is_op "call" op then
    let active := zb (z 3%nat) in
    let st := if active then enter_orig (z 4%nat) (z 5%nat) else st0 in
    let a := z 2%nat in
    let arg := if Z.eqb a 0 then ACur else if Z.eqb a 1 then ANew (cls_idx 0) 2002
               else if Z.eqb a 2 then ANone else if Z.eqb a 4 then AStored (cls_idx (z 6%nat)) 2002
               else if active then AObj 0%nat else ANone in
    let '(_, st1, out) := exec (FilterCall (mkp (z 0%nat) 2 (z 1%nat)) arg 2) (sare_blank 0) st in
    report (if active then pop st1 else st1) out None false
  else if is_op "rpoe" op then
    let rm := z 0%nat in
    let bd := parse_body None (skipn 1 zs) in
    let '(_, st1, outb) := exec bd (sare_blank 0) st0 in
    let '(st2, out) := rpoe_exit (if Z.eqb rm 2 then Some (cls_idx 0) else if Z.eqb rm 3 then Some (cls_idx 2)
                                  else if Z.leb 4 rm then Some (mkcls (101 + Z.to_N rm) true true true) else None)
                                 (FProg 2) st1 outb in
    report st2 out None (is_normal outb)
  else if is_op "cause" op then
    let active := zb (z 2%nat) in
    let st := if active then enter_orig (z 3%nat) (z 4%nat) else st0 in
    let g := z 1%nat in
    let '(st1, given) := if Z.eqb g 0 then (st, None)
                         else if Z.eqb g 1 then let '(st1, i) := alloc (mkobj (cls_idx 0) [] (OSite 4000) None) st in (st1, Some (Some i))
                         else (st, Some None) in
    let '(st2, out) := rwc (mkcls (103 + Z.to_N (z 0%nat)) false true true) given (FProg 2) st1 in
    report (if active then pop st2 else st2) out None false
    ++ lit " cause=" ++ out_obj st2 (match out with Raised i => ecause (heap st2 i) | Normal => None end)
    ++ lit "/" ++ out_obj st2 (match out with Raised i => rwc_dunder_cause st2 i | Normal => None end)
  else lit "BADOP".
Extraction "model.ml" run.
