From Coq Require Import String.
Require Import OV.Base.Bytes OV.Base.Py OV.Base.PyInt OV.Base.Str OV.Base.IO.
Require Import OV.Base.C11_Lib OV.Model.C11.
Require Import OV.Base.C15_PyVal OV.Gen.C15_Netutils OV.Model.C15 OV.Model.C15_Text.
From Coq Require Extraction ExtrOcamlBasic.

(* canonical text of a str: S<cp>.<cp>...  (unambiguous whatever the characters are) *)
Definition show_str (s : str) : bytes := 83%N :: join [46%N] (map dec_of_N s).
Definition show_ostr (o : option str) : bytes := out_opt show_str o.
Definition sp : bytes := [32%N].

(* library outcome tags: V ValueError, A AddrFormatError, T TypeError, anything else other *)
Definition libexn_of (b : bytes) : libexn :=
  if is_op "V" b then LValueError else if is_op "A" b then LAddrFormatError
  else if is_op "T" b then LTypeError else LOtherExn.
Definition mac_of_args (tag v : bytes) : lres eui :=
  if is_op "48" tag then LOk (EUI48 (arg_Z v)) else if is_op "64" tag then LOk (EUI64 (arg_Z v))
  else LExn (libexn_of tag).
Definition net_of_args (tag v : bytes) : lres Z :=
  if is_op "ok" tag then LOk (arg_Z v) else LExn (libexn_of tag).
Definition pyval_of_args (tag v : bytes) : pyval :=
  if is_op "I" tag then VInt (arg_Z v) else if is_op "S" tag then VStr v else VNone.

Definition out_hp (r : res (option str * option Z)) : bytes :=
  out_res (fun p => show_ostr (fst p) ++ sp ++ out_opt out_Z (snd p)) r.
Definition out_eui (r : lres eui) : bytes :=
  match r with
  | LOk (EUI48 v) => lit "48 " ++ out_Z v
  | LOk (EUI64 v) => lit "64 " ++ out_Z v
  | LExn LValueError => out_exn ValueError
  | LExn LTypeError => out_exn TypeError
  | LExn _ => out_exn OtherError
  end.

Fixpoint pairs_of (l : list bytes) : list (str * str) :=
  match l with k :: v :: t => (k, v) :: pairs_of t | _ => [] end.
Definition out_pval (v : pval) : bytes :=
  match v with One s => show_str s | Many l => lit "[" ++ join [44%N] (map show_str l) ++ lit "]" end.

Definition out_aexn (e : aexn) : bytes :=
  match e with
  | AValueError => lit "EXN:ValueError" | ATypeError => lit "EXN:TypeError"
  | AAddrFormatError => lit "EXN:AddrFormatError" | AOSError => lit "EXN:OSError" | AOther => lit "EXN:OtherError"
  end.
Definition out_vv (r : res (Z * Z)) : bytes := out_res (fun r => out_Z (fst r) ++ sp ++ out_Z (snd r)) r.

Definition run (args : list bytes) : bytes :=
  let op := nth_arg args 0 in
  let a := nth_arg args in
  if is_op "eui64" op then
    out_res (fun r => out_Z (fst r) ++ sp ++ out_Z (snd r))
      (get_ipv6_addr_by_EUI64 (arg_bool (a 1%nat)) (arg_bool (a 2%nat)) (arg_bool (a 3%nat))
         (mac_of_args (a 4%nat) (a 5%nat)) (net_of_args (a 6%nat) (a 7%nat)))
  else if is_op "euitext" op then
    (* prefix mactag mac *)
    out_vv (get_ipv6_addr_by_EUI64_gen (a 1%nat)
              (if is_op "I" (a 2%nat) then eui_of_pyint (arg_Z (a 3%nat)) else mac_lres (a 3%nat)))
  else if is_op "euiparse" op then
    match eui_of_text (a 1%nat) with
    | Some (EUI48 v) => lit "48 " ++ out_Z v
    | Some (EUI64 v) => lit "64 " ++ out_Z v
    | None => lit "EXN:AddrFormatError"
    end
  else if is_op "net" op then
    match ipnetwork_v (a 1%nat) with
    | Net v6 value plen => (if v6 then lit "6 " else lit "4 ") ++ out_N value ++ sp ++ out_N plen ++ sp ++ out_N (net_first v6 value plen)
    | NetRaise e => out_aexn e
    end
  else if is_op "mactext" op then out_opt show_str (get_mac_text (arg_Z (a 1%nat)))
  else if is_op "hosttext" op then
    (* host port dtag dval *)
    let esc := escape_ipv6_text (a 1%nat) in
    show_str esc ++ sp ++
    out_hp (parse_host_port (esc ++ [58%N] ++ out_Z (arg_Z (a 2%nat))) VNone) ++ sp ++
    out_hp (parse_host_port esc (pyval_of_args (a 3%nat) (a 4%nat)))
  else if is_op "mac" op then out_eui (get_mac_addr_by_ipv6 (arg_Z (a 1%nat)) (arg_Z (a 2%nat)))
  else if is_op "parse" op then out_hp (parse_host_port (a 1%nat) (pyval_of_args (a 2%nat) (a 3%nat)))
  else if is_op "hostport" op then
    (* valid host port dtag dval *)
    let esc := escape_ipv6 (arg_bool (a 1%nat)) (a 2%nat) in
    show_str esc ++ sp ++
    out_hp (parse_host_port (esc ++ [58%N] ++ out_Z (arg_Z (a 3%nat))) VNone) ++ sp ++
    out_hp (parse_host_port esc (pyval_of_args (a 4%nat) (a 5%nat)))
  else if is_op "urlpost" op then
    match urlsplit_post (a 2%nat) (a 3%nat) (a 4%nat) (a 5%nat) (a 6%nat) (arg_bool (a 1%nat)) with
    | (s, n, p, q, f) => join sp (map show_str [s; n; p; q; f])
    end
  else if is_op "params" op then
    (* query k1 v1 k2 v2 ... *)
    let pairs := pairs_of (tl (tl args)) in
    join [59%N] (map (fun kv => show_str (fst kv) ++ [61%N] ++ show_str (snd kv)) (params_c (a 1%nat) pairs))
    ++ sp ++
    join [59%N] (map (fun kv => show_str (fst kv) ++ [61%N] ++ out_pval (snd kv)) (params_a (a 1%nat) pairs))
  else lit "BADOP".
Extraction "model.ml" run.
