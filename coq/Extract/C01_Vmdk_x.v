(* Extract/C01_Vmdk_x.v — driver for the whole-buffer VMDK specification (Model/C01_Vmdk.v).
   vspec <data> : exn;format_match;complete;virtual_size;safety;zone_text;zone_shortfoot
   (same field syntax as the records of Extract/Insp_x.v; exn = class name or '-'). *)
From Coq Require Import String.
Require Import OV.Base.Bytes OV.Base.Py OV.Base.PyInt OV.Base.Str OV.Base.IO OV.Base.Insp_Struct.
Require Import OV.Gen.Insp_Consts OV.Model.Insp_Engine OV.Model.Insp_All OV.Model.C01_Vmdk.
From Coq Require Extraction ExtrOcamlBasic.
Open Scope N_scope.

Definition out_safety (r : safety_result) : bytes :=
  match r with
  | Pass => lit "pass"
  | Fail names => lit "fail:" ++ join [44] (map cname_str names)
  | Refused => lit "refused"
  | Crash e => lit "crash:" ++ exn_name e
  end.

Definition out_verdict (v : verdict) : bytes :=
  (match v_exn v with Some x => exn_name x | None => [45] end) ++ [59]
  ++ out_res out_bool (v_match v) ++ [59]
  ++ out_bool (v_complete v) ++ [59]
  ++ out_res out_Z (v_vsize v) ++ [59]
  ++ out_safety (v_safety v).

Definition run (args : list bytes) : bytes :=
  let op := nth_arg args 0 in
  if is_op "vspec" op then
    let b := nth_arg args 1 in
    out_verdict (vmdk_spec b) ++ [59] ++ out_bool (zone_vmdk_text b) ++ [59] ++ out_bool (zone_vmdk_shortfoot b)
  else lit "BADOP".
Extraction "model.ml" run.
