(* Extract/C12_x.v — driver of the C12 model: a case is a world (override slot, OS clock)
   followed by a sequence of commands; the output is the result of every command and
   the final override slot. *)
From Coq Require Import String.
From Coq Require Import SpecFloat.
Require Import OV.Base.Bytes OV.Base.Py OV.Base.PyInt OV.Base.Str OV.Base.IO OV.Base.PyFloat.
Require Import OV.Model.C12_Calendar OV.Model.C12_Prim OV.Model.C12 OV.Model.C12_Iso.
From Coq Require Extraction ExtrOcamlBasic.
Open Scope Z_scope.

Definition take1 (args : list bytes) : bytes * list bytes :=
  match args with a :: r => (a, r) | [] => ([], []) end.

(* "N" = None, "S<text>" = the string *)
Definition p_optstr (b : bytes) : option str := match b with 83%N :: s => Some s | _ => None end.
Definition o_optstr (o : option str) : bytes := match o with None => lit "N" | Some s => 83%N :: s end.

Definition p_dt (args : list bytes) : dt * list bytes :=
  let '(w, r) := take1 args in let '(o, r) := take1 r in let '(n, r) := take1 r in
  (mkDt (arg_Z w) (if is_op "N" o then None else Some (mkTz (arg_Z o) (p_optstr n))), r).

Definition comma : bytes := [44%N].
Definition o_dt (d : dt) : bytes :=
  out_Z (wall d) ++ comma ++
  match tz d with None => lit "N,N" | Some z => out_Z (tz_off z) ++ comma ++ o_optstr (tz_name z) end.

Fixpoint p_dts (k : nat) (args : list bytes) : list dt * list bytes :=
  match k with O => ([], args) | S k' => let '(d, r) := p_dt args in let '(l, r') := p_dts k' r in (d :: l, r') end.

Definition p_override (args : list bytes) : override * list bytes :=
  let '(k, r) := take1 args in
  if is_op "one" k then let '(d, r') := p_dt r in (One d, r')
  else if is_op "many" k then let '(n, r') := take1 r in let '(l, r'') := p_dts (arg_nat n) r' in (Many l, r'')
  else (NoOv, r).

Definition o_override (o : override) : bytes :=
  match o with
  | NoOv => lit "no"
  | One d => lit "one:" ++ o_dt d
  | Many l => lit "many:" ++ join [47%N] (map o_dt l)
  end.

Definition p_exn (b : bytes) : exn :=
  if is_op "ValueError" b then ValueError else if is_op "TypeError" b then TypeError
  else if is_op "KeyError" b then KeyError else if is_op "OverflowError" b then OverflowError
  else if is_op "AttributeError" b then AttributeError else if is_op "OSError" b then OSError else OtherError.

(* a res dt: "E" exn | "D" dt *)
Definition p_resdt (args : list bytes) : res dt * list bytes :=
  let '(k, r) := take1 args in
  if is_op "E" k then let '(e, r') := take1 r in (Exn (p_exn e), r')
  else let '(d, r') := p_dt r in (Ok d, r').

(* a time argument: "D" dt | "S" <parse result> | "I" <the ISO text itself> ; returns the argument and the parser oracle *)
Definition p_targ (args : list bytes) : targ * (str -> res dt) * list bytes :=
  let '(k, r) := take1 args in
  if is_op "S" k then let '(p, r') := p_resdt r in (TStr [], fun _ => p, r')
  else if is_op "I" k then let '(s, r') := take1 r in (TStr s, iso_parse, r')
  else let '(d, r') := p_dt r in (TDt d, fun _ => Exn TypeError, r').

(* a zone lookup result: "E" exn | "O" offset tzname(None) *)
Definition p_reszone (args : list bytes) : res zone * list bytes :=
  let '(k, r) := take1 args in
  if is_op "E" k then let '(e, r') := take1 r in (Exn (p_exn e), r')
  else let '(o, r') := take1 r in let '(n, r'') := take1 r' in (Ok (mkZone (fun _ => arg_Z o) (p_optstr n)), r'').

(* a Python number: "i" z | "f" mantissa exponent | "finf" | "f-inf" | "fnan" *)
Definition p_num (args : list bytes) : pynum * list bytes :=
  let '(k, r) := take1 args in
  if is_op "i" k then let '(z, r') := take1 r in (PInt (arg_Z z), r')
  else if is_op "f" k then let '(m, r') := take1 r in let '(e, r'') := take1 r' in
    (PFloat (if arg_Z m =? 0 then S754_zero (is_op "-0" m) else f_normalize (arg_Z m) (arg_Z e)), r'')
  else if is_op "finf" k then (PFloat (S754_infinity false), r)
  else if is_op "f-inf" k then (PFloat (S754_infinity true), r)
  else (PFloat S754_nan, r).

Definition o_unit (r : res unit) : bytes := match r with Ok _ => lit "None" | Exn e => out_exn e end.

Fixpoint o_fexp (e : fexp) : bytes :=
  match e with
  | FInt z => 73%N :: out_Z z
  | FTime => lit "T"
  | FTrunc a => lit "t(" ++ o_fexp a ++ lit ")"
  | FDiv a b => lit "d(" ++ o_fexp a ++ comma ++ o_fexp b ++ lit ")"
  | FAdd a b => lit "a(" ++ o_fexp a ++ comma ++ o_fexp b ++ lit ")"
  end.

Definition o_fields (f : fields) : bytes :=
  join comma (map out_Z [f_year f; f_month f; f_day f; f_hour f; f_minute f; f_second f; f_us f]).

Definition o_mrec (r : mrec) : bytes :=
  join comma (map out_Z [m_year r; m_month r; m_day r; m_hour r; m_minute r; m_second r; m_microsecond r]) ++ comma ++
  match m_tzname r with None => lit "A" | Some v => o_optstr v end.

Definition with_libs (w : world) (p : str -> res dt) (z : str -> res zone) : world := mkW (ov w) (real w) p z.
Definition no_parse : str -> res dt := fun _ => Exn TypeError.
Definition no_zone : str -> res zone := fun _ => Exn KeyError.

Definition p_Z7 (args : list bytes) : list Z * list bytes :=
  (map arg_Z (firstn 7 args), skipn 7 args).

(* one command: returns its printed result, the new world, the remaining arguments *)
Definition step (args : list bytes) (w : world) : bytes * world * list bytes :=
  let '(c, r) := take1 args in
  if is_op "now" c then
    let '(b, r) := take1 r in let '(x, w') := utcnow (arg_bool b) w in (out_res o_dt x, w', r)
  else if is_op "ts" c then
    let '(b, r) := take1 r in let '(x, w') := utcnow_ts (arg_bool b) w in (out_res o_fexp x, w', r)
  else if is_op "set" c then
    let '(o, r) := p_override r in let '(x, w') := set_time_override o w in (o_unit x, w', r)
  else if is_op "clear" c then
    let '(x, w') := clear_time_override w in (o_unit x, w', r)
  else if is_op "adv" c then
    let '(d, r) := take1 r in let '(x, w') := advance_time_delta (arg_Z d) w in (o_unit x, w', r)
  else if is_op "advs" c then
    let '(d, r) := p_num r in let '(x, w') := advance_time_seconds d w in (o_unit x, w', r)
  else if is_op "fx_adv" c then
    let '(d, r) := take1 r in let '(x, w') := fixture_advance_time_delta (arg_Z d) w in (o_unit x, w', r)
  else if is_op "fx_advs" c then
    let '(d, r) := p_num r in let '(x, w') := fixture_advance_time_seconds d w in (o_unit x, w', r)
  else if is_op "fx_set" c then
    let '(o, r) := p_override r in let '(x, w') := fixture_setUp o w in (o_unit x, w', r)
  else if is_op "fx_cleanup" c then
    let '(x, w') := fixture_cleanUp w in (o_unit x, w', r)
  else if is_op "td" c then
    let '(d, r) := p_num r in (out_res out_Z (td_of_seconds d), w, r)
  else if is_op "older" c then
    let '(t, p, r) := p_targ r in let '(s, r) := p_num r in
    let '(x, w') := is_older_than t s (with_libs w p no_zone) in (out_res out_bool x, w', r)
  else if is_op "newer" c then
    let '(t, p, r) := p_targ r in let '(s, r) := p_num r in
    let '(x, w') := is_newer_than t s (with_libs w p no_zone) in (out_res out_bool x, w', r)
  else if is_op "soon" c then
    let '(t, p, r) := p_targ r in let '(s, r) := p_num r in
    let '(x, w') := is_soon t s (with_libs w p no_zone) in (out_res out_bool x, w', r)
  else if is_op "parse" c then
    let '(t, p, r) := p_targ r in
    let '(x, w') := targ_to_dt t (with_libs w p no_zone) in (out_res o_dt x, w', r)
  else if is_op "rparse" c then
    let '(t, r) := take1 r in (out_res o_dt (iso_parse_re t), w, r)
  else if is_op "marsh" c then
    let '(k, r) := take1 r in
    if is_op "N" k then let '(x, w') := marshall_now None w in (out_res o_mrec x, w', r)
    else let '(d, r) := p_dt r in let '(x, w') := marshall_now (Some d) w in (out_res o_mrec x, w', r)
  else if is_op "unm" c then
    let '(f, r) := p_Z7 r in
    let '(tn, r) := take1 r in
    let '(za, r) := p_reszone r in let '(zu, r) := p_reszone r in
    let tzn := if is_op "A" tn then None else Some (p_optstr tn) in
    let key := match p_optstr tn with Some s => s | None => [] end in
    let zl := fun k => if beq k key then za else if beq k utc_name then zu else Exn KeyError in
    let m := mkM (nth 2 f 0) (nth 1 f 0) (nth 0 f 0) (nth 3 f 0) (nth 4 f 0) (nth 5 f 0) (nth 6 f 0) tzn in
    let '(x, w') := unmarshall_time m (with_libs w no_parse zl) in (out_res o_dt x, w', r)
  else if is_op "rt" c then
    let '(d, r) := p_dt r in
    let '(za, r) := p_reszone r in let '(zu, r) := p_reszone r in
    let key := match dt_tzname_none d with Some s => s | None => [] end in
    let zl := fun k => if beq k key then za else if beq k utc_name then zu else Exn KeyError in
    let '(x, w') := bindM (marshall_now (Some d)) unmarshall_time (with_libs w no_parse zl) in (out_res o_dt x, w', r)
  else if is_op "norm" c then
    let '(d, r) := p_dt r in (out_res o_dt (normalize_time d), w, r)
  else if is_op "dsec" c then
    let '(a, r) := p_dt r in let '(b, r) := p_dt r in (out_res o_fexp (delta_seconds a b), w, r)
  else if is_op "fields" c then
    let '(u, r) := take1 r in (o_fields (fields_of_us (arg_Z u)), w, r)
  else if is_op "mk" c then
    let '(f, r) := p_Z7 r in
    (out_res o_dt (mk_datetime (mkF (nth 0 f 0) (nth 1 f 0) (nth 2 f 0) (nth 3 f 0) (nth 4 f 0) (nth 5 f 0) (nth 6 f 0))), w, r)
  else if is_op "isofmt" c then
    let '(d, r) := p_dt r in (iso_format d, w, r)
  else (lit "BADOP", w, []).

Fixpoint exec (fuel : nat) (args : list bytes) (w : world) (acc : list bytes) : list bytes * world :=
  match fuel with
  | O => (acc, w)
  | S f => match args with
           | [] => (acc, w)
           | _ => let '(o, w', r) := step args w in exec f r w' (acc ++ [o])
           end
  end.

(* run [override] [real clock] commands... *)
Definition run (args : list bytes) : bytes :=
  let '(o, r) := p_override args in
  let '(rl, r) := take1 r in
  let w := mkW o (arg_Z rl) no_parse no_zone in
  let '(outs, w') := exec (length r) r w [] in
  join [59%N] (outs ++ [o_override (ov w')]).
Extraction "model.ml" run.
