From Coq Require Import String.
Require Import OV.Base.Bytes OV.Base.Py OV.Base.PyInt OV.Base.Str OV.Base.Regex OV.Base.IO OV.Base.PyFloat.
Require Import OV.Model.C10_Regex OV.Gen.C10_Units OV.Model.C10.
From Coq Require Extraction ExtrOcamlBasic.

(* ---- Base/PyFloat.v against CPython ---- *)
Definition out_float (x : float64) : bytes := float_hex x.
Definition fl (b : bytes) : float64 := match py_float_of_str b with Some x => x | None => f_nan end.
Definition out_b (b : bool) : bytes := if b then [49%N] else [48%N].

Definition run_pf (op : bytes) (args : list bytes) : bytes :=
  let a := nth_arg args 1 in
  let b := nth_arg args 2 in
  if is_op "pf_str" op then
    match py_float_of_str a with Some x => out_float x | None => out_exn ValueError end
  else if is_op "pf_ofz" op then
    match float_of_Z (arg_Z a) with Some x => out_float x | None => out_exn OverflowError end
  else if is_op "pf_arith" op then
    out_float (f_mul (fl a) (fl b)) ++ [32%N] ++
    match f_div (fl a) (fl b) with Some x => out_float x | None => lit "EXN:ZeroDivisionError" end ++ [32%N] ++
    out_float (f_add (fl a) (fl b)) ++ [32%N] ++ out_float (f_sub (fl a) (fl b))
  else if is_op "pf_cmp" op then
    out_b (f_eqb (fl a) (fl b)) ++ out_b (f_ltb (fl a) (fl b)) ++ out_b (f_leb (fl a) (fl b)) ++
    out_b (f_gtb (fl a) (fl b)) ++ out_b (f_geb (fl a) (fl b)) ++ out_b (f_neb (fl a) (fl b))
  else if is_op "pf_int" op then
    out_res out_Z (ceil_to_Z (fl a)) ++ [32%N] ++ out_res out_Z (floor_to_Z (fl a)) ++ [32%N] ++
    out_res out_Z (trunc_to_Z (fl a)) ++ [32%N] ++ out_bool (f_is_integer (fl a)) ++ [32%N] ++ float_fmt_f0 (fl a)
  else if is_op "pf_ratio" op then
    out_float (f_of_ratio false (Z.to_pos (arg_Z a)) (Z.to_pos (arg_Z b)))
  else lit "BADOP".

(* ---- the property's functions ---- *)
Definition out_num (n : num) : bytes :=
  match n with NInt z => lit "i:" ++ out_Z z | NFloat x => lit "f:" ++ float_hex x end.

Definition out_span (g : groups) (i : nat) : bytes :=
  match gget g i with Some (a, b) => out_N a ++ [45%N] ++ out_N b | None => lit "None" end.

Definition run (args : list bytes) : bytes :=
  let op := nth_arg args 0 in
  if is_op "s2b" op then
    out_res out_num (string_to_bytes (nth_arg args 1) (nth_arg args 2) (arg_bool (nth_arg args 3)))
  else if is_op "xb" op then out_res out_Z (extract_bytes (nth_arg args 1))
  else if is_op "rx" op then
    match lookup (nth_arg args 2) unit_system_info with
    | None => lit "NOSYS"
    | Some (_, r) => match rz_match r (nth_arg args 1) with
                     | None => lit "None"
                     | Some (e, g) => out_N e ++ [32%N] ++ out_span g 1 ++ [32%N] ++ out_span g 2 ++ [32%N] ++ out_span g 3
                     end
    end
  else if is_op "qf" op then
    match size_of_line (nth_arg args 1) with
    | None => lit "OTHER"
    | Some (root, v) => root ++ [32%N] ++ out_res out_Z v
    end
  else if is_op "rxs" op then
    match re_search size_re (nth_arg args 1) with
    | None => lit "None"
    | Some (s, e, g) => out_N s ++ [45%N] ++ out_N e ++ [32%N] ++ out_span g 1 ++ [32%N] ++ out_span g 2 ++ [32%N] ++ out_span g 3 ++ [32%N] ++ out_span g 4
    end
  else run_pf op args.
Extraction "model.ml" run.
