(* Extract/Insp_x.v — driver for the inspector model.
   insp <fmt> <data> <sizes> [<late chunk>] :
     cut <data> into chunks of the given sizes (rest, if any, is one more chunk), feed them until the
     first exception, finish, optionally feed <late chunk> after finish; print one record after every
     eat_chunk and after finish:
       exn;format_match;complete;virtual_size;safety;position;name:offset:length:len(data),...
     records joined by '|', then '|#' and per region name=len.sum.weightedsum of the retained bytes. *)
From Coq Require Import String.
Require Import OV.Base.Bytes OV.Base.Py OV.Base.PyInt OV.Base.Str OV.Base.IO OV.Base.Insp_Struct.
Require Import OV.Gen.Insp_Consts OV.Model.Insp_Engine OV.Model.Insp_All.
From Coq Require Extraction ExtrOcamlBasic.
Open Scope N_scope.

Definition parse_fmt (b : bytes) : option fmt_id := List.find (fun f => beq (fmt_name f) b) all_formats.

Fixpoint split_sizes (data : bytes) (sizes : list N) : list bytes :=
  match sizes with
  | [] => match data with [] => [] | _ => [data] end
  | n :: t => ntake n data :: split_sizes (nskip n data) t
  end.

Definition out_safety (r : safety_result) : bytes :=
  match r with
  | Pass => lit "pass"
  | Fail names => lit "fail:" ++ join [44] (map cname_str names)
  | Refused => lit "refused"
  | Crash e => lit "crash:" ++ exn_name e
  end.

Definition out_region (p : rname * region) : bytes :=
  rname_str (fst p) ++ [58] ++ out_N (r_off (snd p)) ++ [58] ++ out_N (r_len (snd p)) ++ [58] ++ out_N (flen (r_data (snd p))).

Definition record (e : option exn) (i : istate) : bytes :=
  (match e with Some x => exn_name x | None => [45] end) ++ [59]
  ++ out_res out_bool (format_match i) ++ [59]
  ++ out_bool (complete i) ++ [59]
  ++ out_res out_Z (virtual_size i) ++ [59]
  ++ out_safety (safety i) ++ [59]
  ++ out_N (position i) ++ [59]
  ++ join [44] (map out_region (regions_of i)).

(* sum and position-weighted sum of the bytes *)
Fixpoint sums (b : bytes) (i s1 s2 : N) : N * N :=
  match b with [] => (s1, s2) | x :: t => sums t (i + 1) (s1 + x) (s2 + i * x) end.
Definition out_sum (p : rname * region) : bytes :=
  let '(s1, s2) := sums (r_data (snd p)) 1 0 0 in
  rname_str (fst p) ++ [61] ++ out_N (flen (r_data (snd p))) ++ [46] ++ out_N s1 ++ [46] ++ out_N s2.

(* feed, recording after every chunk; stops at the first exception *)
Fixpoint feed (i : istate) (cs : list bytes) (acc : list bytes) : istate * list bytes :=
  match cs with
  | [] => (i, acc)
  | c :: t =>
    let '(i', e) := eat i c in
    let acc' := record e i' :: acc in
    match e with Some _ => (i', acc') | None => feed i' t acc' end
  end.

Definition run (args : list bytes) : bytes :=
  let op := nth_arg args 0 in
  if is_op "insp" op then
    match parse_fmt (nth_arg args 1) with
    | None => lit "BADFMT"
    | Some f =>
      let cs := split_sizes (nth_arg args 2) (nth_arg args 3) in
      let '(i, acc) := feed (init f) cs [] in
      let i1 := finish i in
      let acc1 := record None i1 :: acc in
      let '(i2, acc2) := if (4 <? length args)%nat
                         then (let '(i2, e) := eat i1 (nth_arg args 4) in (i2, record e i2 :: acc1))
                         else (i1, acc1) in
      join [124] (rev acc2) ++ lit "|#" ++ join [44] (map out_sum (regions_of i2))
    end
  else lit "BADOP".
Extraction "model.ml" run.
