(* Model/C05.v — definitions for property C05 ("inspector memory is bounded by a constant, whatever the
   stream claims") on top of the shared inspector model (Model/Insp_*.v).  Definitions only.

   What the property talks about:
     total (context_info i)       sum(FileInspector.context_info.values())
     C05_bound f                  the bound of the property text (bytes)
     reachable f i                i is a state of a cls()-fresh inspector of format f after any sequence of
                                  eat_chunk (whether or not it raised — the object stays usable) and finish calls
   The static envelope of a format = the regions it can ever own and the largest length each may have,
   built from the GENERATED constants (Gen/Insp_Consts.v): the _initialize regions as read from a fresh
   instance, plus, for VHDX, metadata (2048*32) and vds (VHDX_METADATA_TABLE_MAX_SIZE) and, for VMDK, the
   re-created descriptor (DESC_MAX_SIZE) and the footer (EndCaptureRegion(1536)). *)
Require Import OV.Base.Bytes OV.Base.Py OV.Base.Insp_Struct OV.Gen.Insp_Consts OV.Model.Insp_Engine OV.Model.Insp_All.
Open Scope N_scope.

(* sum(context_info.values()) *)
Definition total (ci : list (rname * N)) : N := fold_right N.add 0 (map snd ci).

(* the property text: 1.5 MiB for VMDK, 512 KiB for every other format *)
Definition C05_bound (f : fmt_id) : N :=
  match f with F_vmdk => 1572864 | _ => 524288 end.

(* ---------- envelopes ---------- *)
Definition env := list (rname * N).

Fixpoint cap_of (e : env) (n : rname) : N :=
  match e with
  | [] => 0
  | (k, c) :: t => if rname_beq k n then c else cap_of t n
  end.

(* add a region name with a cap; a name already present keeps the larger cap *)
Fixpoint env_add (n : rname) (c : N) (e : env) : env :=
  match e with
  | [] => [(n, c)]
  | (k, c0) :: t => if rname_beq k n then (k, N.max c0 c) :: t else (k, c0) :: env_add n c t
  end.

(* the regions created by _initialize (generated from a fresh instance) *)
Definition init_env (f : fmt_id) : env :=
  fold_right (fun p e => env_add (fst p) (rs_len (snd p)) e) [] (rev (init_regions f)).

Definition envelope (f : fmt_id) : env :=
  match f with
  | F_vhdx => env_add R_vds VHDX_VHDX_METADATA_TABLE_MAX_SIZE
                (env_add R_metadata (VHDX_META_A * VHDX_META_B) (init_env F_vhdx))
  | F_vmdk => env_add R_footer VMDK_FOOTER_LEN
                (env_add R_descriptor VMDK_DESC_MAX_SIZE (init_env F_vmdk))
  | f => init_env f
  end.

Definition env_total (e : env) : N := fold_right N.add 0 (map snd e).

(* ---------- the per-region invariant ---------- *)
(* what is retained never exceeds the region's length, the length never exceeds the cap, and a tail region
   (only ever stored under the name 'footer') has a non-zero length (data[0 - 0:] would keep everything) *)
(* the only name a tail region (EndCaptureRegion) is ever stored under *)
Definition is_tail (n : rname) : bool := match n with R_footer => true | _ => false end.

Definition reg_ok (c : N) (t : bool) (r : region) : Prop :=
  flen (r_data r) <= r_len r /\ r_len r <= c /\ (r_end r = true -> t = true /\ r_len r <> 0).

Definition ent_ok (e : env) (p : rname * region) : Prop :=
  In (fst p) (map fst e) /\ reg_ok (cap_of e (fst p)) (is_tail (fst p)) (snd p).

Definition regs_ok (e : env) (l : regions) : Prop :=
  NoDup (map fst l) /\ Forall (ent_ok e) l.

(* decidable version for region specs *)
Definition spec_okb (e : env) (n : rname) (sp : rspec) : bool :=
  mem_rname n (map fst e) && (rs_len sp <=? cap_of e n) && (negb (rs_end sp) || (is_tail n && negb (rs_len sp =? 0))).

Fixpoint nodupb (l : list rname) : bool :=
  match l with [] => true | x :: t => negb (mem_rname x t) && nodupb t end.

(* ---------- reachable inspector states ---------- *)
Inductive reachable (f : fmt_id) : istate -> Prop :=
| reach_init : reachable f (init f)
| reach_eat : forall i chunk, reachable f i -> reachable f (fst (eat i chunk))
| reach_finish : forall i, reachable f i -> reachable f (finish i).

(* the states InspectWrapper-style feeding goes through: after every prefix of the chunk list *)
Definition state_after (f : fmt_id) (cs : list bytes) : istate := fst (eat_list (init f) cs).

(* ---------- hostile streams for the examples ---------- *)
Definition zeros (n : N) : bytes := repeatN 0 (N.to_nat n).

(* a VMDK sparse header: KDMV, version 1, descriptor at sector 1, the given descriptor sector count and gdOffset *)
Definition vmdk_header (desc_num gd : N) : bytes :=
  VMDK_MAGIC_PP ++ le_enc 4 1 ++ le_enc 4 3 ++ le_enc 8 2048 ++ le_enc 8 128 ++ le_enc 8 1 ++ le_enc 8 desc_num
  ++ le_enc 4 512 ++ le_enc 8 1 ++ le_enc 8 gd ++ zeros (512 - 64).

(* header announcing 2^64-1 descriptor sectors and a footer, followed by n bytes *)
Definition hostile_vmdk (n : N) : bytes :=
  vmdk_header 18446744073709551615 VMDK_GD_AT_END ++ repeatN 65 (N.to_nat n).

(* a VHDX stream: ident, region table at 192 KiB with one metadata entry (offset 256 KiB), metadata table with one
   virtual-disk-size entry of the given item offset and item length, [n] bytes in all *)
Definition vhdx_stream (item_off item_len n : N) : bytes :=
  let ident := VHDX_MAGIC ++ zeros (196608 - 8) in
  let rt := le_enc 4 VHDX_REGI ++ le_enc 4 0 ++ le_enc 4 1 ++ le_enc 4 0
            ++ VHDX_GUID_METAREGION ++ le_enc 8 262144 ++ le_enc 4 1048576 ++ le_enc 4 1 in
  let mt := VHDX_META_SIG ++ le_enc 2 0 ++ le_enc 2 1 ++ zeros 20
            ++ VHDX_GUID_VIRTUAL_DISK_SIZE ++ le_enc 4 item_off ++ le_enc 4 item_len ++ zeros 4 in
  let pre := ident ++ rt ++ zeros (65536 - 48) ++ mt in
  pre ++ repeatN 7 (N.to_nat (n - flen pre)).
Definition hostile_vhdx : bytes := vhdx_stream 65536 4294967295 400000.
