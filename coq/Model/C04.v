(* Model/C04.v — strutils.mask_password exactly as written (definitions only).

     message = str(message)                       -- the model takes a str
     for key in _SANITIZE_KEYS:                   -- gen_concrete is in that order
         if key in message.lower():               -- full str.lower(): [lower] = Base/Str.py_lower
             for pattern in _SANITIZE_PATTERNS_2[key]:        message = re.sub(pattern, r'\g<1>'+secret+r'\g<2>', message)
             for pattern in _SANITIZE_PATTERNS_1[key]:        message = re.sub(pattern, r'\g<1>'+secret, message)
             for pattern in _SANITIZE_PATTERNS_WILDCARD[key]: message = re.sub(pattern, r'\g<1>', message)
     return message

   The loop order and the three replacement templates are read from the AST of
   the function (gen_steps); the regexes are the compiled objects of the module
   (gen_concrete).  `secret` is spliced into a replacement TEMPLATE by the code:
   modelled for secrets without a backslash (then the template text is literal);
   a secret containing a backslash is outside the model. *)
Require Import OV.Base.Bytes OV.Base.PyInt OV.Base.Str OV.Base.Regex OV.Base.C04_Tmpl.
Require Import OV.Gen.Unicode OV.Gen.C04_Sanitize OV.Gen.C04_Concrete.
Open Scope N_scope.

(* str.lower(): Base/Str.py_lower with a fast path for ASCII (Proofs/C04.v: lower = py_lower) *)
Definition lower1 (c : N) : list N := if c <? 128 then [lower_ascii1 c] else py_lower1 c.
Definition lower (s : str) : str := flat_map lower1 s.

Definition entry := (str * (list re * (list re * list re)))%type.

(* one `for pattern in <list>[key]: message = re.sub(pattern, <tmpl>, message)` loop *)
Definition run_step (secret : str) (pats : list re * (list re * list re)) (m : str)
           (st : sel * (str -> list titem)) : str :=
  fold_left (fun m r => re_sub r (snd st secret) m) (pick (fst st) pats) m.

(* the body of the key loop *)
Definition apply_key (steps : list (sel * (str -> list titem))) (secret : str) (m : str) (e : entry) : str :=
  if occursb (fst e) (lower m) then fold_left (run_step secret (snd e)) steps m else m.

Definition mask_with (tbl : list entry) (m secret : str) : str :=
  fold_left (apply_key gen_steps secret) tbl m.

Definition mask_password (m secret : str) : str := mask_with gen_concrete m secret.

(* the same function over the TEMPLATES instantiated at the generated keys
   (Proofs/C04.v: gen_concrete = template_table, hence the two coincide) *)
Definition template_entry (k : str) : entry := (k, (gen_tp2 k, (gen_tp1 k, gen_tpw k))).
Definition template_table : list entry := map template_entry gen_keys.

(* K12 zone, a predicate on the INPUT message alone: some sanitize key occurs in
   lower(message) and that key's wildcard pattern matches somewhere in it *)
Definition matches_somewhere (r : re) (m : str) : bool :=
  match re_search r m with Some _ => true | None => false end.
Definition zone_K12_at (m : str) (e : entry) : bool :=
  occursb (fst e) (lower m) && existsb (fun r => matches_somewhere r m) (snd (snd (snd e))).
Definition zone_K12 (m : str) : bool := existsb (zone_K12_at m) gen_concrete.

(* K14 zone, a predicate on the INPUT message alone: `--K2<digits> <flag-like value> <another word>`
   where an earlier key K1 of the list is a proper suffix of K2 (then K1's `key --flag value`
   pattern takes the value for the flag and masks the next word too) *)
Definition z14_flag : cset := match gen_tp2_9 [] with
  | Seq (Group _ (Seq _ (Seq _ (Seq _ (Seq _ (Seq (Rep cs _ _) _)))))) _ => cs | _ => [] end.
Definition z14_nonspace : cset := match gen_tp2_9 [] with Seq _ (Seq (Rep cs _ _) _) => cs | _ => [] end.
Definition zone_K14_re (k2 : str) : re :=
  Seq (Rep [(45, 45)] 2 (Some 2%nat)) (keyseq gen_ci_table k2 (Seq (Rep [(48, 57)] 0 None) (Seq (Rep py_space 1 None)
    (Seq (Chr [(45, 45)]) (Seq (Rep [(45, 45)] 0 (Some 1%nat)) (Seq (Rep z14_flag 1 None) (Seq (Rep py_space 1 None) (Chr z14_nonspace)))))))).
Definition proper_suffix (k1 k2 : str) : bool :=
  Nat.ltb (length k1) (length k2) && beq (skipn (length k2 - length k1) k2) k1.
Fixpoint k14_keys (ks : list str) : list str :=      (* keys that have an EARLIER key as proper suffix *)
  match ks with
  | [] => []
  | k :: t => filter (proper_suffix k) t ++ k14_keys t
  end.
Definition zone_K14 (m : str) : bool :=
  existsb (fun k2 => matches_somewhere (zone_K14_re k2) m) (k14_keys gen_keys).
