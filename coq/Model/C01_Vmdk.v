(* Model/C01_Vmdk.v — the whole-buffer specification of VMDKInspector's final verdict and the
   two known-finding zones, as functions of the byte string alone.  Nothing in this file knows
   about chunks, stream positions, capture regions or inspector states: [vmdk_spec b] reads
   fields at fixed offsets of [b], the descriptor b[512 : 512+size], and the last 1536 bytes.

   Definitions only; the refinement theorem is Proofs/C01_Vmdk_Run.v / Properties/C01_Vmdk.v. *)
Require Import OV.Base.Bytes OV.Base.Py OV.Base.PyInt OV.Base.Str OV.Base.Insp_Struct OV.Gen.Insp_Consts.
Require Import OV.Model.Insp_Engine OV.Model.Insp_Vmdk OV.Model.Insp_All.
Open Scope N_scope.

(* ---------------------------------------------------------------- header fields: b[0:64] unpacked as '<4sIIQQQQIQQ' *)
Definition vh (b : bytes) : bytes := btake VMDK_MIN_SPARSE_HEADER b.
Definition vh_sig (b : bytes) : bytes := sraw sf_vmdk_sparse 0 (vh b).
Definition vh_ver (b : bytes) : N := sint sf_vmdk_sparse 1 (vh b).
Definition vh_desc_sec (b : bytes) : N := sint sf_vmdk_sparse 5 (vh b).
Definition vh_desc_num (b : bytes) : N := sint sf_vmdk_sparse 6 (vh b).
Definition vh_gd (b : bytes) : N := sint sf_vmdk_sparse 9 (vh b).
(* virtual_size reads b[0:44] as '<IIIQQQQ'; field 3 = capacity in sectors *)
Definition vh_sectors (b : bytes) : N := sint sf_vmdk_vs 3 (btake VMDK_VS_SLICE b).

Definition ver_ok (ver : N) : bool := (ver =? VMDK_VER_A) || (ver =? VMDK_VER_B) || (ver =? VMDK_VER_C).

(* ---------------------------------------------------------------- the descriptor *)
(* the text up to the first NUL (the whole data when there is none) *)
Definition upto_nul (d : bytes) : bytes :=
  match find VMDK_NUL d with Some i => ntake i d | None => d end.

(* _parse_descriptor on descriptor data d: (desc_text, vmdktype); None = not ASCII (nothing is set) *)
Definition parse_desc (d : bytes) : option (str * str) :=
  let t := upto_nul d in
  if forallb is_ascii t then Some (lower_ascii t, vmdk_type_of (lower_ascii t)) else None.

(* check_descriptor for given desc_text / vmdktype (the body of vmdk_check_descriptor) *)
Definition check_descriptor_of (text : option str) (ty : str) : res unit :=
  match text with
  | None | Some [] => violation
  | Some text =>
    if negb (mem_str ty VMDK_SUBFORMATS) then violation else
    let lines := map strip (split_char VMDK_CH_NL text) in
    if existsb (fun l => is_bad (classify_line l)) lines then violation else
    let extents := filter (fun l => is_extent (classify_line l)) lines in
    if existsb (memN VMDK_CH_SLASH) extents then violation else
    match extents with [] => violation | _ => Ok tt end
  end.

(* ---------------------------------------------------------------- the footer *)
(* _parse_sparse_header on exactly the 64 bytes handed to struct.unpack *)
Definition parse64 (x : bytes) : res (bytes * N * N * N * N) :=
  do u <- unpack sf_vmdk_sparse x;
  Ok (sraw sf_vmdk_sparse 0 u, sint sf_vmdk_sparse 1 u, sint sf_vmdk_sparse 5 u,
      sint sf_vmdk_sparse 6 u, sint sf_vmdk_sparse 9 u).

(* the last n bytes of b (all of b when it is shorter) *)
Definition last_bytes (n : N) (b : bytes) : bytes := bskip (blen b - n) b.

(* check_footer for header bytes h = b[0:64] and footer bytes f = b[-1536:] (the body of vmdk_check_footer) *)
Definition check_footer_of (h f : bytes) : res unit :=
  do hh <- parse64 h;
  do ff <- parse64 (nsub VMDK_FT_HDR_OFF (VMDK_FT_HDR_OFF + VMDK_MIN_SPARSE_HEADER) f);
  let '(h_sig, h_ver, h_desc_sec, h_desc_num, h_goff) := hh in
  let '(f_sig, f_ver, f_desc_sec, f_desc_num, f_goff) := ff in
  if negb (beq h_sig f_sig) then violation else
  if negb (h_ver =? f_ver) then violation else
  if negb (h_desc_sec =? f_desc_sec) || negb (h_desc_num =? f_desc_num) then violation else
  if f_goff =? VMDK_GD_AT_END then violation else
  let pad := repeatN (hd 0 VMDK_PAD_BYTE) (N.to_nat VMDK_FT_PAD) in
  do m1 <- unpack sf_vmdk_marker (ntake VMDK_FT_FIRST f);
  if negb (sint sf_vmdk_marker 1 m1 =? 0) || negb (sint sf_vmdk_marker 2 m1 =? VMDK_MARKER_FOOTER)
     || negb (beq (sraw sf_vmdk_marker 3 m1) pad) then violation else
  do m2 <- unpack sf_vmdk_marker2 (nlast VMDK_FT_LAST f);
  if negb (sint sf_vmdk_marker2 0 m2 =? 0) || negb (sint sf_vmdk_marker2 1 m2 =? 0)
     || negb (sint sf_vmdk_marker2 2 m2 =? VMDK_MARKER_EOS) || negb (beq (sraw sf_vmdk_marker2 3 m2) pad) then violation
  else Ok tt.

(* ---------------------------------------------------------------- safety_check() from its ingredients *)
Definition spec_safety (complete : bool) (fmatch : bool) (checks : list (cname * res unit)) : safety_result :=
  if negb complete then Refused
  else if negb fmatch then Refused
  else match filter (fun p => is_exn (snd p)) checks with
       | [] => Pass
       | failed => Fail (map fst failed)
       end.

(* ---------------------------------------------------------------- the verdict as a function of the bytes *)
Definition vmdk_spec (b : bytes) : verdict :=
  let fmatch := prefixb VMDK_MAGIC b in
  if blen b <? VMDK_MIN_SPARSE_HEADER then
    (* fewer than 64 bytes: the header is never examined; nothing can be concluded *)
    mkVerdict None (Ok fmatch) false (Ok 0%Z) Refused
  else if negb (beq (vh_sig b) VMDK_MAGIC_PP) || negb (ver_ok (vh_ver b)) then
    (* "Signature KDMV not found" / "Unsupported format version": ImageFormatError; the two initial
       regions are complete, no usable descriptor exists *)
    mkVerdict (Some ImageFormatError) (Ok fmatch) true (Ok 0%Z)
              (spec_safety true fmatch [(K_descriptor, violation)])
  else
    let footer := vh_gd b =? VMDK_GD_AT_END in
    if negb (vh_desc_sec b * VMDK_SECTOR_A =? VMDK_DESC_OFFSET) then
      (* "Wrong descriptor location": ImageFormatError; a footer region announced by the header stays empty *)
      mkVerdict (Some ImageFormatError) (Ok fmatch) (negb footer) (Ok 0%Z)
                (spec_safety (negb footer) fmatch [(K_descriptor, violation)])
    else
      let dsize := N.min (vh_desc_num b * VMDK_SECTOR_B) VMDK_DESC_MAX_SIZE in
      let d := bslice VMDK_DESC_OFFSET dsize b in
      let dcomplete := blen d =? dsize in
      let parsed := if dcomplete then parse_desc d else None in
      let fcomplete := if footer then VMDK_FOOTER_LEN <=? blen b else true in
      let complete := dcomplete && fcomplete in
      let vsize := match parsed with
                   | Some (_ :: _ as text, ty) =>
                     if mem_str ty VMDK_SUBFORMATS then Z.of_N (vh_sectors b * VMDK_VS_SECTOR) else 0%Z
                   | _ => 0%Z
                   end in
      let cdesc := match parsed with Some (text, ty) => check_descriptor_of (Some text) ty | None => violation end in
      let checks := (K_descriptor, cdesc) ::
                    (if footer then [(K_footer, check_footer_of (vh b) (last_bytes VMDK_FOOTER_LEN b))] else []) in
      mkVerdict None (Ok fmatch) complete (Ok vsize) (spec_safety complete fmatch checks).

(* ---------------------------------------------------------------- the zones of the known findings F1 and F3
   (decidable predicates on the bytes; they mirror tools/props/C01.py: zone) *)
Definition valid_magic_ver (b : bytes) : bool :=
  beq (btake 4 b) VMDK_MAGIC_PP && ver_ok (le_val (bslice 4 4 b)).

(* F1: not (KDMV and version in {1,2,3}) and ( the literal createtype= followed by a double quote occurs case-insensitively before the first NUL
       or the first 64 bytes exist, are printable/whitespace ASCII and do not start with KDMV ) *)
Definition zone_vmdk_text (b : bytes) : bool :=
  negb (valid_magic_ver b) &&
  (occursb VMDK_CREATETYPE (lower_ascii (upto_nul b))
   || ((VMDK_MIN_SPARSE_HEADER <=? blen b) && forallb ascii_text (btake VMDK_MIN_SPARSE_HEADER b)
       && negb (beq (btake 4 b) VMDK_MAGIC_PP))).

(* F3: KDMV, version in {1,2,3}, gdOffset = GD_AT_END and fewer than 63 + 1536 bytes *)
Definition zone_vmdk_shortfoot (b : bytes) : bool :=
  valid_magic_ver b && (le_val (bslice 56 8 b) =? VMDK_GD_AT_END) && (blen b <? 63 + VMDK_FOOTER_LEN).

Definition C01_vmdk_full_statement : Prop :=
  forall b cs, concat cs = b -> verdict_of (run F_vmdk cs) = vmdk_spec b.
