(* Model/Insp_Qed.v — QEDInspector *)
Require Import OV.Base.Bytes OV.Base.Py OV.Base.Insp_Struct OV.Gen.Insp_Consts OV.Model.Insp_Engine.
Open Scope N_scope.

Definition qed_match (s : ist unit) : res bool :=
  do r <- get_region R_header s;
  if negb (rcomplete r) then Ok false else Ok (prefixb QED_MAGIC (r_data r)).

Definition qed_check (c : cname) (_ : ist unit) : res unit :=
  match c with K_banned => check_banned | _ => check_unknown end.

Definition qed_fmt : fmt unit :=
  mkFmt F_qed tt no_post no_rcomplete qed_match base_vsize qed_check.
