(* Model/C14.v — hand-written executable model of the scalar parsers / validators of
   oslo_utils/strutils.py and oslo_utils/uuidutils.py (definitions only).
   [lim] is sys.get_int_max_str_digits() (0 = unlimited): str(int) and int(str) raise
   ValueError beyond it, and the code under study inherits that. *)
From Coq Require Import String.
Require Import OV.Base.Bytes OV.Base.Py OV.Base.PyInt OV.Base.Str OV.Model.C14_Py OV.Gen.C14.
Open Scope Z_scope.

(* try: r  except <names>: h *)
Definition try_except {A} (names : list exn) (r : res A) (h : res A) : res A :=
  match r with
  | Ok a => Ok a
  | Exn e => if catches names e then h else Exn e
  end.

(* ---------- strutils.bool_from_string ---------- *)
(* the text the words are looked up with: subject.strip().lower() *)
Definition norm_bool (s : str) : str := py_lower (strip s).

Definition classify_bool (s : str) (strict : bool) (default : pyval) : res pyval :=
  let lowered := norm_bool s in
  if mem_str lowered TRUE_STRINGS then Ok (PBool true)
  else if mem_str lowered FALSE_STRINGS then Ok (PBool false)
  else if strict then Exn ValueError
  else Ok default.

Definition bool_from_string (lim : N) (subject : pyval) (strict : bool) (default : pyval) : res pyval :=
  match subject with
  | PBool b => Ok (PBool b)
  | _ => do s <- py_str lim subject; classify_bool s strict default
  end.

Definition int_from_bool_as_string (lim : N) (subject : pyval) : res Z :=
  do b <- bool_from_string lim subject false (PBool false); py_int_of lim b.

Definition is_valid_boolstr (lim : N) (value : pyval) : res bool :=
  do s <- py_str lim value; Ok (mem_str (py_lower s) (TRUE_STRINGS ++ FALSE_STRINGS)).

(* ---------- strutils.is_int_like ---------- *)
Definition is_int_like (lim : N) (val : pyval) : res bool :=
  try_except [TypeError; ValueError; OverflowError]
    (do i <- py_int_of lim val; do a <- str_of_int lim i; do b <- py_str lim val; Ok (beq a b))
    (Ok false).

(* ---------- strutils.check_string_length ---------- *)
Definition check_string_length (value : pyval) (min_length : Z) (max_length : option Z) : res unit :=
  match value with
  | PStr s =>
      if zlen s <? min_length then Exn ValueError
      else match max_length with
           | Some m => if negb (m =? 0) && (zlen s >? m) then Exn ValueError else Ok tt
           | None => Ok tt
           end
  | _ => Exn TypeError
  end.

(* ---------- strutils.validate_integer ---------- *)
Definition below (v : Z) (b : option Z) : bool := match b with Some m => v <? m | None => false end.
Definition above (v : Z) (b : option Z) : bool := match b with Some m => v >? m | None => false end.

Definition validate_integer (lim : N) (value : pyval) (min_value max_value : option Z) : res Z :=
  do v <- try_except [ValueError] (do s <- py_str lim value; py_int_of lim (PStr s)) (Exn ValueError);
  if below v min_value then Exn ValueError
  else if above v max_value then Exn ValueError
  else Ok v.

(* ---------- uuidutils ---------- *)
Definition format_uuid_string (s : str) : str := py_lower (uuid_strip s).

Definition is_uuid_like (lim : N) (val : pyval) : res bool :=
  try_except [TypeError; ValueError; AttributeError]
    (do u <- uuid_UUID lim val; do s <- need_str val;
     Ok (beq (replace [45%N] [] (uuid_str u)) (format_uuid_string s)))
    (Ok false).

(* generate_uuid: [u4] is the integer of the UUID that uuid.uuid4() returned *)
Definition generate_uuid (u4 : N) (dashed : bool) : str :=
  if dashed then uuid_str u4 else uuid_hex u4.
