(* Model/C13_Abstract.v — the arithmetic of StopWatch over an arbitrary number type:
   _delta_seconds, the maximum clause, leftover, expired, written with the operations the
   source uses (subtraction, >, max(0, .)) on a type T.  Definitions only.
   Proofs/C13_Abstract.v proves the arithmetic facts behind the C13 theorems for every
   ordered abelian group (T, zero, sub, leb) and shows that Z with the model's functions is
   one instance, so none of those facts rests on clock readings being integers. *)
From Coq Require Import Bool.

Section Num.
Variable T : Type.
Variable zero : T.
Variable sub : T -> T -> T.
Variable leb : T -> T -> bool.

Definition g_gtb (a b : T) : bool := negb (leb a b).                     (* a > b *)
Definition g_max0 (x : T) : T := if g_gtb x zero then x else zero.        (* max(0.0, x) *)
Definition g_delta (earlier later : T) : T := g_max0 (sub later earlier). (* _delta_seconds *)
Definition g_clamp_max (maximum : option T) (e : T) : T :=
  match maximum with
  | Some m => if g_gtb e m then g_max0 m else e
  | None => e
  end.
Definition g_leftover (d e : T) : T := g_max0 (sub d e).
Definition g_expired (d e : T) : bool := g_gtb e d.
End Num.
