(* Model/C19_Spec.v — the declarative reading of the split_path contract
   (definitions only; the theorems are in Proofs/C19_SplitPath.v). *)
Require Import OV.Base.Bytes OV.Base.Py OV.Base.Str OV.Base.C19_PyList OV.Model.C19.

(* The segments of the text after the leading slash: the '/'-free pieces whose
   '/'-join is that text (Proofs: segments_join, segments_no_slash, segments_unique). *)
Definition segments (body : str) : list str := split_char slash body.

(* The entries a path offers when at most M are wanted:
   - all its segments when there are at most M of them;
   - with rest_with_last, when there are more: the first M-1 segments and, as the
     last entry, the whole remainder (slashes included);
   - without rest_with_last, a single trailing slash after exactly M segments is
     tolerated (the empty piece behind it is not an entry). *)
Inductive leading (rwl : bool) (M : nat) (parts : list str) : list str -> Prop :=
| lead_all : (length parts <= M)%nat -> leading rwl M parts parts
| lead_rest : rwl = true -> (length parts > M)%nat ->
    leading rwl M parts (firstn (M - 1) parts ++ [join [slash] (skipn (M - 1) parts)])
| lead_trailing : rwl = false -> forall l, parts = l ++ [[]] -> length l = M ->
    leading rwl M parts l.

(* path is accepted with the entries [lead] *)
Definition accepted (path : str) (minsegs M : nat) (rwl : bool) (lead : list str) : Prop :=
  exists body, path = slash :: body /\
    leading rwl M (segments body) lead /\
    (minsegs <= length lead <= M)%nat /\
    Forall (fun s => s <> []) (firstn minsegs lead).

(* the result for accepted paths: the entries, padded with None to exactly M *)
Definition padded (M : nat) (lead : list str) : list (option str) :=
  map Some lead ++ repeat None (M - length lead).

(* executable form of [leading] (used by the proofs and mirrored by the harness oracle) *)
Definition is_nil (s : str) : bool := match s with [] => true | _ => false end.
Definition decl_lead (rwl : bool) (M : nat) (parts : list str) : option (list str) :=
  let n := length parts in
  if (n <=? M)%nat then Some parts
  else if rwl then Some (firstn (M - 1) parts ++ [join [slash] (skipn (M - 1) parts)])
  else if (n =? S M)%nat && is_nil (last parts [1%N]) then Some (firstn M parts)
  else None.

(* ------------------------------------------------------------------ split_by_commas *)
(* The items for which writing with [quote] and reading back is the identity:
   non-empty; a quoted item may contain anything but tab, newline, carriage return
   (in particular every printable ASCII character, NUL, non-ASCII text); an unquoted
   item consists of Word characters (printable ASCII without space) only. *)
Definition item_ok (it : str) : bool :=
  negb (is_nil it) &&
  (if needs_quoting it
   then forallb (fun c => negb ((c =? 9) || (c =? 10) || (c =? 13))%N) it
   else forallb is_word it).
(* printable ASCII, space included *)
Definition printable (it : str) : bool := forallb (fun c => (32 <=? c) && (c <=? 126))%N it.
(* only white characters *)
Definition blank (w : str) : bool := forallb is_white w.
(* a complete quoted field: the item between double quotes, escaped *)
Definition quoted_field (it : str) : str := [34%N] ++ flat_map escape1 it ++ [34%N].
(* the text of a list of fields *)
Definition join_fields (fields : list str) : str := join [44%N] fields.
