(* Model/C16.v — oslo_utils/encodeutils.py (safe_decode, safe_encode, to_utf8) and
   oslo_utils/strutils.py (to_slug), over an arbitrary runtime [world]
   (Base/C16_Py.v): codec registry, default encoding and the NFKD/ASCII fold are
   runtime, everything else is the source.  Definitions only.

   Literals and regexes come from the regenerated Gen/ files:
     fallback_encoding, to_utf8_encoding           (Gen/C16_Code.v)
     slug_sub1_re/tpl, slug_sub2_re/tpl            (Gen/C16_Slug.v)
   Gen/C16_Code.v also holds the statement-level translations gen_safe_decode, ...;
   Proofs/C16.v proves them equal to the definitions below ([*_equiv]). *)
Require Import OV.Base.Bytes OV.Base.PyInt OV.Base.Str OV.Base.Regex OV.Base.C16_Py.
Require Import OV.Gen.C16_Slug OV.Gen.C16_Code.
Open Scope N_scope.

(* `if not incoming: incoming = getattr(sys.stdin,'encoding',None) or sys.getdefaultencoding()`
   (None and '' are both falsy) *)
Definition resolve_incoming (w : world) (incoming : option str) : str :=
  match truthy_opt incoming with Some i => i | None => default_incoming w end.

(* try: return text.decode(incoming, errors)
   except UnicodeDecodeError: return text.decode('utf-8', errors)
   Only UnicodeDecodeError is caught (LookupError for an unknown codec or error
   handler propagates); a failure of the second decode propagates whatever it is. *)
Definition decode_with_fallback (w : world) (b : bytes) (name errors : str) : cres str :=
  match bytes_decode w b name errors with
  | CExn EUnicodeDecodeError => bytes_decode w b fallback_encoding errors
  | r => r
  end.

Definition safe_decode (w : world) (text : pval) (incoming : option str) (errors : str) : cres str :=
  match text with
  | PStr s => COk s
  | PBytes b => decode_with_fallback w b (resolve_incoming w incoming) errors
  | POther _ => CExn ETypeError
  end.

(* Both names are lower-cased (str.lower(), the full Unicode one) and compared as
   strings: "utf-8" and "utf8" do NOT agree, "UTF-8" and "utf-8" do.  Empty bytes
   are returned untouched whatever the names are. *)
Definition safe_encode (w : world) (text : pval) (incoming : option str) (encoding errors : str) : cres pval :=
  let inc := py_lower (resolve_incoming w incoming) in
  let e := py_lower encoding in
  match text with
  | PStr s => cmap PBytes (str_encode w s e errors)
  | PBytes b =>
      if truthy_str b && negb (beq e inc)
      then cbind (safe_decode w (PBytes b) (Some inc) errors)
                 (fun t => cmap PBytes (str_encode w t e errors))
      else COk (PBytes b)
  | POther _ => CExn ETypeError
  end.

Definition to_utf8 (w : world) (text : pval) : cres pval :=
  match text with
  | PBytes b => COk (PBytes b)
  | PStr s => cmap PBytes (str_encode w s to_utf8_encoding strict_name)
  | POther _ => CExn ETypeError
  end.

(* the part of to_slug after safe_decode: NFKD/ASCII fold, first substitution,
   strip(), lower(), second substitution *)
Definition slugify (w : world) (s : str) : str :=
  re_sub slug_sub2_re slug_sub2_tpl
    (py_lower (strip (re_sub slug_sub1_re slug_sub1_tpl (ascii_fold w s)))).

Definition to_slug (w : world) (value : pval) (incoming : option str) (errors : str) : cres str :=
  cmap (slugify w) (safe_decode w value incoming errors).

(* ---------- contracts on the runtime world (premises of the theorems; tested by
   tools/props/C16.py on every generated (text, encoding, errors) triple) ---------- *)

(* an error handler is consulted only when there is an error *)
Definition enc_policy_irrelevant (w : world) (c : codec w) : Prop :=
  forall t errs b, enc w c t strict_name = COk b -> enc w c t errs = COk b.
Definition dec_policy_irrelevant (w : world) (c : codec w) : Prop :=
  forall b errs t, dec w c b strict_name = COk t -> dec w c b errs = COk t.
(* decode (encode t) = t whenever encode succeeds under 'strict' *)
Definition codec_roundtrip (w : world) (c : codec w) : Prop :=
  forall t b, enc w c t strict_name = COk b -> dec w c b strict_name = COk t.
(* codec lookup does not depend on letter case, for this name *)
Definition lookup_lower_ok (w : world) (name : str) : Prop :=
  lookup w (py_lower name) = lookup w name.

(* "codec c can represent t": strict encoding succeeds and strict decoding gives t back
   (decidable; for CPython's shift_jis, U+00A5 and U+203E encode but do not come back) *)
Definition representsb (w : world) (c : codec w) (t : str) : bool :=
  match enc w c t strict_name with
  | COk b => match dec w c b strict_name with COk t' => beq t' t | CExn _ => false end
  | CExn _ => false
  end.

(* the fold yields ASCII and leaves ASCII text alone *)
Definition is_ascii (c : N) : bool := c <? 128.
Definition fold_ascii_out (w : world) : Prop := forall s, forallb is_ascii (ascii_fold w s) = true.
Definition fold_ascii_id (w : world) : Prop := forall s, forallb is_ascii s = true -> ascii_fold w s = s.

(* the slug alphabet: a-z 0-9 _ - *)
Definition slug_char (c : N) : bool :=
  ((97 <=? c) && (c <=? 122)) || ((48 <=? c) && (c <=? 57)) || (c =? 95) || (c =? 45).
Fixpoint no_double_hyphen (s : str) : bool :=
  match s with
  | a :: ((b :: _) as t) => negb ((a =? 45) && (b =? 45)) && no_double_hyphen t
  | _ => true
  end.
