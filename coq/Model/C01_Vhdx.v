(* Model/C01_Vhdx.v — the whole-buffer SPECIFICATION of VHDXInspector's verdict, and the two
   known-finding zones F2 / F4 as decidable predicates on the bytes.  Definitions only.

   Nothing here knows about chunks, positions, capture regions or post_process: [vhdx_spec b] reads
   the complete byte string b the way a reader of the VHDX layout would

     ident           = b[0 : 32]
     region table    = b[192Ki : 256Ki]            (only when the stream has 256 KiB)
        signature 'regi', entry count < 2048, first 32-byte entry whose GUID is METAREGION
        -> meta_offset (LE64 at +16 of the entry)
     metadata table  = b[meta_offset : meta_offset + 64Ki]   (as much as exists)
        >= 32 bytes, signature 'metadata', count (LE16 at +10), entries_size = 32 + 32*count present,
        first entry whose GUID is VIRTUAL_DISK_SIZE -> item offset (LE32 at +16), item length
        (LE32 at +20, clamped to 64 KiB)
     vds             = b[meta_offset + item_offset : + item_length]
     virtual_size    = LE64 of vds when all item_length bytes exist (struct.error unless that is 8)

   Slices are taken with [nslice] (= [bslice], lemma [nslice_bslice] in Proofs/C01_Vhdx.v) so that the
   specification can be EXECUTED on 64-bit offsets (the harness evaluates it on generated images and
   compares with the implementation: tools/props/C01_vhdx_spec.py). *)
Require Import OV.Base.Bytes OV.Base.Py OV.Base.Insp_Struct OV.Gen.Insp_Consts OV.Model.Insp_Engine OV.Model.Insp_All.
Open Scope N_scope.

(* Python b[off : off+len] *)
Definition nslice (off len : N) (b : bytes) : bytes := ntake len (nskip off b).

(* layout constants: ident and header come from _initialize (tied to the generated
   [init_regions F_vhdx] by lemma [vhdx_init_regions]); the others are the generated literals *)
Definition VX_IDENT_LEN : N := 32.
Definition VX_HDR_OFF : N := 196608.          (* 192 KiB *)
Definition VX_HDR_LEN : N := 65536.           (* 64 KiB *)
Definition VX_HDR_END : N := 262144.          (* 256 KiB *)
Definition VX_META_LEN : N := VHDX_META_A * VHDX_META_B.   (* meta_len = 2048 * 32 *)

(* the i-th 32-byte entry of a table whose entries start at [base] *)
Definition vx_entry (base : N) (t : bytes) (i : nat) : bytes := nslice (base + 32 * N.of_nat i) 32 t.
(* the first of the entries 0 .. count-1 that starts with the 16 GUID bytes g *)
Definition vx_first_guid (base count : N) (g t : bytes) : option bytes :=
  find (fun e => beq (ntake 16 e) g) (map (vx_entry base t) (seq 0 (N.to_nat count))).

(* region table t = b[192Ki:256Ki]  ->  meta_offset of the first METAREGION entry *)
Definition vx_region_table (t : bytes) : res (option N) :=
  if negb (le_val (nslice 0 4 t) =? VHDX_REGI) then Exn ImageFormatError          (* 'regi' *)
  else let count := le_val (nslice 8 4 t) in
  if VHDX_RT_LIMIT <=? count then Exn ImageFormatError                            (* limit 2047 *)
  else Ok (option_map (fun e => le_val (nslice 16 8 e)) (vx_first_guid VHDX_RT_FIRST count VHDX_GUID_METAREGION t)).

(* entry count of a metadata table *)
Definition vx_meta_count (m : bytes) : N := le_val (nslice 10 2 m).
Definition vx_entries_size (m : bytes) : N := VHDX_MT_BASE + vx_meta_count m * VHDX_MT_STRIDE.

(* metadata table m = b[meta_offset : meta_offset+64Ki] (what exists of it)
   -> (item_offset, clamped item_length) of the first VIRTUAL_DISK_SIZE entry;
   Ok None = header or entries not (all) there, or no such entry *)
Definition vx_meta_table (m : bytes) : res (option (N * N)) :=
  if flen m <? VHDX_MT_MIN then Ok None
  else if negb (beq (nslice 0 8 m) VHDX_META_SIG) then Exn ImageFormatError      (* 'metadata' *)
  else if flen m <? vx_entries_size m then Ok None
  else if VHDX_MT_LIMIT <=? vx_meta_count m then Exn ImageFormatError            (* cannot happen: |m| <= 64Ki < 32+32*2048 *)
  else Ok (option_map (fun e => (le_val (nslice 16 4 e), N.min (le_val (nslice 20 4 e)) VHDX_VHDX_METADATA_TABLE_MAX_SIZE))
                      (vx_first_guid VHDX_MT_BASE2 (vx_meta_count m) VHDX_GUID_VIRTUAL_DISK_SIZE m)).

(* the verdict for: exception e escaped (or not), all regions complete (or not), virtual_size vs *)
Definition vx_verdict (b : bytes) (e : option exn) (complete : bool) (vs : res Z) : verdict :=
  let fm := prefixb VHDX_MAGIC (nslice 0 VX_IDENT_LEN b) in
  mkVerdict e (Ok fm) complete vs (if complete then (if fm then Pass else Refused) else Refused).

Definition vhdx_spec (b : bytes) : verdict :=
  if flen b <? VX_HDR_END then vx_verdict b None false (Ok 0%Z)                   (* region table not there *)
  else match vx_region_table (nslice VX_HDR_OFF VX_HDR_LEN b) with
  | Exn e => vx_verdict b (Some e) true (Ok 0%Z)                                  (* ident + header are complete *)
  | Ok None => vx_verdict b None true (Ok 0%Z)                                    (* no metadata region entry *)
  | Ok (Some mo) =>
    let m := nslice mo VX_META_LEN b in
    match vx_meta_table m with
    | Exn e => vx_verdict b (Some e) (flen m =? VX_META_LEN) (Ok 0%Z)             (* only inside zone F4; one-chunk behaviour *)
    | Ok None => vx_verdict b None (flen m =? VX_META_LEN) (Ok 0%Z)               (* metadata region keeps capturing up to 64 KiB *)
    | Ok (Some (io, il)) =>
      let vds := nslice (mo + io) il b in
      let have := flen vds =? il in
      vx_verdict b None have
        (if have then (do x <- unpack sf_vhdx_vds vds; Ok (Z.of_N (sint sf_vhdx_vds 0 x))) else Ok 0%Z)
    end
  end.

(* ---- the two known findings as predicates on the bytes (mirror of zone() in tools/props/C01.py) ---- *)
(* F2: a backward pointer — metadata offset < 256 KiB, or the size item lies inside the entry table *)
Definition zone_vhdx_backptr (b : bytes) : bool :=
  (VX_HDR_END <=? flen b) &&
  match vx_region_table (nslice VX_HDR_OFF VX_HDR_LEN b) with
  | Ok (Some mo) =>
    (mo <? VX_HDR_END) ||
    (let m := nslice mo VX_META_LEN b in
     match vx_meta_table m with
     | Ok (Some (io, _)) => io <? vx_entries_size m
     | _ => false
     end)
  | _ => false
  end.

(* F4: the metadata region has its 32-byte header but not the 'metadata' signature *)
Definition zone_vhdx_metasig (b : bytes) : bool :=
  (VX_HDR_END <=? flen b) &&
  match vx_region_table (nslice VX_HDR_OFF VX_HDR_LEN b) with
  | Ok (Some mo) =>
    let m := nslice mo VX_META_LEN b in
    (VHDX_MT_MIN <=? flen m) && negb (beq (nslice 0 8 m) VHDX_META_SIG)
  | _ => false
  end.

(* ---- a builder-style image (for the Examples and the refutation witnesses) ---- *)
Definition vx_zeros (n : N) : bytes := repeatN 0 (N.to_nat n).
(* pad with zeros up to absolute length n *)
Definition vx_pad (n : N) (b : bytes) : bytes := b ++ vx_zeros (n - blen b).
Definition vx_other_entry : bytes := vx_zeros 32.
(* a region table with [rt_pad] foreign entries before the METAREGION entry (offset mo) *)
Definition vx_rt (rt_pad : nat) (mo : N) : bytes :=
  le_enc 4 VHDX_REGI ++ le_enc 4 0 ++ le_enc 4 (N.of_nat (S rt_pad)) ++ le_enc 4 0
  ++ concat (repeat vx_other_entry rt_pad)
  ++ VHDX_GUID_METAREGION ++ le_enc 8 mo ++ le_enc 4 1048576 ++ le_enc 4 1.
(* a metadata table with signature [sig] and [mt_pad] foreign entries before the VIRTUAL_DISK_SIZE
   entry (item offset io, length il) *)
Definition vx_mt (mt_pad : nat) (sig : bytes) (io il : N) : bytes :=
  sig ++ le_enc 2 0 ++ le_enc 2 (N.of_nat (S mt_pad)) ++ vx_zeros 20
  ++ concat (repeat vx_other_entry mt_pad)
  ++ VHDX_GUID_VIRTUAL_DISK_SIZE ++ le_enc 4 io ++ le_enc 4 il ++ vx_zeros 8.
(* ident 'vhdxfile', region table at 192 KiB, metadata table at mo (>= 256 KiB), [payload] at mo + io,
   [tail] more zero bytes *)
Definition vx_image (rt_pad mt_pad : nat) (sig : bytes) (mo io il : N) (payload : bytes) (tail : N) : bytes :=
  vx_pad (mo + io) (vx_pad mo (vx_pad VX_HDR_END (vx_pad VX_HDR_OFF VHDX_MAGIC ++ vx_rt rt_pad mo)) ++ vx_mt mt_pad sig io il)
  ++ payload ++ vx_zeros tail.
(* the same with the metadata table and the payload BEFORE the region table (mo + io + |payload| <= 192 KiB) *)
Definition vx_image_back (mo io il : N) (payload : bytes) (tail : N) : bytes :=
  vx_pad VX_HDR_END
    (vx_pad VX_HDR_OFF (vx_pad (mo + io) (vx_pad mo VHDX_MAGIC ++ vx_mt 0 VHDX_META_SIG io il) ++ payload) ++ vx_rt 0 mo)
  ++ vx_zeros tail.
