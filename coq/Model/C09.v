(* Model/C09.v — executable model of the exception helpers of oslo_utils/excutils.py
   (save_and_reraise_exception, exception_filter, raise_with_cause) and of
   fileutils.remove_path_on_error.

   Two layers.
   (1) The helpers themselves are NOT written here: their bodies are translated statement by
       statement from /repo into terms of the helper language (Base/C09_HL.v) by
       tools/gen/gen_C09.py (Gen/C09_Excutils.v); this file only gives the INTERPRETER of that
       language ([hexec]).
   (2) CPython's exception machinery is MODELLED (not verified): exception objects with
       identity and a mutable traceback, the stack of exceptions being handled
       (sys.exc_info()), how raising / propagating prepends traceback entries, what a [with]
       statement does with the result of __exit__, try/except.  A DSL of handler bodies
       ([body]) with a big-step functional semantics ([exec]) sits on top of it; the tie to
       the real interpreter is the correspondence over generated programs
       (tools/props/C09.py compiles each DSL term to Python source and runs it).
   Definitions only; proofs are in Proofs/C09.v. *)
From Coq Require Import List Arith NArith Bool.
Import ListNotations.
Require Import OV.Base.C09_HL OV.Gen.C09_Excutils.

(* ------------------------------------------------------------------ objects *)

(* an exception class: a tag, whether it can be instantiated without arguments, whether it
   derives from Exception (as opposed to BaseException only) *)
(* ... and whether its instances are true in a boolean context (a class may define __len__ / __bool__) *)
Record cls := mkcls { cid : N; ctor0 : bool; isexc : bool; truthy : bool }.
Definition cls_runtime := mkcls 100 true true true.     (* RuntimeError *)
Definition cls_type := mkcls 101 true true true.        (* TypeError *)
Definition cls_attr := mkcls 102 true true true.        (* AttributeError *)
Definition cls_eqb (a b : cls) : bool :=
  N.eqb (cid a) (cid b) && Bool.eqb (ctor0 a) (ctor0 b) && Bool.eqb (isexc a) (isexc b) && Bool.eqb (truthy a) (truthy b).

Inductive hfn := FnInit | FnForce | FnCapture | FnEnter | FnExit | FnFiltExit | FnFiltCall.

(* traceback entries; a traceback lists the OUTERMOST frame first, as tb_next does *)
Inductive frame :=
| FProg (l : N)                    (* the program's own frame, at the statement labelled l *)
| FHelper (f : hfn) (k : rkind)    (* a frame of one of the helpers, at a line of kind k *)
| FOrig | FPre                     (* harness functions that raise the original / pre-raise an object *)
| FPred | FDeco | FMeth            (* the predicate and the wrappers the decorator / method forms add *)
| FRemover | FRpoe | FClExit       (* remove callback, remove_path_on_error's generator, contextlib's __exit__ *)
| FRwc.                            (* raise_with_cause *)

Definition hfn_eqb (a b : hfn) : bool :=
  match a, b with
  | FnInit, FnInit | FnForce, FnForce | FnCapture, FnCapture | FnEnter, FnEnter
  | FnExit, FnExit | FnFiltExit, FnFiltExit | FnFiltCall, FnFiltCall => true
  | _, _ => false
  end.
Definition rkind_eqb (a b : rkind) : bool :=
  match a, b with
  | KVal, KVal | KWtb, KWtb | KRt, KRt | KCtor, KCtor | KCall, KCall => true
  | _, _ => false
  end.
Definition frame_eqb (a b : frame) : bool :=
  match a, b with
  | FProg l, FProg m => N.eqb l m
  | FHelper f k, FHelper g j => hfn_eqb f g && rkind_eqb k j
  | FOrig, FOrig | FPre, FPre | FPred, FPred | FDeco, FDeco | FMeth, FMeth
  | FRemover, FRemover | FRpoe, FRpoe | FClExit, FClExit | FRwc, FRwc => true
  | _, _ => false
  end.
Fixpoint tb_eqb (a b : list frame) : bool :=
  match a, b with
  | [], [] => true
  | x :: a', y :: b' => frame_eqb x y && tb_eqb a' b'
  | _, _ => false
  end.

(* where an object came from: created by the program at the statement with that label, or
   created by a helper (type_() / RuntimeError / TypeError ...) *)
Inductive origin := OSite (l : N) | ONew.

Record eobj := mkobj { ecls : cls; etb : list frame; eorg : origin; ecause : option nat }.

(* one logger.error call: the logger's label and the (type_, value, tb) handed to format_exception *)
Record logent := mklog { llab : N; ltype_ : option cls; lvalue : option nat; ltb_ : list frame }.

(* interpreter state: objects by identity, the exceptions being handled (innermost first;
   its head is sys.exc_info()), the log, the number of remove() calls *)
Record state := mkst { heap : nat -> eobj; next : nat; hstack : list nat; logs : list logent; removed : N }.

Definition dummy_obj := mkobj cls_runtime [] ONew None.
Definition st0 : state := mkst (fun _ => dummy_obj) 0 [] [] 0.

Definition upd (h : nat -> eobj) (i : nat) (o : eobj) : nat -> eobj :=
  fun j => if Nat.eqb j i then o else h j.
Definition tb_of (st : state) (i : nat) : list frame := etb (heap st i).
Definition cls_of (st : state) (i : nat) : cls := ecls (heap st i).
Definition set_tb (i : nat) (t : list frame) (st : state) : state :=
  let o := heap st i in
  mkst (upd (heap st) i (mkobj (ecls o) t (eorg o) (ecause o))) (next st) (hstack st) (logs st) (removed st).
(* the exception passes through (is raised in / propagates out of a call in) frame f *)
Definition add_frame (f : frame) (i : nat) (st : state) : state := set_tb i (f :: tb_of st i) st.
Definition alloc (o : eobj) (st : state) : state * nat :=
  (mkst (upd (heap st) (next st) o) (S (next st)) (hstack st) (logs st) (removed st), next st).
Definition push (i : nat) (st : state) : state := mkst (heap st) (next st) (i :: hstack st) (logs st) (removed st).
Definition pop (st : state) : state := mkst (heap st) (next st) (tl (hstack st)) (logs st) (removed st).
Definition add_log (e : logent) (st : state) : state := mkst (heap st) (next st) (hstack st) (logs st ++ [e]) (removed st).
Definition count_remove (st : state) : state := mkst (heap st) (next st) (hstack st) (logs st) (N.succ (removed st)).

(* ------------------------------------------------------------------ the helper objects *)

Record sare := mksare { reraise : bool; type_ : option cls; value : option nat; tb : list frame; slab : N }.
(* object state before __init__ runs *)
Definition sare_blank (lab : N) : sare := mksare false None None [] lab.

(* PReraise: the predicate raises the very exception it was handed (what a filter used as a predicate does
   with an exception it rejects) *)
Inductive pverdict := PFalsy | PTruthy | PRaise | PReraise.
(* a predicate: verdict by the class of the object it is handed (None when handed None); when it
   raises: the class and label of what it raises and the wrapper frames between __exit__/__call__
   and the predicate itself *)
Record predspec := mkpred { pv : option cls -> pverdict; praise_cls : cls; plab : N; puse : list frame }.
Definition nopred : predspec := mkpred (fun _ => PFalsy) cls_runtime 0 [].

(* ------------------------------------------------------------------ interpreter of the helper language *)

Record hstate := mkh {
  hs : sare; hst : state;
  ltype : option cls; lval : option nat; ltb : list frame;      (* locals bound by sys.exc_info() *)
  atype : option cls; aval : option nat; atb : list frame;      (* parameters *)
  hchk : bool; hinit : bool;                                    (* parameters check / reraise *)
  hp : predspec }.

Definition with_st (h : hstate) (st : state) : hstate :=
  mkh (hs h) st (ltype h) (lval h) (ltb h) (atype h) (aval h) (atb h) (hchk h) (hinit h) (hp h).
Definition with_s (h : hstate) (s : sare) : hstate :=
  mkh s (hst h) (ltype h) (lval h) (ltb h) (atype h) (aval h) (atb h) (hchk h) (hinit h) (hp h).
Definition with_loc (h : hstate) (t : option cls) (v : option nat) (b : list frame) : hstate :=
  mkh (hs h) (hst h) t v b (atype h) (aval h) (atb h) (hchk h) (hinit h) (hp h).
Definition with_arg (h : hstate) (t : option cls) (v : option nat) (b : list frame) : hstate :=
  mkh (hs h) (hst h) (ltype h) (lval h) (ltb h) t v b (hchk h) (hinit h) (hp h).

Definition get_v (v : vslot) (h : hstate) : option nat :=
  match v with VSelf => value (hs h) | VLoc => lval h | VArg => aval h end.
Definition get_t (t : tslot) (h : hstate) : option cls :=
  match t with TSelf => type_ (hs h) | TLoc => ltype h | TArg => atype h end.
Definition get_b (b : bslot) (h : hstate) : list frame :=
  match b with BSelf => tb (hs h) | BLoc => ltb h | BArg => atb h end.
Definition set_v (v : vslot) (x : option nat) (h : hstate) : hstate :=
  match v with
  | VSelf => with_s h (mksare (reraise (hs h)) (type_ (hs h)) x (tb (hs h)) (slab (hs h)))
  | VLoc => with_loc h (ltype h) x (ltb h)
  | VArg => with_arg h (atype h) x (atb h)
  end.
Definition set_b (b : bslot) (x : list frame) (h : hstate) : hstate :=
  match b with
  | BSelf => with_s h (mksare (reraise (hs h)) (type_ (hs h)) (value (hs h)) x (slab (hs h)))
  | BLoc => with_loc h (ltype h) (lval h) x
  | BArg => with_arg h (atype h) (aval h) x
  end.
Definition get_f (f : hflag) (h : hstate) : bool :=
  match f with FReraise => reraise (hs h) | FCheck => hchk h end.

Inductive hres := HNormal | HRetFalse | HRetSelf | HRetPred (truthy : bool) | HRaise (i : nat).
Inductive cres := CB (b : bool) | CRaise (i : nat).

(* a helper creates and raises a new exception of class c at a line of kind k of function fn *)
Definition raise_new (c : cls) (fn : hfn) (k : rkind) (h : hstate) : hstate * nat :=
  let '(st, i) := alloc (mkobj c [FHelper fn k] ONew None) (hst h) in (with_st h st, i).

(* calling the predicate on x from function fn *)
Definition call_pred (fn : hfn) (x : option nat) (h : hstate) : hstate * cres :=
  let p := hp h in
  match pv p (option_map (cls_of (hst h)) x) with
  | PFalsy => (h, CB false)
  | PTruthy => (h, CB true)
  | PRaise =>
      let '(st, i) := alloc (mkobj (praise_cls p) (FHelper fn KCall :: puse p ++ [FPred]) (OSite (plab p)) None) (hst h) in
      (with_st h st, CRaise i)
  | PReraise =>
      match x with
      | Some i => (with_st h (add_frame (FHelper fn KCall) i (add_frame (FHelper FnFiltCall KVal) i (hst h))), CRaise i)
      | None =>   (* the inner filter's __call__ fails on None: exc_type() or raise None, by whether an exception is active *)
          let '(st, i) := alloc (mkobj cls_type [FHelper fn KCall; FHelper FnFiltCall (match hstack (hst h) with [] => KCtor | _ => KVal end)] ONew None) (hst h) in
          (with_st h st, CRaise i)
      end
  end.

Definition opt_nat_eqb (a b : option nat) : bool :=
  match a, b with Some x, Some y => Nat.eqb x y | None, None => true | _, _ => false end.
Definition is_none {A} (o : option A) : bool := match o with None => true | Some _ => false end.

Fixpoint ceval (fn : hfn) (c : hcond) (h : hstate) : hstate * cres :=
  match c with
  | CTypeNone t => (h, CB (is_none (get_t t h)))
  | CValNone v => (h, CB (is_none (get_v v h)))
  | CFalsy v => (h, CB (match get_v v h with None => true | Some i => negb (truthy (cls_of (hst h) i)) end))
  | CFlag f => (h, CB (get_f f h))
  | CTbDiffers v b =>
      match get_v v h with
      | None => let '(h', i) := raise_new cls_attr fn KCall h in (h', CRaise i)   (* None.__traceback__ *)
      | Some i => (h, CB (negb (tb_eqb (tb_of (hst h) i) (get_b b h))))
      end
  | CSame v w => (h, CB (opt_nat_eqb (get_v v h) (get_v w h)))
  | CPred v => call_pred fn (get_v v h) h
  | CNot c => match ceval fn c h with (h', CB b) => (h', CB (negb b)) | r => r end
  | CAnd c d => match ceval fn c h with (h', CB true) => ceval fn d h' | r => r end
  | COr c d => match ceval fn c h with (h', CB false) => ceval fn d h' | r => r end
  end.

Section HExec.
(* what self.force_reraise() does (the interpreter of gen_force, tied below) *)
Variable force : hstate -> hstate * hres.

Fixpoint hexec (fn : hfn) (c : hstmt) (h : hstate) : hstate * hres :=
  match c with
  | SSkip => (h, HNormal)
  | SSeq a b => match hexec fn a h with (h1, HNormal) => hexec fn b h1 | r => r end
  | SIf c t e =>
      match ceval fn c h with
      | (h1, CB true) => hexec fn t h1
      | (h1, CB false) => hexec fn e h1
      | (h1, CRaise i) => (h1, HRaise i)
      end
  | STryFinally b f =>
      let '(h1, r) := hexec fn b h in
      match hexec fn f h1 with (h2, HNormal) => (h2, r) | r2 => r2 end
  | SInitFlag => (with_s h (mksare (hinit h) (type_ (hs h)) (value (hs h)) (tb (hs h)) (slab (hs h))), HNormal)
  | SInitSelf => (with_s h (mksare (reraise (hs h)) None None [] (slab (hs h))), HNormal)
  | SReadInfo =>
      match hstack (hst h) with
      | [] => (with_loc h None None [], HNormal)
      | i :: _ => (with_loc h (Some (cls_of (hst h) i)) (Some i) (tb_of (hst h) i), HNormal)
      end
  | SStore => (with_s h (mksare (reraise (hs h)) (ltype h) (lval h) (ltb h) (slab (hs h))), HNormal)
  | SNewFromType v t =>
      match get_t t h with
      | None => let '(h', i) := raise_new cls_type fn KCtor h in (h', HRaise i)       (* None() *)
      | Some c =>
          if ctor0 c then
            let '(st, i) := alloc (mkobj c [] ONew None) (hst h) in (set_v v (Some i) (with_st h st), HNormal)
          else let '(h', i) := raise_new cls_type fn KCtor h in (h', HRaise i)        (* missing arguments *)
      end
  | SRaiseRuntime => let '(h', i) := raise_new cls_runtime fn KRt h in (h', HRaise i)
  | SRaise v =>
      match get_v v h with
      | None => let '(h', i) := raise_new cls_type fn KVal h in (h', HRaise i)        (* raise None *)
      | Some i => (with_st h (add_frame (FHelper fn KVal) i (hst h)), HRaise i)
      end
  | SRaiseWithTb v b =>
      match get_v v h with
      | None => let '(h', i) := raise_new cls_attr fn KWtb h in (h', HRaise i)
      | Some i => (with_st h (add_frame (FHelper fn KWtb) i (set_tb i (get_b b h) (hst h))), HRaise i)
      end
  | SClearV v => (set_v v None h, HNormal)
  | SClearB b => (set_b b [] h, HNormal)
  | SLog => (with_st h (add_log (mklog (slab (hs h)) (type_ (hs h)) (value (hs h)) (tb (hs h))) (hst h)), HNormal)
  | SReturnFalse => (h, HRetFalse)
  | SReturnSelf => (h, HRetSelf)
  | SReturnPred v =>
      match call_pred fn (get_v v h) h with
      | (h', CB b) => (h', HRetPred b)
      | (h', CRaise i) => (h', HRaise i)
      end
  | SForce =>
      match force h with
      | (h', HRaise i) => (with_st h' (add_frame (FHelper fn KCall) i (hst h')), HRaise i)
      | (h', _) => (h', HNormal)
      end
  end.
End HExec.

Definition hinit_state (s : sare) (st : state) (p : predspec) : hstate :=
  mkh s st None None [] None None [] false false p.

Definition no_force (h : hstate) : hstate * hres := (h, HNormal).
(* self.force_reraise() *)
Definition run_force (h : hstate) : hstate * hres := hexec no_force FnForce gen_force h.
Definition hrun := hexec run_force.

(* ------------------------------------------------------------------ calls made by the program *)

Inductive outcome := Normal | Raised (i : nat).

(* save_and_reraise_exception(reraise=r0, logger=<label lab>) *)
Definition sare_new (r0 : bool) (lab : N) (st : state) : sare :=
  hs (fst (hrun FnInit gen_init (mkh (sare_blank lab) st None None [] None None [] false r0 nopred))).

(* ctx.force_reraise() called by the statement whose frame entry is wf *)
Definition do_force (wf : frame) (s : sare) (st : state) : sare * state * outcome :=
  match run_force (hinit_state s st nopred) with
  | (h, HRaise i) => (hs h, add_frame wf i (hst h), Raised i)
  | (h, _) => (hs h, hst h, Normal)
  end.

(* ctx.capture(check=chk) *)
Definition do_capture (chk : bool) (s : sare) (st : state) : sare * state * hres :=
  let h0 := hinit_state s st nopred in
  let '(h, r) := hrun FnCapture gen_capture (mkh (hs h0) (hst h0) None None [] None None [] chk false nopred) in
  (hs h, hst h, r).
Definition do_capture_stmt (wf : frame) (s : sare) (st : state) : sare * state * outcome :=
  match do_capture gen_capture_default_check s st with
  | (s', st', HRaise i) => (s', add_frame wf i st', Raised i)
  | (s', st', _) => (s', st', Normal)
  end.

(* __enter__ of save_and_reraise_exception, entered by the with statement at wf *)
Definition sare_enter (wf : frame) (s : sare) (st : state) : sare * state * outcome :=
  match do_capture gen_enter_check s st with
  | (s', st', HRaise i) => (s', add_frame wf i (add_frame (FHelper FnEnter KCall) i st'), Raised i)
  | (s', st', _) => (s', st', Normal)
  end.

Definition res_truthy (r : hres) : bool :=
  match r with HRetSelf => true | HRetPred b => b | _ => false end.

(* what the with statement at wf does when its block ended with [out]: call
   __exit__(type, value, tb) — with the exception (if any) being handled meanwhile — and either
   propagate what __exit__ raised, or swallow / re-raise the block's exception according to the
   truth of what __exit__ returned.  A re-raise after __exit__ adds no traceback entry. *)
Definition with_exit (fn : hfn) (code : hstmt) (p : predspec) (wf : frame)
                     (s : sare) (st : state) (out : outcome) : sare * state * outcome :=
  match out with
  | Normal =>
      match hrun fn code (hinit_state s st p) with
      | (h, HRaise j) => (hs h, add_frame wf j (hst h), Raised j)
      | (h, _) => (hs h, hst h, Normal)
      end
  | Raised i =>
      let st1 := push i st in
      let h0 := hinit_state s st1 p in
      match hrun fn code (with_arg h0 (Some (cls_of st1 i)) (Some i) (tb_of st1 i)) with
      | (h, HRaise j) => (hs h, add_frame wf j (pop (hst h)), Raised j)
      | (h, r) => (hs h, pop (hst h), if res_truthy r then Normal else Raised i)
      end
  end.

(* with ctx: <block>     on an EXISTING context object s (whatever it holds from earlier use)
   returns (ctx at the very end, state, outcome of the block, outcome of the with statement) *)
Definition with_same (wf : frame) (block : sare -> state -> sare * state * outcome)
                     (s : sare) (st : state) : sare * state * outcome * outcome :=
  match sare_enter wf s st with
  | (s1, st1, Raised j) => (s1, st1, Raised j, Raised j)
  | (s1, st1, Normal) =>
      let '(s2, st2, out) := block s1 st1 in
      let '(s3, st3, out') := with_exit FnExit gen_exit nopred wf s2 st2 out in
      (s3, st3, out, out')
  end.

(* with save_and_reraise_exception(reraise=r0, logger=<lab>) as ctx: <block> *)
Definition with_sare (r0 : bool) (lab : N) (wf : frame) (block : sare -> state -> sare * state * outcome)
                     (st : state) : sare * state * outcome * outcome :=
  with_same wf block (sare_new r0 lab st) st.

(* <filter p>(x): the state afterwards and what it raised, if anything *)
Definition do_filt_call (p : predspec) (x : option nat) (s : sare) (st : state) : state * option nat :=
  match hrun FnFiltCall gen_filt_call (with_arg (hinit_state s st p) None x []) with
  | (h, HRaise j) => (hst h, Some j)
  | (h, _) => (hst h, None)
  end.

(* ------------------------------------------------------------------ the DSL of handler bodies *)

(* argument of a direct call of a filter *)
Inductive fcarg := ACur (* the exception being handled, or None *) | ANew (c : cls) (l : N) (* a new, unraised object *)
                 | ANone | AObj (i : nat) (* an object created earlier *)
                 | AStored (c : cls) (l : N) (* a new object that was raised and caught elsewhere: it has a traceback *).

Inductive body :=
| Noop
| RaiseOrig (c : cls) (k : N)                 (* call the function that raises the original exception (label 0) *)
| RaiseNew (c : cls) (k : N) (l : N)          (* raise a new exception; k: 0 plain, 1 chained, 2 already carrying a traceback *)
| SetReraise (b : bool)                       (* ctx.reraise = b *)
| Seq (a b : body)
| Try (a h : body)                            (* try: a  except BaseException: h *)
| Nested (r0 : bool) (l : N) (b : body)       (* with save_and_reraise_exception(reraise=r0) as ctx: b *)
| Direct (r0 : bool) (b : body)               (* ctx = save_and_reraise_exception(reraise=r0); b     (no with) *)
| ForceReraise (l : N)                        (* ctx.force_reraise() *)
| CaptureDirect (l : N)                       (* ctx.capture() *)
| Filter (p : predspec) (l : N) (b : body)    (* with <filter p>: b *)
| FilterCall (p : predspec) (a : fcarg) (l : N)   (* <filter p>(<a>) *)
| WithCtx (l : N) (b : body)                  (* with ctx: b      — entering the SAME context object again *)
| Tamper.                                     (* sys.exc_info()[1].__traceback__ = None *)

Definition pre_tb (k : N) : list frame := if N.eqb k 2 then [FPre] else [].

Fixpoint exec (b : body) (s : sare) (st : state) : sare * state * outcome :=
  match b with
  | Noop => (s, st, Normal)
  | RaiseOrig c k =>
      let '(st1, i) := alloc (mkobj c (FProg 1 :: FOrig :: pre_tb k) (OSite 0) None) st in (s, st1, Raised i)
  | RaiseNew c k l =>
      let '(st1, i) := alloc (mkobj c (FProg l :: pre_tb k) (OSite l) None) st in (s, st1, Raised i)
  | SetReraise v => (mksare v (type_ s) (value s) (tb s) (slab s), st, Normal)
  | Seq a b' =>
      match exec a s st with
      | (s1, st1, Normal) => exec b' s1 st1
      | r => r
      end
  | Try a h =>
      match exec a s st with
      | (s1, st1, Raised i) =>
          let '(s2, st2, out) := exec h s1 (push i st1) in (s2, pop st2, out)
      | r => r
      end
  | Nested r0 l b' =>
      let '(_, st', _, out) := with_sare r0 l (FProg l) (fun s' st' => exec b' s' st') st in (s, st', out)
  | Direct r0 b' =>
      let '(_, st', out) := exec b' (sare_new r0 2 st) st in (s, st', out)
  | ForceReraise l => do_force (FProg l) s st
  | CaptureDirect l => do_capture_stmt (FProg l) s st
  | Filter p l b' =>
      let '(s1, st1, out) := exec b' s st in
      let '(_, st2, out') := with_exit FnFiltExit gen_filt_exit p (FProg l) s1 st1 out in
      (s1, st2, out')
  | FilterCall p a l =>
      let '(st1, x) := match a with
                       | ACur => (st, hd_error (hstack st))
                       | ANew c m => let '(st1, i) := alloc (mkobj c [] (OSite m) None) st in (st1, Some i)
                       | ANone => (st, None)
                       | AObj i => (st, Some i)
                       | AStored c m => let '(st1, i) := alloc (mkobj c [FPre] (OSite m) None) st in (st1, Some i)
                       end in
      match do_filt_call p x s st1 with
      | (st2, Some j) => (s, add_frame (FProg l) j st2, Raised j)
      | (st2, None) => (s, st2, Normal)
      end
  | WithCtx l b' =>
      let '(s3, st', _, out) := with_same (FProg l) (fun s' st' => exec b' s' st') s st in (s3, st', out)
  | Tamper =>
      match hstack st with
      | i :: _ => (s, set_tb i [] st, Normal)
      | [] => (s, st, Normal)
      end
  end.

(* exception_filter.__get__(obj, owner): a new filter around the predicate bound to obj *)
Definition filt_get {O} (upred : O -> predspec) (obj : O) : predspec :=
  if gen_get_rebinds then upred obj else nopred.

(* ------------------------------------------------------------------ exception_filter.__init__: filters of filters *)

(* what exception_filter(...) can be handed: a function / bound method / callable object with predicate p — [named]:
   it has the functools.WRAPPER_ASSIGNMENTS attributes (functions and methods do, a callable instance or a
   functools.partial does not) — or another filter *)
Inductive callable := CFun (named : bool) (p : predspec) | CFilt (f : filt)
with filt := mkfilt (fpred : callable) (fnamed : bool).
Definition fpred_of (f : filt) : callable := match f with mkfilt c _ => c end.
Definition fnamed_of (f : filt) : bool := match f with mkfilt _ n => n end.
Definition callable_named (c : callable) : bool := match c with CFun n _ => n | CFilt f => fnamed_of f end.

(* __init__ as written: self._should_ignore_ex = c; if c has the wrapper attributes: functools.update_wrapper(self, c),
   which copies them (so self has them too) and then merges c.__dict__ into self.__dict__ — when c is itself a filter
   that merge OVERWRITES _should_ignore_ex with c's own predicate.  In the other order nothing is overwritten. *)
Definition filt_init (c : callable) : filt :=
  match gen_filt_init_order with
  | AssignThenWrap =>
      match c with
      | CFun n _ => mkfilt c n
      | CFilt f => if fnamed_of f then mkfilt (fpred_of f) true else mkfilt c false
      end
  | WrapThenAssign => mkfilt c (callable_named c)
  end.

(* a filter used AS a predicate: __call__ returns None (false) when its own predicate accepts, re-raises the
   exception when it rejects *)
Definition as_pred (q : predspec) : predspec :=
  mkpred (fun x => match pv q x with PTruthy => PFalsy | PFalsy => PReraise | PRaise => PRaise | PReraise => PReraise end)
         (praise_cls q) (plab q) (FHelper FnFiltCall KCall :: puse q).

(* the predicate a filter actually consults *)
Fixpoint callable_pred (c : callable) : predspec :=
  match c with
  | CFun _ p => p
  | CFilt f => as_pred (filt_pred f)
  end
with filt_pred (f : filt) : predspec :=
  match f with mkfilt c _ => callable_pred c end.

(* ------------------------------------------------------------------ remove_path_on_error *)

(* with remove_path_on_error(path, remove=...): <block>     at the statement whose frame entry is wf.
   contextlib's generator context manager is modelled: the block's exception is thrown into the
   generator at its yield; if the generator lets that same exception out, its traceback is put back
   to what it was on entry to __exit__ and it is re-raised without a new entry; another exception
   comes out through the generator's and contextlib's frames; a generator that finishes swallows it. *)
Definition rpoe_exit (rm : option cls) (wf : frame) (st : state) (out : outcome) : state * outcome :=
  match out with
  | Normal => (st, Normal)
  | Raised i =>
      let entry_tb := tb_of st i in
      let st := add_frame FRpoe i st in            (* thrown into the generator at its yield *)
      let caught := match gen_rpoe_catch with CatchException => isexc (cls_of st i) | CatchBaseException => true end in
      if caught then
        let block := fun (s : sare) (st1 : state) =>
          let st2 := count_remove st1 in
          match rm with
          | None => (s, st2, Normal)
          | Some c => let '(st3, j) := alloc (mkobj c [FRpoe; FRemover] (OSite 3000) None) st2 in (s, st3, Raised j)
          end in
        let '(_, st1, _, out1) := with_sare gen_rpoe_reraise 9 FRpoe block (push i st) in
        let st2 := pop st1 in
        match out1 with
        | Normal => (st2, Normal)
        | Raised j =>
            if Nat.eqb j i then (set_tb i entry_tb st2, Raised i)
            else (add_frame wf j (add_frame FClExit j st2), Raised j)
        end
      else (set_tb i entry_tb st, Raised i)
  end.

(* ------------------------------------------------------------------ raise_with_cause *)

Definition cls_caused := mkcls 103 false true true.
(* raise_with_cause(cls, msg [, cause=g]) at the statement with frame entry wf; given = None: no
   cause keyword; Some g: cause=g (g may be None).  The new object records the cause it was given. *)
Definition rwc (c : cls) (given : option (option nat)) (wf : frame) (st : state) : state * outcome :=
  let cause := match given with
               | Some g => g
               | None => if gen_rwc_cause_from_active then hd_error (hstack st) else None
               end in
  let '(st1, i) := alloc (mkobj c [wf; FRwc] ONew cause) st in
  (st1, Raised i).
(* the __cause__ ("raise ... from") of the object raise_with_cause raised *)
Definition rwc_dunder_cause (st : state) (i : nat) : option nat :=
  if gen_rwc_raise_from_cause then ecause (heap st i) else None.

(* ------------------------------------------------------------------ hand-written versions of the helpers
   (what the translated bodies are proved equal to in Proofs/C09.v: the *_equiv lemmas) *)

Definition sare_clear (s : sare) : sare := mksare (reraise s) (type_ s) None [] (slab s).

(* if v.__traceback__ is not t: raise v.with_traceback(t)  /  raise v *)
Definition raise_value (fn : hfn) (i : nat) (t : list frame) (st : state) : state :=
  if tb_eqb (tb_of st i) t then add_frame (FHelper fn KVal) i st
  else add_frame (FHelper fn KWtb) i (set_tb i t st).

(* force_reraise always raises: returns the context afterwards, the state, the exception raised *)
Definition force_hand (s : sare) (st : state) : sare * state * nat :=
  match value s with
  | Some i => (sare_clear s, raise_value FnForce i (tb s) st, i)
  | None =>
      match type_ s with
      | None => let '(st', j) := alloc (mkobj cls_runtime [FHelper FnForce KRt] ONew None) st in (s, st', j)
      | Some c =>
          if ctor0 c then
            let '(st1, i) := alloc (mkobj c [] ONew None) st in (sare_clear s, raise_value FnForce i (tb s) st1, i)
          else
            let '(st', j) := alloc (mkobj cls_type [FHelper FnForce KCtor] ONew None) st in (sare_clear s, st', j)
      end
  end.

Definition capture_hand (chk : bool) (s : sare) (st : state) : sare * state * option nat :=
  match hstack st with
  | [] =>
      if chk then let '(st', j) := alloc (mkobj cls_runtime [FHelper FnCapture KRt] ONew None) st in (s, st', Some j)
      else (mksare (reraise s) None None [] (slab s), st, None)
  | i :: _ => (mksare (reraise s) (Some (cls_of st i)) (Some i) (tb_of st i) (slab s), st, None)
  end.

(* the with statement at wf leaving a save_and_reraise_exception block that ended with [out] *)
Definition exit_hand (wf : frame) (s : sare) (st : state) (out : outcome) : sare * state * outcome :=
  match out with
  | Raised i => (s, if reraise s then add_log (mklog (slab s) (type_ s) (value s) (tb s)) st else st, Raised i)
  | Normal =>
      if reraise s then
        let '(s', st', j) := force_hand s st in
        (s', add_frame wf j (add_frame (FHelper FnExit KCall) j st'), Raised j)
      else (s, st, Normal)
  end.

(* the object a raising predicate raises, seen from the helper function fn *)
Definition pred_exc (p : predspec) (fn : hfn) : eobj :=
  mkobj (praise_cls p) (FHelper fn KCall :: puse p ++ [FPred]) (OSite (plab p)) None.

(* the with statement at wf leaving an exception_filter block *)
Definition filt_exit_hand (p : predspec) (wf : frame) (st : state) (out : outcome) : state * outcome :=
  match out with
  | Normal => (st, Normal)
  | Raised i =>
      match pv p (Some (cls_of st i)) with
      | PFalsy => (st, Raised i)
      | PTruthy => (st, Normal)
      | PRaise => let '(st', j) := alloc (pred_exc p FnFiltExit) st in (add_frame wf j st', Raised j)
      | PReraise =>
          (add_frame wf i (add_frame (FHelper FnFiltExit KCall) i (add_frame (FHelper FnFiltCall KVal) i st)), Raised i)
      end
  end.

(* <filter p>(x) *)
Definition filt_call_hand (p : predspec) (x : option nat) (st : state) : state * option nat :=
  match pv p (option_map (cls_of st) x) with
  | PTruthy => (st, None)
  | PRaise => let '(st', j) := alloc (pred_exc p FnFiltCall) st in (st', Some j)
  | PReraise =>
      match x with
      | Some i => (add_frame (FHelper FnFiltCall KCall) i (add_frame (FHelper FnFiltCall KVal) i st), Some i)
      | None => let '(st', j) := alloc (mkobj cls_type [FHelper FnFiltCall KCall; FHelper FnFiltCall (match hstack st with [] => KCtor | _ => KVal end)] ONew None) st in (st', Some j)
      end
  | PFalsy =>
      let cur := hd_error (hstack st) in
      if opt_nat_eqb cur x then
        match cur with
        | None => let '(st', j) := alloc (mkobj cls_type [FHelper FnFiltCall KCtor] ONew None) st in (st', Some j)
        | Some i => (raise_value FnFiltCall i (tb_of st i) st, Some i)
        end
      else
        match x with
        | None => let '(st', j) := alloc (mkobj cls_type [FHelper FnFiltCall KVal] ONew None) st in (st', Some j)
        | Some i => (add_frame (FHelper FnFiltCall KVal) i st, Some i)
        end
  end.

(* the body does not call force_reraise()/capture() on the context it is the block of
   (blocks of nested contexts are unconstrained: they have their own context) *)
Fixpoint direct_free0 (b : body) : bool :=
  match b with
  | ForceReraise _ | CaptureDirect _ | WithCtx _ _ => false
  | Seq a c | Try a c => direct_free0 a && direct_free0 c
  | Filter _ _ a => direct_free0 a
  | _ => true
  end.

(* no statement anywhere in the body assigns to an exception's __traceback__ *)
Fixpoint tamper_free (b : body) : bool :=
  match b with
  | Tamper => false
  | Seq a c | Try a c => tamper_free a && tamper_free c
  | Nested _ _ a | Direct _ a | Filter _ _ a | WithCtx _ a => tamper_free a
  | _ => true
  end.
