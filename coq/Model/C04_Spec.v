(* Model/C04_Spec.v — the specification side of C04, written from the property text and the
   module documentation (NOT generated): the 35 keys, the value classes of the renderings, the
   renderings themselves as string builders. Definitions only. *)
From Coq Require Import String.
Require Import OV.Base.Bytes OV.Base.PyInt OV.Base.Str.
Open Scope N_scope.

Definition spec_keys_35 : list str := [
  lit "adminpass"; lit "admin_pass"; lit "password"; lit "admin_password"; lit "auth_token"; lit "new_pass";
  lit "auth_password"; lit "secret_uuid"; lit "secret"; lit "sys_pswd"; lit "token"; lit "configdrive";
  lit "chappassword"; lit "encrypted_key"; lit "private_key"; lit "fernetkey"; lit "sslkey"; lit "passphrase";
  lit "cephclusterfsid"; lit "octaviaheartbeatkey"; lit "rabbitcookie"; lit "cephmanilaclientkey";
  lit "pacemakerremoteauthkey"; lit "designaterndckey"; lit "cephadminkey"; lit "heatauthencryptionkey";
  lit "cephclientkey"; lit "keystonecredential"; lit "barbicansimplecryptokek"; lit "cephrgwkey";
  lit "swifthashsuffix"; lit "migrationsshkey"; lit "cephmdskey"; lit "cephmonkey"; lit "chapsecret"].

Definition key_char (c : N) : bool := ((97 <=? c) && (c <=? 122)) || (c =? 95).
Definition key_ok (k : str) : bool := negb (beq k []) && forallb key_char k.

(* K is k with every letter independently in lower or upper case *)
Definition casing_of (k K : str) : Prop := Forall2 (fun c C => C = c \/ C = upper_ascii1 c) k K.

(* neutral surrounding text of the full statement: digits and white space only *)
Definition neutral (t : str) : bool := forallb (fun c => is_space c || ascii_digit c) t.

(* value classes: every code point that is not white space / a quote / the rendering's delimiter
   (printable or not is irrelevant to the patterns) *)
Definition valid_cp (c : N) : bool := c <=? 1114111.
Definition is_quote (c : N) : bool := (c =? 34) || (c =? 39).
Definition bare_char (c : N) : bool := valid_cp c && negb (is_space c) && negb (is_quote c).
Definition quoted_char (c : N) : bool := valid_cp c && negb (is_quote c).          (* spaces allowed *)
Definition dq_char (c : N) : bool := valid_cp c && negb (c =? 34).                  (* k = "v": v may hold ' *)
Definition sq_char (c : N) : bool := valid_cp c && negb (c =? 39).
Definition dd_char (c : N) : bool := bare_char c && negb (c =? 61).                 (* --k v *)
Definition xml_char (c : N) : bool := valid_cp c && negb (c =? 60).                 (* <k>v</k> *)
Definition nonspace_char (c : N) : bool := valid_cp c && negb (is_space c).         (* k --flag v *)

(* the supported renderings with one fixed choice of optional white space each, as
   (value class, head, tail) for a cased, digit-suffixed key KD *)
Definition rend := ((N -> bool) * (str * str))%type.
Definition renderings (KD : str) : list rend := [
  (bare_char,   (KD ++ lit "=", []));                                            (* k=v *)
  (bare_char,   (KD ++ lit " = ", []));                                          (* k = v *)
  (dq_char,     (KD ++ [32; 61; 32; 34], [34]));                                   (* k = "v" *)
  (sq_char,     (KD ++ [61; 39], [39]));                                           (* k='v' *)
  (quoted_char, (KD ++ [32; 39], [39]));                                           (* k 'v' *)
  (dd_char,     (lit "--" ++ KD ++ lit " ", []));                                (* --k v *)
  (xml_char,    (lit "<" ++ KD ++ lit ">", lit "</" ++ KD ++ lit ">"));      (* <k>v</k> *)
  (quoted_char, ([34] ++ KD ++ [34; 58; 32; 34], [34]));                           (* "k": "v" *)
  (quoted_char, ([39] ++ KD ++ [39; 32; 58; 32; 117; 39], [39]));                  (* 'k' : u'v' *)
  (quoted_char, ([34] ++ lit "x-" ++ KD ++ [34; 58; 32; 34], [34]));             (* "x-k": "v" *)
  (quoted_char, ([39] ++ KD ++ [39; 44; 32; 39] ++ lit "--flag" ++ [39; 44; 32; 39], [39]));  (* 'k', '--flag', 'v' *)
  (bare_char,   (KD ++ lit " --flag ", []))                                      (* k --flag v *)
].

Definition upper (s : str) : str := map upper_ascii1 s.
Definition capitalised (s : str) : str := match s with [] => [] | c :: t => upper_ascii1 c :: t end.
Definition casings (k : str) : list str := [k; upper k; capitalised k; k ++ [55]].
