(* Model/Wrap.v — GENERIC model of oslo_utils.imageutils.format_inspector.InspectWrapper
   over an ABSTRACT inspector type (definitions only; lemmas in Proofs/Wrap.v).

   How to instantiate (C03, C01, ...):
     I        := the concrete inspector state
     eat      := eat_chunk : state after the call (possibly partially updated) and the
                 exception if one was raised
     finish, complete, fmatch := FileInspector.finish / .complete / .format_match
     sh       := OV.Gen.C06_Wrapper.gen_shape   (with Proofs.C06.gen_shape_ok)
     factory  := [(key of ALL_FORMATS, fresh instance)] in ALL_FORMATS order
   The NAME of an inspector is a class attribute, never assigned: it is kept in the
   slot, beside the state, so that no "eat preserves the name" contract is needed.

   The Python SET self._inspectors is a list of slots (any order: every theorem is
   for an arbitrary slot list; [mk_wrapper] uses ALL_FORMATS order).  The set
   self._errored_inspectors is the flag [s_err] of each slot (identity of an
   inspector = its position in the list). *)
Require Import OV.Base.Bytes OV.Base.Py OV.Base.C06_WrapShape.
Open Scope N_scope.

(* ------------------------------------------------------------------ sources *)

(* file-like source: the whole content, a position, a closed flag.
   read(size): size < 0 reads everything that is left (io semantics) *)
Record fsrc := { f_data : bytes; f_pos : N; f_closed : bool }.

Definition f_chunk (s : fsrc) (size : Z) : bytes :=
  let rest := bskip (f_pos s) (f_data s) in
  if (size <? 0)%Z then rest else btake (Z.to_N size) rest.

Definition f_read (s : fsrc) (size : Z) : fsrc * res bytes :=
  if f_closed s then (s, Exn ValueError)       (* I/O operation on closed file *)
  else let chunk := f_chunk s size in
       ({| f_data := f_data s; f_pos := f_pos s + blen chunk; f_closed := false |}, Ok chunk).

(* the chunks an open file hands to successive read(size) calls *)
Fixpoint f_chunks (s : fsrc) (sizes : list Z) : list bytes :=
  match sizes with
  | [] => []
  | n :: rest =>
    let c := f_chunk s n in
    c :: f_chunks {| f_data := f_data s; f_pos := f_pos s + blen c; f_closed := false |} rest
  end.

Definition f_close (s : fsrc) : fsrc :=
  {| f_data := f_data s; f_pos := f_pos s; f_closed := true |}.

(* iterator source: the chunks not yet produced; an exhausted iterator keeps raising
   StopIteration.  [i_has_close]: generators have .close() (afterwards: exhausted),
   list iterators do not. *)
Record isrc := { i_chunks : list bytes; i_has_close : bool }.

Definition i_next (s : isrc) : isrc * res bytes :=
  match i_chunks s with
  | [] => (s, Exn StopIteration)
  | c :: r => ({| i_chunks := r; i_has_close := i_has_close s |}, Ok c)
  end.

Definition i_close (s : isrc) : isrc :=
  if i_has_close s then {| i_chunks := []; i_has_close := true |} else s.

(* sources that can FAIL and go on.  A scripted iterator: the answers to successive next()
   calls - a chunk, a transient error raised once (the next call resumes), or StopIteration
   in the middle (a resumable source: more data later); after the script: StopIteration. *)
Record ssrc := { ss_items : list (res bytes) }.
Definition ss_next (s : ssrc) : ssrc * res bytes :=
  match ss_items s with
  | [] => (s, Exn StopIteration)
  | r :: t => ({| ss_items := t |}, r)
  end.

(* a file whose read() fails transiently: one entry per read call, Some e = this call raises
   e and consumes nothing *)
Record ffsrc := { ff_src : fsrc; ff_faults : list (option exn) }.
Definition ff_read (s : ffsrc) (size : Z) : ffsrc * res bytes :=
  match ff_faults s with
  | Some e :: t => ({| ff_src := ff_src s; ff_faults := t |}, Exn e)
  | _ => let (f', r) := f_read (ff_src s) size in ({| ff_src := f'; ff_faults := tl (ff_faults s) |}, r)
  end.
Definition ff_close (s : ffsrc) : ffsrc := {| ff_src := f_close (ff_src s); ff_faults := ff_faults s |}.

(* ------------------------------------------------------------------ wrapper *)

Section Wrap.
Variable I : Type.
Variable eat : I -> bytes -> I * option exn.
Variable finish : I -> I.
Variable complete : I -> bool.
Variable fmatch : I -> bool.
Variable sh : pc_shape.

Record slot := { s_name : str; s_insp : I; s_err : bool }.

Record wrapper := { w_slots : list slot; w_expected : option str; w_finished : bool }.

(* inspector.NAME == self._expected_format (None is equal to no name) *)
Definition name_is (nm : str) (expected : option str) : bool :=
  match expected with Some e => beq nm e | None => false end.

(* one call of eat_chunk, as seen from outside: position of the inspector in the
   collection, its NAME, the chunk it was given, the exception it raised *)
Record eat_ev := { ev_idx : nat; ev_name : str; ev_chunk : bytes; ev_exn : option exn }.

(* __init__: {v() for k, v in ALL_FORMATS.items() if not allowed_formats or k in allowed_formats}
   allowed = None and allowed = [] both mean "all" *)
Definition memb (k : str) (l : list str) : bool := existsb (beq k) l.
Definition allowed_key (allowed : list str) (k : str) : bool :=
  match allowed with [] => true | _ => memb k allowed end.
Definition mk_slots (factory : list (str * I)) (allowed : list str) : list slot :=
  map (fun p => {| s_name := fst p; s_insp := snd p; s_err := false |})
      (filter (fun p => allowed_key allowed (fst p)) factory).
Definition mk_wrapper (factory : list (str * I)) (expected : option str) (allowed : list str) : wrapper :=
  {| w_slots := mk_slots factory allowed; w_expected := expected; w_finished := false |}.

(* _process_chunk: the loop over [i for i in self._inspectors if i not in self._errored_inspectors].
   Returns the slots after the call, the eat_chunk calls made (in order) and the
   exception leaving _process_chunk, if any.  When an exception leaves, the slots
   after the current one are untouched (they have NOT seen this chunk). *)
Fixpoint pc_loop (expected : option str) (idx : nat) (ss : list slot) (chunk : bytes)
  : list slot * list eat_ev * option exn :=
  match ss with
  | [] => ([], [], None)
  | s :: rest =>
    if sh_skip_errored sh && s_err s then
      let '(rest', tr, r) := pc_loop expected (S idx) rest chunk in (s :: rest', tr, r)
    else
      let (i', oe) := eat (s_insp s) chunk in
      let ev := {| ev_idx := idx; ev_name := s_name s; ev_chunk := chunk; ev_exn := oe |} in
      let is_exp := name_is (s_name s) expected in
      match oe with
      | Some e =>
        if eval_reraise (sh_reraise sh) is_exp then
          (* raise: the inspector keeps whatever state eat_chunk left; it is NOT errored *)
          ({| s_name := s_name s; s_insp := i'; s_err := s_err s |} :: rest, [ev], Some e)
        else
          let s' := {| s_name := s_name s; s_insp := i';
                       s_err := if sh_add_errored sh then true else s_err s |} in
          let '(rest', tr, r) := pc_loop expected (S idx) rest chunk in
          (s' :: rest', ev :: tr, r)
      | None =>
        let s' := {| s_name := s_name s; s_insp := i'; s_err := s_err s |} in
        if eval_else (sh_else sh) is_exp (complete i') (fmatch i') then
          (s' :: rest, [ev], Some ImageFormatError)
        else
          let '(rest', tr, r) := pc_loop expected (S idx) rest chunk in
          (s' :: rest', ev :: tr, r)
      end
  end.

Definition with_slots (w : wrapper) (ss : list slot) : wrapper :=
  {| w_slots := ss; w_expected := w_expected w; w_finished := w_finished w |}.

Definition process_chunk (w : wrapper) (chunk : bytes) : wrapper * list eat_ev * option exn :=
  let '(ss, tr, r) := pc_loop (w_expected w) 0 (w_slots w) chunk in (with_slots w ss, tr, r).

(* _finish: finish() on ALL inspectors (errored ones included), then _finished = True *)
Definition finish_slot (s : slot) : slot :=
  {| s_name := s_name s; s_insp := finish (s_insp s); s_err := s_err s |}.
Definition finish_all (w : wrapper) : wrapper :=
  {| w_slots := map finish_slot (w_slots w); w_expected := w_expected w; w_finished := true |}.

(* ---- what one wrapper call gets from its source, and what it gives the reader *)
Inductive input :=
| InChunk (c : bytes)      (* read(size) / next(source) returned c (possibly b'') *)
| InStop                   (* next(source) raised StopIteration *)
| InSrcErr (e : exn)       (* the source itself raised e (read on a closed file) *)
| InClose.                 (* close() *)

Inductive output :=
| OutChunk (c : bytes)     (* the call returned c *)
| OutExn (e : exn)         (* the call raised e *)
| OutNone.                 (* close() returned None *)

(* read / __next__ after the source has answered; close after the source was closed *)
Definition w_step (w : wrapper) (inp : input) : wrapper * list eat_ev * output :=
  match inp with
  | InChunk c =>
    let '(w', tr, r) := process_chunk w c in
    (w', tr, match r with Some e => OutExn e | None => OutChunk c end)
  | InStop => (finish_all w, [], OutExn StopIteration)     (* __next__: _finish(); raise *)
  | InSrcErr e => (w, [], OutExn e)
  | InClose => (finish_all w, [], OutNone)
  end.

(* any sequence of calls, the reader going on after exceptions; one record per call:
   what the source answered, the eat_chunk calls made, what the reader got *)
Record step_rec := { sr_in : input; sr_tr : list eat_ev; sr_out : output }.

Fixpoint w_run (w : wrapper) (inps : list input) : wrapper * list step_rec :=
  match inps with
  | [] => (w, [])
  | inp :: rest =>
    let '(w1, tr1, o) := w_step w inp in
    let (w2, recs) := w_run w1 rest in
    (w2, {| sr_in := inp; sr_tr := tr1; sr_out := o |} :: recs)
  end.

Definition run_trace (recs : list step_rec) : list eat_ev := concat (map sr_tr recs).

(* the chunk a call had taken from its source (lost when the call then raises) *)
Definition taken (inp : input) : option bytes := match inp with InChunk c => Some c | _ => None end.
Definition opt_bytes (o : option bytes) : bytes := match o with Some c => c | None => [] end.

(* a reader that stops at the first exception: chunks delivered; the exception together
   with the chunk the failing call had taken from the source (None: the source itself
   raised); the source answers that were never requested *)
Fixpoint w_run_stop (w : wrapper) (inps : list input)
  : wrapper * list eat_ev * list bytes * option (exn * option bytes) * list input :=
  match inps with
  | [] => (w, [], [], None, [])
  | inp :: rest =>
    let '(w1, tr1, o) := w_step w inp in
    match o with
    | OutExn e => (w1, tr1, [], Some (e, taken inp), rest)
    | OutChunk c =>
      let '(w2, tr2, cs, stop, unused) := w_run_stop w1 rest in (w2, tr1 ++ tr2, c :: cs, stop, unused)
    | OutNone =>
      let '(w2, tr2, cs, stop, unused) := w_run_stop w1 rest in (w2, tr1 ++ tr2, cs, stop, unused)
    end
  end.

(* ---- vocabulary for the statements (Proofs/Wrap.v, Properties/C06.v) *)

(* is the inspector at position k in the errored set? *)
Definition err_at (w : wrapper) (k : nat) : bool :=
  match nth_error (w_slots w) k with Some s => s_err s | None => false end.

(* Feeding chunks c0 c1 ... to an inspector in state i: the first chunk at which it
   either raises (AbFault e) or is complete without matching after a successful
   eat_chunk (AbMismatch), with the index of that chunk. *)
Inductive abort_kind := AbFault (e : exn) | AbMismatch.
Definition abort_exn (k : abort_kind) : exn := match k with AbFault e => e | AbMismatch => ImageFormatError end.

Fixpoint first_abort (i : I) (cs : list bytes) : option (nat * abort_kind) :=
  match cs with
  | [] => None
  | c :: cs' =>
    let (i', oe) := eat i c in
    match oe with
    | Some e => Some (O, AbFault e)
    | None =>
      if complete i' && negb (fmatch i') then Some (O, AbMismatch)
      else match first_abort i' cs' with Some (k, a) => Some (S k, a) | None => None end
    end
  end.

(* state of an inspector after being fed chunks until its first exception, and
   whether it raised (this is what a non-expected slot of the wrapper holds) *)
Fixpoint feed (i : I) (cs : list bytes) : I * bool :=
  match cs with
  | [] => (i, false)
  | c :: cs' => let (i', oe) := eat i c in match oe with Some _ => (i', true) | None => feed i' cs' end
  end.

(* ---- the two concrete protocols *)

(* what the wrapper call makes of the answer of its source *)
Definition src_input (r : res bytes) : input :=
  match r with Ok c => InChunk c | Exn StopIteration => InStop | Exn e => InSrcErr e end.

(* InspectWrapper.read(size) on a file-like source: chunk = self._source.read(size);
   self._process_chunk(chunk); return chunk.  (Also returns, for the statements, what
   the source answered.) *)
Definition w_read (w : wrapper) (s : fsrc) (size : Z) : wrapper * fsrc * list eat_ev * input * output :=
  let (s', r) := f_read s size in
  let '(w', tr, o) := w_step w (src_input r) in
  (w', s', tr, src_input r, o).

(* InspectWrapper.__next__() on an iterator source *)
Definition w_next (w : wrapper) (s : isrc) : wrapper * isrc * list eat_ev * input * output :=
  let (s', r) := i_next s in
  let '(w', tr, o) := w_step w (src_input r) in
  (w', s', tr, src_input r, o).

(* the same two methods over ANY source (its read / next may raise any exception at any call
   and go on afterwards).  read(): every exception of the source propagates as it is;
   __next__(): StopIteration -> _finish() then re-raise, any other exception propagates as it
   is.  In both cases a failing source call leaves the wrapper untouched (except that
   StopIteration in __next__ finishes it). *)
Definition src_input_read (r : res bytes) : input :=
  match r with Ok c => InChunk c | Exn e => InSrcErr e end.

Definition w_read_on (Src : Type) (src_read : Src -> Z -> Src * res bytes) (w : wrapper) (s : Src) (size : Z)
  : wrapper * Src * list eat_ev * input * output :=
  let (s', r) := src_read s size in
  let '(w', tr, o) := w_step w (src_input_read r) in
  (w', s', tr, src_input_read r, o).

Definition w_next_on (Src : Type) (src_next : Src -> Src * res bytes) (w : wrapper) (s : Src)
  : wrapper * Src * list eat_ev * input * output :=
  let (s', r) := src_next s in
  let '(w', tr, o) := w_step w (src_input r) in
  (w', s', tr, src_input r, o).

(* InspectWrapper.close() : source.close() if it has one, then _finish() *)
Definition w_close_f (w : wrapper) (s : fsrc) : wrapper * fsrc := (finish_all w, f_close s).
Definition w_close_i (w : wrapper) (s : isrc) : wrapper * isrc := (finish_all w, i_close s).

(* the answers a file source gives to successive read(size) calls *)
Fixpoint f_inputs (s : fsrc) (sizes : list Z) : list input * fsrc :=
  match sizes with
  | [] => ([], s)
  | n :: rest =>
    let (s1, r) := f_read s n in
    let (ins, s2) := f_inputs s1 rest in
    (src_input r :: ins, s2)
  end.

(* the answers an iterator gives to n successive next() calls *)
Fixpoint i_inputs (s : isrc) (n : nat) : list input * isrc :=
  match n with
  | O => ([], s)
  | S k =>
    let (s1, r) := i_next s in
    let (ins, s2) := i_inputs s1 k in
    (src_input r :: ins, s2)
  end.

(* a reader calling read(size) for each size in turn, stopping at the first exception:
   chunks delivered; the exception and the chunk the failing call had taken from the source *)
Fixpoint run_reads (w : wrapper) (s : fsrc) (sizes : list Z)
  : wrapper * fsrc * list eat_ev * list bytes * option (exn * option bytes) :=
  match sizes with
  | [] => (w, s, [], [], None)
  | n :: rest =>
    let '(w1, s1, tr1, inp, o) := w_read w s n in
    match o with
    | OutChunk c =>
      let '(w2, s2, tr2, cs, stop) := run_reads w1 s1 rest in (w2, s2, tr1 ++ tr2, c :: cs, stop)
    | OutExn e => (w1, s1, tr1, [], Some (e, taken inp))
    | OutNone => (w1, s1, tr1, [], None)      (* never produced by read *)
    end
  end.

(* [for chunk in wrapper: ...]: next() until the first exception (StopIteration ends the
   loop; it is reported like any other exception).  [fuel] bounds the number of calls;
   S (length chunks) calls always reach the StopIteration. *)
Fixpoint run_iter (fuel : nat) (w : wrapper) (s : isrc)
  : wrapper * isrc * list eat_ev * list bytes * option (exn * option bytes) :=
  match fuel with
  | O => (w, s, [], [], None)
  | S k =>
    let '(w1, s1, tr1, inp, o) := w_next w s in
    match o with
    | OutChunk c =>
      let '(w2, s2, tr2, cs, stop) := run_iter k w1 s1 in (w2, s2, tr1 ++ tr2, c :: cs, stop)
    | OutExn e => (w1, s1, tr1, [], Some (e, taken inp))
    | OutNone => (w1, s1, tr1, [], None)      (* never produced by __next__ *)
    end
  end.

(* ------------------------------------------------------------------ formats / format *)
(* the literals of the two comprehensions: {i ... if i.NAME != 'raw'}, [x ... if str(x) == 'raw'] *)
Variable raw_nr : str.
Variable raw_r : str.

Definition is_raw_nr (s : slot) : bool := beq (s_name s) raw_nr.
Definition is_raw (s : slot) : bool := beq (s_name s) raw_r.
Definition non_raw (w : wrapper) : list slot := filter (fun s => negb (is_raw_nr s)) (w_slots w).
Definition all_complete (w : wrapper) : bool := forallb (fun s => complete (s_insp s)) (non_raw w).
Definition matches (w : wrapper) : list slot := filter (fun s => fmatch (s_insp s)) (non_raw w).

(* None = no decision yet.  [x for x in self._inspectors if str(x) == 'raw'] cannot raise
   IndexError: without a raw inspector the result is the empty list. *)
Definition formats (w : wrapper) : option (list slot) :=
  if negb (all_complete w) && negb (w_finished w) then None
  else match matches w with
       | [] => Some (filter is_raw (w_slots w))
       | ms => Some ms
       end.

Definition format (w : wrapper) : res (option slot) :=
  match formats w with
  | None => Ok None
  | Some ms =>
    if (1 <? length ms)%nat then Exn ImageFormatError          (* Multiple formats detected *)
    else match ms with
         | m :: _ => Ok (Some m)
         | [] => Exn ImageFormatError                          (* matches[0] -> IndexError -> ImageFormatError *)
         end
  end.

(* ------------------------------------------------------------------ detect_file_format *)
(* with open(filename,'rb') as f:
     wrapper = InspectWrapper(f)
     try:     for _chunk in _chunked_reader(wrapper, chunk_size):
                  if wrapper.format: return wrapper.format
     finally: wrapper.close()
     return wrapper.format
   _chunked_reader: while True: chunk = wrapper.read(chunk_size); if not chunk: break; yield chunk.
   The inspector object returned from inside the loop is selected BEFORE close() runs
   (and is then finished by it); we return its NAME.  Result of the loop: Some r = the
   function leaves through [return]/an exception; None = the loop ended at EOF (or the
   fuel ran out: S (bytes left) always suffices, see Proofs/Wrap.v). *)
Definition format_name (w : wrapper) : res (option str) :=
  match format w with Ok (Some m) => Ok (Some (s_name m)) | Ok None => Ok None | Exn e => Exn e end.

Fixpoint detect_loop (fuel : nat) (chunk_size : Z) (w : wrapper) (s : fsrc)
  : wrapper * fsrc * list eat_ev * option (res (option str)) :=
  match fuel with
  | O => (w, s, [], None)
  | S k =>
    let '(w1, s1, tr1, _, o) := w_read w s chunk_size in
    match o with
    | OutExn e => (w1, s1, tr1, Some (Exn e))
    | OutNone => (w1, s1, tr1, None)
    | OutChunk [] => (w1, s1, tr1, None)                        (* if not chunk: break *)
    | OutChunk _ =>
      match format_name w1 with
      | Exn e => (w1, s1, tr1, Some (Exn e))                    (* wrapper.format raised *)
      | Ok (Some nm) => (w1, s1, tr1, Some (Ok (Some nm)))      (* return wrapper.format *)
      | Ok None =>
        let '(w2, s2, tr2, r) := detect_loop k chunk_size w1 s1 in (w2, s2, tr1 ++ tr2, r)
      end
    end
  end.

Definition detect_file_format (chunk_size : Z) (factory : list (str * I)) (data : bytes)
  : wrapper * fsrc * list eat_ev * res (option str) :=
  let w := mk_wrapper factory None [] in
  let s := {| f_data := data; f_pos := 0; f_closed := false |} in
  let '(w1, s1, tr, r) := detect_loop (S (length data)) chunk_size w s in
  let (w2, s2) := w_close_f w1 s1 in                            (* finally: wrapper.close() *)
  match r with
  | Some r' => (w2, s2, tr, r')
  | None => (w2, s2, tr, format_name w2)                        (* return wrapper.format *)
  end.

End Wrap.

Arguments s_name {I}. Arguments s_insp {I}. Arguments s_err {I}.
Arguments w_slots {I}. Arguments w_expected {I}. Arguments w_finished {I}.
