(* Model/C07_Struct.v — struct.unpack(FMT, b)[0] for the single-field formats ('>Q', '<Q', '<H', '<L', ...):
   struct.error unless len(b) = size; the unsigned integer otherwise.  Used by the generated Gen/C07_Code.v. *)
Require Import OV.Base.Bytes OV.Base.Py.
Open Scope N_scope.

Definition C07_unpack1 (big : bool) (size : N) (b : bytes) : res Z :=
  if blen b =? size then Ok (Z.of_N (if big then be_val b else le_val b)) else Exn StructError.
