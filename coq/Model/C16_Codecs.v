(* Model/C16_Codecs.v — a concrete runtime world: CPython's UTF-8, Latin-1, ASCII,
   UTF-16 (BOM / LE / BE), UTF-32 (BOM / LE / BE), cp1252 and koi8-r codecs (encoder + decoder, error policies strict / ignore / replace), its codec
   name lookup restricted to these eleven codecs, and the NFKD/ASCII fold driven by
   the generated table.  Tied to CPython by correspondence (tools/props/C16.py,
   ops enc / dec / lookup / fold).  Definitions only.

   Not modelled: the other registered error handlers (xmlcharrefreplace,
   backslashreplace, namereplace, surrogateescape, surrogatepass) — any name other
   than strict/ignore/replace behaves like an unregistered handler (LookupError at
   the first error); codec names containing non-ASCII characters. *)
From Coq Require Import String.
Require Import OV.Base.Bytes OV.Base.PyInt OV.Base.Str OV.Base.C16_Py.
Require Import OV.Gen.C16_Aliases OV.Gen.C16_Fold OV.Gen.C16_Charmaps.
Open Scope N_scope.

Inductive policy := Strict | Ignore | Replace | UnknownPolicy.
Definition policy_of (errors : str) : policy :=
  if beq errors (lit "strict") then Strict
  else if beq errors (lit "ignore") then Ignore
  else if beq errors (lit "replace") then Replace
  else UnknownPolicy.

(* what happens at an undecodable span / unencodable character; [k] = the result for the rest *)
Definition on_dec_error (p : policy) (k : cres str) : cres str :=
  match p with
  | Strict => CExn EUnicodeDecodeError
  | Ignore => k
  | Replace => cmap (cons 65533) k
  | UnknownPolicy => CExn ELookupError
  end.
Definition on_enc_error (p : policy) (k : cres bytes) : cres bytes :=
  match p with
  | Strict => CExn EUnicodeEncodeError
  | Ignore => k
  | Replace => cmap (cons 63) k
  | UnknownPolicy => CExn ELookupError
  end.

(* ---------- UTF-8 ---------- *)
(* code points a Python str can hold that UTF-8 can encode: no surrogates, below 0x110000 *)
Definition scalar (c : N) : bool := (c <? 55296) || ((57343 <? c) && (c <? 1114112)).
Definition valid_text (s : str) : bool := forallb scalar s.

Definition utf8_enc1 (c : N) : option bytes :=
  if c <? 128 then Some [c]
  else if c <? 2048 then Some [192 + c / 64; 128 + c mod 64]
  else if c <? 65536 then
    if (55296 <=? c) && (c <=? 57343) then None
    else Some [224 + c / 4096; 128 + (c / 64) mod 64; 128 + c mod 64]
  else if c <? 1114112 then Some [240 + c / 262144; 128 + (c / 4096) mod 64; 128 + (c / 64) mod 64; 128 + c mod 64]
  else None.

Fixpoint utf8_enc (p : policy) (s : str) : cres bytes :=
  match s with
  | [] => COk []
  | c :: t => match utf8_enc1 c with
              | Some bs => cmap (app bs) (utf8_enc p t)
              | None => on_enc_error p (utf8_enc p t)
              end
  end.

Definition is_cont (b : N) : bool := (128 <=? b) && (b <=? 191).
(* admissible second byte after a three-byte lead (no overlongs, no surrogates) *)
Definition second3 (b0 b1 : N) : bool :=
  if b0 =? 224 then (160 <=? b1) && (b1 <=? 191)
  else if b0 =? 237 then (128 <=? b1) && (b1 <=? 159)
  else is_cont b1.
(* admissible second byte after a four-byte lead (no overlongs, nothing above U+10FFFF) *)
Definition second4 (b0 b1 : N) : bool :=
  if b0 =? 240 then (144 <=? b1) && (b1 <=? 191)
  else if b0 =? 244 then (128 <=? b1) && (b1 <=? 143)
  else is_cont b1.

(* An error covers the maximal prefix that could still start a valid sequence
   (at least one byte); decoding resumes right after it. *)
Fixpoint utf8_dec (p : policy) (bs : bytes) : cres str :=
  match bs with
  | [] => COk []
  | b0 :: r0 =>
    if b0 <? 128 then cmap (cons b0) (utf8_dec p r0)
    else if (194 <=? b0) && (b0 <=? 223) then
      match r0 with
      | [] => on_dec_error p (COk [])
      | b1 :: r1 =>
        if is_cont b1 then cmap (cons ((b0 - 192) * 64 + (b1 - 128))) (utf8_dec p r1)
        else on_dec_error p (utf8_dec p r0)
      end
    else if (224 <=? b0) && (b0 <=? 239) then
      match r0 with
      | [] => on_dec_error p (COk [])
      | b1 :: r1 =>
        if second3 b0 b1 then
          match r1 with
          | [] => on_dec_error p (COk [])
          | b2 :: r2 =>
            if is_cont b2 then cmap (cons ((b0 - 224) * 4096 + (b1 - 128) * 64 + (b2 - 128))) (utf8_dec p r2)
            else on_dec_error p (utf8_dec p r1)
          end
        else on_dec_error p (utf8_dec p r0)
      end
    else if (240 <=? b0) && (b0 <=? 244) then
      match r0 with
      | [] => on_dec_error p (COk [])
      | b1 :: r1 =>
        if second4 b0 b1 then
          match r1 with
          | [] => on_dec_error p (COk [])
          | b2 :: r2 =>
            if is_cont b2 then
              match r2 with
              | [] => on_dec_error p (COk [])
              | b3 :: r3 =>
                if is_cont b3 then
                  cmap (cons ((b0 - 240) * 262144 + (b1 - 128) * 4096 + (b2 - 128) * 64 + (b3 - 128))) (utf8_dec p r3)
                else on_dec_error p (utf8_dec p r2)
              end
            else on_dec_error p (utf8_dec p r1)
          end
        else on_dec_error p (utf8_dec p r0)
      end
    else on_dec_error p (utf8_dec p r0)
  end.

(* ---------- Latin-1 and ASCII ---------- *)
Fixpoint narrow_enc (limit : N) (p : policy) (s : str) : cres bytes :=
  match s with
  | [] => COk []
  | c :: t => if c <? limit then cmap (cons c) (narrow_enc limit p t)
              else on_enc_error p (narrow_enc limit p t)
  end.
Fixpoint ascii_dec (p : policy) (bs : bytes) : cres str :=
  match bs with
  | [] => COk []
  | b :: t => if b <? 128 then cmap (cons b) (ascii_dec p t) else on_dec_error p (ascii_dec p t)
  end.

(* ---------- UTF-16 (little / big endian code units) ----------
   Decoder errors as CPython's utf16_decode reports them:
     one odd byte at the end                         "truncated data"           span = that byte
     a low surrogate where a unit starts             "illegal encoding"         span = 2, resume after it
     a high surrogate not followed by a low one      "illegal UTF-16 surrogate" span = 2, resume AT the next unit
     a high surrogate with fewer than 2 bytes left   "unexpected end of data"   span = everything left
   Encoder: lone surrogates (and anything >= 0x110000) are errors; 'replace' writes '?' as a code unit. *)
Definition unit_bytes (le : bool) (u : N) : bytes :=
  if le then [u mod 256; u / 256] else [u / 256; u mod 256].
Definition unit_val (le : bool) (b0 b1 : N) : N := if le then b0 + 256 * b1 else b1 + 256 * b0.
Definition is_high (u : N) : bool := (55296 <=? u) && (u <=? 56319).
Definition is_low (u : N) : bool := (56320 <=? u) && (u <=? 57343).

Definition on_enc_error_with (rep : bytes) (p : policy) (k : cres bytes) : cres bytes :=
  match p with
  | Strict => CExn EUnicodeEncodeError
  | Ignore => k
  | Replace => cmap (app rep) k
  | UnknownPolicy => CExn ELookupError
  end.

Definition utf16_enc1 (le : bool) (c : N) : option bytes :=
  if scalar c then
    if c <? 65536 then Some (unit_bytes le c)
    else Some (unit_bytes le (55296 + (c - 65536) / 1024) ++ unit_bytes le (56320 + (c - 65536) mod 1024))
  else None.

Fixpoint utf16_enc (le : bool) (p : policy) (s : str) : cres bytes :=
  match s with
  | [] => COk []
  | c :: t => match utf16_enc1 le c with
              | Some bs => cmap (app bs) (utf16_enc le p t)
              | None => on_enc_error_with (unit_bytes le 63) p (utf16_enc le p t)
              end
  end.

Fixpoint utf16_dec (le : bool) (p : policy) (bs : bytes) : cres str :=
  match bs with
  | [] => COk []
  | b0 :: r0 =>
    match r0 with
    | [] => on_dec_error p (COk [])
    | b1 :: r1 =>
      let u := unit_val le b0 b1 in
      if is_low u then on_dec_error p (utf16_dec le p r1)
      else if is_high u then
        match r1 with
        | [] => on_dec_error p (COk [])
        | b2 :: r2 =>
          match r2 with
          | [] => on_dec_error p (COk [])
          | b3 :: r3 =>
            let u2 := unit_val le b2 b3 in
            if is_low u2 then cmap (cons (65536 + (u - 55296) * 1024 + (u2 - 56320))) (utf16_dec le p r3)
            else on_dec_error p (utf16_dec le p r1)
          end
        end
      else cmap (cons u) (utf16_dec le p r1)
    end
  end.

(* 'utf-16': the encoder writes a BOM in the machine's byte order; the decoder honours a leading BOM of
   either order (and drops it), else assumes the machine's order *)
Definition utf16_bom_enc (p : policy) (s : str) : cres bytes :=
  cmap (app (unit_bytes native_le 65279)) (utf16_enc native_le p s).
Definition utf16_bom_dec (p : policy) (bs : bytes) : cres str :=
  match bs with
  | b0 :: b1 :: r =>
      if (b0 =? 255) && (b1 =? 254) then utf16_dec true p r
      else if (b0 =? 254) && (b1 =? 255) then utf16_dec false p r
      else utf16_dec native_le p bs
  | _ => utf16_dec native_le p bs
  end.

(* ---------- UTF-32 ----------
   Decoder errors: a 4-byte unit in the surrogate range or >= 0x110000 (span 4); 1..3 bytes left at the
   end ("truncated data", span = what is left). *)
Definition u32_bytes (le : bool) (c : N) : bytes :=
  if le then [c mod 256; (c / 256) mod 256; (c / 65536) mod 256; c / 16777216]
  else [c / 16777216; (c / 65536) mod 256; (c / 256) mod 256; c mod 256].
Definition u32_val (le : bool) (b0 b1 b2 b3 : N) : N :=
  if le then b0 + 256 * b1 + 65536 * b2 + 16777216 * b3 else b3 + 256 * b2 + 65536 * b1 + 16777216 * b0.

Fixpoint utf32_enc (le : bool) (p : policy) (s : str) : cres bytes :=
  match s with
  | [] => COk []
  | c :: t => if scalar c then cmap (app (u32_bytes le c)) (utf32_enc le p t)
              else on_enc_error_with (u32_bytes le 63) p (utf32_enc le p t)
  end.

Fixpoint utf32_dec (le : bool) (p : policy) (bs : bytes) : cres str :=
  match bs with
  | [] => COk []
  | b0 :: r0 =>
    match r0 with
    | [] => on_dec_error p (COk [])
    | b1 :: r1 =>
      match r1 with
      | [] => on_dec_error p (COk [])
      | b2 :: r2 =>
        match r2 with
        | [] => on_dec_error p (COk [])
        | b3 :: r3 =>
          let c := u32_val le b0 b1 b2 b3 in
          if scalar c then cmap (cons c) (utf32_dec le p r3) else on_dec_error p (utf32_dec le p r3)
        end
      end
    end
  end.

Definition utf32_bom_enc (p : policy) (s : str) : cres bytes :=
  cmap (app (u32_bytes native_le 65279)) (utf32_enc native_le p s).
Definition utf32_bom_dec (p : policy) (bs : bytes) : cres str :=
  match bs with
  | b0 :: b1 :: b2 :: b3 :: r =>
      if (b0 =? 255) && (b1 =? 254) && (b2 =? 0) && (b3 =? 0) then utf32_dec true p r
      else if (b0 =? 0) && (b1 =? 0) && (b2 =? 254) && (b3 =? 255) then utf32_dec false p r
      else utf32_dec native_le p bs
  | _ => utf32_dec native_le p bs
  end.

(* ---------- single-byte codecs given by a decoding table (cp1252, koi8-r) ----------
   Decoding: an undefined byte is an error of span 1.  Encoding: the first byte the table maps to the
   character (the generator checks that this is CPython's encoder and that 'replace' writes '?'). *)
Definition table_get (tbl : list (option N)) (b : N) : option N := nth (N.to_nat b) tbl None.
Fixpoint find_index (c : N) (tbl : list (option N)) (i : N) : option N :=
  match tbl with
  | [] => None
  | Some x :: r => if x =? c then Some i else find_index c r (i + 1)
  | None :: r => find_index c r (i + 1)
  end.
Fixpoint charmap_dec (tbl : list (option N)) (p : policy) (bs : bytes) : cres str :=
  match bs with
  | [] => COk []
  | b :: t => match table_get tbl b with
              | Some c => cmap (cons c) (charmap_dec tbl p t)
              | None => on_dec_error p (charmap_dec tbl p t)
              end
  end.
Fixpoint charmap_enc (tbl : list (option N)) (p : policy) (s : str) : cres bytes :=
  match s with
  | [] => COk []
  | c :: t => match find_index c tbl 0 with
              | Some b => cmap (cons b) (charmap_enc tbl p t)
              | None => on_enc_error p (charmap_enc tbl p t)
              end
  end.

Definition enc3 (c : codec_id) (s : str) (errors : str) : cres bytes :=
  let p := policy_of errors in
  match c with
  | CUtf8 => utf8_enc p s
  | CLatin1 => narrow_enc 256 p s
  | CAscii => narrow_enc 128 p s
  | CUtf16 => utf16_bom_enc p s
  | CUtf16LE => utf16_enc true p s
  | CUtf16BE => utf16_enc false p s
  | CUtf32 => utf32_bom_enc p s
  | CUtf32LE => utf32_enc true p s
  | CUtf32BE => utf32_enc false p s
  | CCp1252 => charmap_enc cp1252_table p s
  | CKoi8R => charmap_enc koi8r_table p s
  end.
Definition dec3 (c : codec_id) (b : bytes) (errors : str) : cres str :=
  let p := policy_of errors in
  match c with
  | CUtf8 => utf8_dec p b
  | CLatin1 => COk b
  | CAscii => ascii_dec p b
  | CUtf16 => utf16_bom_dec p b
  | CUtf16LE => utf16_dec true p b
  | CUtf16BE => utf16_dec false p b
  | CUtf32 => utf32_bom_dec p b
  | CUtf32LE => utf32_dec true p b
  | CUtf32BE => utf32_dec false p b
  | CCp1252 => charmap_dec cp1252_table p b
  | CKoi8R => charmap_dec koi8r_table p b
  end.

(* ---------- codecs.lookup for ASCII names ----------
   _PyCodec_Lookup lower-cases (ASCII) and encodings.normalize_encoding collapses every
   run of characters other than [A-Za-z0-9.] into one '_' (dropping leading and trailing
   runs); encodings.search_function then tries the alias table with the name and with
   '.' replaced by '_', then the name itself as a module name unless it contains '.'. *)
Definition is_alnum_ascii (c : N) : bool :=
  ((48 <=? c) && (c <=? 57)) || ((65 <=? c) && (c <=? 90)) || ((97 <=? c) && (c <=? 122)).
Fixpoint norm_go (s : str) (punct started : bool) : str :=
  match s with
  | [] => []
  | c :: t =>
    if is_alnum_ascii c || (c =? 46) then
      if punct && started then 95 :: lower_ascii1 c :: norm_go t false true
      else lower_ascii1 c :: norm_go t false true
    else norm_go t true started
  end.
Definition norm_name (s : str) : str := norm_go s false false.

Fixpoint assoc {A} (k : str) (l : list (str * A)) : option A :=
  match l with [] => None | (k', v) :: t => if beq k k' then Some v else assoc k t end.
Definition dots_to_us (s : str) : str := map (fun c => if c =? 46 then 95 else c) s.
Definition has_dot (s : str) : bool := existsb (N.eqb 46) s.

Definition lookup3 (name : str) : option codec_id :=
  let k := norm_name name in
  match assoc k codec_aliases with
  | Some c => Some c
  | None =>
    match assoc (dots_to_us k) codec_aliases with
    | Some c => Some c
    | None => if has_dot k then None else assoc k codec_modules
    end
  end.

(* ---------- NFKD -> ASCII residue, character by character ---------- *)
Definition fold1 (c : N) : str := if c <? 128 then [c] else ftree_find nfkd_ascii_tree c.
Definition nfkd_ascii (s : str) : str := flat_map fold1 s.

Definition world3 (default_enc : str) : world :=
  {| codec := codec_id; lookup := lookup3; enc := enc3; dec := dec3;
     default_incoming := default_enc; ascii_fold := nfkd_ascii |}.
