(* Model/C16_Codecs.v — a concrete runtime world: CPython's UTF-8, Latin-1 and ASCII
   codecs (encoder + decoder, error policies strict / ignore / replace), its codec
   name lookup restricted to these three codecs, and the NFKD/ASCII fold driven by
   the generated table.  Tied to CPython by correspondence (tools/props/C16.py,
   ops enc / dec / lookup / fold).  Definitions only.

   Not modelled: the other registered error handlers (xmlcharrefreplace,
   backslashreplace, namereplace, surrogateescape, surrogatepass) — any name other
   than strict/ignore/replace behaves like an unregistered handler (LookupError at
   the first error); codec names containing non-ASCII characters. *)
From Coq Require Import String.
Require Import OV.Base.Bytes OV.Base.PyInt OV.Base.Str OV.Base.C16_Py.
Require Import OV.Gen.C16_Aliases OV.Gen.C16_Fold.
Open Scope N_scope.

Inductive policy := Strict | Ignore | Replace | UnknownPolicy.
Definition policy_of (errors : str) : policy :=
  if beq errors (lit "strict") then Strict
  else if beq errors (lit "ignore") then Ignore
  else if beq errors (lit "replace") then Replace
  else UnknownPolicy.

(* what happens at an undecodable span / unencodable character; [k] = the result for the rest *)
Definition on_dec_error (p : policy) (k : cres str) : cres str :=
  match p with
  | Strict => CExn EUnicodeDecodeError
  | Ignore => k
  | Replace => cmap (cons 65533) k
  | UnknownPolicy => CExn ELookupError
  end.
Definition on_enc_error (p : policy) (k : cres bytes) : cres bytes :=
  match p with
  | Strict => CExn EUnicodeEncodeError
  | Ignore => k
  | Replace => cmap (cons 63) k
  | UnknownPolicy => CExn ELookupError
  end.

(* ---------- UTF-8 ---------- *)
(* code points a Python str can hold that UTF-8 can encode: no surrogates, below 0x110000 *)
Definition scalar (c : N) : bool := (c <? 55296) || ((57343 <? c) && (c <? 1114112)).
Definition valid_text (s : str) : bool := forallb scalar s.

Definition utf8_enc1 (c : N) : option bytes :=
  if c <? 128 then Some [c]
  else if c <? 2048 then Some [192 + c / 64; 128 + c mod 64]
  else if c <? 65536 then
    if (55296 <=? c) && (c <=? 57343) then None
    else Some [224 + c / 4096; 128 + (c / 64) mod 64; 128 + c mod 64]
  else if c <? 1114112 then Some [240 + c / 262144; 128 + (c / 4096) mod 64; 128 + (c / 64) mod 64; 128 + c mod 64]
  else None.

Fixpoint utf8_enc (p : policy) (s : str) : cres bytes :=
  match s with
  | [] => COk []
  | c :: t => match utf8_enc1 c with
              | Some bs => cmap (app bs) (utf8_enc p t)
              | None => on_enc_error p (utf8_enc p t)
              end
  end.

Definition is_cont (b : N) : bool := (128 <=? b) && (b <=? 191).
(* admissible second byte after a three-byte lead (no overlongs, no surrogates) *)
Definition second3 (b0 b1 : N) : bool :=
  if b0 =? 224 then (160 <=? b1) && (b1 <=? 191)
  else if b0 =? 237 then (128 <=? b1) && (b1 <=? 159)
  else is_cont b1.
(* admissible second byte after a four-byte lead (no overlongs, nothing above U+10FFFF) *)
Definition second4 (b0 b1 : N) : bool :=
  if b0 =? 240 then (144 <=? b1) && (b1 <=? 191)
  else if b0 =? 244 then (128 <=? b1) && (b1 <=? 143)
  else is_cont b1.

(* An error covers the maximal prefix that could still start a valid sequence
   (at least one byte); decoding resumes right after it. *)
Fixpoint utf8_dec (p : policy) (bs : bytes) : cres str :=
  match bs with
  | [] => COk []
  | b0 :: r0 =>
    if b0 <? 128 then cmap (cons b0) (utf8_dec p r0)
    else if (194 <=? b0) && (b0 <=? 223) then
      match r0 with
      | [] => on_dec_error p (COk [])
      | b1 :: r1 =>
        if is_cont b1 then cmap (cons ((b0 - 192) * 64 + (b1 - 128))) (utf8_dec p r1)
        else on_dec_error p (utf8_dec p r0)
      end
    else if (224 <=? b0) && (b0 <=? 239) then
      match r0 with
      | [] => on_dec_error p (COk [])
      | b1 :: r1 =>
        if second3 b0 b1 then
          match r1 with
          | [] => on_dec_error p (COk [])
          | b2 :: r2 =>
            if is_cont b2 then cmap (cons ((b0 - 224) * 4096 + (b1 - 128) * 64 + (b2 - 128))) (utf8_dec p r2)
            else on_dec_error p (utf8_dec p r1)
          end
        else on_dec_error p (utf8_dec p r0)
      end
    else if (240 <=? b0) && (b0 <=? 244) then
      match r0 with
      | [] => on_dec_error p (COk [])
      | b1 :: r1 =>
        if second4 b0 b1 then
          match r1 with
          | [] => on_dec_error p (COk [])
          | b2 :: r2 =>
            if is_cont b2 then
              match r2 with
              | [] => on_dec_error p (COk [])
              | b3 :: r3 =>
                if is_cont b3 then
                  cmap (cons ((b0 - 240) * 262144 + (b1 - 128) * 4096 + (b2 - 128) * 64 + (b3 - 128))) (utf8_dec p r3)
                else on_dec_error p (utf8_dec p r2)
              end
            else on_dec_error p (utf8_dec p r1)
          end
        else on_dec_error p (utf8_dec p r0)
      end
    else on_dec_error p (utf8_dec p r0)
  end.

(* ---------- Latin-1 and ASCII ---------- *)
Fixpoint narrow_enc (limit : N) (p : policy) (s : str) : cres bytes :=
  match s with
  | [] => COk []
  | c :: t => if c <? limit then cmap (cons c) (narrow_enc limit p t)
              else on_enc_error p (narrow_enc limit p t)
  end.
Fixpoint ascii_dec (p : policy) (bs : bytes) : cres str :=
  match bs with
  | [] => COk []
  | b :: t => if b <? 128 then cmap (cons b) (ascii_dec p t) else on_dec_error p (ascii_dec p t)
  end.

Definition enc3 (c : codec_id) (s : str) (errors : str) : cres bytes :=
  match c with
  | CUtf8 => utf8_enc (policy_of errors) s
  | CLatin1 => narrow_enc 256 (policy_of errors) s
  | CAscii => narrow_enc 128 (policy_of errors) s
  end.
Definition dec3 (c : codec_id) (b : bytes) (errors : str) : cres str :=
  match c with
  | CUtf8 => utf8_dec (policy_of errors) b
  | CLatin1 => COk b
  | CAscii => ascii_dec (policy_of errors) b
  end.

(* ---------- codecs.lookup for ASCII names ----------
   _PyCodec_Lookup lower-cases (ASCII) and encodings.normalize_encoding collapses every
   run of characters other than [A-Za-z0-9.] into one '_' (dropping leading and trailing
   runs); encodings.search_function then tries the alias table with the name and with
   '.' replaced by '_', then the name itself as a module name unless it contains '.'. *)
Definition is_alnum_ascii (c : N) : bool :=
  ((48 <=? c) && (c <=? 57)) || ((65 <=? c) && (c <=? 90)) || ((97 <=? c) && (c <=? 122)).
Fixpoint norm_go (s : str) (punct started : bool) : str :=
  match s with
  | [] => []
  | c :: t =>
    if is_alnum_ascii c || (c =? 46) then
      if punct && started then 95 :: lower_ascii1 c :: norm_go t false true
      else lower_ascii1 c :: norm_go t false true
    else norm_go t true started
  end.
Definition norm_name (s : str) : str := norm_go s false false.

Fixpoint assoc {A} (k : str) (l : list (str * A)) : option A :=
  match l with [] => None | (k', v) :: t => if beq k k' then Some v else assoc k t end.
Definition dots_to_us (s : str) : str := map (fun c => if c =? 46 then 95 else c) s.
Definition has_dot (s : str) : bool := existsb (N.eqb 46) s.

Definition lookup3 (name : str) : option codec_id :=
  let k := norm_name name in
  match assoc k codec_aliases with
  | Some c => Some c
  | None =>
    match assoc (dots_to_us k) codec_aliases with
    | Some c => Some c
    | None => if has_dot k then None else assoc k codec_modules
    end
  end.

(* ---------- NFKD -> ASCII residue, character by character ---------- *)
Definition fold1 (c : N) : str := if c <? 128 then [c] else ftree_find nfkd_ascii_tree c.
Definition nfkd_ascii (s : str) : str := flat_map fold1 s.

Definition world3 (default_enc : str) : world :=
  {| codec := codec_id; lookup := lookup3; enc := enc3; dec := dec3;
     default_incoming := default_enc; ascii_fold := nfkd_ascii |}.
