(* Model/C13_Float.v — the binary64 instance of the StopWatch model: T := float64 (SpecFloat, Base/PyFloat.v):
   0.0, IEEE round-to-nearest-even subtraction, IEEE comparisons.  Executable; this is what the
   code computes on a real (float) clock.  Definitions only. *)
From Coq Require Import ZArith List Bool SpecFloat.
Require Import OV.Base.Py OV.Base.PyFloat OV.Base.C13_Types OV.Model.C13 OV.Model.C13_Order.
Import ListNotations.

Definition Fnum : num float64 := mkNum float64 f_zero f_sub f_gtb f_geb.

(* comparable = not NaN *)
Definition f_ok (x : float64) : Prop := f_is_nan x = false.

(* a good clock reading: a valid, finite double; a good subtraction: the rounded difference is finite (no overflow) *)
Definition f_okc (x : float64) : Prop := f_valid x = true /\ f_is_finite x = true.
Definition f_sub_ok (a s : float64) : Prop := f_is_finite (f_sub a s) = true.

(* decidable form, on the first n readings of a clock *)
Definition f_clock_okb (clk : nat -> float64) (n : nat) : bool :=
  forallb (fun i => f_valid (clk i) && f_is_finite (clk i)) (seq 0 n) &&
  forallb (fun j => forallb (fun i => f_is_finite (f_sub (clk j) (clk i))) (seq 0 (S j))) (seq 0 n).
