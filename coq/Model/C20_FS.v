(* Model/C20_FS.v — one concrete runtime: a small file-system model and two hash models.

   Paths are '/'-separated strings relative to a sandbox root (the harness prefixes the
   per-run directory); empty components are ignored, '.' / '..' / symlinks / permissions are
   not modelled (the plugin does not send such cases to the model).  The world is an
   association list from component lists to nodes (the root [] is always a directory), the
   table of open descriptors, and the next descriptor number.

   Used (a) by Extract/C20_x.v for the correspondence check against the real file system,
   and (b) in Proofs/C20_FS.v as a witness that the contracts of Proofs/C20.v are satisfiable
   (so the theorems are not vacuous) — it is NOT part of the statements of the abstract
   theorems. *)
From Coq Require Import String.
Require Import OV.Base.Bytes OV.Base.Py OV.Base.PyInt OV.Base.Str OV.Gen.C20_Consts OV.Model.C20_OS.
Open Scope Z_scope.

Definition fskey := list bytes.

Fixpoint key_eqb (a b : fskey) : bool :=
  match a, b with
  | [], [] => true
  | x :: a', y :: b' => beq x y && key_eqb a' b'
  | _, _ => false
  end.

Definition fs_key (p : bytes) : fskey := filter nonempty (split_char 47%N p).

Record fsw : Type := mk_fsw {
  fs_nodes : list (fskey * node);
  fs_fds : list (Z * fskey);
  fs_next_fd : Z
}.

Fixpoint assoc_key {A} (k : fskey) (l : list (fskey * A)) : option A :=
  match l with
  | [] => None
  | (k', v) :: t => if key_eqb k k' then Some v else assoc_key k t
  end.

Fixpoint remove_key {A} (k : fskey) (l : list (fskey * A)) : list (fskey * A) :=
  match l with
  | [] => []
  | (k', v) :: t => if key_eqb k k' then remove_key k t else (k', v) :: remove_key k t
  end.

Definition fs_look (k : fskey) (w : fsw) : option node :=
  match k with
  | [] => Some NDir
  | _ => assoc_key k (fs_nodes w)
  end.

(* all non-empty proper prefixes of a key, shortest first: [a;b;c] -> [[a];[a;b]] *)
Fixpoint proper_prefixes_from (pre : fskey) (k : fskey) : list fskey :=
  match k with
  | [] => []
  | [_] => []
  | x :: t => (pre ++ [x]) :: proper_prefixes_from (pre ++ [x]) t
  end.
Definition proper_prefixes (k : fskey) : list fskey := proper_prefixes_from [] k.

Definition is_file_at (w : fsw) (k : fskey) : bool :=
  match fs_look k w with Some (NFile _) => true | _ => false end.
Definition is_missing_at (w : fsw) (k : fskey) : bool :=
  match fs_look k w with None => true | _ => false end.

(* errno for a path that does not resolve: ENOTDIR when a proper prefix is a regular
   file, ENOENT otherwise *)
Definition missing_errno (k : fskey) (w : fsw) : Z :=
  if existsb (is_file_at w) (proper_prefixes k) then errno_ENOTDIR else errno_ENOENT.

Definition add_dirs (ks : list fskey) (nodes : list (fskey * node)) : list (fskey * node) :=
  fold_left (fun acc k => match assoc_key k acc with Some _ => acc | None => (k, NDir) :: acc end) ks nodes.

(* os.makedirs(path, mode): EEXIST when the path exists (file or directory); ENOTDIR when
   an ancestor is a regular file; otherwise every missing ancestor and the path itself
   become directories.  The mode is not modelled. *)
Definition fs_makedirs (p : bytes) (mode : Z) (w : fsw) : fsw * ores unit :=
  let k := fs_key p in
  match fs_look k w with
  | Some _ => (w, OErr (std_oserror errno_EEXIST))
  | None =>
      if existsb (is_file_at w) (proper_prefixes k) then (w, OErr (std_oserror errno_ENOTDIR))
      else (mk_fsw (add_dirs (proper_prefixes k ++ [k]) (fs_nodes w)) (fs_fds w) (fs_next_fd w), OOk tt)
  end.

Definition fs_isdir (p : bytes) (w : fsw) : bool :=
  match fs_look (fs_key p) w with Some NDir => true | _ => false end.

(* os.unlink(path): ENOTDIR when an ancestor is a regular file, EISDIR on a directory
   (Linux), ENOENT when there is nothing *)
Definition fs_unlink (p : bytes) (w : fsw) : fsw * ores unit :=
  let k := fs_key p in
  if existsb (is_file_at w) (proper_prefixes k) then (w, OErr (std_oserror errno_ENOTDIR))
  else
    match fs_look k w with
    | Some (NFile _) => (mk_fsw (remove_key k (fs_nodes w)) (fs_fds w) (fs_next_fd w), OOk tt)
    | Some NDir => (w, OErr (std_oserror errno_EISDIR))
    | None => (w, OErr (std_oserror errno_ENOENT))
    end.

Definition fs_open_rb (p : bytes) (w : fsw) : ores bytes :=
  let k := fs_key p in
  match fs_look k w with
  | Some (NFile c) => OOk c
  | Some NDir => OErr (std_oserror errno_EISDIR)
  | None => OErr (std_oserror (missing_errno k w))
  end.

(* the directory mkstemp uses when dir is None (tempfile.tempdir, set by the harness) *)
Definition fs_tmpdir : bytes := lit "tmp".

Definition max_name_len (nodes : list (fskey * node)) : nat :=
  fold_right (fun kn m => Nat.max (fold_right (fun c m' => Nat.max (length c) m') O (fst kn)) m) O nodes.
(* a tag that makes the new name longer than every existing component, hence fresh
   (the real mkstemp draws eight random characters and retries on collision) *)
Definition fresh_tag (w : fsw) : bytes := repeatN 120%N (S (max_name_len (fs_nodes w))).

Definition has_slash (b : bytes) : bool := existsb (N.eqb 47%N) b.

(* a prefix or suffix containing '/' would address a sub-directory that does not exist *)
Definition fs_mkstemp (suffix : bytes) (dir : option bytes) (prefix : bytes) (w : fsw) : fsw * ores (Z * bytes) :=
  let d := match dir with Some x => x | None => fs_tmpdir end in
  let dk := fs_key d in
  if has_slash prefix || has_slash suffix then (w, OErr (std_oserror errno_ENOENT)) else
  match fs_look dk w with
  | Some NDir =>
      let name := prefix ++ fresh_tag w ++ suffix in
      let k := dk ++ [name] in
      let fd := fs_next_fd w in
      (mk_fsw ((k, NFile []) :: fs_nodes w) ((fd, k) :: fs_fds w) (fd + 1), OOk (fd, d ++ [47%N] ++ name))
  | Some (NFile _) => (w, OErr (std_oserror errno_ENOTDIR))
  | None => (w, OErr (std_oserror (missing_errno dk w)))
  end.

Fixpoint assoc_fd (fd : Z) (l : list (Z * fskey)) : option fskey :=
  match l with
  | [] => None
  | (fd', k) :: t => if fd =? fd' then Some k else assoc_fd fd t
  end.
Definition fs_fd_key (fd : Z) (w : fsw) : option fskey := assoc_fd fd (fs_fds w).

(* os.write(fd, data): appends (the only descriptors of this model are the ones mkstemp
   opened on an empty file, and they are written sequentially).  One call transfers at most
   [limit] bytes and returns the number transferred (Linux: limit = MAX_RW_COUNT). *)
Definition fs_write_lim (limit : Z) (fd : Z) (data : bytes) (w : fsw) : fsw * ores Z :=
  match fs_fd_key fd w with
  | None => (w, OErr (std_oserror errno_EBADF))
  | Some k =>
      match fs_look k w with
      | Some (NFile old) =>
          let sent := if zlen data <=? limit then data else btake (Z.to_N limit) data in
          (mk_fsw ((k, NFile (old ++ sent)) :: remove_key k (fs_nodes w)) (fs_fds w) (fs_next_fd w), OOk (zlen sent))
      | _ => (w, OErr (std_oserror errno_EBADF))
      end
  end.
Definition fs_write : Z -> bytes -> fsw -> fsw * ores Z := fs_write_lim max_rw_count.

Definition fs_close (fd : Z) (w : fsw) : fsw * ores unit :=
  match fs_fd_key fd w with
  | None => (w, OErr (std_oserror errno_EBADF))
  | Some _ => (mk_fsw (fs_nodes w) (filter (fun e => negb (fst e =? fd)) (fs_fds w)) (fs_next_fd w), OOk tt)
  end.

(* ---------- hash models ---------- *)
Definition str_mem (s : str) (l : list str) : bool := existsb (beq s) l.

(* (a) "the state is what has been absorbed": satisfies the streaming contract; the digest
   is symbolic (algorithm name, ':', the absorbed bytes) *)
Definition cat_hash : Type := (bytes * bytes)%type.
Definition cat_new (alg : bytes) : ores cat_hash :=
  if str_mem alg hash_algorithms then OOk (alg, []) else OExn ValueError.
Definition cat_update (h : cat_hash) (d : bytes) : cat_hash := (fst h, snd h ++ d).
Definition cat_hexdigest (h : cat_hash) : ores bytes :=
  if str_mem (fst h) hash_xof then OExn TypeError else OOk (fst h ++ [58%N] ++ snd h).

Definition fs_runtime_lim (limit : Z) : runtime fsw cat_hash :=
  mk_runtime fsw cat_hash fs_makedirs fs_isdir fs_unlink fs_open_rb fs_mkstemp (fs_write_lim limit) fs_close
             cat_new cat_update cat_hexdigest.
Definition fs_runtime : runtime fsw cat_hash := fs_runtime_lim max_rw_count.

(* (b) a recording hash for the correspondence trace: the list of chunks passed to update,
   most recent first (deliberately NOT a model of the contract) *)
Definition rec_hash : Type := (bytes * list bytes)%type.
Definition rec_new (alg : bytes) : ores rec_hash :=
  if str_mem alg hash_algorithms then OOk (alg, []) else OExn ValueError.
Definition rec_update (h : rec_hash) (d : bytes) : rec_hash := (fst h, d :: snd h).
Definition rec_hexdigest (h : rec_hash) : ores bytes :=
  if str_mem (fst h) hash_xof then OExn TypeError
  else OOk (join [44%N] (map (fun c => dec_of_N (blen c)) (rev (snd h)))).

Definition rec_runtime : runtime fsw rec_hash :=
  mk_runtime fsw rec_hash fs_makedirs fs_isdir fs_unlink fs_open_rb fs_mkstemp fs_write fs_close
             rec_new rec_update rec_hexdigest.

(* ---------- a scripted runtime for fault injection ----------
   makedirs and unlink return the injected outcome whatever the arguments, isdir the given
   flag; everything else fails.  (The harness does the same to the real code by replacing
   os.makedirs / the remove callable.) *)
Definition script_rt (inj : ores unit) (isd : bool) : runtime unit unit :=
  mk_runtime unit unit (fun _ _ w => (w, inj)) (fun _ _ => isd) (fun _ w => (w, inj))
    (fun _ _ => OErr (std_oserror errno_ENOENT)) (fun _ _ _ w => (w, OErr (std_oserror errno_ENOENT))) (fun _ _ w => (w, OErr (std_oserror errno_EBADF)))
    (fun _ w => (w, OErr (std_oserror errno_EBADF))) (fun _ => OExn ValueError) (fun h _ => h) (fun _ => OExn ValueError).
