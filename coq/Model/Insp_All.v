(* Model/Insp_All.v — the ten inspectors behind one interface (ALL_FORMATS).
   This is the interface the C01/C02/C03/C05/C07 developments and Model/Wrap.v build on:

     fmt_id, all_formats, fmt_name              (generated, ALL_FORMATS order)
     istate                                     an inspector object (any of the ten classes)
     init    : fmt_id -> istate                 cls()
     eat     : istate -> bytes -> istate * option exn     eat_chunk; [Some e] = e escaped, state as left behind
     finish  : istate -> istate                 finish()
     complete      : istate -> bool
     format_match  : istate -> res bool
     virtual_size  : istate -> res Z
     safety        : istate -> safety_result    safety_check(): Pass | Fail names | Refused | Crash e
     context_info  : istate -> list (rname * N) name -> len(data), dict order
     regions_of    : istate -> regions          the region dictionary (name, region record), dict order
     position      : istate -> N                _total_count
     name_of       : istate -> fmt_id
     run     : fmt_id -> list bytes -> istate * option exn    init; eat until the first exception; finish
*)
Require Import OV.Base.Bytes OV.Base.Py OV.Base.Insp_Struct OV.Gen.Insp_Consts OV.Model.Insp_Engine.
Require Import OV.Model.Insp_Raw OV.Model.Insp_Qcow2 OV.Model.Insp_Qed OV.Model.Insp_Vhd OV.Model.Insp_Vdi
               OV.Model.Insp_Iso OV.Model.Insp_Gpt OV.Model.Insp_Luks OV.Model.Insp_Vhdx OV.Model.Insp_Vmdk.
Open Scope N_scope.

(* the formats without private attributes *)
Definition ufmt (f : fmt_id) : fmt unit :=
  match f with
  | F_raw => raw_fmt | F_qed => qed_fmt | F_vhd => vhd_fmt | F_vdi => vdi_fmt | F_iso => iso_fmt
  | F_gpt => gpt_fmt | F_luks => luks_fmt | F_vhdx => vhdx_fmt
  | F_qcow2 | F_vmdk => raw_fmt     (* not used: see [init] *)
  end.

Inductive istate :=
| I_unit (f : fmt_id) (s : ist unit)
| I_qcow (s : ist qx)
| I_vmdk (s : ist vx).

Definition init (f : fmt_id) : istate :=
  match f with
  | F_qcow2 => I_qcow (init_ist qcow_fmt)
  | F_vmdk => I_vmdk (init_ist vmdk_fmt)
  | _ => I_unit f (init_ist (ufmt f))
  end.

Definition name_of (i : istate) : fmt_id :=
  match i with I_unit f _ => f | I_qcow _ => F_qcow2 | I_vmdk _ => F_vmdk end.

Definition eat (i : istate) (chunk : bytes) : istate * option exn :=
  match i with
  | I_unit f s => let '(s', e) := eat_chunk (ufmt f) s chunk in (I_unit f s', e)
  | I_qcow s => let '(s', e) := eat_chunk qcow_fmt s chunk in (I_qcow s', e)
  | I_vmdk s => let '(s', e) := eat_chunk vmdk_fmt s chunk in (I_vmdk s', e)
  end.

Definition finish (i : istate) : istate :=
  match i with
  | I_unit f s => I_unit f (Insp_Engine.finish s)
  | I_qcow s => I_qcow (Insp_Engine.finish s)
  | I_vmdk s => I_vmdk (Insp_Engine.finish s)
  end.

Definition complete (i : istate) : bool :=
  match i with
  | I_unit _ s => Insp_Engine.complete s
  | I_qcow s => Insp_Engine.complete s
  | I_vmdk s => Insp_Engine.complete s
  end.

Definition format_match (i : istate) : res bool :=
  match i with
  | I_unit f s => f_match (ufmt f) s
  | I_qcow s => f_match qcow_fmt s
  | I_vmdk s => f_match vmdk_fmt s
  end.

Definition virtual_size (i : istate) : res Z :=
  match i with
  | I_unit f s => f_vsize (ufmt f) s
  | I_qcow s => f_vsize qcow_fmt s
  | I_vmdk s => f_vsize vmdk_fmt s
  end.

Definition safety (i : istate) : safety_result :=
  match i with
  | I_unit f s => safety_check (ufmt f) s
  | I_qcow s => safety_check qcow_fmt s
  | I_vmdk s => safety_check vmdk_fmt s
  end.

Definition regions_of (i : istate) : regions :=
  match i with I_unit _ s => i_regs s | I_qcow s => i_regs s | I_vmdk s => i_regs s end.

Definition position (i : istate) : N :=
  match i with I_unit _ s => i_pos s | I_qcow s => i_pos s | I_vmdk s => i_pos s end.

Definition finished (i : istate) : bool :=
  match i with I_unit _ s => i_fin s | I_qcow s => i_fin s | I_vmdk s => i_fin s end.

Definition checks_of (i : istate) : list cname :=
  match i with I_unit _ s => i_checks s | I_qcow s => i_checks s | I_vmdk s => i_checks s end.

Definition context_info (i : istate) : list (rname * N) :=
  map (fun p => (fst p, flen (r_data (snd p)))) (regions_of i).

(* feed chunks the way InspectWrapper does (an inspector that raised is never fed again) *)
Fixpoint eat_list (i : istate) (cs : list bytes) : istate * option exn :=
  match cs with
  | [] => (i, None)
  | c :: t =>
    match eat i c with
    | (i', Some e) => (i', Some e)
    | (i', None) => eat_list i' t
    end
  end.

Definition run (f : fmt_id) (cs : list bytes) : istate * option exn :=
  let '(i, e) := eat_list (init f) cs in (finish i, e).

(* the final verdict the property C01 talks about *)
Record verdict := mkVerdict {
  v_exn : option exn; v_match : res bool; v_complete : bool; v_vsize : res Z; v_safety : safety_result
}.
Definition verdict_of (r : istate * option exn) : verdict :=
  mkVerdict (snd r) (format_match (fst r)) (complete (fst r)) (virtual_size (fst r)) (safety (fst r)).
