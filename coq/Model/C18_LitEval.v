(* Model/C18_LitEval.v — ast.literal_eval on the inputs the operators <all-in> and
   <range-in> make sense for: a decimal number, a simple string literal, or a flat
   list of those.  [lev_model s = None] means "outside the modelled fragment":
   the correspondence harness does not compare such values (tools/props/C18.py,
   LEV_DOMAIN is the same grammar as a regular expression, and the two are
   compared on every generated value).  The theorems of Proofs/C18.v do NOT depend
   on this file: they hold for every function str -> levres.

     VALUE  = WS* (ITEM | LIST) WS*                         WS = space | tab
     LIST   = '[' WS* ( ITEM (WS* ',' WS* ITEM)* (WS* ',')? WS* )? ']'
     ITEM   = NUM | STR
     NUM    = [+-]? ( INT | FLOAT )        INT = 0+ | [1-9][0-9]*
     FLOAT  = ([0-9]+ '.' [0-9]* | '.' [0-9]+) EXP? | [0-9]+ EXP      EXP = [eE][+-]?[0-9]+
     STR    = ' C* ' | " C* "    C = printable ASCII other than backslash and the
              quote, or a non-surrogate code point >= U+00A0
   at most 4000 characters (CPython refuses integer literals beyond 4300 digits). *)
From Coq Require Import String.
Require Import OV.Base.Bytes OV.Base.Py OV.Base.PyInt OV.Base.Str OV.Base.PyFloat.
Require Import OV.Gen.C18_SpecsMatcher OV.Model.C18.
Open Scope N_scope.

Definition lv_ws (c : N) : bool := (c =? 32) || (c =? 9).
Fixpoint lv_skip (s : str) : str :=
  match s with c :: t => if lv_ws c then lv_skip t else s | [] => [] end.

Definition lv_digit (c : N) : bool := (48 <=? c) && (c <=? 57).
Fixpoint lv_digits (s : str) : str * str :=
  match s with
  | c :: t => if lv_digit c then let '(d, r) := lv_digits t in (c :: d, r) else ([], s)
  | [] => ([], [])
  end.
Fixpoint dec_val (d : str) (acc : Z) : Z :=
  match d with c :: t => dec_val t (acc * 10 + Z.of_N (c - 48))%Z | [] => acc end.

Definition lv_sign (s : str) : str * str :=
  match s with
  | c :: t => if (c =? 43) || (c =? 45) then ([c], t) else ([], s)
  | [] => ([], [])
  end.

(* a number at the head of [s]: its value and the rest *)
Definition lv_number (s : str) : option (pyval * str) :=
  let '(sg, s1) := lv_sign s in
  let '(d1, r1) := lv_digits s1 in
  let '(dot, r2) := match r1 with
                    | c :: t => if c =? 46 then let '(d2, r) := lv_digits t in (Some d2, r) else (None, r1)
                    | [] => (None, r1)
                    end in
  let frac := match dot with Some d => d | None => [] end in
  if is_nil d1 && is_nil frac then None else
  let '(ex, r3) := match r2 with
                   | c :: t => if (c =? 101) || (c =? 69) then
                                 let '(es, t') := lv_sign t in
                                 let '(d3, r) := lv_digits t' in
                                 if is_nil d3 then ([], r2) else (c :: es ++ d3, r)
                               else ([], r2)
                   | [] => ([], r2)
                   end in
  match dot, ex with
  | None, [] =>
      (* INT: no leading zero unless the literal is all zeros *)
      if match d1 with 48 :: _ :: _ => negb (forallb (fun c => c =? 48) d1) | _ => false end then None
      else let v := dec_val d1 0%Z in
           Some (PInt (if beq sg [45] then (- v)%Z else v), r3)
  | _, _ =>
      let text := sg ++ d1 ++ (match dot with Some d => 46 :: d | None => [] end) ++ ex in
      match py_float_of_str text with
      | Some f => Some (PFloat f, r3)
      | None => None
      end
  end.

Definition lv_strchar (q c : N) : bool :=
  ((32 <=? c) && (c <=? 126) && negb (c =? 92) && negb (c =? q))
  || ((160 <=? c) && (c <? 55296)) || ((57344 <=? c) && (c <=? 1114111)).
Fixpoint lv_strbody (q : N) (s : str) : option (str * str) :=
  match s with
  | [] => None
  | c :: t => if c =? q then Some ([], t)
              else if lv_strchar q c then
                match lv_strbody q t with Some (b, r) => Some (c :: b, r) | None => None end
              else None
  end.

Definition lv_item (s : str) : option (pyval * str) :=
  match s with
  | c :: t => if (c =? 39) || (c =? 34) then
                match lv_strbody c t with Some (b, r) => Some (PStr b, r) | None => None end
              else lv_number s
  | [] => None
  end.

(* after '[' or after a ',' *)
Fixpoint lv_items (fuel : nat) (s : str) (acc : list pyval) : option (list pyval * str) :=
  match fuel with
  | O => None
  | S f =>
    match lv_skip s with
    | [] => None
    | c :: t =>
      if c =? 93 then Some (rev acc, t)
      else match lv_item (c :: t) with
           | None => None
           | Some (v, r) =>
             match lv_skip r with
             | c2 :: t2 => if c2 =? 44 then lv_items f t2 (v :: acc)
                           else if c2 =? 93 then Some (rev (v :: acc), t2)
                           else None
             | [] => None
             end
           end
    end
  end.

Definition lev_model (s : str) : option levres :=
  if 4000 <? blen s then None else
  match lv_skip s with
  | [] => None
  | c :: t =>
    let r := if c =? 91 then
               match lv_items (S (length t)) t [] with
               | Some (l, r) => Some (PList l, r)
               | None => None
               end
             else lv_item (c :: t) in
    match r with
    | Some (v, rest) => if is_nil (lv_skip rest) then Some (LVal v) else None
    | None => None
    end
  end.

(* the total function handed to match_ by the driver: a value outside the fragment
   raises the pseudo-class "UNMODELLED", which the harness recognises *)
Definition E_Unmodelled : str := lit "UNMODELLED".
Definition lev_total (s : str) : levres :=
  match lev_model s with Some r => r | None => LRaise E_Unmodelled end.
