(* Model/C02.v — definitions for property C02 on top of the shared inspector model (Model/Insp_*.v):
   the per-check view of an inspector, the constructor's "at least one safety check" rule,
   the acceptance observable, and the DECLARATIVE byte-level predicates the theorems of
   Properties/C02.v characterise safety_check() by.  The predicates are written from the image
   formats' layouts with literal offsets (they are the ground truth the code is measured against),
   not from the code's constants.  Definitions only. *)
Require Import OV.Base.Bytes OV.Base.Py OV.Base.PyInt OV.Base.Str OV.Base.Insp_Struct OV.Gen.Insp_Consts.
Require Import OV.Model.Insp_Engine OV.Model.Insp_Qcow2 OV.Model.Insp_Vmdk OV.Model.Insp_All.
Open Scope N_scope.

(* ---------- the inspector seen check by check ---------- *)
(* target_fn of the check named c on this object: Ok tt = returned None, Exn e = raised e *)
Definition check_of (i : istate) (c : cname) : res unit :=
  match i with
  | I_unit f s => f_check (ufmt f) c s
  | I_qcow s => f_check qcow_fmt c s
  | I_vmdk s => f_check vmdk_fmt c s
  end.

(* SafetyCheck.__call__: SafetyViolation is re-raised, every other exception is logged and replaced by
   SafetyViolation('Unexpected error'); a normal return is the only way a check succeeds *)
Definition call_check (r : res unit) : res unit :=
  match r with
  | Ok tt => Ok tt
  | Exn SafetyViolation => Exn SafetyViolation
  | Exn _ => Exn SafetyViolation
  end.

(* FileInspector.__init__: after _initialize, an empty _safety_checks raises RuntimeError *)
Definition construct_rule (checks : list cname) : option exn :=
  match checks with [] => Some RuntimeError | _ :: _ => None end.
Definition construct (f : fmt_id) : res istate :=
  match construct_rule (init_checks f) with Some e => Exn e | None => Ok (init f) end.

(* "accepted": no exception escaped eat_chunk and safety_check() returned normally *)
Definition is_pass (r : safety_result) : bool := match r with Pass => true | _ => false end.
Definition accepted (r : istate * option exn) : bool :=
  match snd r with None => is_pass (safety (fst r)) | Some _ => false end.

(* ---------- fields of a byte string ---------- *)
Definition be_at (off len : N) (b : bytes) : N := be_val (bslice off len b).
Definition le_at (off len : N) (b : bytes) : N := le_val (bslice off len b).

(* ---------- qcow2 (layout: docs/interop/qcow2.txt) ---------- *)
Definition qcow2_magic : bytes := [81; 70; 73; 251].               (* QFI\xfb *)
Definition qcow2_version (b : bytes) : N := be_at 4 4 b.
Definition qcow2_backing_offset (b : bytes) : N := be_at 8 8 b.
Definition qcow2_incompat (b : bytes) : N := be_at 72 8 b.         (* incompatible_features, v3 *)
Definition qcow2_datafile_bit : N := 2.                             (* bit 2: external data file *)

(* the version-3 reading of the feature word: no bit the code does not know ([from] = first unknown bit) *)
Definition no_unknown_bits (from w : N) : Prop := forall i, from <= i -> N.testbit w i = false.

Definition qcow2_safe (b : bytes) : Prop :=
  512 <= blen b /\
  bslice 0 4 b = qcow2_magic /\
  qcow2_backing_offset b = 0 /\
  (qcow2_version b = 2 \/ qcow2_version b = 3) /\
  N.testbit (qcow2_incompat b) qcow2_datafile_bit = false /\
  (qcow2_version b = 3 -> no_unknown_bits QCOW_I_FEATURES_MAX_BIT (qcow2_incompat b)).

(* ---------- LUKS ---------- *)
Definition luks_magic : bytes := [76; 85; 75; 83; 186; 190].       (* LUKS\xba\xbe *)
Definition luks_safe (b : bytes) : Prop :=
  592 <= blen b /\ bslice 0 6 b = luks_magic /\ be_at 6 2 b = 1.

(* ---------- MBR / GPT ---------- *)
Definition pte (b : bytes) (i : N) : bytes := bslice (446 + 16 * i) 16 b.
Definition pte_boot (e : bytes) : N := bnth 0 e.
Definition pte_chs (e : bytes) : N * N * N := (bnth 1 e, bnth 2 e, bnth 3 e).
Definition pte_type (e : bytes) : N := bnth 4 e.
Definition pte_lba (e : bytes) : N := le_at 8 4 e.

Definition mbr_table_ok (b : bytes) : Prop :=
  (* every boot flag is 0x00 or 0x80 *)
  (forall i, i < 4 -> pte_boot (pte b i) = 0 \/ pte_boot (pte b i) = 128) /\
  (* at least one partition *)
  (exists i, i < 4 /\ pte_type (pte b i) <> 0) /\
  (* a protective (0xEE) entry is the first one, alone, starts at CHS (0,2,0) and LBA 1 *)
  (forall i, i < 4 -> pte_type (pte b i) = 238 ->
     i = 0 /\ pte_chs (pte b i) = (0, 2, 0) /\ pte_lba (pte b i) = 1 /\
     forall j, j < 4 -> j <> 0 -> pte_type (pte b j) = 0).

Definition looks_like_fat (b : bytes) : Prop := bnth 16 b = 2 /\ bnth 21 b = 248.
Definition gpt_safe (b : bytes) : Prop :=
  512 <= blen b /\ le_at 510 2 b = 43605 (* 0xAA55 *) /\ ~ looks_like_fat b /\ mbr_table_ok b.

(* ---------- formats whose only check is the null check ---------- *)
Definition vhd_magic : bytes := [99; 111; 110; 101; 99; 116; 105; 120].    (* conectix *)
Definition vhd_ok (b : bytes) : Prop := 512 <= blen b /\ bslice 0 8 b = vhd_magic.
Definition vdi_ok (b : bytes) : Prop := 512 <= blen b /\ le_at 64 4 b = 3201962111.     (* 0xbeda107f *)
Definition iso_idents : list bytes := [[67; 68; 48; 48; 49]; [78; 83; 82; 48; 50]; [78; 83; 82; 48; 51]].   (* CD001 NSR02 NSR03 *)
Definition iso_ok (b : bytes) : Prop := 34816 <= blen b /\ In (bslice 32769 5 b) iso_idents.

(* ---------- QED ---------- *)
Definition qed_magic : bytes := [81; 69; 68; 0].

(* ---------- VMDK: what check_descriptor demands of the parsed text ---------- *)
Definition desc_lines (text : str) : list str := map strip (split_char 10 text).
Definition line_ok (l : str) : Prop := classify_line l <> L_bad.
Definition extent_lines (text : str) : list str := filter (fun l => is_extent (classify_line l)) (desc_lines text).

Definition descriptor_ok (x : vx) : Prop :=
  exists text,
    v_desc_text x = Some text /\ text <> [] /\
    In (v_vmdktype x) VMDK_SUBFORMATS /\                       (* monolithicsparse / streamoptimized (lower-cased) *)
    (forall l, In l (desc_lines text) -> line_ok l) /\          (* every line is one the code understands *)
    extent_lines text <> [] /\                                  (* at least one extent *)
    (forall l, In l (extent_lines text) -> memN 47 l = false).  (* no extent contains '/' *)

(* the descriptor text of a byte area: the bytes up to the first NUL, lower-cased *)
Definition up_to_nul (b : bytes) : bytes :=
  match find [0] b with Some i => btake i b | None => b end.
Definition text_of (b : bytes) : str := lower_ascii (up_to_nul b).
Definition is_ascii_text (b : bytes) : bool := forallb (fun c => c <? 128) (up_to_nul b).

(* the sparse header fields the code reads *)
Definition vmdk_sig (h : bytes) : bytes := bslice 0 4 h.
Definition vmdk_ver (h : bytes) : N := le_at 4 4 h.
Definition vmdk_desc_sec (h : bytes) : N := le_at 28 8 h.
Definition vmdk_desc_num (h : bytes) : N := le_at 36 8 h.
Definition vmdk_gd (h : bytes) : N := le_at 56 8 h.
Definition gd_at_end : N := 18446744073709551615.

(* the footer region is the last 1536 bytes: footer marker, copy of the header, end-of-stream marker *)
Definition zeros (n : nat) : bytes := repeatN 0 n.
Definition footer_ok (hdr foot : bytes) : Prop :=
  let fh := bslice 512 64 foot in
  blen foot = 1536 /\
  vmdk_sig fh = vmdk_sig hdr /\ vmdk_ver fh = vmdk_ver hdr /\
  vmdk_desc_sec fh = vmdk_desc_sec hdr /\ vmdk_desc_num fh = vmdk_desc_num hdr /\
  vmdk_gd fh <> gd_at_end /\
  (* footer marker: size 0, type 3, zero padding *)
  le_at 8 4 foot = 0 /\ le_at 12 4 foot = 3 /\ bslice 16 496 foot = zeros 496 /\
  (* end-of-stream marker: val 0, size 0, type 0, zero padding *)
  le_at 1024 8 foot = 0 /\ le_at 1032 4 foot = 0 /\ le_at 1036 4 foot = 0 /\ bslice 1040 496 foot = zeros 496.

(* ---------- executable (boolean) forms of the predicates above; equivalence in Proofs/C02_Spec.v ---------- *)
Definition qcow2_safeb (b : bytes) : bool :=
  (512 <=? blen b) && beq (bslice 0 4 b) qcow2_magic && (qcow2_backing_offset b =? 0) &&
  ((qcow2_version b =? 2) || (qcow2_version b =? 3)) &&
  negb (N.testbit (qcow2_incompat b) qcow2_datafile_bit) &&
  (negb (qcow2_version b =? 3) || (qcow2_incompat b <? 2 ^ QCOW_I_FEATURES_MAX_BIT)).

Definition luks_safeb (b : bytes) : bool :=
  (592 <=? blen b) && beq (bslice 0 6 b) luks_magic && (be_at 6 2 b =? 1).

Definition idx4 : list N := [0; 1; 2; 3].
(* one partition table entry *)
Definition boot_okb (e : bytes) : bool := (pte_boot e =? 0) || (pte_boot e =? 128).
Definition is_ee (e : bytes) : bool := pte_type e =? 238.
Definition nonzero (e : bytes) : bool := negb (pte_type e =? 0).
Definition start_okb (e : bytes) : bool :=
  (bnth 1 e =? 0) && (bnth 2 e =? 2) && (bnth 3 e =? 0) && (pte_lba e =? 1).
Definition entry_okb (e : bytes) : bool := boot_okb e && (negb (is_ee e) || start_okb e).
Definition mbr_table_okb (b : bytes) : bool :=
  forallb (fun j => entry_okb (pte b j)) idx4 &&
  (negb (existsb (fun j => is_ee (pte b j)) idx4) ||
   (nonzero (pte b 0) && negb (nonzero (pte b 1)) && negb (nonzero (pte b 2)) && negb (nonzero (pte b 3)))) &&
  existsb (fun j => nonzero (pte b j)) idx4.
Definition gpt_safeb (b : bytes) : bool :=
  (512 <=? blen b) && (le_at 510 2 b =? 43605) && negb ((bnth 16 b =? 2) && (bnth 21 b =? 248)) && mbr_table_okb b.

Definition vhd_okb (b : bytes) : bool := (512 <=? blen b) && beq (bslice 0 8 b) vhd_magic.
Definition vdi_okb (b : bytes) : bool := (512 <=? blen b) && (le_at 64 4 b =? 3201962111).
Definition iso_okb (b : bytes) : bool := (34816 <=? blen b) && mem_str (bslice 32769 5 b) iso_idents.

(* the byte-level acceptance predicate of each static format (QED: never) *)
Definition static_safeb (f : fmt_id) (b : bytes) : option bool :=
  match f with
  | F_raw => Some true
  | F_qcow2 => Some (qcow2_safeb b)
  | F_qed => Some false
  | F_vhd => Some (vhd_okb b)
  | F_vdi => Some (vdi_okb b)
  | F_iso => Some (iso_okb b)
  | F_gpt => Some (gpt_safeb b)
  | F_luks => Some (luks_safeb b)
  | F_vhdx | F_vmdk => None
  end.

(* a valid sparse header (the complement of the zone of finding F1): signature KDMV, version 1..3 *)
Definition hdr_pre (h : bytes) : Prop :=
  vmdk_sig h = VMDK_MAGIC_PP /\ (vmdk_ver h = 1 \/ vmdk_ver h = 2 \/ vmdk_ver h = 3).
(* the length of the descriptor area the inspector captures: min(desc_num * 512, DESC_MAX_SIZE) *)
Definition dsize (h : bytes) : N := N.min (vmdk_desc_num h * 512) VMDK_DESC_MAX_SIZE.

(* executable forms for the sparse VMDK characterisation *)
Definition descriptor_okb (x : vx) : bool :=
  match vmdk_check_descriptor (mkIst 0 [] 0%nat false [] x) with Ok _ => true | Exn _ => false end.
Definition footer_okb (hdr foot : bytes) : bool :=
  let fh := bslice 512 64 foot in
  (blen foot =? 1536) && beq (vmdk_sig fh) (vmdk_sig hdr) && (vmdk_ver fh =? vmdk_ver hdr) &&
  (vmdk_desc_sec fh =? vmdk_desc_sec hdr) && (vmdk_desc_num fh =? vmdk_desc_num hdr) && negb (vmdk_gd fh =? gd_at_end) &&
  (le_at 8 4 foot =? 0) && (le_at 12 4 foot =? 3) && beq (bslice 16 496 foot) (zeros 496) &&
  (le_at 1024 8 foot =? 0) && (le_at 1032 4 foot =? 0) && (le_at 1036 4 foot =? 0) && beq (bslice 1040 496 foot) (zeros 496).
(* None = outside the characterised zone: no valid sparse header (finding F1), or a footer announced on a stream
   shorter than 63+1536 bytes (C01's finding F3) *)
Definition vmdk_sparse_safeb (b : bytes) : option bool :=
  if (64 <=? blen b) && beq (vmdk_sig b) VMDK_MAGIC_PP && ((vmdk_ver b =? 1) || (vmdk_ver b =? 2) || (vmdk_ver b =? 3)) then
    if (vmdk_gd b =? gd_at_end) && (blen b <? 1599) then None
    else
      let D := bslice 512 (dsize b) b in
      Some ((vmdk_desc_sec b * 512 =? 512) && (512 + dsize b <=? blen b) && is_ascii_text D &&
            descriptor_okb (mkVx (Some (text_of D)) (vmdk_type_of (text_of D))) &&
            (negb (vmdk_gd b =? gd_at_end) || footer_okb b (bslice (blen b - 1536) 1536 b)))
  else None.

(* the VMDK inspector's private attributes (desc_text, vmdktype) and regions, seen through the interface *)
Definition vmdk_ext_of (i : istate) : vx :=
  match i with I_vmdk s => i_ext s | _ => mkVx None VMDK_NOTFOUND end.
Definition region_data (i : istate) (n : rname) : option bytes :=
  match rget n (regions_of i) with Some r => Some (r_data r) | None => None end.
