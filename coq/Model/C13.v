(* Model/C13.v — hand-written executable model of oslo_utils.timeutils.StopWatch
   (definitions only; lemmas are in Proofs/C13.v, the statement-level translation of the
   source that this model is proved equal to is Gen/C13_StopWatch.v).

   The clock is an infinite stream [clk : nat -> Z]; the configuration of a watch is the
   pair (fields, number of now() calls made so far).  Every method returns the
   configuration at the END of the call — also when the call raises — and the outcome. *)
From Coq Require Import ZArith List Bool.
Require Import OV.Base.Bytes OV.Base.Py OV.Base.C13_Types.
Import ListNotations.
Open Scope Z_scope.

Inductive wstate := SNone | SStarted | SStopped.     (* _state: None | _STARTED | _STOPPED *)

Record watch := mkWatch {
  w_state : wstate;
  w_started : option Z;      (* _started_at *)
  w_stopped : option Z;      (* _stopped_at *)
  w_splits : list split;     (* _splits *)
  w_duration : option Z      (* _duration *)
}.

Definition cfg : Type := (watch * nat)%type.
Definition out (A : Type) : Type := (cfg * res A)%type.

Definition set_state (w : watch) (s : wstate) : watch :=
  mkWatch s (w_started w) (w_stopped w) (w_splits w) (w_duration w).
Definition set_splits (w : watch) (l : list split) : watch :=
  mkWatch (w_state w) (w_started w) (w_stopped w) l (w_duration w).

(* StopWatch(duration) *)
Definition init (duration : option Z) : res watch :=
  match duration with
  | Some d => if d <? 0 then Exn ValueError else Ok (mkWatch SNone None None [] (Some d))
  | None => Ok (mkWatch SNone None None [] None)
  end.

(* _delta_seconds *)
Definition delta (earlier later : Z) : Z := Z.max 0 (later - earlier).

(* the `maximum` clause of elapsed() *)
Definition clamp_max (maximum : option Z) (e : Z) : Z :=
  match maximum with
  | Some m => if e >? m then Z.max 0 m else e
  | None => e
  end.

Section Methods.
Variable clk : nat -> Z.

Definition start (w : watch) (t : nat) : out unit :=
  match w_state w with
  | SStarted => ((w, t), Ok tt)
  | _ => ((mkWatch SStarted (Some (clk t)) None [] (w_duration w), S t), Ok tt)
  end.

Definition stop (w : watch) (t : nat) : out unit :=
  match w_state w with
  | SStopped => ((w, t), Ok tt)
  | SNone => ((w, t), Exn RuntimeError)
  | SStarted => ((mkWatch SStopped (w_started w) (Some (clk t)) (w_splits w) (w_duration w), S t), Ok tt)
  end.

Definition resume (w : watch) (t : nat) : out unit :=
  match w_state w with
  | SStopped => ((set_state w SStarted, t), Ok tt)
  | _ => ((w, t), Exn RuntimeError)
  end.

Definition restart (w : watch) (t : nat) : out unit :=
  match w_state w with
  | SStarted => ((mkWatch SStarted (Some (clk (S t))) None [] (w_duration w), S (S t)), Ok tt)   (* stop(); start() *)
  | _ => ((mkWatch SStarted (Some (clk t)) None [] (w_duration w), S t), Ok tt)
  end.

(* a None timestamp used as a number is CPython's TypeError (unreachable: Proofs/C13.v) *)
Definition elapsed (w : watch) (t : nat) (maximum : option Z) : out Z :=
  match w_state w with
  | SNone => ((w, t), Exn RuntimeError)
  | SStopped =>
      match w_started w, w_stopped w with
      | Some s, Some p => ((w, t), Ok (clamp_max maximum (delta s p)))
      | _, _ => ((w, t), Exn TypeError)
      end
  | SStarted =>
      match w_started w with
      | Some s => ((w, S t), Ok (clamp_max maximum (delta s (clk t))))
      | None => ((w, S t), Exn TypeError)
      end
  end.

Definition split_ (w : watch) (t : nat) : out split :=
  match w_state w with
  | SStarted =>
      match w_started w with
      | Some s =>
          let e := delta s (clk t) in
          let len := match last_opt (w_splits w) with Some l => delta (sp_elapsed l) e | None => e end in
          let sp := mkSplit e len in
          ((set_splits w (w_splits w ++ [sp]), S t), Ok sp)
      | None => ((w, S t), Exn TypeError)
      end
  | _ => ((w, t), Exn RuntimeError)
  end.

Definition leftover (w : watch) (t : nat) (return_none : bool) : out (option Z) :=
  match w_state w with
  | SStarted =>
      match w_duration w with
      | None => if return_none then ((w, t), Ok None) else ((w, t), Exn RuntimeError)
      | Some d =>
          match elapsed w t None with
          | (c, Ok e) => (c, Ok (Some (Z.max 0 (d - e))))
          | (c, Exn x) => (c, Exn x)
          end
      end
  | _ => ((w, t), Exn RuntimeError)
  end.

Definition expired (w : watch) (t : nat) : out bool :=
  match w_state w with
  | SNone => ((w, t), Exn RuntimeError)
  | _ =>
      match w_duration w with
      | None => ((w, t), Ok false)
      | Some d =>
          match elapsed w t None with
          | (c, Ok e) => (c, Ok (e >? d))
          | (c, Exn x) => (c, Exn x)
          end
      end
  end.

Definition has_started (w : watch) (t : nat) : out bool :=
  ((w, t), Ok (match w_state w with SStarted => true | _ => false end)).
Definition has_stopped (w : watch) (t : nat) : out bool :=
  ((w, t), Ok (match w_state w with SStopped => true | _ => false end)).
Definition splits (w : watch) (t : nat) : out (list split) := ((w, t), Ok (w_splits w)).

Definition enter (w : watch) (t : nat) : out unit := start w t.
(* __exit__(type, value, traceback) ignores its arguments, returns None (so an exception raised in the
   with-body propagates) and swallows the RuntimeError of stop() *)
Definition exit_ (w : watch) (t : nat) : out unit :=
  match stop w t with
  | (c, Exn RuntimeError) => (c, Ok tt)
  | o => o
  end.

(* ---- the method alphabet and histories ---- *)
Inductive op :=
| OStart | OStop | OResume | ORestart | OSplit
| OElapsed (maximum : option Z) | OLeftover (return_none : bool) | OExpired
| OHasStarted | OHasStopped | OSplits | OEnter
| OExit (exc : bool).     (* __exit__(type, value, traceback); exc = (type is not None): the with-body raised *)

Inductive value :=
| VSelf | VNone | VNum (z : Z) | VBool (b : bool) | VSplit (s : split) | VSplits (l : list split).

Definition wrap {A} (f : A -> value) (o : out A) : out value :=
  match o with (c, Ok a) => (c, Ok (f a)) | (c, Exn e) => (c, Exn e) end.

Definition step (o : op) (w : watch) (t : nat) : out value :=
  match o with
  | OStart => wrap (fun _ => VSelf) (start w t)
  | OStop => wrap (fun _ => VSelf) (stop w t)
  | OResume => wrap (fun _ => VSelf) (resume w t)
  | ORestart => wrap (fun _ => VSelf) (restart w t)
  | OSplit => wrap VSplit (split_ w t)
  | OElapsed m => wrap VNum (elapsed w t m)
  | OLeftover rn => wrap (fun x => match x with Some z => VNum z | None => VNone end) (leftover w t rn)
  | OExpired => wrap VBool (expired w t)
  | OHasStarted => wrap VBool (has_started w t)
  | OHasStopped => wrap VBool (has_stopped w t)
  | OSplits => wrap VSplits (splits w t)
  | OEnter => wrap (fun _ => VSelf) (enter w t)
  | OExit _ => wrap (fun _ => VNone) (exit_ w t)
  end.

(* a history: the calls are made one after the other on the same watch and clock *)
Fixpoint trace (ops : list op) (w : watch) (t : nat) : list (cfg * res value) :=
  match ops with
  | [] => []
  | o :: rest => let '((w', t'), r) := step o w t in ((w', t'), r) :: trace rest w' t'
  end.

Fixpoint final (ops : list op) (w : watch) (t : nat) : cfg :=
  match ops with
  | [] => (w, t)
  | o :: rest => let '((w', t'), _) := step o w t in final rest w' t'
  end.

End Methods.

(* configurations that some history reaches from a freshly constructed watch *)
Definition reachable (clk : nat -> Z) (c : cfg) : Prop :=
  exists duration w0 ops, init duration = Ok w0 /\ final clk ops w0 0%nat = c.

(* the legality table of the property: which calls are legal in which state
   (leftover additionally needs a duration unless return_none is set) *)
Definition legal (o : op) (w : watch) : bool :=
  match o, w_state w with
  | OStart, _ | ORestart, _ | OEnter, _ | OExit _, _ => true
  | OHasStarted, _ | OHasStopped, _ | OSplits, _ => true
  | OStop, SNone => false
  | OStop, _ => true
  | OResume, SStopped => true
  | OResume, _ => false
  | OSplit, SStarted => true
  | OSplit, _ => false
  | OElapsed _, SNone => false
  | OElapsed _, _ => true
  | OExpired, SNone => false
  | OExpired, _ => true
  | OLeftover rn, SStarted => match w_duration w with Some _ => true | None => rn end
  | OLeftover _, _ => false
  end.

(* number of now() calls a call makes *)
Definition cost (o : op) (w : watch) : nat :=
  match o, w_state w with
  | OStart, SStarted | OEnter, SStarted => 0
  | OStart, _ | OEnter, _ => 1
  | OStop, SStarted | OExit _, SStarted => 1
  | ORestart, SStarted => 2
  | ORestart, _ => 1
  | OSplit, SStarted => 1
  | OElapsed _, SStarted => 1
  | OLeftover _, SStarted => match w_duration w with Some _ => 1 | None => 0 end
  | OExpired, SStarted => match w_duration w with Some _ => 1 | None => 0 end
  | _, _ => 0
  end%nat.

(* ---- vocabulary of the property statements (Properties/C13.v) ---- *)

(* the clock does not go backwards on its first n readings (the readings a history consumed) *)
Definition monotone_upto (clk : nat -> Z) (n : nat) : Prop :=
  forall i, (S i < n)%nat -> clk i <= clk (S i).
Definition monotone_uptob (clk : nat -> Z) (n : nat) : bool :=
  forallb (fun i => clk i <=? clk (S i)) (seq 0 (n - 1)).

(* lengths are the successive differences of the elapsed values (the first one counts from 0) *)
Fixpoint diffs_from (prev : Z) (l : list split) : Prop :=
  match l with
  | [] => True
  | x :: r => sp_length x = sp_elapsed x - prev /\ diffs_from (sp_elapsed x) r
  end.

(* what the code does on any clock: the first length is the elapsed value itself, later ones
   are clamped differences (_delta_seconds) *)
Fixpoint clamped_diffs_from (prev : option Z) (l : list split) : Prop :=
  match l with
  | [] => True
  | x :: r => sp_length x = match prev with Some p => delta p (sp_elapsed x) | None => sp_elapsed x end
              /\ clamped_diffs_from (Some (sp_elapsed x)) r
  end.

(* all states / a watch in a given state, for the legality table *)
Definition in_state (s : wstate) (w : watch) : Prop := w_state w = s.

(* a call that (re)starts the watch: start/__enter__ on a watch that is not running, restart always *)
Definition effective_restart (o : op) (w : watch) : bool :=
  match o, w_state w with
  | OStart, SStarted | OEnter, SStarted => false
  | OStart, _ | OEnter, _ => true
  | ORestart, _ => true
  | _, _ => false
  end.

(* a call that stops a running watch *)
Definition effective_stop (o : op) (w : watch) : bool :=
  match o, w_state w with
  | OStop, SStarted | OExit _, SStarted => true
  | _, _ => false
  end.

Definition all_ops (m : option Z) (rn : bool) : list op :=
  [OStart; OStop; OResume; ORestart; OSplit; OElapsed m; OLeftover rn; OExpired;
   OHasStarted; OHasStopped; OSplits; OEnter; OExit false; OExit true].

(* does some call of the history (re)start the watch / stop or (re)start it? *)
Fixpoint restarts_in (clk : nat -> Z) (ops : list op) (w : watch) (t : nat) : bool :=
  match ops with
  | [] => false
  | o :: r => effective_restart o w || (let '((w', t'), _) := step clk o w t in restarts_in clk r w' t')
  end.

Fixpoint stops_in (clk : nat -> Z) (ops : list op) (w : watch) (t : nat) : bool :=
  match ops with
  | [] => false
  | o :: r => effective_stop o w || effective_restart o w ||
              (let '((w', t'), _) := step clk o w t in stops_in clk r w' t')
  end.

(* the literal reading of "elapsed never exceeds a requested maximum", for EVERY maximum — false for a
   negative maximum, where it contradicts "elapsed is never negative" (Proofs/C13.v: elapsed_max_literal_refuted);
   the theorems carry the zone hypothesis 0 <= maximum instead *)
Definition C13_elapsed_max_full_statement : Prop :=
  forall clk w t m c e, elapsed clk w t (Some m) = (c, Ok e) -> e <= m.

(* the with statement:  with sw: body  [raise X]   =   __enter__(); body; __exit__(exception triple | None) *)
Definition with_block (body : list op) (exc : bool) : list op := OEnter :: body ++ [OExit exc].
