(* Model/C13.v — hand-written executable model of oslo_utils.timeutils.StopWatch
   (definitions only; lemmas are in Proofs/C13*.v, the statement-level translation of the
   source that this model is proved equal to is Gen/C13_StopWatch.v).

   Generic in the number type: T with the operations N : num T (Base/C13_Types.v).  Instances:
   Model/C13_Z.v (exact arithmetic, the ordered group Z) and Model/C13_Float.v (binary64).

   The clock is an infinite stream [clk : nat -> T]; the configuration of a watch is the
   pair (fields, number of now() calls made so far).  Every method returns the
   configuration at the END of the call — also when the call raises — and the outcome. *)
From Coq Require Import List Bool.
Require Import OV.Base.Bytes OV.Base.Py OV.Base.C13_Types.
Import ListNotations.

Inductive wstate := SNone | SStarted | SStopped.     (* _state: None | _STARTED | _STOPPED *)

Record watch (T : Type) := mkWatch {
  w_state : wstate;
  w_started : option T;        (* _started_at *)
  w_stopped : option T;        (* _stopped_at *)
  w_splits : list (split T);   (* _splits *)
  w_duration : option T        (* _duration *)
}.
Arguments mkWatch {T}.
Arguments w_state {T}.
Arguments w_started {T}.
Arguments w_stopped {T}.
Arguments w_splits {T}.
Arguments w_duration {T}.

Definition cfg (T : Type) : Type := (watch T * nat)%type.
Definition out (T A : Type) : Type := (cfg T * res A)%type.

Definition set_state {T} (w : watch T) (s : wstate) : watch T :=
  mkWatch s (w_started w) (w_stopped w) (w_splits w) (w_duration w).
Definition set_splits {T} (w : watch T) (l : list (split T)) : watch T :=
  mkWatch (w_state w) (w_started w) (w_stopped w) l (w_duration w).

(* max(0.0, x): x if x > 0.0 else 0.0 *)
Definition max0 {T} (N : num T) (x : T) : T := n_max N (n_zero N) x.

(* StopWatch(duration) *)
Definition init {T} (N : num T) (duration : option T) : res (watch T) :=
  match duration with
  | Some d => if n_gtb N (n_zero N) d then Exn ValueError else Ok (mkWatch SNone None None [] (Some d))
  | None => Ok (mkWatch SNone None None [] None)
  end.

(* _delta_seconds *)
Definition delta {T} (N : num T) (earlier later : T) : T := max0 N (n_sub N later earlier).

(* the `maximum` clause of elapsed() *)
Definition clamp_max {T} (N : num T) (maximum : option T) (e : T) : T :=
  match maximum with
  | Some m => if n_gtb N e m then max0 N m else e
  | None => e
  end.

Definition start {T} (N : num T) (clk : nat -> T) (w : watch T) (t : nat) : out T unit :=
  match w_state w with
  | SStarted => ((w, t), Ok tt)
  | _ => ((mkWatch SStarted (Some (clk t)) None [] (w_duration w), S t), Ok tt)
  end.

Definition stop {T} (N : num T) (clk : nat -> T) (w : watch T) (t : nat) : out T unit :=
  match w_state w with
  | SStopped => ((w, t), Ok tt)
  | SNone => ((w, t), Exn RuntimeError)
  | SStarted => ((mkWatch SStopped (w_started w) (Some (clk t)) (w_splits w) (w_duration w), S t), Ok tt)
  end.

Definition resume {T} (N : num T) (clk : nat -> T) (w : watch T) (t : nat) : out T unit :=
  match w_state w with
  | SStopped => ((set_state w SStarted, t), Ok tt)
  | _ => ((w, t), Exn RuntimeError)
  end.

Definition restart {T} (N : num T) (clk : nat -> T) (w : watch T) (t : nat) : out T unit :=
  match w_state w with
  | SStarted => ((mkWatch SStarted (Some (clk (S t))) None [] (w_duration w), S (S t)), Ok tt)   (* stop(); start() *)
  | _ => ((mkWatch SStarted (Some (clk t)) None [] (w_duration w), S t), Ok tt)
  end.

(* a None timestamp used as a number is CPython's TypeError (unreachable: Proofs/C13.v) *)
Definition elapsed {T} (N : num T) (clk : nat -> T) (w : watch T) (t : nat) (maximum : option T) : out T T :=
  match w_state w with
  | SNone => ((w, t), Exn RuntimeError)
  | SStopped =>
      match w_started w, w_stopped w with
      | Some s, Some p => ((w, t), Ok (clamp_max N maximum (delta N s p)))
      | _, _ => ((w, t), Exn TypeError)
      end
  | SStarted =>
      match w_started w with
      | Some s => ((w, S t), Ok (clamp_max N maximum (delta N s (clk t))))
      | None => ((w, S t), Exn TypeError)
      end
  end.

Definition split_ {T} (N : num T) (clk : nat -> T) (w : watch T) (t : nat) : out T (split T) :=
  match w_state w with
  | SStarted =>
      match w_started w with
      | Some s =>
          let e := delta N s (clk t) in
          let len := match last_opt (w_splits w) with Some l => delta N (sp_elapsed l) e | None => e end in
          let sp := mkSplit e len in
          ((set_splits w (w_splits w ++ [sp]), S t), Ok sp)
      | None => ((w, S t), Exn TypeError)
      end
  | _ => ((w, t), Exn RuntimeError)
  end.

Definition leftover {T} (N : num T) (clk : nat -> T) (w : watch T) (t : nat) (return_none : bool) : out T (option T) :=
  match w_state w with
  | SStarted =>
      match w_duration w with
      | None => if return_none then ((w, t), Ok None) else ((w, t), Exn RuntimeError)
      | Some d =>
          match elapsed N clk w t None with
          | (c, Ok e) => (c, Ok (Some (max0 N (n_sub N d e))))
          | (c, Exn x) => (c, Exn x)
          end
      end
  | _ => ((w, t), Exn RuntimeError)
  end.

Definition expired {T} (N : num T) (clk : nat -> T) (w : watch T) (t : nat) : out T bool :=
  match w_state w with
  | SNone => ((w, t), Exn RuntimeError)
  | _ =>
      match w_duration w with
      | None => ((w, t), Ok false)
      | Some d =>
          match elapsed N clk w t None with
          | (c, Ok e) => (c, Ok (n_gtb N e d))
          | (c, Exn x) => (c, Exn x)
          end
      end
  end.

Definition has_started {T} (w : watch T) (t : nat) : out T bool :=
  ((w, t), Ok (match w_state w with SStarted => true | _ => false end)).
Definition has_stopped {T} (w : watch T) (t : nat) : out T bool :=
  ((w, t), Ok (match w_state w with SStopped => true | _ => false end)).
Definition splits {T} (w : watch T) (t : nat) : out T (list (split T)) := ((w, t), Ok (w_splits w)).

Definition enter {T} (N : num T) (clk : nat -> T) (w : watch T) (t : nat) : out T unit := start N clk w t.

(* __exit__(type, value, traceback) ignores its arguments, returns None (so an exception raised in the
   with-body propagates) and swallows the RuntimeError of stop() *)
Definition exit_ {T} (N : num T) (clk : nat -> T) (w : watch T) (t : nat) : out T unit :=
  match stop N clk w t with
  | (c, Exn RuntimeError) => (c, Ok tt)
  | o => o
  end.

(* ---- the method alphabet and histories ---- *)
Inductive op (T : Type) :=
| OStart | OStop | OResume | ORestart | OSplit
| OElapsed (maximum : option T) | OLeftover (return_none : bool) | OExpired
| OHasStarted | OHasStopped | OSplits | OEnter
| OExit (exc : bool).     (* __exit__(type, value, traceback); exc = (type is not None): the with-body raised *)
Arguments OStart {T}.
Arguments OStop {T}.
Arguments OResume {T}.
Arguments ORestart {T}.
Arguments OSplit {T}.
Arguments OElapsed {T}.
Arguments OLeftover {T}.
Arguments OExpired {T}.
Arguments OHasStarted {T}.
Arguments OHasStopped {T}.
Arguments OSplits {T}.
Arguments OEnter {T}.
Arguments OExit {T}.

Inductive value (T : Type) :=
| VSelf | VNone | VNum (z : T) | VBool (b : bool) | VSplit (s : split T) | VSplits (l : list (split T)).
Arguments VSelf {T}.
Arguments VNone {T}.
Arguments VNum {T}.
Arguments VBool {T}.
Arguments VSplit {T}.
Arguments VSplits {T}.

Definition wrap {T A} (f : A -> value T) (o : out T A) : out T (value T) :=
  match o with (c, Ok a) => (c, Ok (f a)) | (c, Exn e) => (c, Exn e) end.

Definition step {T} (N : num T) (clk : nat -> T) (o : op T) (w : watch T) (t : nat) : out T (value T) :=
  match o with
  | OStart => wrap (fun _ => VSelf) (start N clk w t)
  | OStop => wrap (fun _ => VSelf) (stop N clk w t)
  | OResume => wrap (fun _ => VSelf) (resume N clk w t)
  | ORestart => wrap (fun _ => VSelf) (restart N clk w t)
  | OSplit => wrap VSplit (split_ N clk w t)
  | OElapsed m => wrap VNum (elapsed N clk w t m)
  | OLeftover rn => wrap (fun x => match x with Some z => VNum z | None => VNone end) (leftover N clk w t rn)
  | OExpired => wrap VBool (expired N clk w t)
  | OHasStarted => wrap VBool (has_started w t)
  | OHasStopped => wrap VBool (has_stopped w t)
  | OSplits => wrap VSplits (splits w t)
  | OEnter => wrap (fun _ => VSelf) (enter N clk w t)
  | OExit _ => wrap (fun _ => VNone) (exit_ N clk w t)
  end.

(* a history: the calls are made one after the other on the same watch and clock *)
Fixpoint trace {T} (N : num T) (clk : nat -> T) (ops : list (op T)) (w : watch T) (t : nat) : list (cfg T * res (value T)) :=
  match ops with
  | [] => []
  | o :: rest => let '((w', t'), r) := step N clk o w t in ((w', t'), r) :: trace N clk rest w' t'
  end.

Fixpoint final {T} (N : num T) (clk : nat -> T) (ops : list (op T)) (w : watch T) (t : nat) : cfg T :=
  match ops with
  | [] => (w, t)
  | o :: rest => let '((w', t'), _) := step N clk o w t in final N clk rest w' t'
  end.

(* configurations that some history reaches from a freshly constructed watch *)
Definition reachable {T} (N : num T) (clk : nat -> T) (c : cfg T) : Prop :=
  exists duration w0 ops, init N duration = Ok w0 /\ final N clk ops w0 0%nat = c.

(* the legality table of the property: which calls are legal in which state
   (leftover additionally needs a duration unless return_none is set) *)
Definition legal {T} (o : op T) (w : watch T) : bool :=
  match o, w_state w with
  | OStart, _ | ORestart, _ | OEnter, _ | OExit _, _ => true
  | OHasStarted, _ | OHasStopped, _ | OSplits, _ => true
  | OStop, SNone => false
  | OStop, _ => true
  | OResume, SStopped => true
  | OResume, _ => false
  | OSplit, SStarted => true
  | OSplit, _ => false
  | OElapsed _, SNone => false
  | OElapsed _, _ => true
  | OExpired, SNone => false
  | OExpired, _ => true
  | OLeftover rn, SStarted => match w_duration w with Some _ => true | None => rn end
  | OLeftover _, _ => false
  end.

(* number of now() calls a call makes *)
Definition cost {T} (o : op T) (w : watch T) : nat :=
  match o, w_state w with
  | OStart, SStarted | OEnter, SStarted => 0
  | OStart, _ | OEnter, _ => 1
  | OStop, SStarted | OExit _, SStarted => 1
  | ORestart, SStarted => 2
  | ORestart, _ => 1
  | OSplit, SStarted => 1
  | OElapsed _, SStarted => 1
  | OLeftover _, SStarted => match w_duration w with Some _ => 1 | None => 0 end
  | OExpired, SStarted => match w_duration w with Some _ => 1 | None => 0 end
  | _, _ => 0
  end%nat.

(* ---- vocabulary of the property statements (Properties/C13.v) ---- *)

(* what the code does on any clock and for any number type: the first length is the elapsed value
   itself, later ones are _delta_seconds(previous elapsed, elapsed) *)
Fixpoint clamped_diffs_from {T} (N : num T) (prev : option T) (l : list (split T)) : Prop :=
  match l with
  | [] => True
  | x :: r => sp_length x = match prev with Some p => delta N p (sp_elapsed x) | None => sp_elapsed x end
              /\ clamped_diffs_from N (Some (sp_elapsed x)) r
  end.

(* a call that (re)starts the watch: start/__enter__ on a watch that is not running, restart always *)
Definition effective_restart {T} (o : op T) (w : watch T) : bool :=
  match o, w_state w with
  | OStart, SStarted | OEnter, SStarted => false
  | OStart, _ | OEnter, _ => true
  | ORestart, _ => true
  | _, _ => false
  end.

(* a call that stops a running watch *)
Definition effective_stop {T} (o : op T) (w : watch T) : bool :=
  match o, w_state w with
  | OStop, SStarted | OExit _, SStarted => true
  | _, _ => false
  end.

Definition all_ops {T} (m : option T) (rn : bool) : list (op T) :=
  [OStart; OStop; OResume; ORestart; OSplit; OElapsed m; OLeftover rn; OExpired;
   OHasStarted; OHasStopped; OSplits; OEnter; OExit false; OExit true].

(* does some call of the history (re)start the watch / stop or (re)start it? *)
Fixpoint restarts_in {T} (N : num T) (clk : nat -> T) (ops : list (op T)) (w : watch T) (t : nat) : bool :=
  match ops with
  | [] => false
  | o :: r => effective_restart o w || (let '((w', t'), _) := step N clk o w t in restarts_in N clk r w' t')
  end.

Fixpoint stops_in {T} (N : num T) (clk : nat -> T) (ops : list (op T)) (w : watch T) (t : nat) : bool :=
  match ops with
  | [] => false
  | o :: r => effective_stop o w || effective_restart o w ||
              (let '((w', t'), _) := step N clk o w t in stops_in N clk r w' t')
  end.

(* the with statement:  with sw: body  [raise X]   =   __enter__(); body; __exit__(exception triple | None) *)
Definition with_block {T} (body : list (op T)) (exc : bool) : list (op T) := OEnter :: body ++ [OExit exc].

(* the splits obtained by reading the clock at the ticks ks while started_at = s *)
Fixpoint build {T} (N : num T) (clk : nat -> T) (s : T) (prev : option T) (ks : list nat) : list (split T) :=
  match ks with
  | [] => []
  | k :: r =>
      let e := delta N s (clk k) in
      mkSplit e (match prev with Some p => delta N p e | None => e end) :: build N clk s (Some e) r
  end.
