(* Model/Insp_Engine.v — the capture engine of oslo_utils/imageutils/format_inspector.py:
   CaptureRegion, EndCaptureRegion, FileInspector (eat_chunk, _capture, finish, complete,
   context_info, safety_check) over an abstract format (post_process, region_complete,
   format_match, virtual_size, the check functions).  Definitions only.

   Numbers: stream positions, offsets and lengths are N (they are sums/products of unsigned
   fields, stream lengths and literals; the three subtractions of the source —
   current_position - len(chunk), wanted - read_start, current_position - len(self.data) —
   are non-negative in every reachable state).  virtual_size is Z (LUKS subtracts).

   Identity: Python compares region OBJECTS (set(...) - pre_regions).  Every region carries
   the serial number [r_id] it got from [new_region]; a deleted and re-created region has a
   new id. *)
Require Import OV.Base.Bytes OV.Base.Py OV.Base.Insp_Struct OV.Gen.Insp_Consts.
Open Scope N_scope.

Record region := mkRegion {
  r_id : nat;            (* object identity *)
  r_end : bool;          (* EndCaptureRegion? *)
  r_off : N;             (* offset *)
  r_len : N;             (* length *)
  r_min : option N;      (* min_length *)
  r_data : bytes;        (* data *)
  r_fin : bool           (* EndCaptureRegion._complete *)
}.

Definition region_of_spec (id : nat) (s : rspec) : region :=
  mkRegion id (rs_end s) (rs_off s) (rs_len s) (rs_min s) [] false.

Definition set_data (r : region) (d : bytes) : region :=
  mkRegion (r_id r) (r_end r) (r_off r) (r_len r) (r_min r) d (r_fin r).
Definition set_off (r : region) (o : N) : region :=
  mkRegion (r_id r) (r_end r) o (r_len r) (r_min r) (r_data r) (r_fin r).
Definition set_len (r : region) (l : N) : region :=
  mkRegion (r_id r) (r_end r) (r_off r) l (r_min r) (r_data r) (r_fin r).
Definition set_fin (r : region) (b : bool) : region :=
  mkRegion (r_id r) (r_end r) (r_off r) (r_len r) (r_min r) (r_data r) b.

(* CaptureRegion.complete (property) *)
Definition base_complete (r : region) : bool :=
  match r_min r with
  | Some m => m <=? flen (r_data r)
  | None => r_len r =? flen (r_data r)
  end.
(* region.complete with dynamic dispatch: EndCaptureRegion.complete = super().complete and self._complete *)
Definition rcomplete (r : region) : bool :=
  if r_end r then base_complete r && r_fin r else base_complete r.

(* CaptureRegion.capture(chunk, current_position) *)
Definition cap_fixed (r : region) (chunk : bytes) (pos : N) : region :=
  let read_start := pos - flen chunk in
  let wanted := r_off r + flen (r_data r) in
  if (read_start <=? wanted) && (wanted <=? pos)
  then set_data r (ntake (r_len r) (r_data r ++ nskip (wanted - read_start) chunk))
  else r.

(* EndCaptureRegion.capture(chunk, current_position) *)
Definition cap_end (r : region) (chunk : bytes) (pos : N) : region :=
  let d := nlast (r_len r) (r_data r ++ chunk) in
  set_off (set_data r d) (pos - flen d).

Definition rcapture (r : region) (chunk : bytes) (pos : N) : region :=
  if r_end r then cap_end r chunk pos else cap_fixed r chunk pos.

(* ---------- the region dictionary: insertion-ordered association list ---------- *)
Definition regions := list (rname * region).

Fixpoint rget (n : rname) (l : regions) : option region :=
  match l with
  | [] => None
  | (k, r) :: t => if rname_beq k n then Some r else rget n t
  end.
Definition rhas (n : rname) (l : regions) : bool :=
  match rget n l with Some _ => true | None => false end.
Fixpoint rdel (n : rname) (l : regions) : regions :=
  match l with
  | [] => []
  | (k, r) :: t => if rname_beq k n then t else (k, r) :: rdel n t
  end.
(* in-place mutation of the region object stored under n *)
Fixpoint rset (n : rname) (r' : region) (l : regions) : regions :=
  match l with
  | [] => []
  | (k, r) :: t => if rname_beq k n then (k, r') :: t else (k, r) :: rset n r' t
  end.

Fixpoint mem_rname (n : rname) (l : list rname) : bool :=
  match l with [] => false | k :: t => rname_beq k n || mem_rname n t end.
Fixpoint mem_cname (n : cname) (l : list cname) : bool :=
  match l with [] => false | k :: t => cname_beq k n || mem_cname n t end.
Fixpoint mem_nat (n : nat) (l : list nat) : bool :=
  match l with [] => false | k :: t => Nat.eqb k n || mem_nat n t end.

Definition ids (l : regions) : list nat := map (fun p => r_id (snd p)) l.
Definition complete_ids (l : regions) : list nat :=
  ids (filter (fun p => rcomplete (snd p)) l).
(* names of the regions whose object is not in [known] *)
Definition new_names (known : list nat) (l : regions) : list rname :=
  map fst (filter (fun p => negb (mem_nat (r_id (snd p)) known)) l).
Definition newly_complete (pre : list nat) (l : regions) : list rname :=
  map fst (filter (fun p => rcomplete (snd p) && negb (mem_nat (r_id (snd p)) pre)) l).

(* FileInspector._capture's loop; [only = []] means no filter (`if only and ...`) *)
Definition capture_regs (only : list rname) (chunk : bytes) (pos : N) (l : regions) : regions :=
  map (fun p =>
         let '(n, r) := p in
         if (match only with [] => false | _ => negb (mem_rname n only) end) then (n, r)
         else if r_end r || negb (rcomplete r) then (n, rcapture r chunk pos)
         else (n, r)) l.

(* fuel of the `while new_regions` loop of eat_chunk; every iteration needs a region object that
   did not exist before, and no inspector creates more than four regions in its life.  Running
   out of fuel yields OtherError, which the theorems exclude. *)
Definition eat_fuel : nat := 8%nat.

Inductive safety_result := Pass | Fail (names : list cname) | Refused | Crash (e : exn).

Section Inspector.
Variable X : Type.

Record ist := mkIst {
  i_pos : N;               (* _total_count *)
  i_regs : regions;        (* _capture_regions *)
  i_next : nat;            (* next region identity *)
  i_fin : bool;            (* _finished *)
  i_checks : list cname;   (* _safety_checks (names, insertion order) *)
  i_ext : X                (* the format's own attributes *)
}.

Definition set_pos (s : ist) (p : N) := mkIst p (i_regs s) (i_next s) (i_fin s) (i_checks s) (i_ext s).
Definition set_regs (s : ist) (l : regions) := mkIst (i_pos s) l (i_next s) (i_fin s) (i_checks s) (i_ext s).
Definition set_ext (s : ist) (x : X) := mkIst (i_pos s) (i_regs s) (i_next s) (i_fin s) (i_checks s) x.

(* self.region(name): KeyError when absent *)
Definition get_region (n : rname) (s : ist) : res region :=
  match rget n (i_regs s) with Some r => Ok r | None => Exn KeyError end.
Definition has_region (n : rname) (s : ist) : bool := rhas n (i_regs s).

(* new_region(name, CaptureRegion(..)/EndCaptureRegion(..)) *)
Definition new_region (n : rname) (sp : rspec) (s : ist) : ist * option exn :=
  if has_region n s then (s, Some ImageFormatError)
  else (mkIst (i_pos s) (i_regs s ++ [(n, region_of_spec (i_next s) sp)]) (S (i_next s))
              (i_fin s) (i_checks s) (i_ext s), None).
(* delete_region(name) *)
Definition delete_region (n : rname) (s : ist) : ist * option exn :=
  if has_region n s then (set_regs s (rdel n (i_regs s)), None) else (s, Some KeyError).
(* add_safety_check(SafetyCheck(name, ..)) *)
Definition add_check (c : cname) (s : ist) : ist * option exn :=
  if mem_cname c (i_checks s) then (s, Some RuntimeError)
  else (mkIst (i_pos s) (i_regs s) (i_next s) (i_fin s) (i_checks s ++ [c]) (i_ext s), None).

(* A format: the overridable methods of FileInspector *)
Record fmt := mkFmt {
  f_id : fmt_id;
  f_ext0 : X;                                          (* attributes set by _initialize *)
  f_post : ist -> ist * option exn;                    (* post_process() *)
  f_rcomplete : rname -> ist -> ist * option exn;      (* region_complete(name) *)
  f_match : ist -> res bool;                           (* format_match *)
  f_vsize : ist -> res Z;                              (* virtual_size *)
  f_check : cname -> ist -> res unit                   (* target_fn of the named check: Ok tt = returned None *)
}.

Fixpoint init_regs (id : nat) (l : list (rname * rspec)) : regions :=
  match l with
  | [] => []
  | (n, sp) :: t => (n, region_of_spec id sp) :: init_regs (S id) t
  end.

(* cls(): __init__ + _initialize (regions and checks as read from a fresh instance by the generator) *)
Definition init_ist (F : fmt) : ist :=
  let rs := init_regions (f_id F) in
  mkIst 0 (init_regs 0 rs) (length rs) false (init_checks (f_id F)) (f_ext0 F).

(* _capture(chunk, only) *)
Definition do_capture (only : list rname) (chunk : bytes) (s : ist) : ist * option exn :=
  if i_fin s then (s, Some RuntimeError)
  else (set_regs s (capture_regs only chunk (i_pos s) (i_regs s)), None).

(* the `while new_regions:` loop *)
Fixpoint settle (fuel : nat) (F : fmt) (chunk : bytes) (known : list nat) (s : ist) : ist * option exn :=
  match new_names known (i_regs s) with
  | [] => (s, None)
  | new =>
    match fuel with
    | O => (s, Some OtherError)
    | S fuel' =>
      match do_capture new chunk s with
      | (s1, Some e) => (s1, Some e)
      | (s1, None) =>
        let known' := ids (i_regs s1) in
        match f_post F s1 with
        | (s2, Some e) => (s2, Some e)
        | (s2, None) => settle fuel' F chunk known' s2
        end
      end
    end
  end.

Fixpoint run_callbacks (F : fmt) (names : list rname) (s : ist) : ist * option exn :=
  match names with
  | [] => (s, None)
  | n :: t =>
    match f_rcomplete F n s with
    | (s', Some e) => (s', Some e)
    | (s', None) => run_callbacks F t s'
    end
  end.

(* eat_chunk(chunk): the state returned with [Some e] is what the object looks like when the
   exception escapes (InspectWrapper keeps using that object). *)
Definition eat_chunk (F : fmt) (s : ist) (chunk : bytes) : ist * option exn :=
  let pre_regions := ids (i_regs s) in
  let pre_complete := complete_ids (i_regs s) in
  let s0 := set_pos s (i_pos s + flen chunk) in
  match do_capture [] chunk s0 with
  | (s1, Some e) => (s1, Some e)
  | (s1, None) =>
    match f_post F s1 with
    | (s2, Some e) => (s2, Some e)
    | (s2, None) =>
      match settle eat_fuel F chunk pre_regions s2 with
      | (s3, Some e) => (s3, Some e)
      | (s3, None) => run_callbacks F (newly_complete pre_complete (i_regs s3)) s3
      end
    end
  end.

(* finish() *)
Definition finish (s : ist) : ist :=
  mkIst (i_pos s) (map (fun p => (fst p, if r_end (snd p) then set_fin (snd p) true else snd p)) (i_regs s))
        (i_next s) true (i_checks s) (i_ext s).

(* complete (property) *)
Definition complete (s : ist) : bool := forallb (fun p => rcomplete (snd p)) (i_regs s).

(* context_info, with each region's current offset (dict order) *)
Definition context_info (s : ist) : list (rname * N) :=
  map (fun p => (fst p, flen (r_data (snd p)))) (i_regs s).

Definition is_exn {A} (r : res A) : bool := match r with Ok _ => false | Exn _ => true end.

(* safety_check(): SafetyCheck.__call__ turns every exception of a check into SafetyViolation;
   ImageFormatError (incomplete / no match) = Refused; an exception of format_match escapes. *)
Definition safety_check (F : fmt) (s : ist) : safety_result :=
  if negb (complete s) then Refused
  else match f_match F s with
       | Exn e => Crash e
       | Ok false => Refused
       | Ok true =>
         match filter (fun c => is_exn (f_check F c s)) (i_checks s) with
         | [] => Pass
         | failed => Fail failed
         end
       end.

(* feed a chunk list the way InspectWrapper does: stop at the first exception *)
Fixpoint eat_all (F : fmt) (s : ist) (cs : list bytes) : ist * option exn :=
  match cs with
  | [] => (s, None)
  | c :: t =>
    match eat_chunk F s c with
    | (s', Some e) => (s', Some e)
    | (s', None) => eat_all F s' t
    end
  end.

(* the whole life of an inspector: construct, feed, finish *)
Definition run_fmt (F : fmt) (cs : list bytes) : ist * option exn :=
  let '(s, e) := eat_all F (init_ist F) cs in (finish s, e).

End Inspector.

Arguments mkIst {X}. Arguments i_pos {X}. Arguments i_regs {X}. Arguments i_next {X}.
Arguments i_fin {X}. Arguments i_checks {X}. Arguments i_ext {X}.
Arguments set_pos {X}. Arguments set_regs {X}. Arguments set_ext {X}.
Arguments get_region {X}. Arguments has_region {X}. Arguments new_region {X}.
Arguments delete_region {X}. Arguments add_check {X}.
Arguments mkFmt {X}. Arguments f_id {X}. Arguments f_ext0 {X}. Arguments f_post {X}.
Arguments f_rcomplete {X}. Arguments f_match {X}. Arguments f_vsize {X}. Arguments f_check {X}.
Arguments init_ist {X}. Arguments do_capture {X}. Arguments settle {X}. Arguments run_callbacks {X}.
Arguments eat_chunk {X}. Arguments finish {X}. Arguments complete {X}. Arguments context_info {X}.
Arguments safety_check {X}. Arguments eat_all {X}. Arguments run_fmt {X}.

(* helpers for the formats *)
Definition ok_none {X} (s : ist X) : ist X * option exn := (s, None).
Definition no_post {X} (s : ist X) : ist X * option exn := (s, None).
Definition no_rcomplete {X} (_ : rname) (s : ist X) : ist X * option exn := (s, None).
(* the base-class virtual_size: _total_count *)
Definition base_vsize {X} (s : ist X) : res Z := Ok (Z.of_N (i_pos s)).
Definition violation : res unit := Exn SafetyViolation.
(* SafetyCheck.null / SafetyCheck.banned *)
Definition check_null : res unit := Ok tt.
Definition check_banned : res unit := Exn SafetyViolation.
(* a check name the inspector never registered: unreachable (safety_check only runs registered names) *)
Definition check_unknown : res unit := Exn KeyError.
