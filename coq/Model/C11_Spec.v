(* Model/C11_Spec.v — the declarative grammars the C11 theorems speak about
   (definitions only).  Text = list of code points; 46 '.', 58 ':', 37 '%',
   47 '/', 10 '\n'; dec_of_N n is str(n). *)
Require Import OV.Base.Bytes OV.Base.PyInt OV.Base.Str OV.Base.C11_Lib.
Open Scope N_scope.

Definition dots : list str -> str := join [46].
Definition colons : list str -> str := join [58].

(* a.b.c.d with four canonical decimal numbers 0..255 *)
Definition dotted_quad (q : str) : Prop :=
  exists a b c d, a <= 255 /\ b <= 255 /\ c <= 255 /\ d <= 255 /\
                  q = dots [dec_of_N a; dec_of_N b; dec_of_N c; dec_of_N d].

Definition hex_char (c : N) : Prop :=
  (48 <= c <= 57) \/ (65 <= c <= 70) \/ (97 <= c <= 102).
(* one group of RFC 4291: 1..4 hex digits *)
Definition h16 (f : str) : Prop := (1 <= length f <= 4)%nat /\ Forall hex_char f.

(* RFC 4291 section 2.2 text forms:
   1. x:x:x:x:x:x:x:x                      2. x:x:x:x:x:x:d.d.d.d
   3. groups "::" groups  (at most 7 groups in all; either side may be empty)
   4. groups "::" groups ":" d.d.d.d or "::" d.d.d.d (at most 5 groups in all) *)
Definition ipv6_text (s : str) : Prop :=
  (exists g, Forall h16 g /\ length g = 8%nat /\ s = colons g) \/
  (exists g q, Forall h16 g /\ length g = 6%nat /\ dotted_quad q /\ s = colons (g ++ [q])) \/
  (exists l r, Forall h16 l /\ Forall h16 r /\ (length l + length r <= 7)%nat /\
               s = colons l ++ [58; 58] ++ colons r) \/
  (exists l r q, Forall h16 l /\ Forall h16 r /\ dotted_quad q /\ (length l + length r <= 5)%nat /\
                 s = colons l ++ [58; 58] ++ colons (r ++ [q])).

(* address, or address%scope with a scope id of 1..15 characters other than '%' and '/' *)
Definition ipv6_scoped_text (s : str) : Prop :=
  ipv6_text s \/
  exists a sc, ipv6_text a /\ (1 <= length sc <= 15)%nat /\ ~ In 37 sc /\ ~ In 47 sc /\ s = a ++ [37] ++ sc.

(* xx:xx:xx:xx:xx:xx *)
Definition hex_pair (p : str) : Prop := length p = 2%nat /\ Forall hex_char p.
Definition mac_text (s : str) : Prop :=
  exists ps, length ps = 6%nat /\ Forall hex_pair ps /\ s = colons ps.

(* contracts of the library oracles on a str argument: they return, or raise one of the
   listed classes.  netaddr.valid_ipv4(s, INET_ATON): ValueError (argument conversion in
   inet_aton) or AddrFormatError; netaddr.IPNetwork(s[, version=6]): these or TypeError. *)
Definition aton_contract (r : ares) : bool :=
  match r with
  | AOk _ => true
  | ARaise e => caught [AValueError; AAddrFormatError] e
  end.
Definition net_contract (r : ares) : bool :=
  match r with
  | AOk _ => true
  | ARaise e => caught [AValueError; ATypeError; AAddrFormatError] e
  end.

(* int(v) succeeds with value z *)
Definition pyint (v : pyval) : option Z :=
  match py_int_of v with Py.Ok z => Some z | Py.Exn _ => None end.
