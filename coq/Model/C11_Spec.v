(* Model/C11_Spec.v — the declarative grammars the C11 theorems speak about
   (definitions only).  Text = list of code points; 46 '.', 58 ':', 37 '%',
   47 '/', 10 '\n'; dec_of_N n is str(n). *)
Require Import OV.Base.Bytes OV.Base.PyInt OV.Base.Str OV.Base.C11_Lib OV.Model.C11.
Open Scope N_scope.

Definition dots : list str -> str := join [46].
Definition colons : list str -> str := join [58].

(* a.b.c.d with four canonical decimal numbers 0..255 *)
Definition dotted_quad (q : str) : Prop :=
  exists a b c d, a <= 255 /\ b <= 255 /\ c <= 255 /\ d <= 255 /\
                  q = dots [dec_of_N a; dec_of_N b; dec_of_N c; dec_of_N d].

Definition hex_char (c : N) : Prop :=
  (48 <= c <= 57) \/ (65 <= c <= 70) \/ (97 <= c <= 102).
(* one group of RFC 4291: 1..4 hex digits *)
Definition h16 (f : str) : Prop := (1 <= length f <= 4)%nat /\ Forall hex_char f.

(* RFC 4291 section 2.2 text forms:
   1. x:x:x:x:x:x:x:x                      2. x:x:x:x:x:x:d.d.d.d
   3. groups "::" groups  (at most 7 groups in all; either side may be empty)
   4. groups "::" groups ":" d.d.d.d or "::" d.d.d.d (at most 5 groups in all) *)
Definition ipv6_text (s : str) : Prop :=
  (exists g, Forall h16 g /\ length g = 8%nat /\ s = colons g) \/
  (exists g q, Forall h16 g /\ length g = 6%nat /\ dotted_quad q /\ s = colons (g ++ [q])) \/
  (exists l r, Forall h16 l /\ Forall h16 r /\ (length l + length r <= 7)%nat /\
               s = colons l ++ [58; 58] ++ colons r) \/
  (exists l r q, Forall h16 l /\ Forall h16 r /\ dotted_quad q /\ (length l + length r <= 5)%nat /\
                 s = colons l ++ [58; 58] ++ colons (r ++ [q])).

(* address, or address%scope with a scope id of 1..15 characters other than '%' and '/' *)
Definition ipv6_scoped_text (s : str) : Prop :=
  ipv6_text s \/
  exists a sc, ipv6_text a /\ (1 <= length sc <= 15)%nat /\ ~ In 37 sc /\ ~ In 47 sc /\ s = a ++ [37] ++ sc.

(* xx:xx:xx:xx:xx:xx *)
Definition hex_pair (p : str) : Prop := length p = 2%nat /\ Forall hex_char p.
Definition mac_text (s : str) : Prop :=
  exists ps, length ps = 6%nat /\ Forall hex_pair ps /\ s = colons ps.

(* contracts of the library oracles on a str argument: they return, or raise one of the
   listed classes.  netaddr.valid_ipv4(s, INET_ATON): ValueError (argument conversion in
   inet_aton) or AddrFormatError; netaddr.IPNetwork(s[, version=6]): these or TypeError. *)
Definition aton_contract (r : ares) : bool :=
  match r with
  | AOk _ => true
  | ARaise e => caught [AValueError; AAddrFormatError] e
  end.
Definition net_contract (r : ares) : bool :=
  match r with
  | AOk _ => true
  | ARaise e => caught [AValueError; ATypeError; AAddrFormatError] e
  end.

(* int(v) succeeds with value z *)
Definition pyint (v : pyval) : option Z :=
  match py_int_of v with Py.Ok z => Some z | Py.Exn _ => None end.

(* ---------- inet_aton text (glibc): 1..4 C integer literals separated by '.', the last one
   filling the remaining bytes; anything after the first C white-space character is ignored ---------- *)
Definition c_space (c : N) : Prop := 9 <= c <= 13 \/ c = 32.
Definition digit_char (c : N) : Prop := 48 <= c <= 57.
Definition octal_char (c : N) : Prop := 48 <= c <= 55.
(* p is a C integer literal (as strtoul(p, _, 0) reads all of it) of value v:
   decimal without leading zero | 0 followed by octal digits | 0x / 0X followed by hex digits *)
Definition c_literal (p : str) (v : N) : Prop :=
  (exists c t, p = c :: t /\ 49 <= c <= 57 /\ Forall digit_char t /\ v = dval p 0) \/
  (exists t, p = 48 :: t /\ Forall octal_char t /\ v = octval t) \/
  (exists x t, p = 48 :: x :: t /\ (x = 120 \/ x = 88) /\ t <> [] /\ Forall hex_char t /\ v = hexval t).
Definition aton_values (vs : list N) : Prop :=
  match vs with
  | [a] => a < 2 ^ 32
  | [a; b] => a <= 255 /\ b < 2 ^ 24
  | [a; b; c] => a <= 255 /\ b <= 255 /\ c < 2 ^ 16
  | [a; b; c; d] => a <= 255 /\ b <= 255 /\ c <= 255 /\ d <= 255
  | _ => False
  end.
Definition aton_text (s : str) : Prop :=
  exists ps vs rest, Forall2 c_literal ps vs /\ aton_values vs /\
                     s = dots ps ++ rest /\ (rest = [] \/ exists w t, rest = w :: t /\ c_space w).

(* ---------- netaddr.IPNetwork text ---------- *)
(* the value of a netmask (k leading one bits) or hostmask (k trailing one bits) of width w *)
Definition mask_value (w m : N) : Prop := exists j, j <= w /\ (m = 2 ^ w - 2 ^ j \/ m = 2 ^ j - 1).
Definition quad_value (q : str) (m : N) : Prop :=
  exists a b c d, a <= 255 /\ b <= 255 /\ c <= 255 /\ d <= 255 /\
                  q = dots [dec_of_N a; dec_of_N b; dec_of_N c; dec_of_N d] /\
                  m = ((a * 256 + b) * 256 + c) * 256 + d.

(* the eight 16-bit units of an IPv6 text: the groups read as hexadecimal numbers, a dotted quad of
   value m as the two units m / 65536 and m mod 65536, "::" as the missing zero units *)
Definition quad_units (m : N) : list N := [m / 65536; m mod 65536].
Definition ipv6_units (s : str) (us : list N) : Prop :=
  (exists g, Forall h16 g /\ length g = 8%nat /\ s = colons g /\ us = map hexval g) \/
  (exists g q m, Forall h16 g /\ length g = 6%nat /\ quad_value q m /\ s = colons (g ++ [q]) /\
                 us = map hexval g ++ quad_units m) \/
  (exists l r, Forall h16 l /\ Forall h16 r /\ (length l + length r <= 7)%nat /\
               s = colons l ++ [58; 58] ++ colons r /\
               us = map hexval l ++ repeat 0 (8 - length l - length r) ++ map hexval r) \/
  (exists l r q m, Forall h16 l /\ Forall h16 r /\ quad_value q m /\ (length l + length r <= 5)%nat /\
                   s = colons l ++ [58; 58] ++ colons (r ++ [q]) /\
                   us = map hexval l ++ repeat 0 (6 - length l - length r) ++ map hexval r ++ quad_units m).
Definition units_to_N (us : list N) : N := fold_left (fun acc u => acc * 65536 + u) us 0.
Definition ipv6_value (s : str) (m : N) : Prop := exists us, ipv6_units s us /\ m = units_to_N us.

(* address text of one family, and its integer value *)
Definition addr_text (v6 : bool) (s : str) : Prop := if v6 then ipv6_text s else dotted_quad s.
Definition addr_value (v6 : bool) (s : str) (m : N) : Prop :=
  if v6 then ipv6_value s m else quad_value s m.
(* what may follow the '/': an integer literal as int() reads it, in 0..width; or, when int()
   refuses the text, an address of the same family whose value is a netmask or a hostmask *)
Definition prefix_text (v6 : bool) (p : str) : Prop :=
  (exists z, py_int_str p = Some z /\ (0 <= z <= Z.of_N (ip_width v6))%Z) \/
  (py_int_str p = None /\ exists m, addr_value v6 p m /\ mask_value (ip_width v6) m).
(* IPNetwork text of one family: address, optionally '/' and a prefix text *)
Definition network_text (v6 : bool) (s : str) : Prop :=
  exists a, addr_text v6 a /\ (s = a \/ exists p, s = a ++ 47 :: p /\ prefix_text v6 p).
(* what is_valid_cidr accepts: the '/' part is mandatory *)
Definition cidr_text (s : str) : Prop :=
  exists a p, s = a ++ 47 :: p /\
              ((dotted_quad a /\ prefix_text false p) \/ (ipv6_text a /\ prefix_text true p)).
