(* Model/C12_Iso.v — datetime.isoformat() and iso8601.parse_date (library behaviour, modelled; tied by correspondence).
   Two parsers: [iso_parse_shape], a direct reader of isoformat-shaped text (the round-trip theorem is proved on it), and
   [iso_parse_re], the library's own regular expression (Gen/C12_Iso8601.v, regenerated from the installed iso8601) run
   by the regex engine of Base/Regex.v, for every other string: date only, basic format, 'Z', +hh, +hhmm, fractions of any
   length, comma.  [iso_parse] = the first where it applies, else the second.
   Shape modelled:  DDDD-DD-DD ('T'|' ') DD:DD:DD [('.'|',') D{1,9}] [ 'Z' | ('+'|'-') DD:DD ]
   and, to cover isoformat() of sub-minute offsets, the same followed by ":DD[.DDDDDD]"
   (which the library's regex rejects).  Anything else: [Exn OtherError] = not modelled.
   Definitions only. *)
From Coq Require Import String.
Require Import OV.Base.Bytes OV.Base.Py OV.Base.Regex.
Require Import OV.Gen.C12_Iso8601.
Require Import OV.Model.C12_Calendar OV.Model.C12_Prim.
Open Scope Z_scope.

Definition digit (n : Z) : N := Z.to_N (48 + n mod 10).
Definition fmt2 (n : Z) : str := [digit (n / 10); digit n].
Definition fmt4 (n : Z) : str := [digit (n / 1000); digit (n / 100); digit (n / 10); digit n].
Definition fmt6 (n : Z) : str :=
  [digit (n / 100000); digit (n / 10000); digit (n / 1000); digit (n / 100); digit (n / 10); digit n].

Definition c_dash : N := 45%N.
Definition c_colon : N := 58%N.
Definition c_T : N := 84%N.
Definition c_dot : N := 46%N.
Definition c_plus : N := 43%N.

Definition US_PER_MIN : Z := 60 * US_PER_SEC.
Definition US_PER_HOUR : Z := 3600 * US_PER_SEC.

(* utcoffset as isoformat prints it *)
Definition fmt_offset (o : Z) : str :=
  let a := Z.abs o in
  let ss := (a / US_PER_SEC) mod 60 in
  let us := a mod US_PER_SEC in
  [if o <? 0 then c_dash else c_plus] ++ fmt2 (a / US_PER_HOUR) ++ [c_colon] ++ fmt2 ((a / US_PER_MIN) mod 60) ++
  (if (ss =? 0) && (us =? 0) then [] else
     [c_colon] ++ fmt2 ss ++ (if us =? 0 then [] else [c_dot] ++ fmt6 us)).

(* datetime.isoformat() *)
Definition iso_format (d : dt) : str :=
  let f := dt_fields d in
  fmt4 (f_year f) ++ [c_dash] ++ fmt2 (f_month f) ++ [c_dash] ++ fmt2 (f_day f) ++ [c_T] ++
  fmt2 (f_hour f) ++ [c_colon] ++ fmt2 (f_minute f) ++ [c_colon] ++ fmt2 (f_second f) ++
  (if f_us f =? 0 then [] else [c_dot] ++ fmt6 (f_us f)) ++
  match tz d with None => [] | Some z => fmt_offset (tz_off z) end.

(* ---------------------------------------------------------------- parsing *)
Definition dval (c : N) : option Z :=
  if ((48 <=? c) && (c <=? 57))%N then Some (Z.of_N c - 48) else None.

Fixpoint num_acc (s : str) (acc : Z) : option Z :=
  match s with
  | [] => Some acc
  | c :: t => match dval c with Some v => num_acc t (acc * 10 + v) | None => None end
  end.
Definition num (s : str) : option Z := num_acc s 0.

(* leading run of ASCII digits *)
Fixpoint span_digits (s : str) : str * str :=
  match s with
  | c :: t => match dval c with
              | Some _ => let '(a, b) := span_digits t in (c :: a, b)
              | None => ([], s) end
  | [] => ([], [])
  end.

Definition unmodelled {A} : res A := Exn OtherError.

(* optional fraction: microseconds = the first six digits (right-padded with zeros) *)
Definition parse_frac (rest : str) : option (Z * str) :=
  match rest with
  | c :: t =>
      if ((c =? 46) || (c =? 44))%N then
        let '(ds, rest') := span_digits t in
        let n := length ds in
        if (Nat.leb 1 n && Nat.leb n 9)%bool then
          match num (firstn 6 (ds ++ [48; 48; 48; 48; 48]%N)) with
          | Some us => Some (us, rest')
          | None => None
          end
        else None
      else Some (0, rest)
  | [] => Some (0, [])
  end.

(* time zone designator: Some (Ok tz) | Some (Exn ValueError) | None = not modelled *)
Definition parse_tz (rest : str) : option (res tzinfo) :=
  match rest with
  | [] => Some (Ok utc_tz)
  | [90%N] => Some (Ok utc_tz)
  | sg :: h1 :: h2 :: 58%N :: m1 :: m2 :: more =>
      if ((sg =? 43) || (sg =? 45))%N then
        match num [h1; h2], num [m1; m2] with
        | Some h, Some m =>
            let shape_ok :=
              match more with
              | [] => Some true
              | [58%N; a; b] => match num [a; b] with Some _ => Some false | None => None end
              | [58%N; a; b; 46%N; f1; f2; f3; f4; f5; f6] =>
                  match num [a; b; f1; f2; f3; f4; f5; f6] with Some _ => Some false | None => None end
              | _ => None
              end in
            match shape_ok with
            | Some true =>
                let mins := h * 60 + m in
                if mins <? 1440 then
                  Some (Ok (mkTz ((if (sg =? 45)%N then -1 else 1) * mins * US_PER_MIN) (Some (sg :: fmt2 h ++ [c_colon] ++ fmt2 m))))
                else Some (Exn ValueError)
            | Some false => Some (Exn ValueError)     (* the regex does not match a seconds part in the offset *)
            | None => None
            end
        | _, _ => None
        end
      else None
  | _ => None
  end.

Definition iso_parse_shape (s : str) : res dt :=
  match s with
  | y1 :: y2 :: y3 :: y4 :: 45%N :: m1 :: m2 :: 45%N :: d1 :: d2 :: sep :: h1 :: h2 :: 58%N :: i1 :: i2 :: 58%N :: s1 :: s2 :: rest =>
      if ((sep =? 84) || (sep =? 32))%N then
        match num [y1; y2; y3; y4], num [m1; m2], num [d1; d2], num [h1; h2], num [i1; i2], num [s1; s2] with
        | Some y, Some mo, Some d, Some h, Some mi, Some sec =>
            match parse_frac rest with
            | Some (us, rest') =>
                match parse_tz rest' with
                | Some (Ok z) =>
                    match mk_datetime (mkF y mo d h mi sec us) with
                    | Ok n => Ok (mkDt (wall n) (Some z))
                    | Exn e => Exn e
                    end
                | Some (Exn e) => Exn e
                | None => unmodelled
                end
            | None => unmodelled
            end
        | _, _, _, _, _, _ => unmodelled
        end
      else unmodelled
  | _ => unmodelled
  end.

(* ---------------------------------------------------------------- the library's regular expression *)
Fixpoint strip_zeros (s : str) : str := match s with 48%N :: t => strip_zeros t | _ => s end.
Definition pow10 (k : nat) : Z := Z.pow 10 (Z.of_nat k).

(* int(Decimal("0." + digits) * Decimal("1000000.0")) under the default decimal context (28 significant digits,
   ROUND_HALF_EVEN): exact when the coefficient has at most 28 digits, else rounded to 28 digits first; then truncated *)
Definition frac_us (ds : str) : option Z :=
  match num ds with
  | None => None
  | Some c =>
      let k := length ds in
      let n := length (strip_zeros ds) in
      if Nat.leb n 28 then Some (c * 1000000 / pow10 k)
      else
        let drop := (n - 28)%nat in
        let q := c / pow10 drop in
        let r := c mod pow10 drop in
        let half := 5 * pow10 (drop - 1) in
        let q' := if (half <? r) || ((r =? half) && Z.odd q) then q + 1 else q in
        Some (q' * pow10 drop * 1000000 / pow10 k)
  end.

Definition grp (s : str) (g : groups) (i : nat) : option str := group_text s g i.
Definition grp_num (s : str) (g : groups) (i : nat) (dflt : Z) : option Z :=
  match grp s g i with Some t => num t | None => Some dflt end.
Definition first_some {A} (a b : option A) : option A := match a with Some x => Some x | None => b end.

Definition iso_tz (s : str) (g : groups) : option (res tzinfo) :=
  match grp s g ig_timezone with
  | None => Some (Ok utc_tz)
  | Some [90%N] => Some (Ok utc_tz)
  | Some _ =>
      match grp s g ig_tz_sign, grp_num s g ig_tz_hour 0, grp_num s g ig_tz_minute 0 with
      | Some [sg], Some h, Some m =>
          (* FixedOffset(+-h, +-m): timedelta(hours, minutes) must lie strictly inside (-24h, 24h) *)
          let mins := h * 60 + m in
          if mins <? 1440 then
            Some (Ok (mkTz ((if (sg =? 45)%N then -1 else 1) * mins * US_PER_MIN) (Some (sg :: fmt2 h ++ [c_colon] ++ fmt2 m))))
          else Some (Exn ValueError)
      | _, _, _ => None
      end
  end.

Definition iso_parse_re (s : str) : res dt :=
  match re_match iso8601_re s with
  | None => Exn ValueError
  | Some (_, g) =>
      let monthb := grp s g ig_month in
      let dayany := first_some (grp s g ig_day) (grp s g ig_daydash) in
      match monthb, dayany with
      | Some _, None => Exn ValueError               (* the look-ahead: no YYYYMM *)
      | _, _ =>
        let month := match monthb with Some t => num t | None => grp_num s g ig_monthdash 1 end in
        let day := match grp s g ig_day with Some t => num t | None => grp_num s g ig_daydash 1 end in
        let us := match grp s g ig_second_fraction with Some t => frac_us t | None => Some 0 end in
        match grp_num s g ig_year 0, month, day, grp_num s g ig_hour 0, grp_num s g ig_minute 0, grp_num s g ig_second 0, us, iso_tz s g with
        | Some y, Some mo, Some d, Some h, Some mi, Some sec, Some u, Some (Ok z) =>
            match mk_datetime (mkF y mo d h mi sec u) with
            | Ok n => Ok (mkDt (wall n) (Some z))
            | Exn e => Exn e
            end
        | Some _, Some _, Some _, Some _, Some _, Some _, Some _, Some (Exn e) => Exn e
        | _, _, _, _, _, _, _, _ => unmodelled
        end
      end
  end.

Definition iso_parse (s : str) : res dt :=
  match iso_parse_shape s with
  | Exn OtherError => iso_parse_re s
  | r => r
  end.
