(* Model/Insp_HookPrims.v — vocabulary of the statement-level translation of the format hooks
   (tools/gen/gen_insp_hooks.py -> Gen/Insp_HookCode.v).  Definitions only. *)
Require Import OV.Base.Bytes OV.Base.Py OV.Base.PyInt OV.Base.Str OV.Base.Insp_Struct OV.Gen.Insp_Consts OV.Model.Insp_Engine.
Open Scope N_scope.

(* self.region(n).length = v : in-place mutation of the region object; KeyError when absent *)
Definition py_set_region_length {X} (s : ist X) (n : rname) (v : N) : ist X * option exn :=
  match rget n (i_regs s) with
  | Some r => (set_regs s (rset n (set_len r v) (i_regs s)), None)
  | None => (s, Some KeyError)
  end.
(* s.index(sub): ValueError when absent *)
Definition py_index (sub s : bytes) : res N :=
  match find sub s with Some i => Ok i | None => Exn ValueError end.
(* s.find(sub, start): -1 when absent *)
Definition py_find_from (sub s : bytes) (start : N) : Z :=
  match find_at sub s start with Some j => Z.of_N j | None => (-1)%Z end.
(* b.decode('ascii'): UnicodeDecodeError when a byte is >= 128 *)
Definition py_decode_ascii (b : bytes) : res bytes :=
  if forallb (fun c => c <? 128) b then Ok b else Exn UnicodeDecodeError.
(* flag = True; for char in b.decode('ascii'): if not p(char): flag = False; break  /  except UnicodeDecodeError: flag = False *)
Definition py_all_ascii (p : N -> bool) (b : bytes) : bool := forallb (fun c => (c <? 128) && p c) b.
