(* Model/Insp_Qcow2.v — QcowInspector *)
Require Import OV.Base.Bytes OV.Base.Py OV.Base.Insp_Struct OV.Gen.Insp_Consts OV.Model.Insp_Engine.
Open Scope N_scope.

(* qemu_header_info: {} = None, otherwise the six unpacked fields *)
Record qhdr := mkQhdr { q_magic : bytes; q_version : N; q_bf_offset : N; q_bf_sz : N; q_cluster_bits : N; q_size : N }.
Definition qx := option qhdr.

Definition qcow_match (s : ist qx) : res bool :=
  do r <- get_region R_header s;
  if negb (rcomplete r) then Ok false
  else Ok (match i_ext s with Some h => beq (q_magic h) QCOW_MAGIC | None => false end).

(* region_complete(region): the argument is ignored by the source *)
Definition qcow_rcomplete (_ : rname) (s : ist qx) : ist qx * option exn :=
  match get_region R_header s with
  | Exn e => (s, Some e)
  | Ok r =>
    match unpack sf_qcow_hdr (ntake QCOW_HDR_SLICE (r_data r)) with
    | Exn e => (s, Some e)
    | Ok b =>
      let h := mkQhdr (sraw sf_qcow_hdr 0 b) (sint sf_qcow_hdr 1 b) (sint sf_qcow_hdr 2 b)
                      (sint sf_qcow_hdr 3 b) (sint sf_qcow_hdr 4 b) (sint sf_qcow_hdr 5 b) in
      let s1 := set_ext s (Some h) in
      match qcow_match s1 with
      | Exn e => (s1, Some e)
      | Ok true => (s1, None)
      | Ok false => (set_ext s1 None, None)
      end
    end
  end.

Definition qcow_vsize (s : ist qx) : res Z :=
  Ok (match i_ext s with Some h => Z.of_N (q_size h) | None => 0%Z end).

Definition qcow_features (r : region) : bytes :=
  nsub QCOW_I_FEATURES (QCOW_I_FEATURES + QCOW_I_FEATURES_LEN) (r_data r).

Definition qcow_check_backing_file (s : ist qx) : res unit :=
  do r <- get_region R_header s;
  do b <- unpack sf_qcow_bf (nsub QCOW_BF_OFFSET (QCOW_BF_OFFSET + QCOW_BF_OFFSET_LEN) (r_data r));
  if sint sf_qcow_bf 0 b =? 0 then Ok tt else violation.

Definition qcow_allow_mask (byte_num : N) : N :=
  let max_byte := QCOW_I_FEATURES_MAX_BIT / 8 in
  if byte_num =? max_byte then N.shiftl 1 (QCOW_I_FEATURES_MAX_BIT mod 8) - 1
  else if max_byte <? byte_num then QCOW_MASK_ABOVE
  else QCOW_MASK_BELOW.

(* for i, byte_num in enumerate(reversed(range(I_FEATURES_LEN))) : k iterations left, index i *)
Fixpoint qcow_feature_loop (k : nat) (i : N) (feats : bytes) : res unit :=
  match k with
  | O => Ok tt
  | S k' =>
    let byte_num := QCOW_I_FEATURES_LEN - 1 - i in
    do x <- bidx feats i;
    if N.ldiff x (qcow_allow_mask byte_num) =? 0 then qcow_feature_loop k' (i + 1) feats
    else (* the LOG.warning arguments index i_features[byte_num] before the raise *)
      do _ <- bidx feats byte_num; violation
  end.

Definition qcow_check_unknown_features (s : ist qx) : res unit :=
  match i_ext s with
  | None => violation                       (* ver is None: not 2, not 3 *)
  | Some h =>
    if q_version h =? QCOW_VER_A then Ok tt
    else if negb (q_version h =? QCOW_VER_B) then violation
    else do r <- get_region R_header s;
         qcow_feature_loop (N.to_nat QCOW_I_FEATURES_LEN) 0 (qcow_features r)
  end.

Definition qcow_check_data_file (s : ist qx) : res unit :=
  do r <- get_region R_header s;
  let byte := QCOW_I_FEATURES_LEN - 1 - QCOW_I_FEATURES_DATAFILE_BIT / 8 in
  let bit := N.shiftl 1 (QCOW_I_FEATURES_DATAFILE_BIT - 1 mod 8) in
  do x <- bidx (qcow_features r) byte;
  if N.land x bit =? 0 then Ok tt else violation.

Definition qcow_check (c : cname) (s : ist qx) : res unit :=
  match c with
  | K_backing_file => qcow_check_backing_file s
  | K_data_file => qcow_check_data_file s
  | K_unknown_features => qcow_check_unknown_features s
  | _ => check_unknown
  end.

Definition qcow_fmt : fmt qx :=
  mkFmt F_qcow2 None no_post qcow_rcomplete qcow_match qcow_vsize qcow_check.
