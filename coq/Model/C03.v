(* Model/C03.v — C03: InspectWrapper / detect_file_format over the CONCRETE ten inspectors.
   The generic wrapper (Model/Wrap.v) instantiated with the shared inspector model
   (Model/Insp_All.v):
       I := istate, eat := eat, finish := finish, complete := complete,
       fmatch := cmatch   (the boolean view of format_match : res bool),
       sh := gen_shape, raw literals, chunk size: regenerated (Gen/C06_Wrapper.v),
       factory := [(NAME, cls())] in ALL_FORMATS order (Gen/Insp_Consts.v).
   Wrap.v's [fmatch] is a total boolean whereas format_match may raise in the model
   (struct.error on short slices, KeyError on a missing region, ...).  [formats_r] /
   [format_r] below are the properties with the queries AS THEY ARE (the first
   exception raised escapes); Proofs/C03_Total.v proves that in every reachable state of
   every concrete inspector format_match returns (queries_total), hence that the
   res-valued properties coincide with Wrap's boolean ones on every reachable wrapper.
   Definitions only. *)
From Coq Require Import String.
Require Import OV.Base.Bytes OV.Base.Py OV.Base.C06_WrapShape OV.Base.Insp_Struct.
Require Import OV.Gen.Insp_Consts OV.Gen.C06_Wrapper OV.Model.Insp_Engine OV.Model.Insp_All OV.Model.Wrap.
Open Scope N_scope.

(* ------------------------------------------------------------------ the boolean view *)
Definition cmatch (i : istate) : bool :=
  match format_match i with Ok b => b | Exn _ => false end.

(* ALL_FORMATS.items() as (key, fresh instance) *)
Definition factory : list (str * istate) :=
  map (fun f => (fmt_name f, init f)) Insp_Consts.all_formats.

Definition cslot := slot istate.
Definition cwrapper := wrapper istate.

(* InspectWrapper(source, expected_format, allowed_formats) *)
Definition cw_new (expected : option str) (allowed : list str) : cwrapper :=
  mk_wrapper istate factory expected allowed.

Definition cw_step := w_step istate eat finish complete cmatch gen_shape.
Definition cw_run := w_run istate eat finish complete cmatch gen_shape.
Definition cw_run_stop := w_run_stop istate eat finish complete cmatch gen_shape.
Definition cw_read := w_read istate eat finish complete cmatch gen_shape.
Definition cw_next := w_next istate eat finish complete cmatch gen_shape.
Definition cw_run_reads := run_reads istate eat finish complete cmatch gen_shape.
Definition cw_close (w : cwrapper) : cwrapper := finish_all istate finish w.

(* formats / format over the boolean view (Wrap.v) *)
Definition cw_non_raw := non_raw istate raw_lit_nonraw.
Definition cw_is_raw := is_raw istate raw_lit_raw.
Definition cw_decided := fun w : cwrapper => all_complete istate complete raw_lit_nonraw w || w_finished w.
Definition cw_matches := matches istate cmatch raw_lit_nonraw.
Definition cw_formats := formats istate complete cmatch raw_lit_nonraw raw_lit_raw.
Definition cw_format := format istate complete cmatch raw_lit_nonraw raw_lit_raw.
Definition cw_format_name := format_name istate complete cmatch raw_lit_nonraw raw_lit_raw.
Definition cw_detect (data : bytes) :=
  detect_file_format istate eat finish complete cmatch gen_shape raw_lit_nonraw raw_lit_raw
                     detect_chunk_size factory data.

(* ------------------------------------------------------------------ the properties with raising queries *)
(* matches = [i for i in non_raw if i.format_match]: the first raising query escapes
   (evaluation order = iteration order of the set; immaterial when no query raises) *)
Fixpoint matches_r (ss : list cslot) : res (list cslot) :=
  match ss with
  | [] => Ok []
  | s :: t =>
    do b <- format_match (s_insp s);
    do r <- matches_r t;
    Ok (if b then s :: r else r)
  end.

(* InspectWrapper.formats: non_raw, complete (total), matches are all computed before the tests *)
Definition formats_r (w : cwrapper) : res (option (list cslot)) :=
  do ms <- matches_r (cw_non_raw w);
  if negb (all_complete istate complete raw_lit_nonraw w) && negb (w_finished w) then Ok None
  else match ms with
       | [] => Ok (Some (filter cw_is_raw (w_slots w)))
       | _ => Ok (Some ms)
       end.

(* InspectWrapper.format *)
Definition format_r (w : cwrapper) : res (option cslot) :=
  do f <- formats_r w;
  match f with
  | None => Ok None
  | Some ms =>
    if (1 <? length ms)%nat then Exn ImageFormatError
    else match ms with
         | m :: _ => Ok (Some m)
         | [] => Exn ImageFormatError
         end
  end.

(* detect_file_format with the queries as they are: [if wrapper.format: return wrapper.format] and the final
   [return wrapper.format] use the raising property *)
Definition format_name_r (w : cwrapper) : res (option str) :=
  match format_r w with Ok (Some m) => Ok (Some (s_name m)) | Ok None => Ok None | Exn e => Exn e end.

Fixpoint detect_loop_r (fuel : nat) (chunk_size : Z) (w : cwrapper) (s : fsrc)
  : cwrapper * fsrc * list eat_ev * option (res (option str)) :=
  match fuel with
  | O => (w, s, [], None)
  | S k =>
    let '(w1, s1, tr1, _, o) := cw_read w s chunk_size in
    match o with
    | OutExn e => (w1, s1, tr1, Some (Exn e))
    | OutNone => (w1, s1, tr1, None)
    | OutChunk [] => (w1, s1, tr1, None)
    | OutChunk _ =>
      match format_name_r w1 with
      | Exn e => (w1, s1, tr1, Some (Exn e))
      | Ok (Some nm) => (w1, s1, tr1, Some (Ok (Some nm)))
      | Ok None =>
        let '(w2, s2, tr2, r) := detect_loop_r k chunk_size w1 s1 in (w2, s2, tr1 ++ tr2, r)
      end
    end
  end.

Definition detect_r (data : bytes) : cwrapper * fsrc * list eat_ev * res (option str) :=
  let w := cw_new None [] in
  let s := {| f_data := data; f_pos := 0; f_closed := false |} in
  let '(w1, s1, tr, r) := detect_loop_r (S (length data)) detect_chunk_size w s in
  let (w2, s2) := w_close_f istate finish w1 s1 in
  match r with
  | Some r' => (w2, s2, tr, r')
  | None => (w2, s2, tr, format_name_r w2)
  end.

(* ------------------------------------------------------------------ vocabulary of the statements *)
(* the inspector collection of a wrapper consists of reachable inspector objects *)
Definition slot_name_ok (s : cslot) : Prop := s_name s = fmt_name (name_of (s_insp s)).

(* everything a reader can do with a fresh wrapper: any sequence of source answers *)
Definition wreach (expected : option str) (allowed : list str) (w : cwrapper) : Prop :=
  exists inps recs, cw_run (cw_new expected allowed) inps = (w, recs).

(* a stream read to the end without an exception reaching the reader, then closed:
   [cs] = the chunks the reads returned, [w] = the wrapper after close() *)
Definition read_and_closed (expected : option str) (allowed : list str) (cs : list bytes) (w : cwrapper) : Prop :=
  exists w1 tr unused,
    cw_run_stop (cw_new expected allowed) (map InChunk cs) = (w1, tr, cs, None, unused) /\ w = cw_close w1.

(* the same before close(): after the reads cs *)
Definition read_so_far (expected : option str) (allowed : list str) (cs : list bytes) (w : cwrapper) : Prop :=
  exists tr unused, cw_run_stop (cw_new expected allowed) (map InChunk cs) = (w, tr, cs, None, unused).

Definition fmt_of_name (nm : str) : option fmt_id :=
  List.find (fun f => beq (fmt_name f) nm) Insp_Consts.all_formats.
