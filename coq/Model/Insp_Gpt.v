(* Model/Insp_Gpt.v — GPTInspector *)
Require Import OV.Base.Bytes OV.Base.Py OV.Base.Insp_Struct OV.Gen.Insp_Consts OV.Model.Insp_Engine.
Open Scope N_scope.

Definition gpt_check_for_fat (s : ist unit) : res bool :=
  do r <- get_region R_mbr s;
  do num_fats <- bidx (r_data r) GPT_FAT_NUM_IDX;
  do media <- bidx (r_data r) GPT_FAT_MEDIA_IDX;
  Ok ((num_fats =? GPT_FAT_NUM) && (media =? GPT_MEDIA_TYPE_FDISK)).

Definition gpt_match (s : ist unit) : res bool :=
  do r <- get_region R_mbr s;
  if negb (rcomplete r) then Ok false else
  do is_fat <- gpt_check_for_fat s;
  do b <- unpack sf_gpt_sig (nsub GPT_SIG_LO GPT_SIG_HI (r_data r));
  Ok ((sint sf_gpt_sig 0 b =? GPT_MBR_SIGNATURE) && negb is_fat).

(* for i in range(4): k iterations left, index i; valid_partitions (in order), found_gpt *)
Fixpoint gpt_pte_loop (k : nat) (i : N) (data : bytes) (valid : list N) (found : bool) : res (list N * bool) :=
  match k with
  | O => Ok (valid, found)
  | S k' =>
    let pte_start := GPT_MBR_PTE_START + GPT_PTE_STRIDE * i in
    do b <- unpack sf_gpt_pte (nsub pte_start (pte_start + GPT_PTE_LEN) data);
    let boot := sint sf_gpt_pte 0 b in
    let starth := sint sf_gpt_pte 1 b in
    let starts := sint sf_gpt_pte 2 b in
    let startt := sint sf_gpt_pte 3 b in
    let ostype := sint sf_gpt_pte 4 b in
    let startlba := sint sf_gpt_pte 8 b in
    if negb ((boot =? GPT_BOOT_A) || (boot =? GPT_BOOT_B)) then Exn SafetyViolation else
    let valid' := if negb (ostype =? 0) then valid ++ [i] else valid in
    if ostype =? GPT_OSTYPE_GPT then
      if negb ((starth =? GPT_CHS_H) && (starts =? GPT_CHS_S) && (startt =? GPT_CHS_T)) then Exn SafetyViolation
      else if negb (startlba =? GPT_START_LBA) then Exn SafetyViolation
      else gpt_pte_loop k' (i + 1) data valid' true
    else gpt_pte_loop k' (i + 1) data valid' found
  end.

Definition is_single_zero (l : list N) : bool :=
  match l with [x] => x =? 0 | _ => false end.

Definition gpt_check_mbr_partitions (s : ist unit) : res unit :=
  do r <- get_region R_mbr s;
  do vf <- gpt_pte_loop (N.to_nat GPT_PTE_COUNT) 0 (r_data r) [] false;
  let '(valid, found) := vf in
  if found && negb (is_single_zero valid) then violation
  else match valid with [] => violation | _ => Ok tt end.

Definition gpt_check (c : cname) (s : ist unit) : res unit :=
  match c with K_mbr => gpt_check_mbr_partitions s | _ => check_unknown end.

Definition gpt_fmt : fmt unit :=
  mkFmt F_gpt tt no_post no_rcomplete gpt_match base_vsize gpt_check.
