(* Model/C17_Spec.v — declarative vocabulary of the C17 theorems (definitions only).
   int_literal: the strings CPython's int(str) accepts in base 10 (as modelled by Base/PyInt.py_int):
       ws* [+-]? digits (_ digits)* ws*        digits = Unicode decimal digits, ws = the blanks int() skips *)
Require Import OV.Base.Bytes OV.Base.PyInt OV.Base.Str.
Open Scope N_scope.

Definition all_int_space (w : str) : Prop := Forall (fun c => int_space c = true) w.
Definition digit_group (d : str) : Prop := d <> [] /\ Forall (fun c => is_digit c = true) d.
(* digit groups separated by single underscores *)
Inductive int_body : str -> Prop :=
| ib_one d : digit_group d -> int_body d
| ib_more d b : digit_group d -> int_body b -> int_body (d ++ 95 :: b).
Definition int_sign (sg : str) : Prop := sg = [] \/ sg = [43] \/ sg = [45].
Definition int_literal (s : str) : Prop :=
  exists w1 sg b w2, s = w1 ++ sg ++ b ++ w2 /\ all_int_space w1 /\ all_int_space w2 /\ int_sign sg /\ int_body b.

(* characters a predicate part is made of *)
Definition all_in_set (cs : cset) (w : str) : Prop := Forall (fun c => cmem c cs = true) w.

(* one comparison of a predicate string, as text:  lead op mid version trail *)
Record cmp_text := { c_lead : str; c_op : str; c_mid : str; c_ver : str; c_trail : str }.
Definition render_cmp (c : cmp_text) : str := c_lead c ++ c_op c ++ c_mid c ++ c_ver c ++ c_trail c.
Definition comma : N := 44.
