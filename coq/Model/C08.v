(* Model/C08.v — oslo_utils/strutils.py: mask_dict_password.  Definitions only.

     if not isinstance(dictionary, collections.abc.Mapping): raise TypeError(...)
     out = {}
     for k, v in dictionary.items():
         <loop body>          (regenerated, as a term: Gen/C08_Shape.gen_body)
     return out

   The loop body is NOT transcribed by hand: the model evaluates the generated
   term gen_body (exec / run_body below) on the three isinstance facts and the
   sanitize-key test of the entry at hand, and stores what the body says.
   mask_password is abstract (a Section variable). *)
From Coq Require Import String.
Require Import OV.Base.Bytes OV.Base.Py OV.Base.Str.
Require Import OV.Model.C08_Syntax OV.Gen.C08_Keys OV.Gen.C08_Shape.
Open Scope N_scope.

(* ---------- Python values as far as the function can tell them apart ---------- *)
(* keys: str, or anything else hashable (int, tuple, bytes, None, ...) named by a tag *)
Inductive key := KStr (s : str) | KOther (tag : bytes).
(* values: str; a Mapping of some concrete type [kind] with its items() in
   iteration order; anything else (bytes, numbers, None, lists, ...) named by a tag *)
Inductive value :=
| VStr (s : str)
| VMap (kind : N) (items : list (key * value))
| VOther (tag : bytes).

(* mapping kinds: 0 dict, 1 a dict subclass (OrderedDict), >= 2 non-dict Mappings
   (2 types.MappingProxyType, 3 a read-only collections.abc.Mapping subclass) *)
Definition dict_kind : N := 0.
Definition kind_is_dict (kd : N) : bool := kd <? 2.

Definition key_eqb (a b : key) : bool :=
  match a, b with
  | KStr s, KStr t => beq s t
  | KOther s, KOther t => beq s t
  | _, _ => false
  end.

(* out[k] = v on an insertion-ordered dict *)
Fixpoint dict_set (k : key) (v : value) (d : list (key * value)) : list (key * value) :=
  match d with
  | [] => [(k, v)]
  | (k', v') :: t => if key_eqb k' k then (k', v) :: t else (k', v') :: dict_set k v t
  end.

(* isinstance(x, C) *)
Definition val_is (v : value) (c : cls) : bool :=
  match v, c with
  | VStr _, CStr => true
  | VMap _ _, CMapping => true
  | VMap kd _, CDict => kind_is_dict kd
  | _, _ => false
  end.
Definition key_is (k : key) (c : cls) : bool :=
  match k, c with KStr _, CStr => true | _, _ => false end.
Definition is_mapping (v : value) : bool := val_is v CMapping.

(* any(sk in hay for sk in keys) *)
Definition contains_any (keys : list str) (hay : str) : bool :=
  existsb (fun sk => occursb sk hay) keys.

(* for sk in _SANITIZE_KEYS: if sk in k.lower(): ...  — with a key that is not a
   str the first iteration raises (int has no .lower(); 'x' in 5 is a TypeError);
   with no sanitize keys nothing is evaluated *)
Definition key_has (k : key) (h : haystack) : res bool :=
  match gen_keys with
  | [] => Ok false
  | _ => match k with
         | KStr s => Ok (contains_any gen_keys (match h with HLower => py_lower s | HRaw => s end))
         | KOther _ => Exn (match h with HLower => AttributeError | HRaw => TypeError end)
         end
  end.

(* ---------- evaluation of the generated loop body ---------- *)
Record env := mkEnv { e_key_is : cls -> bool; e_val_is : cls -> bool; e_has : haystack -> res bool }.
(* what has been stored under k so far, the flags, and whether `continue` ran *)
Record st := mkSt { st_out : option action; st_flags : list (N * bool); st_cont : bool }.
Definition st0 : st := mkSt None [] false.

Fixpoint flag_get (n : N) (l : list (N * bool)) : option bool :=
  match l with [] => None | (m, b) :: t => if m =? n then Some b else flag_get n t end.

(* an unbound local is an UnboundLocalError (OtherError in the enum) *)
Fixpoint eval_cond (e : env) (x : st) (c : cond) : res bool :=
  match c with
  | CIsInst SubjKey k => Ok (e_key_is e k)
  | CIsInst SubjVal k => Ok (e_val_is e k)
  | CFlag n => match flag_get n (st_flags x) with Some b => Ok b | None => Exn OtherError end
  | CNot a => do b <- eval_cond e x a; Ok (negb b)
  | CAnd a b => do u <- eval_cond e x a; if u then eval_cond e x b else Ok false
  | COr a b => do u <- eval_cond e x a; if u then Ok true else eval_cond e x b
  end.

Fixpoint exec (e : env) (s : stmt) (x : st) {struct s} : res st :=
  let exec_list :=
    fix go (l : list stmt) (x : st) {struct l} : res st :=
      match l with
      | [] => Ok x
      | s' :: t => match exec e s' x with
                   | Ok x' => if st_cont x' then Ok x' else go t x'
                   | Exn err => Exn err
                   end
      end in
  match s with
  | SOut a => Ok (mkSt (Some a) (st_flags x) (st_cont x))
  | SFlag n b => Ok (mkSt (st_out x) ((n, b) :: st_flags x) (st_cont x))
  | SContinue => Ok (mkSt (st_out x) (st_flags x) true)
  | SIf c th el =>
      match eval_cond e x c with
      | Ok true => exec_list th x
      | Ok false => exec_list el x
      | Exn err => Exn err
      end
  | SAnyKey h body =>
      match e_has e h with
      | Ok true => exec_list body x
      | Ok false => Ok x
      | Exn err => Exn err
      end
  end.

Fixpoint exec_list (e : env) (l : list stmt) (x : st) : res st :=
  match l with
  | [] => Ok x
  | s :: t => match exec e s x with
              | Ok x' => if st_cont x' then Ok x' else exec_list e t x'
              | Exn err => Exn err
              end
  end.

(* one pass through the loop body: what ends up stored under k (None: nothing) *)
Definition run_body (body : list stmt) (e : env) : res (option action) :=
  match exec_list e body st0 with Ok x => Ok (st_out x) | Exn err => Exn err end.

Definition env_of (k : key) (v : value) : env := mkEnv (key_is k) (val_is v) (key_has k).

(* ---------- mask_dict_password ---------- *)
Section MDP.
  Variable mask_password : str -> str -> str.     (* message, secret *)

  Definition pick (dflt : str) (a : secarg) (secret : str) : str :=
    match a with SecGiven => secret | SecDefault => dflt end.

  Fixpoint mdp (secret : str) (d : value) {struct d} : res value :=
    if val_is d gen_guard_cls then
      match d with
      | VMap _ items =>
          match
            (fix go (l : list (key * value)) (out : list (key * value)) {struct l} : res (list (key * value)) :=
               match l with
               | [] => Ok out
               | (k, v) :: t =>
                   match run_body gen_body (env_of k v) with
                   | Exn err => Exn err
                   | Ok None => go t out
                   | Ok (Some a) =>
                       match
                         match a with
                         | ARecurse sa => mdp (pick gen_default_secret sa secret) v
                         | ASecret => Ok (VStr secret)
                         | AMask sa =>
                             match v with
                             | VStr s => Ok (VStr (mask_password s (pick gen_mp_default_secret sa secret)))
                             | _ => Exn OtherError   (* str(v) of a non-string: not modelled; never reached (Proofs: entry_ok) *)
                             end
                         | AKeep => Ok v
                         end
                       with
                       | Exn err => Exn err
                       | Ok v' => go t (dict_set k v' out)
                       end
                   end
               end) items []
          with
          | Ok out => Ok (VMap gen_out_kind out)
          | Exn err => Exn err
          end
      | _ => Exn AttributeError    (* .items() of a non-mapping: only if the guard lets one through *)
      end
    else Exn gen_guard_exn.
End MDP.

(* ---------- vocabulary of the specification ---------- *)
(* "a string key that contains a sanitize key (case-insensitively)":
   some sanitize key is a substring of k.lower() *)
Definition secret_key (k : key) : bool :=
  match k with KStr s => contains_any gen_keys (py_lower s) | KOther _ => false end.

(* The property, as a relation between the argument and the result: four rules
   for an entry (k, v) of a mapping, applied at every level. *)
Section Spec.
  Variable mask_password : str -> str -> str.
  Inductive Masked (secret : str) : value -> value -> Prop :=
  | Masked_mapping : forall kd items out,
      MaskedItems secret items out ->
      Masked secret (VMap kd items) (VMap dict_kind out)          (* a new dict, whatever Mapping came in *)
  with MaskedItems (secret : str) : list (key * value) -> list (key * value) -> Prop :=
  | MI_nil : MaskedItems secret [] []
  | MI_cons : forall k v v' t t',                                   (* same key, same position *)
      MaskedEntry secret k v v' -> MaskedItems secret t t' ->
      MaskedItems secret ((k, v) :: t) ((k, v') :: t')
  with MaskedEntry (secret : str) : key -> value -> value -> Prop :=
  | ME_mapping : forall k v v',                                     (* rule 1: mapping -> recurse, whatever the key *)
      is_mapping v = true -> Masked secret v v' -> MaskedEntry secret k v v'
  | ME_secret : forall k v,                                         (* rule 2: non-mapping under a secret str key -> the mask *)
      is_mapping v = false -> secret_key k = true -> MaskedEntry secret k v (VStr secret)
  | ME_string : forall k s,                                         (* rule 3: every other str value -> mask_password *)
      secret_key k = false -> MaskedEntry secret k (VStr s) (VStr (mask_password s secret))
  | ME_other : forall k t,                                          (* rule 4: anything else as it is *)
      secret_key k = false -> MaskedEntry secret k (VOther t) (VOther t).

End Spec.

(* the keys of a nested mapping, level by level, in order *)
Inductive skeleton := Leaf | Node (l : list (key * skeleton)).
Fixpoint skel (v : value) : skeleton :=
  match v with
  | VMap _ items => Node (map (fun kv => (fst kv, skel (snd kv))) items)
  | _ => Leaf
  end.

(* every mapping in the value is a plain dict *)
Fixpoint all_dict (v : value) : bool :=
  match v with
  | VMap kd items => (kd =? dict_kind) && forallb (fun kv => all_dict (snd kv)) items
  | _ => true
  end.

(* a Mapping has no two equal keys — at every level *)
Fixpoint nodup_keys (l : list key) : bool :=
  match l with [] => true | k :: t => negb (existsb (key_eqb k) t) && nodup_keys t end.
Fixpoint wf (v : value) : bool :=
  match v with
  | VMap _ items => nodup_keys (map fst items) && forallb (fun kv => wf (snd kv)) items
  | _ => true
  end.

(* the 35 sanitize keys of the property / documentation reading (written out by hand) *)
Definition spec_keys_35 : list str := map lit [
  "adminpass"; "admin_pass"; "password"; "admin_password"; "auth_token"; "new_pass";
  "auth_password"; "secret_uuid"; "secret"; "sys_pswd"; "token"; "configdrive";
  "chappassword"; "encrypted_key"; "private_key"; "fernetkey"; "sslkey"; "passphrase";
  "cephclusterfsid"; "octaviaheartbeatkey"; "rabbitcookie"; "cephmanilaclientkey";
  "pacemakerremoteauthkey"; "designaterndckey"; "cephadminkey"; "heatauthencryptionkey";
  "cephclientkey"; "keystonecredential"; "barbicansimplecryptokek"; "cephrgwkey";
  "swifthashsuffix"; "migrationsshkey"; "cephmdskey"; "cephmonkey"; "chapsecret"]%string.
