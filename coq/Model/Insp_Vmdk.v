(* Model/Insp_Vmdk.v — VMDKInspector *)
Require Import OV.Base.Bytes OV.Base.Py OV.Base.PyInt OV.Base.Str OV.Base.Insp_Struct OV.Gen.Insp_Consts OV.Model.Insp_Engine.
Open Scope N_scope.

(* desc_text (None until a descriptor has been parsed) and vmdktype *)
Record vx := mkVx { v_desc_text : option str; v_vmdktype : str }.

(* `if not self.desc_text`: None or '' *)
Definition desc_text_truthy (x : vx) : bool :=
  match v_desc_text x with Some (_ :: _) => true | _ => false end.

(* _parse_sparse_header(region, offset) -> sig, ver, desc_sec, desc_num, gdOffset *)
Definition vmdk_parse_sparse (s : ist vx) (n : rname) (offset : N) : res (bytes * N * N * N * N) :=
  do r <- get_region n s;
  do b <- unpack sf_vmdk_sparse (nsub offset (offset + VMDK_MIN_SPARSE_HEADER) (r_data r));
  Ok (sraw sf_vmdk_sparse 0 b, sint sf_vmdk_sparse 1 b, sint sf_vmdk_sparse 5 b,
      sint sf_vmdk_sparse 6 b, sint sf_vmdk_sparse 9 b).

(* data.decode('ascii') succeeds and every character isprintable() or isspace() *)
Definition ascii_text (c : N) : bool := cmem c ASCII_TEXT_RANGES.
Definition is_ascii (c : N) : bool := c <? 128.

Notation "'step' s1 <- m ; k" :=
  (match m with (s1, Some e) => (s1, Some e) | (s1, None) => k end)
  (at level 200, s1 name, m at level 100, k at level 200).

Definition vmdk_post (s : ist vx) : ist vx * option exn :=
  match rget R_header (i_regs s) with
  | None => (s, None)
  | Some h =>
    if negb (rcomplete h) then (s, None) else
    match vmdk_parse_sparse s R_header 0 with
    | Exn e => (s, Some e)
    | Ok (sig, ver, desc_sec, desc_num, gd_offset) =>
      let is_text := forallb ascii_text (r_data h) in
      if negb (beq sig VMDK_MAGIC_PP) then
        (if is_text then delete_region R_header s else (s, Some ImageFormatError))
      else if negb ((ver =? VMDK_VER_A) || (ver =? VMDK_VER_B) || (ver =? VMDK_VER_C)) then (s, Some ImageFormatError)
      else
        step s1 <- (if (gd_offset =? VMDK_GD_AT_END) && negb (has_region R_footer s)
                    then step s' <- new_region R_footer (mkRspec true VMDK_FOOTER_LEN VMDK_FOOTER_LEN None) s;
                         add_check K_footer s'
                    else (s, None));
        let desc_offset := desc_sec * VMDK_SECTOR_A in
        let desc_size := N.min (desc_num * VMDK_SECTOR_B) VMDK_DESC_MAX_SIZE in
        if negb (desc_offset =? VMDK_DESC_OFFSET) then (s1, Some ImageFormatError) else
        match get_region R_descriptor s1 with
        | Exn e => (s1, Some e)
        | Ok d =>
          if r_off d =? 0 then
            step s2 <- delete_region R_descriptor s1;
            new_region R_descriptor (mkRspec false desc_offset desc_size None) s2
          else (s1, None)
        end
    end
  end.

(* _parse_descriptor() *)
Definition vmdk_type_of (text : str) : str :=
  match find VMDK_CREATETYPE text with
  | None => VMDK_NOTFOUND
  | Some i =>
    let type_idx := i + flen VMDK_CREATETYPE in
    let type_end : Z := match find_at VMDK_QUOTE text type_idx with Some j => Z.of_N j | None => (-1)%Z end in
    if (type_end - Z.of_N type_idx <? Z.of_N VMDK_TYPE_CAP)%Z
    then zslice (Some (Z.of_N type_idx)) (Some type_end) text
    else VMDK_NOTFOUND
  end.

Definition vmdk_parse_descriptor (s : ist vx) : ist vx * option exn :=
  match get_region R_descriptor s with
  | Exn e => (s, Some e)
  | Ok d =>
    let data := r_data d in
    let desc_data := match find VMDK_NUL data with Some i => ntake i data | None => data end in
    if negb (forallb is_ascii desc_data) then (s, None)     (* UnicodeDecodeError: return *)
    else let text := lower_ascii desc_data in
         (set_ext s (mkVx (Some text) (vmdk_type_of text)), None)
  end.

Definition vmdk_rcomplete (n : rname) (s : ist vx) : ist vx * option exn :=
  match n with R_descriptor => vmdk_parse_descriptor s | _ => (s, None) end.

Definition vmdk_match (s : ist vx) : res bool :=
  match rget R_header (i_regs s) with
  | Some h => Ok (prefixb VMDK_MAGIC (r_data h))
  | None => Ok (negb (beq (v_vmdktype (i_ext s)) VMDK_NOTFOUND))
  end.

Definition vmdk_vsize (s : ist vx) : res Z :=
  if negb (desc_text_truthy (i_ext s)) then Ok 0%Z else
  if negb (mem_str (v_vmdktype (i_ext s)) VMDK_SUBFORMATS) then Ok 0%Z else
  if negb (has_region R_header s) then Ok 0%Z else
  do h <- get_region R_header s;
  do b <- unpack sf_vmdk_vs (ntake VMDK_VS_SLICE (r_data h));
  Ok (Z.of_N (sint sf_vmdk_vs 3 b * VMDK_VS_SECTOR)).

(* check_descriptor's line classification *)
Inductive lclass := L_skip | L_ddb | L_field | L_extent | L_bad.
(* line.split(c)[0] *)
Definition line_prefix (c : N) (line : str) : str := hd [] (split_char c line).
Definition classify_line (line : str) : lclass :=
  if prefixb [VMDK_CH_HASH] line || (match line with [] => true | _ => false end) then L_skip
  else if prefixb VMDK_DDB line then L_ddb
  else if memN VMDK_CH_EQ line && negb (memN VMDK_CH_SP (line_prefix VMDK_CH_EQ line)) then L_field
  else if mem_str (line_prefix VMDK_CH_SP line) VMDK_EXTENT_ACCESS then L_extent
  else L_bad.
Definition is_bad (c : lclass) : bool := match c with L_bad => true | _ => false end.
Definition is_extent (c : lclass) : bool := match c with L_extent => true | _ => false end.

Definition vmdk_check_descriptor (s : ist vx) : res unit :=
  match v_desc_text (i_ext s) with
  | None | Some [] => violation
  | Some text =>
    if negb (mem_str (v_vmdktype (i_ext s)) VMDK_SUBFORMATS) then violation else
    let lines := map strip (split_char VMDK_CH_NL text) in
    if existsb (fun l => is_bad (classify_line l)) lines then violation else
    let extents := filter (fun l => is_extent (classify_line l)) lines in
    if existsb (memN VMDK_CH_SLASH) extents then violation else
    match extents with [] => violation | _ => Ok tt end
  end.

Definition vmdk_check_footer (s : ist vx) : res unit :=
  do hh <- vmdk_parse_sparse s R_header 0;
  do ff <- vmdk_parse_sparse s R_footer VMDK_FT_HDR_OFF;
  let '(h_sig, h_ver, h_desc_sec, h_desc_num, h_goff) := hh in
  let '(f_sig, f_ver, f_desc_sec, f_desc_num, f_goff) := ff in
  if negb (beq h_sig f_sig) then violation else
  if negb (h_ver =? f_ver) then violation else
  if negb (h_desc_sec =? f_desc_sec) || negb (h_desc_num =? f_desc_num) then violation else
  if f_goff =? VMDK_GD_AT_END then violation else
  let pad := repeatN (hd 0 VMDK_PAD_BYTE) (N.to_nat VMDK_FT_PAD) in
  do f <- get_region R_footer s;
  do m1 <- unpack sf_vmdk_marker (ntake VMDK_FT_FIRST (r_data f));
  if negb (sint sf_vmdk_marker 1 m1 =? 0) || negb (sint sf_vmdk_marker 2 m1 =? VMDK_MARKER_FOOTER)
     || negb (beq (sraw sf_vmdk_marker 3 m1) pad) then violation else
  do m2 <- unpack sf_vmdk_marker2 (nlast VMDK_FT_LAST (r_data f));
  if negb (sint sf_vmdk_marker2 0 m2 =? 0) || negb (sint sf_vmdk_marker2 1 m2 =? 0)
     || negb (sint sf_vmdk_marker2 2 m2 =? VMDK_MARKER_EOS) || negb (beq (sraw sf_vmdk_marker2 3 m2) pad) then violation
  else Ok tt.

Definition vmdk_check (c : cname) (s : ist vx) : res unit :=
  match c with
  | K_descriptor => vmdk_check_descriptor s
  | K_footer => vmdk_check_footer s
  | _ => check_unknown
  end.

Definition vmdk_fmt : fmt vx :=
  mkFmt F_vmdk (mkVx None VMDK_NOTFOUND) vmdk_post vmdk_rcomplete vmdk_match vmdk_vsize vmdk_check.
