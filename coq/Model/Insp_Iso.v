(* Model/Insp_Iso.v — ISOInspector *)
Require Import OV.Base.Bytes OV.Base.Py OV.Base.Insp_Struct OV.Gen.Insp_Consts OV.Model.Insp_Engine.
Open Scope N_scope.

Definition iso_match (s : ist unit) : res bool :=
  if negb (complete s) then Ok false else
  do r <- get_region R_header s;
  Ok (mem_str (nsub ISO_SIG_LO ISO_SIG_HI (r_data r)) [ISO_SIG_A; ISO_SIG_B; ISO_SIG_C]).

Definition iso_vsize (s : ist unit) : res Z :=
  if negb (complete s) then Ok 0%Z else
  do m <- iso_match s;
  if negb m then Ok 0%Z else
  do r <- get_region R_header s;
  do ty <- bidx (r_data r) ISO_TYPE_IDX;
  if negb (ty =? ISO_TYPE_PVD) then Ok 0%Z else
  do lb <- unpack sf_iso_lbs (ntake ISO_LBS_TAKE (nsub ISO_LBS_LO ISO_LBS_HI (r_data r)));
  do vs <- unpack sf_iso_vss (ntake ISO_VSS_TAKE (nsub ISO_VSS_LO ISO_VSS_HI (r_data r)));
  Ok (Z.of_N (sint sf_iso_vss 0 vs * sint sf_iso_lbs 0 lb)).

Definition iso_check (c : cname) (_ : ist unit) : res unit :=
  match c with K_null => check_null | _ => check_unknown end.

Definition iso_fmt : fmt unit :=
  mkFmt F_iso tt no_post no_rcomplete iso_match iso_vsize iso_check.
