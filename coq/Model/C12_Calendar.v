(* Model/C12_Calendar.v — proleptic Gregorian calendar as CPython's datetime uses it.
   Day numbers are 0-based: day 0 = 0001-01-01 (= date.toordinal() - 1).
   Definitions only; the round-trip proofs are in Proofs/C12_Calendar.v. *)
From Coq Require Import ZArith Bool.
Open Scope Z_scope.

Definition is_leap (y : Z) : bool :=
  (y mod 4 =? 0) && (negb (y mod 100 =? 0) || (y mod 400 =? 0)).

Definition year_len (y : Z) : Z := if is_leap y then 366 else 365.

(* days before January 1st of year y (y >= 1) *)
Definition days_before_year (y : Z) : Z :=
  365 * (y - 1) + (y - 1) / 4 - (y - 1) / 100 + (y - 1) / 400.

Definition days_in_month (leap : bool) (m : Z) : Z :=
  if m =? 2 then (if leap then 29 else 28)
  else if (m =? 4) || (m =? 6) || (m =? 9) || (m =? 11) then 30 else 31.

(* days of the year before the first of month m (1..12; 13 gives the year length) *)
Definition days_before_month (leap : bool) (m : Z) : Z :=
  let l := if leap then 1 else 0 in
  if m <=? 1 then 0 else if m =? 2 then 31 else
  l + (if m =? 3 then 59 else if m =? 4 then 90 else if m =? 5 then 120 else
       if m =? 6 then 151 else if m =? 7 then 181 else if m =? 8 then 212 else
       if m =? 9 then 243 else if m =? 10 then 273 else if m =? 11 then 304 else
       if m =? 12 then 334 else 365).

Definition valid_ymd (y m d : Z) : bool :=
  (1 <=? y) && (1 <=? m) && (m <=? 12) && (1 <=? d) && (d <=? days_in_month (is_leap y) m).

Definition days_of_ymd (y m d : Z) : Z :=
  days_before_year y + days_before_month (is_leap y) m + (d - 1).

(* day number -> (year, 0-based day of the year); the 400/100/4/1-year cycle
   decomposition of CPython's _ord2ymd *)
Definition yd_of_days (n : Z) : Z * Z :=
  let n400 := n / 146097 in
  let r := n mod 146097 in
  let n100 := r / 36524 in
  let r2 := r mod 36524 in
  let n4 := r2 / 1461 in
  let r3 := r2 mod 1461 in
  let n1 := r3 / 365 in
  let r4 := r3 mod 365 in
  let y := n400 * 400 + n100 * 100 + n4 * 4 + n1 + 1 in
  if (n1 =? 4) || (n100 =? 4) then (y - 1, 365) else (y, r4).

(* 0-based day of the year -> (month, day of month) *)
Definition md_of_doy (leap : bool) (doy : Z) : Z * Z :=
  let m :=
    if doy <? days_before_month leap 2 then 1 else
    if doy <? days_before_month leap 3 then 2 else
    if doy <? days_before_month leap 4 then 3 else
    if doy <? days_before_month leap 5 then 4 else
    if doy <? days_before_month leap 6 then 5 else
    if doy <? days_before_month leap 7 then 6 else
    if doy <? days_before_month leap 8 then 7 else
    if doy <? days_before_month leap 9 then 8 else
    if doy <? days_before_month leap 10 then 9 else
    if doy <? days_before_month leap 11 then 10 else
    if doy <? days_before_month leap 12 then 11 else 12 in
  (m, doy - days_before_month leap m + 1).

Definition ymd_of_days (n : Z) : Z * Z * Z :=
  let '(y, doy) := yd_of_days n in
  let '(m, d) := md_of_doy (is_leap y) doy in
  (y, m, d).
