(* Model/C15_Text.v — get_ipv6_addr_by_EUI64 / get_mac_addr_by_ipv6 / escape_ipv6 END TO END on
   text: no parsing oracle is left.
     * netaddr.IPNetwork(text).first : C11's model of IPNetwork parsing (Model/C11.v section 4),
       extended here with the VALUE and the PREFIX LENGTH it computes, and netaddr's `first`;
     * is_valid_ipv4(prefix, False/True), is_valid_ipv6(address): C11's models;
     * netaddr.EUI(text): the textual MAC / EUI-64 forms of netaddr 1.3.0
       (strategy/eui48.py RE_MAC_FORMATS, strategy/eui64.py RE_EUI64_FORMATS, EUI._set_value);
     * str(EUI) in the mac_unix_expanded dialect (what get_mac_addr_by_ipv6 returns).
   Definitions only; tied to the libraries by correspondence (ops euitext, mactext, net, hosttext). *)
Require Import OV.Base.Bytes OV.Base.Py OV.Base.PyInt OV.Base.Str OV.Base.C11_Lib.
Require Import OV.Model.C11.
Require Import OV.Gen.C15_Netutils OV.Model.C15.
Open Scope N_scope.

(* ------------------------------------------------------------------ IPNetwork(text): value, prefixlen, first *)

Inductive nres := NNet (value plen : N) | NRaise (e : aexn).

(* module.netmask_to_prefix / hostmask_to_prefix: a netmask 2^w - 2^j or a hostmask 2^j - 1
   stands for the prefix length w - j (is_netmask is consulted first) *)
Definition mask_prefix (v6 : bool) (m : N) : option N :=
  if is_netmask v6 m then Some (ip_width v6 - N.log2 (N.lxor m (2 ^ ip_width v6 - 1) + 1))
  else if is_hostmask m then Some (ip_width v6 - N.log2 (m + 1))
  else None.

(* parse_ip_network(module, addr) for a str — the same control flow as C11.parse_ip_network,
   returning what netaddr returns *)
Definition parse_ip_network_v (v6 : bool) (s : str) : nres :=
  let (val1, val2) := split_first 47 s in
  match ipaddress_of v6 val1 with
  | PRaise e => NRaise e
  | PVal value =>
      match val2 with
      | None => NNet value (ip_width v6)
      | Some p =>
          match py_int_str p with
          | Some z => if (0 <=? z)%Z && (z <=? Z.of_N (ip_width v6))%Z then NNet value (Z.to_N z)
                      else NRaise AAddrFormatError
          | None =>
              match ipaddress_of v6 p with
              | PRaise e => NRaise e
              | PVal m => match mask_prefix v6 m with
                          | Some k => NNet value k
                          | None => NRaise AAddrFormatError
                          end
              end
          end
      end
  end.

(* IPNetwork(addr): IPv4 first, IPv6 when that raised AddrFormatError *)
Inductive netres := Net (v6 : bool) (value plen : N) | NetRaise (e : aexn).
Definition ipnetwork_v (s : str) : netres :=
  match parse_ip_network_v false s with
  | NRaise AAddrFormatError =>
      match parse_ip_network_v true s with NNet v k => Net true v k | NRaise e => NetRaise e end
  | NNet v k => Net false v k
  | NRaise e => NetRaise e
  end.

(* IPNetwork.first = value & (max_int ^ hostmask), hostmask = (1 << (width - prefixlen)) - 1 *)
Definition net_first (v6 : bool) (value plen : N) : N :=
  N.land value (N.lxor (2 ^ ip_width v6 - 1) (2 ^ (ip_width v6 - plen) - 1)).

(* ------------------------------------------------------------------ netaddr.EUI(text) *)

(* regex `$` without MULTILINE: at the end, or before one final newline *)
Definition dollar (s : str) : str := match rev s with 10 :: r => rev r | _ => s end.

(* ([0-9A-F]{lo,hi}) under IGNORECASE *)
Definition hexword (lo hi : nat) (f : str) : bool :=
  (lo <=? length f)%nat && (length f <=? hi)%nat && forallb is_hex f.
(* ^w(SEPw){n-1}$ : the words *)
Definition fmt_match (sep : N) (n lo hi : nat) (s : str) : option (list str) :=
  let fs := split_char sep s in
  if (length fs =? n)%nat && forallb (hexword lo hi) fs then Some fs else None.
(* ^([0-9A-F]{n})$ *)
Definition bare_match (n : nat) (s : str) : option (list str) :=
  if (length s =? n)%nat && forallb is_hex s then Some [s] else None.

(* int(''.join('%.<k>x' % int(w, 16) for w in words), 16): words of [bits] bits each *)
Definition words_val (bits : N) (ws : list str) : N :=
  fold_left (fun acc w => acc * 2 ^ bits + hexval w) ws 0.

Definition fmt := ((str -> option (list str)) * N)%type.
(* RE_MAC_FORMATS in order: 6 x 2 hex (':' '-'), 3 x 4 hex (':' '-' '.'), 2 x 5..6 hex ('-' ':'),
   12 and 11 bare hex digits *)
Definition eui48_formats : list fmt :=
  [(fmt_match 58 6 1 2, 8); (fmt_match 45 6 1 2, 8);
   (fmt_match 58 3 1 4, 16); (fmt_match 45 3 1 4, 16); (fmt_match 46 3 1 4, 16);
   (fmt_match 45 2 5 6, 24); (fmt_match 58 2 5 6, 24);
   (bare_match 12, 48); (bare_match 11, 48)].
(* RE_EUI64_FORMATS: 8 x 2 hex (':' '-'), 4 x 4 hex (':' '-' '.'), 16 bare hex digits *)
Definition eui64_formats : list fmt :=
  [(fmt_match 58 8 1 2, 8); (fmt_match 45 8 1 2, 8);
   (fmt_match 58 4 1 4, 16); (fmt_match 45 4 1 4, 16); (fmt_match 46 4 1 4, 16);
   (bare_match 16, 64)].
Fixpoint first_match (fs : list fmt) (s : str) : option N :=
  match fs with
  | [] => None
  | (f, bits) :: t => match f s with Some ws => Some (words_val bits ws) | None => first_match t s end
  end.
Definition eui48_str (s : str) : option N := first_match eui48_formats (dollar s).
Definition eui64_str (s : str) : option N := first_match eui64_formats (dollar s).

(* the fall-back of EUI._set_value: `0 <= int(value) <= module.max_int` (ValueError: pass) *)
Definition int_in (s : str) (hi : Z) : option Z :=
  match py_int_str s with
  | Some z => if (0 <=? z)%Z && (z <=? hi)%Z then Some z else None
  | None => None
  end.

(* EUI(text): EUI-48 formats, then int(text) below 2^48, then EUI-64 formats, then int(text) below
   2^64; otherwise AddrFormatError *)
Definition eui_of_text (s : str) : option eui :=
  match eui48_str s with
  | Some v => Some (EUI48 (Z.of_N v))
  | None =>
    match int_in s (2 ^ 48 - 1) with
    | Some z => Some (EUI48 z)
    | None =>
      match eui64_str s with
      | Some v => Some (EUI64 (Z.of_N v))
      | None => match int_in s (2 ^ 64 - 1) with Some z => Some (EUI64 z) | None => None end
      end
    end
  end.

(* EUI(int): outside 0..2^64-1 no module is chosen and str_to_int(int) raises TypeError *)
Definition eui_of_pyint (z : Z) : lres eui :=
  if (0 <=? z)%Z && (z <=? 2 ^ 48 - 1)%Z then LOk (EUI48 z)
  else if (2 ^ 48 - 1 <? z)%Z && (z <=? 2 ^ 64 - 1)%Z then LOk (EUI64 z)
  else LExn LTypeError.

(* str(EUI) in the mac_unix_expanded dialect: six '%.2x' words joined by ':' *)
Definition hexdig (d : N) : N := if d <? 10 then 48 + d else 87 + d.
Definition hex2 (b : N) : str := [hexdig (b / 16); hexdig (b mod 16)].
Definition mac_bytes (v : N) : list N :=
  [v / 2 ^ 40 mod 256; v / 2 ^ 32 mod 256; v / 2 ^ 24 mod 256; v / 2 ^ 16 mod 256; v / 2 ^ 8 mod 256; v mod 256].
Definition eui48_print (v : N) : str := join [58] (map hex2 (mac_bytes v)).

(* ------------------------------------------------------------------ the functions on text *)

Definition flag_of (r : ares) : bool := match r with AOk b => b | ARaise _ => false end.
Definition libexn_of_aexn (e : aexn) : libexn :=
  match e with
  | AValueError => LValueError | AAddrFormatError => LAddrFormatError | ATypeError => LTypeError
  | _ => LOtherExn
  end.

Definition mac_lres (m : str) : lres eui :=
  match eui_of_text m with Some e => LOk e | None => LExn LAddrFormatError end.
Definition net_lres (p : str) : lres Z :=
  match ipnetwork_v p with
  | Net v6 value plen => LOk (Z.of_N (net_first v6 value plen))
  | NetRaise e => LExn (libexn_of_aexn e)
  end.

(* get_ipv6_addr_by_EUI64(prefix, mac) for a str prefix; the MAC is a text or an int *)
Definition get_ipv6_addr_by_EUI64_gen (p : str) (mac : lres eui) : res (Z * Z) :=
  get_ipv6_addr_by_EUI64 true (flag_of (valid_ipv4 false p)) (flag_of (valid_ipv4 true p)) mac (net_lres p).
Definition get_ipv6_addr_by_EUI64_text (p m : str) : res (Z * Z) :=
  get_ipv6_addr_by_EUI64_gen p (mac_lres m).

(* str(get_mac_addr_by_ipv6(IPAddress(v, 6))) *)
Definition get_mac_text (v : Z) : option str :=
  match get_mac_addr_by_ipv6 6 v with
  | LOk (EUI48 m) => Some (eui48_print (Z.to_N m))
  | _ => None
  end.

(* escape_ipv6(address) with is_valid_ipv6 as C11 models it *)
Definition escape_ipv6_text (h : str) : str := escape_ipv6 (flag_of (is_valid_ipv6 h)) h.
