(* Model/C08_Syntax.v — the small language in which the translator
   (tools/gen/gen_C08.py) writes down the SHAPE of mask_dict_password's loop
   body: the sequence of isinstance tests, the flag assignments, the
   "for sani_key in _SANITIZE_KEYS: if sani_key in <haystack>: ...; break" idiom,
   `continue`, and the right-hand sides stored into the output dict.
   Definitions only.  The generated term is Gen/C08_Shape.v. *)
Require Import OV.Base.Bytes OV.Base.Py.

(* second argument of an isinstance test *)
Inductive cls := CMapping (* collections.abc.Mapping *) | CDict (* dict *) | CStr (* str *).
(* first argument of an isinstance test: the loop variables *)
Inductive subject := SubjKey | SubjVal.
(* what the sanitize keys are searched in *)
Inductive haystack := HLower (* k.lower() *) | HRaw (* k *).
(* which secret a call passes on: secret=secret, or nothing (the default) *)
Inductive secarg := SecGiven | SecDefault.

(* right-hand side of  out[k] = ...  *)
Inductive action :=
| ARecurse (s : secarg)      (* mask_dict_password(v, secret=...) *)
| ASecret                    (* secret *)
| AMask (s : secarg)         (* mask_password(v, secret=...) *)
| AKeep.                     (* v *)

Inductive cond :=
| CIsInst (x : subject) (c : cls)
| CFlag (n : N)              (* a local boolean variable, numbered by first appearance *)
| CNot (c : cond)
| CAnd (a b : cond)
| COr (a b : cond).

Inductive stmt :=
| SOut (a : action)                          (* out[k] = <action> *)
| SFlag (n : N) (b : bool)                   (* flag_n = True | False *)
| SIf (c : cond) (th el : list stmt)
| SContinue
| SAnyKey (h : haystack) (body : list stmt). (* for sk in KEYS: if sk in <h>: body; break *)

(* ---- round 3: where the function writes and what it returns (Gen/C08_Frame.v) ---- *)
(* the two dict-valued local variables of mask_dict_password *)
Inductive hvar := VarOut (* the local initialised before the loop *) | VarArg (* the parameter `dictionary` *).
(* OUT = {} / dict() -> InitFresh 0 ; OrderedDict() -> InitFresh 1 ; OUT = dictionary -> InitArg *)
Inductive out_init := InitFresh (kind : N) | InitArg.
