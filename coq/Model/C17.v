(* Model/C17.v — oslo_utils/versionutils.py *)
From Coq Require Import String.
Require Import OV.Base.Bytes OV.Base.Py OV.Base.PyInt OV.Base.Str OV.Base.Regex OV.Gen.Versionutils.
Open Scope Z_scope.

(* convert_version_to_tuple: re.sub(suffix) ; split('.') ; int(part) — any
   exception is turned into ValueError by the caller *)
Fixpoint map_opt {A B} (f : A -> option B) (l : list A) : option (list B) :=
  match l with
  | [] => Some []
  | x :: t => match f x, map_opt f t with Some y, Some r => Some (y :: r) | _, _ => None end
  end.

Definition strip_suffix (s : str) : str := re_sub suffix_re suffix_repl s.
Definition version_to_tuple (s : str) : option (list Z) :=
  map_opt py_int (split_char version_sep (strip_suffix s)).

(* functools.reduce(lambda x, y: x * R + y, version).  On () reduce raises
   TypeError; the handler's own message formatting ("..%s.." % ()) raises
   TypeError again, so that is what escapes (observation O7 in DESIGN). *)
Definition tuple_to_int (v : list Z) : res Z :=
  match v with
  | [] => Exn TypeError
  | x :: t => Ok (fold_left (fun a y => a * radix_to_int + y) t x)
  end.

Definition convert_version_to_int_str (s : str) : res Z :=
  match version_to_tuple s with
  | Some v => tuple_to_int v
  | None => Exn ValueError
  end.

(* convert_version_to_str: while version_int != 0 ...  Python's // is floor
   division = Z.div.  [None] = the loop did not finish within the fuel (it
   diverges on negative input). *)
Fixpoint ver_loop (fuel : nat) (v : Z) (acc : list str) : option (list str) :=
  match fuel with
  | O => None
  | S f => if v =? 0 then Some acc
           else let num := v - (v / radix_to_str * radix_to_str) in
                ver_loop f (v / radix_to_str) (dec_of_Z num :: acc)
  end.
Definition ver_fuel (v : Z) : nat := S (S (Z.to_nat (Z.log2 (Z.abs v)))).
Definition convert_version_to_str (v : Z) : option str :=
  option_map (join [version_sep]) (ver_loop (ver_fuel v) v []).

(* is_compatible over an abstract version order (packaging.version is a contract) *)
Section Compat.
  Variable V : Type.
  Variable vle : V -> V -> bool.         (* a <= b *)
  Variable veq : V -> V -> bool.
  Variable major : V -> Z.
  Definition is_compatible (req cur : V) (same_major : bool) : bool :=
    if same_major && negb (major req =? major cur) then false else vle req cur.
  Definition cmp_holds (op : cmpop) (a b : V) : bool :=
    match op with
    | OpLt => vle a b && negb (veq a b)
    | OpLe => vle a b
    | OpEq => veq a b
    | OpGt => vle b a && negb (veq a b)
    | OpGe => vle b a
    | OpNe => negb (veq a b)
    end.
  Definition satisfied_by (preds : list (cmpop * V)) (v : V) : bool :=
    forallb (fun p => cmp_holds (fst p) v (snd p)) preds.
End Compat.

(* VersionPredicate._parse_predicate: regex match, groups (operator, version text) *)
Fixpoint assoc_str {A} (k : str) (l : list (str * A)) : option A :=
  match l with [] => None | (k', v) :: t => if beq k k' then Some v else assoc_str k t end.
Definition parse_predicate (p : str) : option (cmpop * str) :=
  match re_match predicate_re p with
  | None => None
  | Some (_, g) =>
      match group_text p g 1, group_text p g 2 with
      | Some o, Some v => match assoc_str o comp_map with Some op => Some (op, v) | None => None end
      | _, _ => None
      end
  end.
Definition parse_predicates (s : str) : option (list (cmpop * str)) :=
  map_opt parse_predicate (split_char 44%N s).

(* ---- VersionPredicate / is_compatible on STRINGS.  packaging.version.Version is a
   contract: [vparse s = None] stands for InvalidVersion (a subclass of ValueError),
   [vle]/[veq] for its <= and ==, [major] for .major.  __init__ parses every part
   (regex, then Version) in order; every failure is a ValueError. ---- *)
Section Predicate.
  Variable V : Type.
  Variable vparse : str -> option V.
  Variable vle veq : V -> V -> bool.
  Variable major : V -> Z.
  Definition parse_version_of (p : cmpop * str) : option (cmpop * V) :=
    match vparse (snd p) with Some v => Some (fst p, v) | None => None end.
  Definition predicate_init (s : str) : res (list (cmpop * V)) :=
    match parse_predicates s with
    | None => Exn ValueError
    | Some l => match map_opt parse_version_of l with Some l' => Ok l' | None => Exn ValueError end
    end.
  Definition predicate_satisfied_by (preds : list (cmpop * V)) (vs : str) : res bool :=
    match vparse vs with Some v => Ok (satisfied_by V vle veq preds v) | None => Exn ValueError end.
  Definition is_compatible_str (req cur : str) (same_major : bool) : res bool :=
    match vparse req with
    | None => Exn ValueError
    | Some r => match vparse cur with
                | None => Exn ValueError
                | Some c => Ok (is_compatible V vle major r c same_major)
                end
    end.
End Predicate.
