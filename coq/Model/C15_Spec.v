(* Model/C15_Spec.v — the readings the C15 theorems are stated against (definitions only;
   nothing here is used by the executable model). *)
Require Import OV.Base.Bytes OV.Base.Py OV.Base.PyInt OV.Base.Str OV.Base.C15_PyVal.
Require OV.Model.C15.
Open Scope Z_scope.

(* ---- modified EUI-64 interface identifier of a 48-bit MAC (RFC 4291 app. A) ----
   byte-wise: b0^0x02 : b1 : b2 : ff : fe : b3 : b4 : b5 *)
Definition mac_byte (mac i : Z) : Z := (mac / 256 ^ (5 - i)) mod 256.
Definition be_bytes (l : list Z) : Z := fold_left (fun a b => a * 256 + b) l 0.
Definition modified_eui64 (mac : Z) : Z :=
  be_bytes [Z.lxor (mac_byte mac 0) 2; mac_byte mac 1; mac_byte mac 2; 255; 254;
            mac_byte mac 3; mac_byte mac 4; mac_byte mac 5].

(* the same number written with the two 24-bit halves of the MAC:
   (hi24 * 2^40 + 0xFFFE * 2^24 + lo24) xor 2^57 *)
Definition eui64_arith (mac : Z) : Z := (mac / 2 ^ 24) * 2 ^ 40 + 0xFFFE * 2 ^ 24 + mac mod 2 ^ 24.
Definition modified_eui64_arith (mac : Z) : Z := Z.lxor (eui64_arith mac) (2 ^ 57).

(* ---- hosts for which parse_host_port (escape_ipv6 h ++ ":" ++ port) = (h, port) ----
   [valid] = is_valid_ipv6 h, i.e. escape_ipv6 put brackets around h: then every h does
   (the bracketed text is split at its LAST ']'); otherwise h must be free of ':' and must
   not start with '[' *)
Definition rt_host (valid : bool) (h : str) : bool :=
  if valid then true
  else negb (has_char 58%N h) && negb (prefixb [91%N] h).
(* ... and for which parse_host_port (escape_ipv6 h) default = (h, default) *)
Definition rt_host_default (valid : bool) (h : str) : bool :=
  if valid then true
  else negb (bempty h) && negb (prefixb [91%N] h) && negb (count_char 58%N h =? 1).

Definition pv_of (d : option Z) : pyval := match d with None => VNone | Some z => VInt z end.

(* ---- query parameters ---- *)
Definition values_of (k : str) (pairs : list (str * str)) : list str :=
  map snd (filter (fun kv => beq k (fst kv)) pairs).
Definition last_opt {A} (l : list A) : option A :=
  match rev l with [] => None | x :: _ => Some x end.
(* the value params(collapse=False) holds for a name with the given values *)
Definition pval_of (vs : list str) : option OV.Model.C15.pval :=
  match vs with [] => None | [v] => Some (OV.Model.C15.One v) | _ => Some (OV.Model.C15.Many vs) end.
