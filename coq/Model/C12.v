(* Model/C12.v — hand-written executable model of the time helpers of
   oslo_utils/timeutils.py (normalize_time, parse_isotime, utcnow, utcnow_ts,
   set/clear_time_override, advance_time_delta/seconds, is_older_than, is_newer_than,
   is_soon, marshall_now, unmarshall_time, delta_seconds).  Definitions only.
   Each function follows the source statement by statement, in the monad of C12_Prim
   ([M A = world -> res A * world]: the override slot is state, exceptions stop). *)
From Coq Require Import String.
Require Import OV.Base.Bytes OV.Base.Py.
Require Import OV.Model.C12_Calendar OV.Model.C12_Prim.
Open Scope Z_scope.

Definition MAX_DATETIME_SEC : Z := 59.
Definition utc_long_name : str := lit "UTC+00:00".

(* parse_isotime: iso8601.parse_date, ParseError (a ValueError) and TypeError re-raised as ValueError *)
Definition parse_isotime (s : str) : M dt :=
  fun w => match lib_parse w s with
           | Ok d => (Ok d, w)
           | Exn TypeError => (Exn ValueError, w)
           | Exn e => (Exn e, w)
           end.

(* normalize_time *)
Definition normalize_time (timestamp : dt) : res dt :=
  match dt_utcoffset timestamp with
  | None => Ok timestamp
  | Some offset => dt_sub_td (dt_replace_tz_none timestamp) offset
  end.

(* utcnow(with_timezone): a truthy override wins (a list is popped from the front, a
   datetime is returned as is); otherwise the OS clock *)
Definition utcnow (with_timezone : bool) : M dt :=
  fun w => match ov w with
           | One t => (Ok t, w)
           | Many (t :: r) => (Ok t, set_ov w (Many r))
           | Many [] | NoOv => real_now with_timezone w
           end.

(* set_time_override(override_time=None): [override_time or <OS clock, naive>] *)
Definition set_time_override (arg : override) : M unit :=
  fun w => match arg with
           | One t => put_ov (One t) w
           | Many (t :: r) => put_ov (Many (t :: r)) w
           | Many [] | NoOv => put_ov (One (naive (real w))) w
           end.

Definition clear_time_override : M unit := put_ov NoOv.

(* advance_time_delta: asserts an override is set; iterating over a list rebinds a local
   only (the list is NOT changed, but each sum is computed and may overflow); a single
   datetime is not iterable (TypeError) and is replaced by datetime + timedelta *)
Definition advance_time_delta (delta : Z) : M unit :=
  fun w => match ov w with
           | NoOv => (Exn OtherError, w)    (* AssertionError *)
           | Many l => if forallb (fun t => in_range (wall t + delta)) l then (Ok tt, w) else (Exn OverflowError, w)
           | One t => match dt_add_td t delta with
                      | Ok t' => put_ov (One t') w
                      | Exn e => (Exn e, w)
                      end
           end.

Definition advance_time_seconds (seconds : pynum) : M unit :=
  bindM (lift (td_of_days_seconds 0 seconds)) advance_time_delta.

(* utcnow_ts(microsecond) *)
Definition utcnow_ts (microsecond : bool) : M fexp :=
  fun w => match ov w with
           | NoOv => (Ok (if microsecond then FTime else FTrunc FTime), w)
           | _ => bindM (utcnow false) (fun now =>
                    let timestamp := FInt (timegm_of now) in
                    ret (if microsecond then FAdd timestamp (FDiv (FInt (dt_microsecond now)) (FInt 1000000)) else timestamp)) w
           end.

Definition targ_to_dt (t : targ) : M dt :=
  match t with TStr s => parse_isotime s | TDt d => ret d end.

(* is_older_than(before, seconds): utcnow() - before > timedelta(seconds=seconds) *)
Definition is_older_than (before : targ) (seconds : pynum) : M bool :=
  bindM (targ_to_dt before) (fun before =>
  bindM (lift (normalize_time before)) (fun before =>
  bindM (utcnow false) (fun now =>
  bindM (lift (dt_sub now before)) (fun diff =>
  bindM (lift (td_of_seconds seconds)) (fun limit =>
  ret (td_gt diff limit)))))).

(* is_newer_than(after, seconds): after - utcnow() > timedelta(seconds=seconds) *)
Definition is_newer_than (after : targ) (seconds : pynum) : M bool :=
  bindM (targ_to_dt after) (fun after =>
  bindM (lift (normalize_time after)) (fun after =>
  bindM (utcnow false) (fun now =>
  bindM (lift (dt_sub after now)) (fun diff =>
  bindM (lift (td_of_seconds seconds)) (fun limit =>
  ret (td_gt diff limit)))))).

(* is_soon(dt, window): a string is parsed first (as in is_older_than); then
   normalize_time(dt) <= utcnow() + timedelta(seconds=window) *)
Definition is_soon (t : targ) (window : pynum) : M bool :=
  bindM (targ_to_dt t) (fun d =>
  bindM (utcnow false) (fun now =>
  bindM (lift (td_of_seconds window)) (fun delta =>
  bindM (lift (dt_add_td now delta)) (fun soon =>
  bindM (lift (normalize_time d)) (fun n =>
  lift (dt_le n soon)))))).

(* marshall_now(now=None) *)
Definition marshall_now (now : option dt) : M mrec :=
  bindM (match now with Some d => ret d | None => utcnow false end) (fun now =>
  let d := mkM (dt_day now) (dt_month now) (dt_year now) (dt_hour now) (dt_minute now)
               (dt_second now) (dt_microsecond now) None in
  if dt_has_tzinfo now then
    let tzname := dt_tzname_none now in
    ret (mrec_set_tzname d (if optstr_eq_str tzname utc_long_name then Some utc_name else tzname))
  else ret d).

(* unmarshall_time(tyme) *)
Definition unmarshall_time (tyme : mrec) : M dt :=
  let second := Z.min (m_second tyme) MAX_DATETIME_SEC in
  bindM (lift (mk_datetime (mkF (m_year tyme) (m_month tyme) (m_day tyme) (m_hour tyme)
                                (m_minute tyme) second (m_microsecond tyme)))) (fun d =>
  match optstr_truthy (mrec_get_tzname tyme) with
  | Some tzname =>
      let tzname := if beq tzname utc_long_name then utc_name else tzname in
      bindM (call_zone tzname) (fun tzinfo => ret (dt_replace_zone d tzinfo))
  | None => ret d
  end).

(* oslo_utils.fixture.TimeFixture: thin wrappers (the fixture keeps no instant of its own) *)
Definition fixture_setUp (override_time : override) : M unit := set_time_override override_time.
Definition fixture_cleanUp : M unit := clear_time_override.
Definition fixture_advance_time_delta (delta : Z) : M unit := advance_time_delta delta.
Definition fixture_advance_time_seconds (seconds : pynum) : M unit := advance_time_seconds seconds.

(* delta_seconds(before, after) *)
Definition delta_seconds (before after : dt) : res fexp :=
  match dt_sub after before with
  | Ok delta => Ok (td_total_seconds delta)
  | Exn e => Exn e
  end.
