(* Model/C10.v — executable model of oslo_utils.strutils.string_to_bytes and of
   oslo_utils.imageutils.qemu.QemuImgInfo._extract_bytes (definitions only).
   Tables and regexes come from Gen/C10_Units.v (regenerated from /repo);
   floats are Base/PyFloat.v (CPython binary64 on SpecFloat). *)
From Coq Require Import String.
Require Import OV.Base.Bytes OV.Base.Py OV.Base.PyInt OV.Base.Str OV.Base.Regex OV.Base.PyFloat.
Require Import OV.Model.C10_Regex.
Require Import OV.Gen.C10_Units.
Open Scope Z_scope.

(* a Python number: string_to_bytes returns a float, or an int when return_int *)
Inductive num := NInt (z : Z) | NFloat (x : float64).

(* dict lookup with str keys; None = KeyError *)
Fixpoint lookup {A} (k : str) (d : list (str * A)) : option A :=
  match d with
  | [] => None
  | (k', v) :: t => if beq k k' then Some v else lookup k t
  end.

(* truthiness of a str-or-None value *)
Definition truthy (o : option str) : bool :=
  match o with Some (_ :: _) => true | _ => false end.

(* match.group(3) in ['b', 'bit'] *)
Definition is_bit_unit (o : option str) : bool :=
  match o with Some s => beq s (lit "b") || beq s (lit "bit") | None => false end.

(* float / int and float * int: the int operand is converted first *)
Definition f_div_int (x : float64) (z : Z) : res float64 :=
  match float_of_Z z with
  | None => Exn OverflowError
  | Some y => match f_div x y with Some q => Ok q | None => Exn OtherError (* ZeroDivisionError *) end
  end.
Definition f_mul_int (x : float64) (z : Z) : res float64 :=
  match float_of_Z z with
  | None => Exn OverflowError
  | Some y => Ok (f_mul x y)
  end.

(* float(x) for a str-or-None x; x in [...]; dict[x] (None is a legal key that is never present) *)
Definition float_of_optstr (o : option str) : res float64 :=
  match o with
  | None => Exn TypeError
  | Some s => match py_float_of_str s with None => Exn ValueError | Some x => Ok x end
  end.
Definition optstr_in (o : option str) (l : list str) : bool :=
  match o with Some s => existsb (beq s) l | None => false end.
Definition lookup_opt {A} (k : option str) (d : list (str * A)) : option A :=
  match k with Some s => lookup s d | None => None end.

(* pow(base, e) for ints; a negative exponent would give a float (not modelled: OtherError) *)
Definition py_pow (b : option Z) (e : Z) : res Z :=
  match b with
  | None => Exn TypeError
  | Some b => if e <? 0 then Exn OtherError else Ok (b ^ e)
  end.

(* the base in effect after the 'mixed' adjustment *)
Definition effective_base (unit_system : str) (base : option Z) (prefix : option str) : option Z :=
  if beq unit_system (lit "mixed") then
    match prefix with
    | Some (c :: r) => if negb (endswith (lit "i") (c :: r)) then Some 1000 else Some 1024
    | _ => Some 1024
    end
  else base.

(* if return_int: try: return int(math.ceil(res)) except OverflowError: raise ValueError(...)
   return res
   (math.ceil(nan) raises ValueError, which is not caught and therefore stays a ValueError) *)
Definition finish (return_int : bool) (r : float64) : res num :=
  if return_int then
    match ceil_to_Z r with
    | Ok z => Ok (NInt z)
    | Exn OverflowError => Exn ValueError
    | Exn e => Exn e
    end
  else Ok (NFloat r).

Definition string_to_bytes (text unit_system : str) (return_int : bool) : res num :=
  match lookup unit_system unit_system_info with
  | None => Exn ValueError                                   (* KeyError caught and re-raised *)
  | Some (base, reg_ex) =>
    match rz_match reg_ex text with
    | None => Exn ValueError
    | Some (_, g) =>
      match group_text text g 1 with
      | None => Exn TypeError                                (* float(None) *)
      | Some g1 =>
        match py_float_of_str g1 with
        | None => Exn ValueError
        | Some magnitude0 =>
          let unit_prefix := group_text text g 2 in
          do magnitude <- (if is_bit_unit (group_text text g 3) then f_div_int magnitude0 8 else Ok magnitude0);
          let base' := effective_base unit_system base unit_prefix in
          match unit_prefix with
          | Some (c :: r) =>
              match lookup (c :: r) unit_prefix_exponent with
              | None => Exn KeyError
              | Some e =>
                  do p <- py_pow base' e;
                  do res <- f_mul_int magnitude p;
                  finish return_int res
              end
          | _ => finish return_int magnitude
          end
        end
      end
    end
  end.

(* ---------- QemuImgInfo._extract_bytes ---------- *)

(* int(str) with CPython's default 4300-digit limit (sys.get_int_max_str_digits()) *)
Definition int_max_str_digits : N := 4300.
Definition count_digits (s : str) : N := blen (filter is_digit s).
Definition py_int_lim (s : str) : res Z :=
  match py_int s with
  | None => Exn ValueError
  | Some z => if (int_max_str_digits <? count_digits s)%N then Exn ValueError else Ok z
  end.

(* "e" in magnitude.lower() *)
Definition has_e (s : str) : bool := occursb (lit "e") (py_lower s).

(* helpers of the translated QemuImgInfo code (Gen/C10_QemuCode.v) *)
Definition search_groups (r : re) (s : str) : option groups :=
  match re_search r s with Some (_, _, g) => Some g | None => None end.
Definition int_of_optstr (o : option str) : res Z :=        (* int(x): int(None) is a TypeError *)
  match o with None => Exn TypeError | Some s => py_int_lim s end.
Definition str_of_optstr (o : option str) : str :=          (* '{}'.format(x) *)
  match o with Some s => s | None => lit "None" end.
(* strutils.string_to_bytes(t, return_int=True): the default unit system *)
Definition s2b_int (t : str) : res Z :=
  match string_to_bytes t (lit "IEC") true with
  | Ok (NInt z) => Ok z
  | Ok (NFloat _) => Exn OtherError                          (* unreachable: return_int=True *)
  | Exn e => Exn e
  end.

Definition extract_bytes (details : str) : res Z :=
  match re_search size_re details with
  | None => Exn ValueError
  | Some (_, _, g) =>
    match group_text details g 1 with
    | None => Exn AttributeError                             (* None.lower() *)
    | Some g1 =>
      do magnitude <- (if has_e g1
                       then match py_float_of_str g1 with
                            | None => Exn ValueError
                            | Some x => Ok (float_fmt_f0 x)
                            end
                       else Ok g1);
      let unit_of_measure := group_text details g 2 in
      if truthy (group_text details g 3) then
        match group_text details g 4 with
        | None => Exn TypeError                              (* int(None) *)
        | Some g4 => py_int_lim g4
        end
      else
        match unit_of_measure with
        | Some (c :: r) =>
            let u := c :: r in
            let u' := if (zlen u =? 1) && negb (beq u (lit "B")) then u ++ lit "B" else u in
            s2b_int (magnitude ++ u')
        | _ => py_int_lim magnitude
        end
    end
  end.

(* ---------- QemuImgInfo._canonicalize, the byte-size branch of _extract_details, one line of _parse ---------- *)

Definition canonicalize (field : str) : str :=
  replace (lit "-") (lit "_") (replace (lit " ") (lit "_") (strip (py_lower field))).

Definition size_fields : list str := [lit "virtual_size"; lit "cluster_size"; lit "disk_size"].
Definition zero_words : list str := [lit "None"; lit "unavailable"].

(* None: root_cmd is another kind of field.  Otherwise 0 for the two words qemu-img prints for an
   unknown size, else the byte count — and whatever _extract_bytes raises propagates *)
Definition size_details (root_cmd root_details : str) : option (res Z) :=
  if existsb (beq root_cmd) size_fields
  then Some (if existsb (beq root_details) zero_words then Ok 0 else extract_bytes root_details)
  else None.

(* one non-blank line of the human format: TOP_LEVEL_RE, canonical field name, stripped details *)
Definition parse_line (line : str) : option (str * str) :=
  match re_match top_level_re line with
  | None => None
  | Some (_, g) =>
      match group_text line g 1, group_text line g 2 with
      | Some g1, Some g2 => let root := canonicalize g1 in
                            match root with [] => None | _ => Some (root, strip g2) end
      | _, _ => None
      end
  end.

(* what QemuImgInfo stores for a line that names a byte-size field *)
Definition size_of_line (line : str) : option (str * res Z) :=
  match parse_line line with
  | None => None
  | Some (root, d) => match size_details root d with Some v => Some (root, v) | None => None end
  end.
