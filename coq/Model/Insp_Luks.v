(* Model/Insp_Luks.v — LUKSInspector *)
Require Import OV.Base.Bytes OV.Base.Py OV.Base.Insp_Struct OV.Gen.Insp_Consts OV.Model.Insp_Engine.
Open Scope N_scope.

Definition luks_match (s : ist unit) : res bool :=
  do r <- get_region R_header s; Ok (beq (ntake LUKS_MAGIC_TAKE (r_data r)) LUKS_MAGIC).

(* header_items: fields magic, version ('h': signed 16 bit), cipher_alg, cipher_mode, hash, payload_offset *)
Definition luks_header_items (s : ist unit) : res bytes :=
  do r <- get_region R_header s; unpack sf_luks_hdr (ntake LUKS_HDR_SLICE (r_data r)).

(* version is a signed short; it equals 1 iff the unsigned reading equals 1 *)
Definition luks_check_version (s : ist unit) : res unit :=
  do b <- luks_header_items s;
  if sint sf_luks_hdr 1 b =? LUKS_VERSION then Ok tt else violation.

Definition luks_vsize (s : ist unit) : res Z :=
  do b <- luks_header_items s;
  Ok (Z.of_N (i_pos s) - Z.of_N (sint sf_luks_hdr 5 b) * Z.of_N LUKS_SECTOR)%Z.

Definition luks_check (c : cname) (s : ist unit) : res unit :=
  match c with K_version => luks_check_version s | _ => check_unknown end.

Definition luks_fmt : fmt unit :=
  mkFmt F_luks tt no_post no_rcomplete luks_match luks_vsize luks_check.
