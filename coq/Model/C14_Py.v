(* Model/C14_Py.v — the CPython runtime pieces the C14 functions call (definitions only):
   dynamically typed values, isinstance, str(), int() for bases 10 and 16 with the
   int_max_str_digits limit, uuid.UUID(hex) / str(UUID) / UUID.hex.
   These are models of the interpreter and of Lib/uuid.py (trusted, tied to CPython by
   the correspondence harness incl. a sweep over all code points), not of /repo code. *)
From Coq Require Import String.
Require Import OV.Base.Bytes OV.Base.Py OV.Base.PyInt OV.Base.Str OV.Gen.Unicode.
Open Scope N_scope.

(* A Python value as far as the C14 functions can tell values apart.  [POther] is any
   object that is not str / int / bool / None (float, bytes, tuple, ...); it is observed
   only through str(v) [sv] and int(v) [iv] (a value or the exception class raised). *)
Inductive pyval :=
| PStr (s : str) | PInt (z : Z) | PBool (b : bool) | PNone
| POther (sv : str) (iv : res Z).

Definition is_str (v : pyval) : bool := match v with PStr _ => true | _ => false end.
Definition is_bool (v : pyval) : bool := match v with PBool _ => true | _ => false end.

Definition exn_eqb (a b : exn) : bool := beq (exn_name a) (exn_name b).
Definition catches (names : list exn) (e : exn) : bool := existsb (exn_eqb e) names.

(* ---------- str(int) with sys.get_int_max_str_digits() = lim (0 = unlimited) ---------- *)
Definition ndigits_Z (z : Z) : N := blen (dec_of_N (Z.abs_N z)).
Definition over_limit (lim nd : N) : bool := (0 <? lim) && (lim <? nd).
Definition str_of_int (lim : N) (z : Z) : res str :=
  let d := dec_of_N (Z.abs_N z) in            (* the digits, computed once *)
  if over_limit lim (blen d) then Exn ValueError
  else Ok (if (z <? 0)%Z then 45 :: d else d).

Definition py_str (lim : N) (v : pyval) : res str :=
  match v with
  | PStr s => Ok s
  | PInt z => str_of_int lim z
  | PBool true => Ok (lit "True")
  | PBool false => Ok (lit "False")
  | PNone => Ok (lit "None")
  | POther sv _ => Ok sv
  end.

(* ---------- int(str, base) ---------- *)
(* _PyUnicode_TransformDecimalAndSpaceToASCII: code points below 127 are kept, other
   whitespace becomes ' ', other decimal digits become '0'..'9', anything else is an error *)
Definition tr_char (c : N) : option N :=
  if c <? 127 then Some c
  else if is_space c then Some 32
  else match digit_val c with Some d => Some (48 + d) | None => None end.
Fixpoint transform (s : str) : option str :=
  match s with
  | [] => Some []
  | c :: t => match tr_char c, transform t with Some a, Some r => Some (a :: r) | _, _ => None end
  end.

(* Py_ISSPACE: the C locale's isspace *)
Definition c_isspace (c : N) : bool := ((9 <=? c) && (c <=? 13)) || (c =? 32).
Fixpoint lstrip_c (s : str) : str :=
  match s with c :: t => if c_isspace c then lstrip_c t else s | [] => [] end.

(* _PyLong_DigitValue[c] < base *)
Definition digit_of (base c : N) : option N :=
  let v := if (48 <=? c) && (c <=? 57) then c - 48
           else if (97 <=? c) && (c <=? 122) then c - 87
           else if (65 <=? c) && (c <=? 90) then c - 55
           else 37 in
  if v <? base then Some v else None.

(* the digit scan: digits with single underscores between them; result = (value, number
   of digits, unread rest); None = syntax error (double or trailing underscore) *)
Fixpoint scan (base : N) (s : str) (acc nd : N) (prev_us : bool) : option (N * N * str) :=
  match s with
  | [] => if prev_us then None else Some (acc, nd, [])
  | c :: t =>
      if c =? 95 then (if prev_us then None else scan base t acc nd true)
      else match digit_of base c with
           | Some d => scan base t (acc * base + d) (nd + 1) false
           | None => if prev_us then None else Some (acc, nd, s)
           end
  end.

Definition split_sign (s : str) : bool * str :=
  match s with
  | c :: t => if c =? 43 then (false, t) else if c =? 45 then (true, t) else (false, s)
  | [] => (false, [])
  end.

(* "0x" / "0X" prefix (base 16 only), one underscore allowed after it *)
Definition skip_prefix (base : N) (s : str) : str :=
  match s with
  | z :: x :: t =>
      if (base =? 16) && (z =? 48) && ((x =? 120) || (x =? 88))
      then match t with u :: t' => if u =? 95 then t' else t | [] => t end
      else s
  | _ => s
  end.

Definition starts_with_underscore (s : str) : bool :=
  match s with c :: _ => c =? 95 | [] => false end.

(* PyLong_FromString on the transformed text *)
Definition int_ascii (lim base : N) (s : str) : option Z :=
  let (neg, s2) := split_sign (lstrip_c s) in
  let s3 := skip_prefix base s2 in
  if starts_with_underscore s3 then None
  else match scan base s3 0 0 false with
       | None => None
       | Some (v, nd, rest) =>
           if nd =? 0 then None
           else if negb (forallb c_isspace rest) then None
           else if (base =? 10) && over_limit lim nd then None
           else Some (if neg then (- Z.of_N v)%Z else Z.of_N v)
       end.

Definition int_parse (lim base : N) (s : str) : option Z :=
  match transform s with Some a => int_ascii lim base a | None => None end.

(* int(v) *)
Definition py_int_of (lim : N) (v : pyval) : res Z :=
  match v with
  | PStr s => match int_parse lim 10 s with Some z => Ok z | None => Exn ValueError end
  | PInt z => Ok z
  | PBool b => Ok (if b then 1 else 0)%Z
  | PNone => Exn TypeError
  | POther _ iv => iv
  end.

(* calling a str method on v: AttributeError unless v is a str *)
Definition need_str (v : pyval) : res str :=
  match v with PStr s => Ok s | _ => Exn AttributeError end.

(* ---------- uuid.UUID ---------- *)
Definition hexdig (d : N) : N := if d <? 10 then 48 + d else 87 + d.
Fixpoint hexle (k : nat) (n : N) : str :=
  match k with O => [] | S k' => hexdig (n mod 16) :: hexle k' (n / 16) end.
(* '%032x' % n  for n < 2^128 *)
Definition hex32 (n : N) : str := rev (hexle 32 n).

(* UUID.hex *)
Definition uuid_hex (n : N) : str := hex32 n.
(* str(UUID) *)
Definition hyphenate (h : str) : str :=
  bsub 0 8 h ++ [45] ++ bsub 8 12 h ++ [45] ++ bsub 12 16 h ++ [45] ++ bsub 16 20 h ++ [45] ++ bskip 20 h.
Definition uuid_str (n : N) : str := hyphenate (hex32 n).

(* what UUID.__init__ does to its hex argument before int(hex, 16) *)
Definition uuid_strip (s : str) : str :=
  replace [45] [] (strip_chars (lit "{}") (replace (lit "uuid:") [] (replace (lit "urn:") [] s))).

(* uuid.UUID(v): the UUID's 128-bit integer *)
Definition uuid_UUID (lim : N) (v : pyval) : res N :=
  match v with
  | PStr s =>
      let h := uuid_strip s in
      if negb (blen h =? 32) then Exn ValueError
      else match int_parse lim 16 h with
           | None => Exn ValueError
           | Some z => if (0 <=? z)%Z && (z <? 2 ^ 128)%Z then Ok (Z.to_N z) else Exn ValueError
           end
  | PNone => Exn TypeError
  | _ => Exn AttributeError
  end.
