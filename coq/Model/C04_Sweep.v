(* Model/C04_Sweep.v — the finite family of whole-message cases checked by computation
   (C04_mask_whole_bounded).  Definitions only. *)
From Coq Require Import String.
Require Import OV.Base.Bytes OV.Base.PyInt OV.Base.Str OV.Base.Regex OV.Base.C04_Tmpl.
Require Import OV.Gen.C04_Sanitize OV.Gen.C04_Concrete OV.Model.C04 OV.Model.C04_Spec.
Open Scope N_scope.

(* one representative of every class of code points the generated sets can distinguish: every
   atom of the partition induced by the sets starts at a range boundary *)
Fixpoint re_csets (r : re) : list cset :=
  match r with
  | Chr cs | Rep cs _ _ => [cs]
  | Seq a b | Alt a b => re_csets a ++ re_csets b
  | Opt a | Group _ a => re_csets a
  | _ => []
  end.
Fixpoint dedupe (l : list N) : list N :=
  match l with [] => [] | x :: t => if existsb (N.eqb x) t then dedupe t else x :: dedupe t end.
Definition boundaries (sets : list cset) : list N :=
  filter valid_cp (dedupe (0 :: flat_map (fun cs => flat_map (fun r : N * N => [fst r; snd r + 1]) cs) sets)).
Definition template_sets : list cset := flat_map re_csets (gen_tp2 [] ++ gen_tp1 [] ++ gen_tpw []).
(* capped, so that a source edit introducing a set with hundreds of ranges cannot blow the family up *)
Definition reps_templates : list N := firstn 120 (boundaries template_sets).
Definition reps_all : list N := firstn 200 (boundaries (template_sets ++ map snd gen_ci_table)).

(* a case: pre, head, value, tail, post, mask *)
Definition case := (str * (str * (str * (str * (str * str)))))%type.
Definition case_msg (c : case) : str := let '(pre, (h, (v, (t, (post, _))))) := c in pre ++ h ++ v ++ t ++ post.
Definition case_want (c : case) : str := let '(pre, (h, (_, (t, (post, mask))))) := c in pre ++ h ++ mask ++ t ++ post.
Definition case_mask (c : case) : str := snd (snd (snd (snd (snd c)))).

Definition in_zone (m : str) : bool := zone_K12 m || zone_K14 m.

(* the property on one case: outside the known-finding zones, exactly the value is replaced and a
   second application changes nothing *)
Definition check_with (f : str -> str -> str) (z : str -> bool) (c : case) : bool :=
  z (case_msg c) ||
  (beq (f (case_msg c) (case_mask c)) (case_want c) && beq (f (case_want c) (case_mask c)) (case_want c)).
Definition check_case (c : case) : bool := check_with mask_password in_zone c.

Definition mk (pre post mask : str) (KD : str) (values : (N -> bool) -> list str) : list case :=
  flat_map (fun r : rend => map (fun v => (pre, (fst (snd r), (v, (snd (snd r), (post, mask)))))) (values (fst r)))
           (renderings KD).

Fixpoint sel_go {A} (sel : nat -> bool) (i : nat) (l : list A) : list A :=
  match l with [] => [] | x :: t => if sel i then x :: sel_go sel (S i) t else sel_go sel (S i) t end.
(* the same over the renderings whose index satisfies [sel] *)
Definition mk_sub (sel : nat -> bool) (pre post mask : str) (KD : str) (values : (N -> bool) -> list str) : list case :=
  flat_map (fun r : rend => map (fun v => (pre, (fst (snd r), (v, (snd (snd r), (post, mask)))))) (values (fst r)))
           (sel_go sel 0 (renderings KD)).
Definition mod3 (j i : nat) : bool := Nat.eqb (Nat.modulo i 3) j.

Definition fixed_values (vs : list str) (cls : N -> bool) : list str := filter (forallb cls) vs.
Definition rep_values1 (reps : list N) (cls : N -> bool) : list str := map (fun c => [c]) (filter cls reps).
Definition rep_values2 (reps : list N) (cls : N -> bool) : list str :=
  flat_map (fun c => [[c; 97]; [97; c]]) (filter cls reps).

(* A: every key x every casing x every rendering, two values *)
(* keys that contain another key (outside the universal whole-function theorems): every casing, every rendering;
   every key: a third of the renderings in lower case *)
Definition nonsolo_keys : list str :=
  filter (fun k => negb (forallb (fun k' => beq k' k || negb (occursb k' k)) spec_keys_35)) spec_keys_35.
Definition family_A : list case :=
  flat_map (fun k => flat_map (fun KD => mk (lit "run ") (lit " ok") (lit "***") KD (fixed_values [[233; 94]])) (casings k)) nonsolo_keys ++
  flat_map (fun k => mk_sub (mod3 0) (lit "run ") (lit " ok") (lit "***") k (fixed_values [[233; 94]])) spec_keys_35.
(* B: one key, every rendering, every class representative at length 1 and inside length-2 values *)
Definition rep_values2h (reps : list N) (cls : N -> bool) : list str := map (fun c => [c; 97]) (filter cls reps).
Definition family_B : list case :=
  mk [] [] (lit "?") (lit "password") (rep_values1 (firstn 24 reps_templates)) ++
  mk_sub (mod3 1) (lit "a ") (lit " z") (lit "***") (lit "auth_password") (rep_values2h (firstn 16 reps_templates)).
(* C: every key x every rendering x contexts x masks *)
Definition contexts : list ((str * str) * str) := [(([97; 10], [9; 122; 32; 49]), lit "?")].
Definition family_C : list case :=
  flat_map (fun k => flat_map (fun cm : (str * str) * str =>
     mk_sub (fun i => Nat.eqb i 7) (fst (fst cm)) (snd (fst cm)) (snd cm) k (fixed_values [lit "s3cret"])) contexts) spec_keys_35.

Definition family_quick : list case := family_A ++ family_B ++ family_C.

Fixpoint shard_go {A} (n i : nat) (j : nat) (l : list A) : list A :=
  match l with
  | [] => []
  | x :: t => if Nat.eqb j i then x :: shard_go n i (if Nat.eqb (S j) n then 0 else S j)%nat t
              else shard_go n i (if Nat.eqb (S j) n then 0 else S j)%nat t
  end.
Definition shard {A} (n i : nat) (l : list A) : list A := shard_go n i 0%nat l.

(* thorough tier (checked by coqc outside the default build, tools/props/C04.py extra_checks): every key x
   every casing x every rendering x every class representative of the template sets at length 1; five keys
   x every casing x every rendering x representatives inside values of lengths 2 and 3 *)
Definition rep_values3 (reps : list N) (cls : N -> bool) : list str :=
  flat_map (fun c => [[c; 97; c]; [97; c; 98]]) (filter cls reps).
Definition family_thorough : list case :=
  flat_map (fun k => flat_map (fun KD =>
     mk (lit "run ") (lit " ok") (lit "***") KD (fun cls => fixed_values [[97]] cls ++ rep_values1 (firstn 24 reps_templates) cls)) (casings k)) spec_keys_35 ++
  flat_map (fun k => mk (lit "a ") (lit " z") (lit "?") k (fun cls => rep_values1 reps_all cls ++ rep_values2 reps_templates cls ++ rep_values3 reps_templates cls))
     [lit "password"; lit "auth_password"; lit "token"] ++
  flat_map (fun k => flat_map (fun mask => flat_map (fun ctx : str * str =>
     mk (fst ctx) (snd ctx) mask k (fixed_values [lit "s3cret"])) [([], []); (lit "run ", lit " ok")])
     [lit "***"; lit "?"]) spec_keys_35.

(* many secrets in one message (same key, same rendering, four values): a substitution that stops
   after a fixed number of matches would leave the later ones in clear text *)
Definition multi_vals : list str := [[97]; [98; 50]; [99; 94]; [100; 233]].
Definition multi_case := (str * (str * str))%type.        (* message, expected, mask *)
Definition mk_multi (mask : str) (r : rend) : multi_case :=
  let vs := filter (forallb (fst r)) multi_vals in
  (flat_map (fun v => fst (snd r) ++ v ++ snd (snd r) ++ [32; 49; 32]) vs,
   (flat_map (fun v => fst (snd r) ++ mask ++ snd (snd r) ++ [32; 49; 32]) vs, mask)).
Definition family_multi : list multi_case :=
  flat_map (fun KD => map (mk_multi (lit "***")) (renderings KD))
           [lit "password"; lit "TOKEN"; lit "Sslkey7"; lit "auth_password"].
Definition check_multi_with (f : str -> str -> str) (z : str -> bool) (c : multi_case) : bool :=
  z (fst c) || (beq (f (fst c) (snd (snd c))) (fst (snd c)) && beq (f (fst (snd c)) (snd (snd c))) (fst (snd c))).
Definition check_multi (c : multi_case) : bool := check_multi_with mask_password in_zone c.

(* the EMPTY mask: every quoted / XML / dict / command-list rendering is judged in full (value replaced by nothing,
   idempotent); the --k form only for "exactly the value is replaced" (with an empty mask the masked --k / bare / k --flag
   forms leave the key followed by white space and the next word, which a second application reads as a new value) *)
Definition quoted_forms (i : nat) : bool := existsb (Nat.eqb i) [2; 3; 4; 6; 7; 8; 9; 10]%nat.
Definition family_empty : list case :=
  flat_map (fun KD => mk_sub quoted_forms (lit "run ") (lit " ok") [] KD (fixed_values [lit "s3cret"; [233; 94]]))
           [lit "password"; lit "Token"; lit "auth_password"].
Definition family_empty_dd : list case :=
  flat_map (fun KD => mk_sub (fun i => Nat.eqb i 5) (lit "run ") (lit " ok") [] KD (fixed_values [lit "s3cret"]))
           [lit "password"; lit "Token"; lit "sslkey"].
Definition check_first_with (f : str -> str -> str) (z : str -> bool) (c : case) : bool :=
  z (case_msg c) || beq (f (case_msg c) (case_mask c)) (case_want c).
Definition check_first (c : case) : bool := check_first_with mask_password in_zone c.
