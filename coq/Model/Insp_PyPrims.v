(* Model/Insp_PyPrims.v — the target vocabulary of the statement-level translation of the ENGINE
   methods of format_inspector.py (tools/gen/gen_insp_engine.py -> Gen/Insp_EngineCode.v).
   One definition per Python construct the engine uses on its dictionaries / sets of region objects.
   A region OBJECT is identified by its serial number r_id; a set of region objects is the list of
   their ids (in dictionary order); a set of names is a list of names.  Definitions only. *)
Require Import OV.Base.Bytes OV.Base.Py OV.Base.Insp_Struct OV.Gen.Insp_Consts OV.Model.Insp_Engine.
Open Scope N_scope.

Section Prims.
Context {X : Type}.

(* self._capture_regions.values() / .items() / iteration over the dict itself *)
Definition py_values (s : ist X) : list region := map snd (i_regs s).
Definition py_items (s : ist X) : list (rname * region) := i_regs s.
Definition py_keys (s : ist X) : list rname := map fst (i_regs s).
(* set(<region objects>) *)
Definition py_idset (l : list region) : list nat := map r_id l.
(* A - B on sets of objects / of names *)
Definition py_diff (a b : list nat) : list nat := filter (fun i => negb (mem_nat i b)) a.
Definition py_diff_names (a b : list rname) : list rname := filter (fun n => negb (mem_rname n b)) a.
(* truthiness of a set / list *)
Definition py_truthy {A} (l : list A) : bool := match l with [] => false | _ => true end.
(* `only` of _capture: None or a list of names *)
Definition py_opt_truthy {A} (o : option (list A)) : bool := match o with Some (_ :: _) => true | _ => false end.
Definition py_opt_list {A} (o : option (list A)) : list A := match o with Some l => l | None => [] end.
(* self._capture_regions[name] : KeyError when absent *)
Definition py_getitem (s : ist X) (n : rname) : res region :=
  match rget n (i_regs s) with Some r => Ok r | None => Exn KeyError end.
(* `self._capture_regions[name] is region` *)
Definition py_item_is (s : ist X) (n : rname) (obj : nat) : bool :=
  match rget n (i_regs s) with Some r => Nat.eqb (r_id r) obj | None => false end.
(* name in self._capture_regions *)
Definition py_contains (s : ist X) (n : rname) : bool := rhas n (i_regs s).
(* self._capture_regions[name] = <newly constructed region> : replaces in place or appends; the object gets
   the next serial number *)
Definition py_setitem_new (s : ist X) (n : rname) (sp : rspec) : ist X :=
  let r := region_of_spec (i_next s) sp in
  mkIst (i_pos s) (if rhas n (i_regs s) then rset n r (i_regs s) else i_regs s ++ [(n, r)]) (S (i_next s))
        (i_fin s) (i_checks s) (i_ext s).
(* del self._capture_regions[name] : KeyError when absent *)
Definition py_delitem (s : ist X) (n : rname) : ist X * option exn :=
  if rhas n (i_regs s) then (set_regs s (rdel n (i_regs s)), None) else (s, Some KeyError).
(* self._total_count = v ; self._finished = b *)
Definition py_set_total (s : ist X) (v : N) : ist X := set_pos s v.
Definition py_set_finished (s : ist X) (b : bool) : ist X :=
  mkIst (i_pos s) (i_regs s) (i_next s) b (i_checks s) (i_ext s).
(* `for name, region in items: <body mutating the region object>` : the body as a function on the object *)
Definition py_for_items (s : ist X) (body : rname -> region -> region) : ist X :=
  set_regs s (map (fun p => (fst p, body (fst p) (snd p))) (i_regs s)).
(* [f(x) for x in l] where f may raise *)
Fixpoint py_mapM {A B} (f : A -> res B) (l : list A) : res (list B) :=
  match l with
  | [] => Ok []
  | x :: t => match f x with Exn e => Exn e | Ok y => match py_mapM f t with Exn e => Exn e | Ok ys => Ok (y :: ys) end end
  end.
(* `for x in <set>: <statements that may raise>` threading self *)
Fixpoint py_for_each {A} (l : list A) (body : A -> ist X -> ist X * option exn) (s : ist X) : ist X * option exn :=
  match l with
  | [] => (s, None)
  | x :: t => match body x s with (s', Some e) => (s', Some e) | (s', None) => py_for_each t body s' end
  end.
(* `for name in self._capture_regions: if <test>: return name` *)
Definition py_find_key (s : ist X) (test : rname -> bool) : option rname := List.find test (py_keys s).
End Prims.

(* region.capture(chunk, pos) / region.complete / region.finish() with dynamic dispatch on the class *)
Definition py_region_capture (r : region) (chunk : bytes) (pos : N) : region := rcapture r chunk pos.
Definition py_region_complete (r : region) : bool := rcomplete r.
Definition py_isinstance_end (r : region) : bool := r_end r.
