(* Model/C13_Order.v — vocabulary of the order-dependent clauses of C13 (definitions only).

   Two layers of premises about the number type, both satisfied by Z and by binary64:
   [comp_facts]  what the comparisons > and <= must satisfy for "never negative", "<= maximum",
                 "expired <-> elapsed > duration" (ok = comparable, i.e. not NaN);
   [clock_facts] what subtraction must satisfy on good clock readings for the monotone-clock clauses.
   and the classical structure in which the exact-arithmetic clauses hold:
   [ordered_group] a totally ordered abelian group (carrier T, zero, add, opp, le) + the link to N. *)
From Coq Require Import List Bool.
Require Import OV.Base.C13_Types OV.Model.C13.
Import ListNotations.

Record comp_facts {T} (N : num T) (leb : T -> T -> bool) (ok : T -> Prop) : Prop := mkCompFacts {
  cf_ok_zero : ok (n_zero N);
  cf_gt_ok : forall x y, n_gtb N x y = true -> ok x /\ ok y;
  cf_le_refl : forall a, ok a -> leb a a = true;
  cf_not_gt_le : forall a b, ok a -> ok b -> n_gtb N a b = false -> leb a b = true;
  cf_gt_not_le : forall a b, n_gtb N a b = true -> leb a b = false;
  cf_gt_le : forall a b, n_gtb N a b = true -> leb b a = true;
  cf_lt_le_trans0 : forall x y, n_gtb N x (n_zero N) = true -> leb x y = true -> n_gtb N y (n_zero N) = true
}.

Record clock_facts {T} (N : num T) (leb : T -> T -> bool) (okc : T -> Prop) (sub_ok : T -> T -> Prop) : Prop := mkClockFacts {
  kf_le_refl : forall a, okc a -> leb a a = true;
  kf_le_trans : forall a b c, okc a -> okc b -> okc c -> leb a b = true -> leb b c = true -> leb a c = true;
  kf_sub_mono : forall a b s, okc a -> okc b -> okc s -> sub_ok a s -> sub_ok b s ->
                leb a b = true -> leb (n_sub N a s) (n_sub N b s) = true;
  kf_sub_nonneg : forall a b, okc a -> okc b -> sub_ok b a -> leb a b = true -> leb (n_zero N) (n_sub N b a) = true
}.

(* the first n clock readings are good, and so is every subtraction later - earlier among them *)
Definition clock_ok {T} (okc : T -> Prop) (sub_ok : T -> T -> Prop) (clk : nat -> T) (n : nat) : Prop :=
  (forall i, (i < n)%nat -> okc (clk i)) /\ (forall i j, (i <= j < n)%nat -> sub_ok (clk j) (clk i)).

(* the clock does not go backwards on its first n readings (the readings a history consumed) *)
Definition monotone_upto {T} (leb : T -> T -> bool) (clk : nat -> T) (n : nat) : Prop :=
  forall i, (S i < n)%nat -> leb (clk i) (clk (S i)) = true.
Definition monotone_uptob {T} (leb : T -> T -> bool) (clk : nat -> T) (n : nat) : bool :=
  forallb (fun i => leb (clk i) (clk (S i))) (seq 0 (n - 1)).

(* a totally ordered abelian group, and operations N that compute in it *)
Record ordered_group {T} (zero : T) (add : T -> T -> T) (opp : T -> T) (le : T -> T -> Prop) (N : num T) : Prop := mkOrderedGroup {
  og_add_assoc : forall a b c, add a (add b c) = add (add a b) c;
  og_add_comm : forall a b, add a b = add b a;
  og_add_zero : forall a, add a zero = a;
  og_add_opp : forall a, add a (opp a) = zero;
  og_le_refl : forall a, le a a;
  og_le_trans : forall a b c, le a b -> le b c -> le a c;
  og_le_antisym : forall a b, le a b -> le b a -> a = b;
  og_le_total : forall a b, le a b \/ le b a;
  og_add_le : forall a b c, le a b -> le (add a c) (add b c);
  og_zero : n_zero N = zero;
  og_sub : forall a b, n_sub N a b = add a (opp b);
  og_gtb : forall a b, n_gtb N a b = false <-> le a b;
  og_geb : forall a b, n_geb N a b = true <-> le b a
}.

(* lengths are the successive differences of the elapsed values (the first one counts from zero) *)
Fixpoint diffs_from {T} (N : num T) (prev : T) (l : list (split T)) : Prop :=
  match l with
  | [] => True
  | x :: r => sp_length x = n_sub N (sp_elapsed x) prev /\ diffs_from N (sp_elapsed x) r
  end.
