(* Model/C15.v — oslo_utils/netutils.py: get_ipv6_addr_by_EUI64, get_mac_addr_by_ipv6,
   parse_host_port, escape_ipv6, urlsplit, _ModifiedSplitResult.params.
   Definitions only.  Python ints are Z (as in the py2gal translations). *)
From Coq Require Import String.
Require Import OV.Base.Bytes OV.Base.Py OV.Base.PyInt OV.Base.Str OV.Base.C15_PyVal OV.Gen.C15_Netutils.
Open Scope Z_scope.

(* ------------------------------------------------------------------ netaddr
   (third party; the pieces of integer arithmetic oslo relies on are modelled here
   and tied by correspondence; parsing of the MAC / prefix TEXT is an oracle: the
   harness hands the parsed integers, or the class of the exception, to the model) *)

Inductive lres (A : Type) := LOk (a : A) | LExn (e : libexn).
Arguments LOk {A} a.
Arguments LExn {A} e.

(* netaddr.EUI: a 48-bit or a 64-bit identifier *)
Inductive eui := EUI48 (v : Z) | EUI64 (v : Z).

(* EUI.eui64(): 11:22:33:44:55:66 -> 11:22:33:FF:FE:44:55:66 ; a 64-bit EUI is unchanged *)
Definition eui48_to_64 (v : Z) : Z :=
  Z.lor (Z.lor (Z.shiftl (Z.shiftr v 24) 40) 0xFFFE000000) (Z.land v 0xFFFFFF).
Definition eui64_int (e : eui) : Z :=
  match e with EUI48 v => eui48_to_64 v | EUI64 v => v end.

(* netaddr.IPAddress(int): the version is detected from the magnitude *)
Definition ip_address_of_int (v : Z) : lres (Z * Z) :=
  if (0 <=? v) && (v <=? 2 ^ 32 - 1) then LOk (4, v)
  else if (2 ^ 32 - 1 <? v) && (v <=? 2 ^ 128 - 1) then LOk (6, v)
  else LExn LAddrFormatError.

(* netaddr.EUI(int) *)
Definition eui_of_int (v : Z) : lres eui :=
  if (0 <=? v) && (v <=? 2 ^ 48 - 1) then LOk (EUI48 v)
  else if (2 ^ 48 - 1 <? v) && (v <=? 2 ^ 64 - 1) then LOk (EUI64 v)
  else LExn LAddrFormatError.

(* ------------------------------------------------------------------ get_ipv6_addr_by_EUI64 *)

Definition libexn_eqb (a b : libexn) : bool :=
  match a, b with
  | LValueError, LValueError | LAddrFormatError, LAddrFormatError
  | LTypeError, LTypeError | LOtherExn, LOtherExn => true
  | _, _ => false
  end.

(* the except clauses, first match wins; an exception nobody catches propagates
   (shown as OtherError unless it already is one of the two classes) *)
Fixpoint handle_in (hs : list (list libexn * exn)) (e : libexn) : exn :=
  match hs with
  | [] => match e with LValueError => ValueError | LTypeError => TypeError | _ => OtherError end
  | (cs, r) :: t => if existsb (libexn_eqb e) cs then r else handle_in t e
  end.
Definition handle (e : libexn) : exn := handle_in gen_eui64_handlers e.

Definition guard_holds (is_str v4_loose v4_strict : bool) (g : guard) : bool :=
  match g with GuardNotStr => negb is_str | GuardIPv4Loose => v4_loose | GuardIPv4Strict => v4_strict end.
Fixpoint run_guards (is_str v4l v4s : bool) (gs : list (guard * exn)) : option exn :=
  match gs with
  | [] => None
  | (g, e) :: t => if guard_holds is_str v4l v4s g then Some e else run_guards is_str v4l v4s t
  end.

(* prefix.first + eui64 ^ (1 << 57) as CPython parses it: (first + eui64) ^ (1 << 57) *)
Definition eui64_combine (first e : Z) : Z := Z.lxor (first + e) (2 ^ 57).

(* is_str: isinstance(prefix, str); v4_loose / v4_strict: is_valid_ipv4(prefix, False / True);
   mac: netaddr.EUI(mac) ; net: netaddr.IPNetwork(prefix).first — in evaluation order.
   Result: (IP version, integer value) of the returned IPAddress. *)
Definition get_ipv6_addr_by_EUI64 (is_str v4_loose v4_strict : bool) (mac : lres eui) (net : lres Z) : res (Z * Z) :=
  match run_guards is_str v4_loose v4_strict gen_eui64_prechecks with
  | Some e => Exn e
  | None =>
    match mac with
    | LExn e => Exn (handle e)
    | LOk m =>
      match net with
      | LExn e => Exn (handle e)
      | LOk first =>
        match ip_address_of_int (gen_eui64_combine first (eui64_int m)) with
        | LExn e => Exn (handle e)
        | LOk r => Ok r
        end
      end
    end
  end.

(* ------------------------------------------------------------------ get_mac_addr_by_ipv6 *)

Definition mac_of_ipv6 (v : Z) : Z :=
  Z.lxor (Z.shiftr (Z.land v 0xFFFFFF0000000000) 16 + Z.land v 0xFFFFFF) 0x020000000000.

(* the argument is a netaddr.IPAddress of version 6 (value < 2^128) or a plain int;
   an IPAddress of version 4 cannot hold the xor-ed value: AddrFormatError escapes *)
Definition get_mac_addr_by_ipv6 (ver v : Z) : lres eui :=
  if ver =? 4 then LExn LAddrFormatError else eui_of_int (gen_mac_of_ipv6 v).

(* ------------------------------------------------------------------ parse_host_port / escape_ipv6 *)

(* s.split(c, 1) when c occurs: the text before and after the first c *)
Fixpoint cut_at (c : N) (s : str) : option (str * str) :=
  match s with
  | [] => None
  | x :: t => if (x =? c)%N then Some ([], t)
              else match cut_at c t with Some (a, b) => Some (x :: a, b) | None => None end
  end.
(* s.rsplit(c, 1) when c occurs: the text before and after the LAST c *)
Definition rcut_at (c : N) (s : str) : option (str * str) :=
  match cut_at c (rev s) with Some (a, b) => Some (rev b, rev a) | None => None end.

(* None and '' are both falsy: the model takes '' for None.
   A bracketed host is split at the last ']' (fix 03fda28). *)
Definition parse_host_port (address : str) (default_port : pyval) : res (option str * option Z) :=
  match address with
  | [] => Ok (None, None)
  | c :: rest =>
    if (c =? 91)%N then
      match rcut_at 93%N rest with
      | Some (h, p) =>
        if has_char 58%N p then
          match split_char 58%N p with
          | _ :: q :: _ => do pn <- opt_int (VStr q); Ok (Some h, pn)
          | _ => Exn IndexError
          end
        else do pn <- opt_int default_port; Ok (Some h, pn)
      | None => Exn ValueError
      end
    else if count_char 58%N address =? 1 then
      match split_char 58%N address with
      | [h; p] => do pn <- opt_int (VStr p); Ok (Some h, pn)
      | _ => Exn ValueError
      end
    else do pn <- opt_int default_port; Ok (Some address, pn)
  end.

(* escape_ipv6: [valid] is the verdict of is_valid_ipv6(address) (netaddr; oracle) *)
Definition escape_ipv6 (valid : bool) (address : str) : str :=
  if valid then [91%N] ++ address ++ [93%N] else address.

(* ------------------------------------------------------------------ urlsplit *)

(* what oslo's urlsplit does with the five components parse.urlsplit returned *)
Definition urlsplit_post (scheme netloc path query fragment : str) (allow_fragments : bool)
  : str * str * str * str * str :=
  let pf := if allow_fragments
            then match cut_at 35%N path with Some (a, b) => (a, b) | None => (path, fragment) end
            else (path, fragment) in
  let pq := match cut_at 63%N (fst pf) with Some (a, b) => (a, b) | None => (fst pf, query) end in
  (scheme, netloc, fst pq, snd pq, snd pf).

(* ------------------------------------------------------------------ params() *)

(* a dict with str keys: insertion-ordered association list *)
Fixpoint dict_get {V} (k : str) (d : list (str * V)) : option V :=
  match d with [] => None | (k', v) :: t => if beq k k' then Some v else dict_get k t end.
Fixpoint dict_set {V} (k : str) (v : V) (d : list (str * V)) : list (str * V) :=
  match d with
  | [] => [(k, v)]
  | (k', v') :: t => if beq k k' then (k', v) :: t else (k', v') :: dict_set k v t
  end.

(* dict(pairs) *)
Definition params_collapse (pairs : list (str * str)) : list (str * str) :=
  fold_left (fun d kv => dict_set (fst kv) (snd kv) d) pairs [].

(* collapse=False: a single value stays a str, repeated names become a list *)
Inductive pval := One (v : str) | Many (vs : list str).
Definition params_step (d : list (str * pval)) (kv : str * str) : list (str * pval) :=
  match dict_get (fst kv) d with
  | Some (Many l) => dict_set (fst kv) (Many (l ++ [snd kv])) d
  | Some (One x) => dict_set (fst kv) (Many [x; snd kv]) d
  | None => dict_set (fst kv) (One (snd kv)) d
  end.
Definition params_all (pairs : list (str * str)) : list (str * pval) :=
  fold_left params_step pairs [].

(* params(collapse): [pairs] = parse.parse_qsl(self.query) (stdlib; contract: a list of
   (str, str) pairs); an empty query short-cuts to {} *)
Definition params_c (query : str) (pairs : list (str * str)) : list (str * str) :=
  if bempty query then [] else params_collapse pairs.
Definition params_a (query : str) (pairs : list (str * str)) : list (str * pval) :=
  if bempty query then [] else params_all pairs.
