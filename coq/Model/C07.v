(* Model/C07.v — the specification side of C07: what a well-formed image of each format is and which
   size it declares.  Written from the format documents (field offsets, widths, byte order are the
   literal values of the formats, NOT the constants of Gen/Insp_Consts.v: the proofs have to show that
   the code reads exactly these fields).  Definitions only; every predicate is a boolean function of
   the bytes (decidable). *)
From Coq Require Import String.
Require Import OV.Base.Bytes OV.Base.Py OV.Base.Str OV.Base.Insp_Struct OV.Gen.Insp_Consts
               OV.Model.Insp_Engine OV.Model.Insp_All.
Open Scope N_scope.

(* ---------- what is observed ---------- *)
(* the inspector after the chunks [cs] (feeding stops at the first exception, as InspectWrapper does) *)
Definition feed (f : fmt_id) (cs : list bytes) : istate * option exn := eat_list (init f) cs.
(* virtual_size asked right after the last chunk (no finish): the "0 while unknown" clause *)
Definition vsize_now (f : fmt_id) (cs : list bytes) : res Z := virtual_size (fst (feed f cs)).
(* virtual_size asked after finish(): "once the whole stream has been presented" *)
Definition vsize_end (f : fmt_id) (cs : list bytes) : res Z := virtual_size (fst (run f cs)).
(* no eat_chunk raised *)
Definition quiet (f : fmt_id) (cs : list bytes) : Prop := snd (feed f cs) = None.

(* [p] is a prefix of [w] *)
Definition is_prefix (p w : bytes) : bool := prefixb p w.

(* ---------- qcow2: big-endian header, magic 'QFI\xfb', size u64 at 24 ---------- *)
Definition SPEC_QCOW2_MAGIC : bytes := lit "QFI" ++ [251].
Definition SPEC_HDR_512 : N := 512.          (* qcow2 / VHD / VDI: the inspector keeps the first sector *)
Definition wf_qcow2 (size : N) (b : bytes) : bool :=
  (SPEC_HDR_512 <=? blen b) && prefixb SPEC_QCOW2_MAGIC b && beq (bslice 24 8 b) (be_enc 8 size).

(* ---------- VHD: footer copy at 0, cookie 'conectix', original size u64 big-endian at 40 ---------- *)
Definition SPEC_VHD_COOKIE : bytes := lit "conectix".
Definition wf_vhd (size : N) (b : bytes) : bool :=
  (SPEC_HDR_512 <=? blen b) && prefixb SPEC_VHD_COOKIE b && beq (bslice 40 8 b) (be_enc 8 size).

(* ---------- VDI: little-endian, signature 0xbeda107f at 0x40, disk size u64 at 0x170 ---------- *)
Definition SPEC_VDI_SIGNATURE : N := 3201962111.   (* 0xbeda107f *)
Definition wf_vdi (size : N) (b : bytes) : bool :=
  (SPEC_HDR_512 <=? blen b) && beq (bslice 64 4 b) (le_enc 4 SPEC_VDI_SIGNATURE) && beq (bslice 368 8 b) (le_enc 8 size).

(* ---------- ISO 9660: 32 KiB system area, then the primary volume descriptor (2 KiB):
   type 1 at +0, identifier at +1 (the inspector also accepts the UDF identifiers), volume space size
   (blocks, u32 both-endian, little-endian half first) at +80, logical block size (u16 both-endian) at +128 ---------- *)
Definition SPEC_ISO_PVD : N := 32768.
Definition SPEC_ISO_END : N := 34816.
Definition SPEC_ISO_IDENTS : list bytes := [lit "CD001"; lit "NSR02"; lit "NSR03"].
Definition wf_iso (blocks bsize : N) (b : bytes) : bool :=
  (SPEC_ISO_END <=? blen b) && (bnth SPEC_ISO_PVD b =? 1) && mem_str (bslice (SPEC_ISO_PVD + 1) 5 b) SPEC_ISO_IDENTS
  && beq (bslice (SPEC_ISO_PVD + 80) 4 b) (le_enc 4 blocks) && beq (bslice (SPEC_ISO_PVD + 128) 2 b) (le_enc 2 bsize).

(* ---------- LUKS v1: big-endian phdr, magic 'LUKS\xba\xbe', payload offset (sectors, u32) at 104; the size
   needs the first 108 bytes only ---------- *)
Definition SPEC_LUKS_MAGIC : bytes := lit "LUKS" ++ [186; 190].
Definition SPEC_LUKS_NEED : N := 108.
Definition wf_luks (payload : N) (b : bytes) : bool :=
  (SPEC_LUKS_NEED <=? blen b) && prefixb SPEC_LUKS_MAGIC b && beq (bslice 104 4 b) (be_enc 4 payload).

(* ---------- VMDK hosted sparse extent: little-endian header 'KDMV', version u32 at 4 (1..3), capacity in
   sectors u64 at 12, descriptor offset (sectors) u64 at 28 (must be 1), descriptor size (sectors) u64 at 36;
   the embedded descriptor is text, NUL padded, with a line createType="monolithicSparse" (or streamOptimized;
   keys and values are case-insensitive) ---------- *)
Definition SPEC_VMDK_MAGIC : bytes := lit "KDMV".
Definition SPEC_VMDK_DESC_CAP : N := 1048575.       (* qemu: at most 1 MiB - 1 of descriptor *)
Definition SPEC_VMDK_KEY : str := lit "createtype=""".
Definition SPEC_VMDK_TYPES : list str := [lit "monolithicsparse"; lit "streamoptimized"].
(* bytes of the descriptor area the inspector looks at *)
Definition vmdk_desc_size (desc_num : N) : N := N.min (desc_num * 512) SPEC_VMDK_DESC_CAP.
(* the descriptor text: up to the first NUL *)
Fixpoint upto_nul (d : bytes) : bytes :=
  match d with [] => [] | x :: t => if x =? 0 then [] else x :: upto_nul t end.
(* the value of the first createType="..." (lower-cased), when it is closed by a quote within 63 characters *)
Definition declared_type (d : bytes) : option str :=
  let t := lower_ascii (upto_nul d) in
  match find SPEC_VMDK_KEY t with
  | None => None
  | Some i =>
    let rest := bskip (i + blen SPEC_VMDK_KEY) t in
    match find [34] rest with
    | Some j => if j <? 64 then Some (btake j rest) else None
    | None => None
    end
  end.
Definition wf_vmdk_desc (d : bytes) : bool :=
  forallb (fun c => c <? 128) (upto_nul d) &&
  match declared_type d with Some ty => mem_str ty SPEC_VMDK_TYPES | None => false end.
Definition wf_vmdk (sectors version desc_num : N) (b : bytes) : bool :=
  prefixb SPEC_VMDK_MAGIC b
  && beq (bslice 4 4 b) (le_enc 4 version) && ((version =? 1) || (version =? 2) || (version =? 3))
  && beq (bslice 12 8 b) (le_enc 8 sectors)
  && beq (bslice 28 8 b) (le_enc 8 1)
  && beq (bslice 36 8 b) (le_enc 8 desc_num) && (1 <=? desc_num)
  && (512 + vmdk_desc_size desc_num <=? blen b)
  && wf_vmdk_desc (bslice 512 (vmdk_desc_size desc_num) b).
(* the structure carrying the size: header + complete descriptor *)
Definition vmdk_known_at (desc_num : N) : N := 512 + vmdk_desc_size desc_num.

(* ---------- VHDX: little-endian.  File identifier 'vhdxfile' at 0; region table at 192 KiB: 'regi', entry
   count u32 at +8, 32-byte entries from +16 (GUID, file offset u64 at +16); the metadata region (GUID
   8B7CA206-4790-4B9A-B8FE-575F050F886E) starts with the metadata table: 'metadata', entry count u16 at +10,
   32-byte entries from +32 (item GUID, offset u32 at +16 relative to the region, length u32 at +20); the item
   2FA54224-CD1B-4876-B211-5DBED83BF4B8 is the virtual disk size, a u64 ---------- *)
Definition SPEC_VHDX_IDENT : bytes := lit "vhdxfile".
Definition SPEC_VHDX_RT : N := 196608.             (* 192 KiB *)
Definition SPEC_VHDX_RT_END : N := 262144.         (* 256 KiB *)
Definition SPEC_VHDX_REGI : bytes := lit "regi".
Definition SPEC_VHDX_META_SIG : bytes := lit "metadata".
(* GUIDs in their on-disk (mixed-endian) byte order *)
Definition SPEC_GUID_METAREGION : bytes := [6;162;124;139;144;71;154;75;184;254;87;95;5;15;136;110].
Definition SPEC_GUID_VDS : bytes := [36;66;165;47;27;205;118;72;178;17;93;190;216;59;244;184].
Definition SPEC_VHDX_MAX_ENTRIES : N := 2047.

Record vhdx_layout := mkVhdxLayout {
  vl_rt_count : N;        (* entry count stored in the region table header *)
  vl_rt_index : nat;      (* index of the metadata-region entry (the entries before it are other regions) *)
  vl_meta_off : N;        (* file offset of the metadata region *)
  vl_mt_count : N;        (* entry count stored in the metadata table header *)
  vl_mt_index : nat;      (* index of the virtual-disk-size entry *)
  vl_item_off : N         (* offset of the size item, relative to the metadata region *)
}.
(* 16-byte identifier of table entry i (entries of 32 bytes starting at [base]) *)
Definition entry_guid (base : N) (i : nat) (b : bytes) : bytes := bslice (base + 32 * N.of_nat i) 16 b.
Definition others_before (base : N) (k : nat) (g : bytes) (b : bytes) : bool :=
  forallb (fun i => negb (beq (entry_guid base i b) g)) (seq 0 k).
Definition vhdx_known_at (l : vhdx_layout) : N := vl_meta_off l + vl_item_off l + 8.
Definition wf_vhdx (size : N) (l : vhdx_layout) (b : bytes) : bool :=
  let rt := SPEC_VHDX_RT + 16 in
  let mo := vl_meta_off l in
  let mt := mo + 32 in
  prefixb SPEC_VHDX_IDENT b
  (* region table *)
  && beq (bslice SPEC_VHDX_RT 4 b) SPEC_VHDX_REGI
  && beq (bslice (SPEC_VHDX_RT + 8) 4 b) (le_enc 4 (vl_rt_count l))
  && (vl_rt_count l <=? SPEC_VHDX_MAX_ENTRIES) && (N.of_nat (vl_rt_index l) <? vl_rt_count l)
  && others_before rt (vl_rt_index l) SPEC_GUID_METAREGION b
  && beq (entry_guid rt (vl_rt_index l) b) SPEC_GUID_METAREGION
  && beq (bslice (rt + 32 * N.of_nat (vl_rt_index l) + 16) 8 b) (le_enc 8 mo)
  && (SPEC_VHDX_RT_END <=? mo) && (mo <? 18446744073709551616)   (* regions lie behind the 256 KiB header area *)
  (* metadata table *)
  && beq (bslice mo 8 b) SPEC_VHDX_META_SIG
  && beq (bslice (mo + 10) 2 b) (le_enc 2 (vl_mt_count l))
  && (vl_mt_count l <=? SPEC_VHDX_MAX_ENTRIES) && (N.of_nat (vl_mt_index l) <? vl_mt_count l)
  && others_before mt (vl_mt_index l) SPEC_GUID_VDS b
  && beq (entry_guid mt (vl_mt_index l) b) SPEC_GUID_VDS
  && beq (bslice (mt + 32 * N.of_nat (vl_mt_index l) + 16) 4 b) (le_enc 4 (vl_item_off l))
  && beq (bslice (mt + 32 * N.of_nat (vl_mt_index l) + 20) 4 b) (le_enc 4 8)
  && (32 + 32 * vl_mt_count l <=? vl_item_off l)     (* items lie behind the table *)
  && (vl_item_off l <? 4294967296)
  (* the item *)
  && beq (bslice (mo + vl_item_off l) 8 b) (le_enc 8 size)
  && (vhdx_known_at l <=? blen b).
