(* Model/C19.v — oslo_utils/strutils.py: split_path and split_by_commas.
   Definitions only.  split_path is the hand-written form of the code (the
   statement-level translation Gen/C19_SplitPath.v is proved equal to it in
   Proofs/C19_SplitPath.v).  split_by_commas is a character-level model of what
   pyparsing 3.x executes for
       stringStart + delimitedList(QuotedString('"', escChar='\\') | Word(printables, excludeChars='",')) + stringEnd
   with the grammar's arguments taken from Gen/C19_Grammar.v. *)
Require Import OV.Base.Bytes OV.Base.Py OV.Base.Str OV.Base.C19_PyList OV.Gen.C19_Grammar.

(* ------------------------------------------------------------------ split_path *)
Open Scope Z_scope.

Definition slash : N := 47%N.

(* `if not maxsegs: maxsegs = minsegs` — None and 0 both mean "same as minsegs" *)
Definition eff_max (minsegs : Z) (maxsegs : option Z) : Z :=
  match maxsegs with None => minsegs | Some m => if m =? 0 then minsegs else m end.

Definition split_path (path : str) (minsegs : Z) (maxsegs : option Z) (rwl : bool) : res (list (option str)) :=
  let M := eff_max minsegs maxsegs in
  if minsegs >? M then Exn ValueError else
  let segs := py_split1 path slash (if rwl then M else M + 1) in
  let count := llen segs in
  let bad :=
    str_truth (hd [] segs)
    || (count <? minsegs + 1)
    || (count >? (if rwl then M + 1 else M + 2))
    || str_in [] (lslice (Some 1) (Some (minsegs + 1)) segs)
    || (negb rwl && (count =? M + 2) && str_truth (nth (Z.to_nat (M + 1)) segs [])) in
  if bad then Exn ValueError
  else let keep := lslice (Some 1) (Some (M + 1)) segs in
       Ok (pad_none keep (M - llen keep)).

(* ------------------------------------------------------------------ split_by_commas *)
Open Scope N_scope.

Definition is_white (c : N) : bool := memN c white_chars.
Definition is_word (c : N) : bool := memN c word_chars.

(* str.expandtabs() — parse_string does this first (keepTabs is False): a tab
   becomes 1..8 spaces up to the next multiple of 8; \n and \r reset the column *)
Fixpoint expandtabs_from (col : N) (s : str) : str :=
  match s with
  | [] => []
  | c :: t =>
      if c =? 9 then let k := 8 - col mod 8 in repeatN 32 (N.to_nat k) ++ expandtabs_from (col + k) t
      else c :: expandtabs_from (if (c =? 10) || (c =? 13) then 0 else col + 1) t
  end.
Definition expandtabs (s : str) : str := expandtabs_from 0 s.

(* ParserElement.preParse: skip the default white characters *)
Fixpoint skip_ws (s : str) : str :=
  match s with c :: t => if is_white c then skip_ws t else s | [] => [] end.

(* QuotedString's regex after the opening quote:  (?:(?:\\.)|(?:[^"\n\r\\]))*"
   returns the raw text between the quotes and the text after the closing quote.
   `.` does not match \n; an escape character must be followed by a character. *)
Fixpoint scan_quoted (s : str) : option (str * str) :=
  match s with
  | [] => None
  | c :: t =>
      if c =? quote_char then Some ([], t)
      else if c =? esc_char then
        match t with
        | [] => None
        | d :: t' =>
            if d =? 10 then None
            else match scan_quoted t' with Some (raw, r) => Some (c :: d :: raw, r) | None => None end
        end
      else if (c =? 10) || (c =? 13) then None
      else match scan_quoted t with Some (raw, r) => Some (c :: raw, r) | None => None end
  end.

(* Un-escaping (unquote_results with convert_whitespace_escapes): the text is scanned
   left to right with
      (\\t|\\n|\\f|\\r) | (\\[0-7]3|\\0|\\x[0-9a-fA-F]2|\\u[0-9a-fA-F]4) | (<esc>.) | (\n|.)
   (the `{3}`, `{2}`, `{4}` of the pyparsing source are swallowed by its f-string, so the
   numeric forms really are "digit then a literal 3", "hex digit then a literal 2/4").
   [unesc_at c t] = (characters produced at c, how many characters of t are consumed too). *)
Definition is_oct (c : N) : bool := (48 <=? c) && (c <=? 55).
Definition is_hex (c : N) : bool :=
  ((48 <=? c) && (c <=? 57)) || ((65 <=? c) && (c <=? 70)) || ((97 <=? c) && (c <=? 102)).
Definition hex_val (c : N) : N := if c <=? 57 then c - 48 else if c <=? 70 then c - 55 else c - 87.
Definition starts_with1 (c : N) (s : str) : bool := match s with x :: _ => x =? c | [] => false end.

Definition group3 (c : N) (t : str) : list N * nat :=
  if c =? esc_char then
    match t with
    | d :: _ => if d =? 10 then ([c], 0%nat) else ([d], 1%nat)
    | [] => ([c], 0%nat)
    end
  else ([c], 0%nat).

Definition unesc_at (c : N) (t : str) : list N * nat :=
  if c =? 92 then
    match t with
    | d :: t1 =>
        if d =? 116 then ([9], 1%nat) else if d =? 110 then ([10], 1%nat)
        else if d =? 102 then ([12], 1%nat) else if d =? 114 then ([13], 1%nat)
        else if is_oct d && starts_with1 51 t1 then ([d; 51], 2%nat)
        else if d =? 48 then ([0], 1%nat)
        else match t1 with
             | e :: t2 =>
                 if (d =? 120) && is_hex e && starts_with1 50 t2 then ([16 * hex_val e + 2], 3%nat)
                 else if (d =? 117) && is_hex e && starts_with1 52 t2 then ([16 * hex_val e + 4], 3%nat)
                 else group3 c t
             | [] => group3 c t
             end
    | [] => group3 c t
    end
  else group3 c t.

Fixpoint unescape_go (r : str) (skip : nat) : str :=
  match r with
  | [] => []
  | c :: t =>
      match skip with
      | S k => unescape_go t k
      | O => let (out, k) := unesc_at c t in out ++ unescape_go t k
      end
  end.
Definition unescape (r : str) : str := unescape_go r 0.

(* QuotedString.parseImpl at a position (whitespace already skipped) *)
Definition parse_quoted (s : str) : option (str * str) :=
  match s with
  | c :: t =>
      if c =? quote_char then
        match scan_quoted t with Some (raw, r) => Some (unescape raw, r) | None => None end
      else None
  | [] => None
  end.

(* Word(printables, excludeChars=...): the longest non-empty run of word characters *)
Fixpoint take_word (s : str) : str * str :=
  match s with
  | c :: t => if is_word c then let (w, r) := take_word t in (c :: w, r) else ([], s)
  | [] => ([], [])
  end.
Definition parse_word (s : str) : option (str * str) :=
  match take_word s with ([], _) => None | (w, r) => Some (w, r) end.

(* MatchFirst([QuotedString, Word]) — skips whitespace, first alternative that matches *)
Definition parse_item (s : str) : option (str * str) :=
  let s' := skip_ws s in
  match parse_quoted s' with Some r => Some r | None => parse_word s' end.

(* ZeroOrMore(Suppress(",") + word): stops (without consuming the delimiter) at the
   first position where "delimiter then item" does not match.  [None] = out of fuel. *)
Fixpoint parse_more (fuel : nat) (s : str) : option (list str * str) :=
  match fuel with
  | O => None
  | S f =>
      match skip_ws s with
      | c :: t =>
          if c =? delim_char then
            match parse_item t with
            | Some (it, r) =>
                match parse_more f r with Some (l, r') => Some (it :: l, r') | None => None end
            | None => Some ([], s)
            end
          else Some ([], s)
      | [] => Some ([], s)
      end
  end.

(* grammar.parseString on the tab-expanded text: ParseException -> ValueError;
   stringStart always matches after the leading whitespace; stringEnd = only whitespace
   is left.  OtherError = the fuel ran out (Proofs/C19_Commas.v: it never does). *)
Definition parse_string (s : str) : res (list str) :=
  match parse_item s with
  | None => Exn ValueError
  | Some (it, r) =>
      match parse_more (S (length r)) r with
      | None => Exn OtherError
      | Some (l, r') => match skip_ws r' with [] => Ok (it :: l) | _ :: _ => Exn ValueError end
      end
  end.
Definition split_by_commas (v : str) : res (list str) := parse_string (expandtabs v).

(* The writer's side of the convention split_by_commas inverts: an item containing a
   comma, a double quote, a backslash or a space is written between double quotes with
   every double quote and backslash preceded by a backslash; items are joined by commas. *)
Definition needs_quoting (it : str) : bool :=
  existsb (fun c => (c =? 44) || (c =? 34) || (c =? 92) || (c =? 32)) it.
Definition escape1 (c : N) : str := if (c =? 34) || (c =? 92) then [92; c] else [c].
Definition quote (it : str) : str :=
  if needs_quoting it then [34] ++ flat_map escape1 it ++ [34] else it.
Definition join_items (items : list str) : str := join [44] (map quote items).
