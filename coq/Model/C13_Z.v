(* Model/C13_Z.v — the exact-arithmetic instance of the StopWatch model: T := Z (the totally ordered
   abelian group the extraction and the dyadic-clock correspondence use).  Definitions only. *)
From Coq Require Import ZArith List.
Require Import OV.Base.Py OV.Base.C13_Types OV.Model.C13.
Import ListNotations.
Open Scope Z_scope.

Definition Znum : num Z := mkNum Z 0 Z.sub Z.gtb Z.geb.

(* the literal reading of "elapsed never exceeds a requested maximum", for EVERY maximum — false for a
   negative maximum, where it contradicts "elapsed is never negative" (Proofs/C13_Z.v: elapsed_max_literal_refuted);
   the theorems carry the zone hypothesis 0 <= maximum instead *)
Definition C13_elapsed_max_full_statement : Prop :=
  forall clk w t m c e, elapsed Znum clk w t (Some m) = (c, Ok e) -> e <= m.

(* lengths are the successive differences, in Z notation *)
Fixpoint Zdiffs_from (prev : Z) (l : list (split Z)) : Prop :=
  match l with
  | [] => True
  | x :: r => sp_length x = sp_elapsed x - prev /\ Zdiffs_from (sp_elapsed x) r
  end.
