(* Model/C12_Prim.v — the part of CPython's [datetime] the time helpers use, plus the
   "world" the helpers run in (override slot of utcnow, OS clock, iso8601 and zoneinfo
   as looked-up oracles) and the state+exception monad the model and the translated
   code are written in.  Definitions only.

   A datetime is its wall-clock reading in microseconds since 0001-01-01T00:00:00
   ([wall]) and, when aware, the UTC offset of THIS reading in microseconds and what
   tzinfo.tzname(None) answers.  A timedelta is a number of microseconds. *)
From Coq Require Import String.
From Coq Require Import SpecFloat.
Require Import OV.Base.Bytes OV.Base.Py OV.Base.PyFloat.
Require Import OV.Model.C12_Calendar.
Open Scope Z_scope.

Definition US_PER_SEC : Z := 1000000.
Definition US_PER_DAY : Z := 86400 * US_PER_SEC.
Definition MINYEAR : Z := 1.
Definition MAXYEAR : Z := 9999.
(* datetime.max = 9999-12-31T23:59:59.999999 *)
Definition MAX_US : Z := days_before_year (MAXYEAR + 1) * US_PER_DAY - 1.
Definition in_range (u : Z) : bool := (0 <=? u) && (u <=? MAX_US).

(* ---------------------------------------------------------------- fields *)
Record fields := mkF { f_year : Z; f_month : Z; f_day : Z; f_hour : Z; f_minute : Z; f_second : Z; f_us : Z }.

Definition valid_fields (f : fields) : bool :=
  valid_ymd (f_year f) (f_month f) (f_day f) && (f_year f <=? MAXYEAR) &&
  (0 <=? f_hour f) && (f_hour f <=? 23) && (0 <=? f_minute f) && (f_minute f <=? 59) &&
  (0 <=? f_second f) && (f_second f <=? 59) && (0 <=? f_us f) && (f_us f <=? 999999).

Definition us_of_fields (f : fields) : Z :=
  (((days_of_ymd (f_year f) (f_month f) (f_day f) * 24 + f_hour f) * 60 + f_minute f) * 60 + f_second f) * US_PER_SEC + f_us f.

Definition fields_of_us (u : Z) : fields :=
  let days := u / US_PER_DAY in
  let r := u mod US_PER_DAY in
  let '(y, m, d) := ymd_of_days days in
  let secs := r / US_PER_SEC in
  mkF y m d (secs / 3600) ((secs / 60) mod 60) (secs mod 60) (r mod US_PER_SEC).

(* ---------------------------------------------------------------- datetimes *)
Record tzinfo := mkTz { tz_off : Z; tz_name : option str }.
Record dt := mkDt { wall : Z; tz : option tzinfo }.
Definition naive (u : Z) : dt := mkDt u None.
Definition utc_name : str := lit "UTC".
Definition utc_tz : tzinfo := mkTz 0 (Some utc_name).

(* the UTC instant an aware datetime denotes; a naive one is read as UTC *)
Definition instant (d : dt) : Z := match tz d with None => wall d | Some z => wall d - tz_off z end.

(* datetime.datetime(year=…, …, microsecond=…) *)
Definition mk_datetime (f : fields) : res dt :=
  if valid_fields f then Ok (naive (us_of_fields f)) else Exn ValueError.

Definition dt_fields (d : dt) : fields := fields_of_us (wall d).
Definition dt_year (d : dt) := f_year (dt_fields d).
Definition dt_month (d : dt) := f_month (dt_fields d).
Definition dt_day (d : dt) := f_day (dt_fields d).
Definition dt_hour (d : dt) := f_hour (dt_fields d).
Definition dt_minute (d : dt) := f_minute (dt_fields d).
Definition dt_second (d : dt) := f_second (dt_fields d).
Definition dt_microsecond (d : dt) := f_us (dt_fields d).

Definition dt_utcoffset (d : dt) : option Z := match tz d with None => None | Some z => Some (tz_off z) end.
Definition dt_has_tzinfo (d : dt) : bool := match tz d with None => false | Some _ => true end.
(* now.tzinfo.tzname(None); only evaluated under [if now.tzinfo:] *)
Definition dt_tzname_none (d : dt) : option str := match tz d with None => None | Some z => tz_name z end.
Definition dt_replace_tz_none (d : dt) : dt := mkDt (wall d) None.

(* datetime + timedelta: wall-clock arithmetic, tzinfo kept, OverflowError outside MINYEAR..MAXYEAR *)
Definition dt_add_td (d : dt) (delta : Z) : res dt :=
  if in_range (wall d + delta) then Ok (mkDt (wall d + delta) (tz d)) else Exn OverflowError.
Definition dt_sub_td (d : dt) (delta : Z) : res dt := dt_add_td d (- delta).

(* datetime - datetime: both naive or both aware, else TypeError *)
Definition dt_sub (a b : dt) : res Z :=
  match tz a, tz b with
  | None, None => Ok (wall a - wall b)
  | Some _, Some _ => Ok (instant a - instant b)
  | _, _ => Exn TypeError
  end.
(* ordering comparisons: timedelta with timedelta (total), datetime with datetime (both
   naive or both aware, else TypeError) *)
Inductive cmpop := CLt | CLe | CGt | CGe.
Definition z_cmp (o : cmpop) (a b : Z) : bool :=
  match o with CLt => a <? b | CLe => a <=? b | CGt => a >? b | CGe => a >=? b end.
Definition dt_cmp (o : cmpop) (a b : dt) : res bool :=
  match tz a, tz b with
  | None, None => Ok (z_cmp o (wall a) (wall b))
  | Some _, Some _ => Ok (z_cmp o (instant a) (instant b))
  | _, _ => Exn TypeError
  end.
Definition dt_le (a b : dt) : res bool := dt_cmp CLe a b.

(* ---------------------------------------------------------------- timedelta(seconds=x) for a Python int or float x *)
(* CPython (Modules/_datetimemodule.c accum / Lib/_pydatetime.py timedelta.__new__, same result): an int is exact; a float is
   split by modf into integer part and fraction (both exact), the fraction is multiplied by 1e6 IN BINARY64 (one rounding),
   and that product is rounded to the nearest integer, ties to even; infinities raise OverflowError and NaN ValueError when
   the integer part is converted.  The normalised result must have |days| <= 999999999 (OverflowError). *)
Inductive pynum := PInt (z : Z) | PFloat (f : float64).

Definition f_1e6 : float64 := f_normalize 1000000 0.
(* nearest integer, ties to even, of a finite float's magnitude *)
Definition rhe_abs (p : float64) : Z :=
  match p with S754_finite _ m e => round_half_even (Zpos m) e | _ => 0 end.
(* |x| = ip + fm * 2^e with ip integer and 0 <= fm * 2^e < 1 *)
Definition modf_abs (m : positive) (e : Z) : Z * Z :=
  if 0 <=? e then (Zpos m * f_pow2 e, 0) else (Zpos m / f_pow2 (- e), Zpos m mod f_pow2 (- e)).
Definition float_us (f : float64) : res Z :=
  match f with
  | S754_nan => Exn ValueError
  | S754_infinity _ => Exn OverflowError
  | S754_zero _ => Ok 0
  | S754_finite s m e =>
      let '(ip, fm) := modf_abs m e in
      let usdouble := f_mul (f_normalize fm e) f_1e6 in
      let us := ip * 1000000 + rhe_abs usdouble in
      Ok (if s then - us else us)
  end.
Definition secs_us_raw (x : pynum) : res Z := match x with PInt z => Ok (z * US_PER_SEC) | PFloat f => float_us f end.

Definition TD_MIN_US : Z := -999999999 * US_PER_DAY.
Definition TD_MAX_US : Z := 1000000000 * US_PER_DAY - 1.
Definition td_check (us : Z) : res Z := if (TD_MIN_US <=? us) && (us <=? TD_MAX_US) then Ok us else Exn OverflowError.
(* timedelta(seconds=x) and timedelta(days, x), in microseconds *)
Definition td_of_seconds (x : pynum) : res Z := match secs_us_raw x with Ok u => td_check u | Exn e => Exn e end.
Definition td_of_days_seconds (days : Z) (x : pynum) : res Z :=
  match secs_us_raw x with Ok u => td_check (days * US_PER_DAY + u) | Exn e => Exn e end.
Definition td_gt (a b : Z) : bool := z_cmp CGt a b.

(* calendar.timegm(now.timetuple()): whole seconds since 1970-01-01 of the wall reading *)
Definition EPOCH_S : Z := days_of_ymd 1970 1 1 * 86400.
Definition timegm_of (d : dt) : Z := wall d / US_PER_SEC - EPOCH_S.

(* ---------------------------------------------------------------- numbers that end up as Python floats *)
(* utcnow_ts and delta_seconds return an int or a float computed by a fixed expression;
   the model returns the expression (evaluated with CPython floats by the harness) and
   the theorems speak about its exact rational value *)
Inductive fexp := FInt (z : Z) | FTime | FTrunc (a : fexp) | FDiv (a b : fexp) | FAdd (a b : fexp).

(* exact value as a fraction (numerator, denominator); None for the OS clock / division by 0 *)
Fixpoint fval (e : fexp) : option (Z * Z) :=
  match e with
  | FInt z => Some (z, 1)
  | FTime => None
  | FTrunc a => match fval a with Some (n, d) => if d =? 0 then None else Some (Z.quot n d, 1) | None => None end
  | FDiv a b => match fval a, fval b with
                | Some (n1, d1), Some (n2, d2) => if n2 =? 0 then None else Some (n1 * d2, d1 * n2)
                | _, _ => None end
  | FAdd a b => match fval a, fval b with
                | Some (n1, d1), Some (n2, d2) => Some (n1 * d2 + n2 * d1, d1 * d2)
                | _, _ => None end
  end.

(* timedelta.total_seconds() *)
Definition td_total_seconds (us : Z) : fexp := FDiv (FInt us) (FInt US_PER_SEC).

(* ---------------------------------------------------------------- marshalled form *)
(* the dict built by marshall_now: seven integer entries and an optional 'tzname' entry
   (absent | present with value None | present with a string) *)
Record mrec := mkM { m_day : Z; m_month : Z; m_year : Z; m_hour : Z; m_minute : Z; m_second : Z;
                     m_microsecond : Z; m_tzname : option (option str) }.
Definition mrec_set_tzname (r : mrec) (v : option str) : mrec :=
  mkM (m_day r) (m_month r) (m_year r) (m_hour r) (m_minute r) (m_second r) (m_microsecond r) (Some v).
(* tyme.get('tzname') *)
Definition mrec_get_tzname (r : mrec) : option str := match m_tzname r with Some v => v | None => None end.

Definition optstr_eq_str (a : option str) (s : str) : bool := match a with Some x => beq x s | None => false end.
(* truthiness of a str-or-None value: Some s iff it is a non-empty string *)
Definition optstr_truthy (a : option str) : option str :=
  match a with Some (c :: t) => Some (c :: t) | _ => None end.

(* ---------------------------------------------------------------- the world *)
Inductive override := NoOv | One (t : dt) | Many (l : list dt).

(* a tzinfo object from the zoneinfo database: its offset at a wall reading, tzname(None) *)
Record zone := mkZone { z_utcoffset : Z -> Z; z_tzname_none : option str }.
Definition dt_replace_zone (d : dt) (z : zone) : dt := mkDt (wall d) (Some (mkTz (z_utcoffset z (wall d)) (z_tzname_none z))).

Record world := mkW {
  ov : override;                  (* utcnow.override_time *)
  real : Z;                       (* what the OS clock reads (UTC wall microseconds) *)
  lib_parse : str -> res dt;      (* iso8601.parse_date *)
  lib_zone : str -> res zone      (* zoneinfo.ZoneInfo *)
}.
Definition ov_is_none (o : override) : bool := match o with NoOv => true | _ => false end.
Definition set_ov (w : world) (o : override) : world := mkW o (real w) (lib_parse w) (lib_zone w).

(* what callers hand over as "a time": a datetime or a string *)
Inductive targ := TDt (d : dt) | TStr (s : str).
(* using a str where a datetime is expected fails at the first attribute access *)
Definition as_dt (t : targ) : res dt := match t with TDt d => Ok d | TStr _ => Exn AttributeError end.

(* state + exception monad *)
Definition M (A : Type) := world -> res A * world.
Definition ret {A} (a : A) : M A := fun w => (Ok a, w).
Definition raise {A} (e : exn) : M A := fun w => (Exn e, w).
Definition lift {A} (r : res A) : M A := fun w => (r, w).
Definition bindM {A B} (m : M A) (f : A -> M B) : M B :=
  fun w => match m w with (Ok a, w') => f a w' | (Exn e, w') => (Exn e, w') end.
Definition get_ov : M override := fun w => (Ok (ov w), w).
Definition put_ov (o : override) : M unit := fun w => (Ok tt, set_ov w o).
Definition real_now (aware : bool) : M dt :=
  fun w => (Ok (if aware then mkDt (real w) (Some utc_tz) else naive (real w)), w).
Definition call_parse (s : str) : M dt := fun w => (lib_parse w s, w).
Definition call_zone (s : str) : M zone := fun w => (lib_zone w s, w).
