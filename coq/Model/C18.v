(* Model/C18.v — oslo_utils/specs_matcher.py: the pyparsing grammar of make_grammar()
   as a character-level recursive-descent parser, op_methods, _all_in, _range_in, match.

   Every literal, list order, character class, index and comparison below comes
   from Gen/C18_SpecsMatcher.v (regenerated from the source text on every run).

   pyparsing (3.x) evaluation that is mirrored here:
   * every Literal / Regex element first skips the characters of
     ParserElement.DEFAULT_WHITE_CHARS (" \n\t\r") and then matches at that place;
   * MatchFirst (|) tries its alternatives in order and keeps the first success;
     there is no backtracking into an alternative that already succeeded;
   * And (+) runs its elements in sequence;
   * NotAny (~) does not skip whitespace itself and does not consume; the
     expression under it does skip (so the look-ahead is evaluated where the
     atom's Regex will start);
   * OneOrMore = one mandatory match, then repeat until the first failure;
   * a parse action replaces the tokens of its element;
   * parseString WITHOUT parseAll: text after the match is ignored; a failure
     is ParseException (None here).
   parseString first replaces tabs by spaces (str.expandtabs); this is modelled
   (expandtabs, parse_string) and proved unobservable on the token list.

   Strings are lists of code points.  DOMAIN: cmp_value and spec are str. *)
From Coq Require Import String.
Require Import OV.Base.Bytes OV.Base.Py OV.Base.PyInt OV.Base.Str OV.Base.Regex OV.Base.PyFloat.
Require Import OV.Gen.C18_SpecsMatcher.
Open Scope N_scope.

(* ---------- elements ---------- *)

Definition is_pp_ws (c : N) : bool := memN c pp_white.

(* ParserElement.preParse *)
Fixpoint skip_ws (s : str) : str :=
  match s with
  | c :: t => if is_pp_ws c then skip_ws t else s
  | [] => []
  end.

(* instring.startswith(lit, loc): the rest after the literal *)
Fixpoint drop_prefix (p s : str) : option str :=
  match p with
  | [] => Some s
  | x :: p' => match s with
               | y :: s' => if x =? y then drop_prefix p' s' else None
               | [] => None
               end
  end.

(* pyparsing.Literal(l) *)
Definition p_lit (l s : str) : option str := drop_prefix l (skip_ws s).

(* MatchFirst over Literals, in list order *)
Fixpoint first_lit (ls : list str) (s : str) : option (str * str) :=
  match ls with
  | [] => None
  | l :: t => match p_lit l s with
              | Some r => Some (l, r)
              | None => first_lit t s
              end
  end.

(* the result of an element: tokens and the unparsed rest *)
Definition tokres := option (list str * str).

(* pyparsing.Regex(...) with the generated regex, through the shared engine *)
Definition p_regex (s : str) : tokres :=
  let s' := skip_ws s in
  match re_match atom_re s' with
  | Some (n, _) => Some ([btake n s'], bskip n s')
  | None => None
  end.

(* atom = ~(operator literals) + Regex *)
Definition p_atom (s : str) : tokres :=
  match first_lit atom_stop_lits s with
  | Some _ => None
  | None => p_regex s
  end.

(* ---------- combinators ---------- *)

Definition then_ (p q : str -> tokres) (s : str) : tokres :=
  match p s with
  | None => None
  | Some (t1, r) => match q r with
                    | None => None
                    | Some (t2, r') => Some (t1 ++ t2, r')
                    end
  end.

Definition p_lit_tok (l : str) (s : str) : tokres :=
  match p_lit l s with Some r => Some ([l], r) | None => None end.

Definition p_first (ls : list str) (s : str) : tokres :=
  match first_lit ls s with Some (l, r) => Some ([l], r) | None => None end.

Fixpoint p_times (n : nat) (p : str -> tokres) (s : str) : tokres :=
  match n with
  | O => Some ([], s)
  | S k => then_ p (p_times k p) s
  end.

(* the loop of OneOrMore after the mandatory first match.  [fuel] bounds the
   number of iterations; every element repeated here consumes at least one
   character, so the length of the text (+1) is never reached
   (Proofs/C18.v: many_fuel_enough). *)
Fixpoint many (fuel : nat) (p : str -> tokres) (s : str) : list str * str :=
  match fuel with
  | O => ([], s)
  | S f => match p s with
           | None => ([], s)
           | Some (t, r) => let '(t', r') := many f p r in (t ++ t', r')
           end
  end.

Definition one_or_more (p : str -> tokres) (s : str) : tokres :=
  match p s with
  | None => None
  | Some (t, r) => let '(t', r') := many (S (length r)) p r in Some (t ++ t', r')
  end.

(* ---------- the grammar ---------- *)

Definition p_unary : str -> tokres := then_ (p_first unary_lits) p_atom.
Definition p_range : str -> tokres := then_ (p_lit_tok range_in_lit) (p_times range_arity p_atom).
Definition p_nary : str -> tokres := then_ (p_lit_tok all_in_lit) (one_or_more p_atom).
Definition p_or_item : str -> tokres := then_ (p_lit_tok or_lit) p_atom.

(* t[start::step] *)
Fixpoint every_nth (k step : nat) (l : list str) : list str :=
  match l with
  | [] => []
  | x :: t => match k with
              | O => x :: every_nth (pred step) step t
              | S k' => every_nth k' step t
              end
  end.
(* lambda _s, _l, t: [HEAD] + t[START::STEP] *)
Definition disj_action (t : list str) : list str := disj_head :: every_nth disj_start disj_step t.

Definition p_disj (s : str) : tokres :=
  match one_or_more p_or_item s with
  | Some (t, r) => Some (disj_action t, r)
  | None => None
  end.

Definition parse_alt (a : alt) : str -> tokres :=
  match a with
  | ADisj => p_disj
  | ANary => p_nary
  | ARange => p_range
  | AUnary => p_unary
  | AAtom => p_atom
  end.

Fixpoint first_alt (alts : list alt) (s : str) : tokres :=
  match alts with
  | [] => None
  | a :: t => match parse_alt a s with
              | Some x => Some x
              | None => first_alt t s
              end
  end.

(* expr._parse(instring, 0) and the token list of the result; None = ParseException *)
Definition parse (spec : str) : option (list str) := option_map fst (first_alt expr_alts spec).

(* str.expandtabs() (tab size 8; '\n' and '\r' start a new line), which parseString
   applies to the text first *)
Fixpoint expandtabs_go (col : nat) (s : str) : str :=
  match s with
  | [] => []
  | c :: t =>
      if c =? 9 then
        let k := (8 - Nat.modulo col 8)%nat in repeatN 32 k ++ expandtabs_go (col + k) t
      else if (c =? 10) || (c =? 13) then c :: expandtabs_go 0 t
      else c :: expandtabs_go (S col) t
  end.
Definition expandtabs (s : str) : str := expandtabs_go 0 s.

(* make_grammar().parseString(spec).asList().  Proofs/C18.v (parse_string_eq) shows
   that the tab expansion never changes the token list: parse_string = parse. *)
Definition parse_string (spec : str) : option (list str) := parse (expandtabs spec).

(* ---------- op_methods ---------- *)

(* what ast.literal_eval can return, as far as the operators look at it *)
Inductive pyval :=
| PInt (z : Z) | PFloat (f : float64) | PStr (s : str) | PList (l : list pyval)
| POther.   (* None, tuple, dict, set, complex: float() raises TypeError, not a list, not a str *)

(* a result of match: a bool, or an exception identified by its class name *)
Inductive outcome := Val (b : bool) | Raise (cls : str).
Inductive levres := LVal (v : pyval) | LRaise (cls : str).

Definition E_Value : str := lit "ValueError".
Definition E_Type : str := lit "TypeError".
Definition E_Overflow : str := lit "OverflowError".
Definition E_Key : str := lit "KeyError".
Definition E_Index : str := lit "IndexError".

(* Python float comparisons (NaN unordered, -0.0 == 0.0) *)
Definition fcmp (c : cmp) (x y : float64) : bool :=
  match c with
  | CLt => f_ltb x y | CLe => f_leb x y | CEq => f_eqb x y
  | CNe => f_neb x y | CGe => f_geb x y | CGt => f_gtb x y
  end.

(* Python str comparison: lexicographic on code points *)
Fixpoint str_cmp (a b : str) : comparison :=
  match a, b with
  | [], [] => Eq
  | [], _ :: _ => Lt
  | _ :: _, [] => Gt
  | x :: a', y :: b' => match x ?= y with Eq => str_cmp a' b' | c => c end
  end.
Definition cmp_holds (c : cmp) (r : comparison) : bool :=
  match c, r with
  | CLt, Lt => true | CLe, (Lt | Eq) => true | CEq, Eq => true
  | CNe, (Lt | Gt) => true | CGe, (Gt | Eq) => true | CGt, Gt => true
  | _, _ => false
  end.
Definition scmp (c : cmp) (a b : str) : bool := cmp_holds c (str_cmp a b).

Fixpoint lookup {A} (k : str) (l : list (str * A)) : option A :=
  match l with
  | [] => None
  | (k', v) :: t => if beq k k' then Some v else lookup k t
  end.

(* lambda x, y: float(x) OP float(y)   on two str *)
Definition num_op (c : cmp) (x y : str) : outcome :=
  match py_float_of_str x with
  | None => Raise E_Value
  | Some fx => match py_float_of_str y with
               | None => Raise E_Value
               | Some fy => Val (fcmp c fx fy)
               end
  end.

(* float(v) for a literal_eval result *)
Definition float_of_pyval (v : pyval) : float64 + str :=
  match v with
  | PInt z => match float_of_Z z with Some f => inl f | None => inr E_Overflow end
  | PFloat f => inl f
  | PStr s => match py_float_of_str s with Some f => inl f | None => inr E_Value end
  | PList _ | POther => inr E_Type
  end.

(* val in x   for a str val and a list x of literal_eval results *)
Definition pyval_is_str (a : str) (v : pyval) : bool :=
  match v with PStr s => beq s a | _ => false end.

Section WithLiteralEval.
(* ast.literal_eval on the VALUE: an arbitrary function here; every theorem holds
   for all of them.  Model/C18_LitEval.v gives the executable one used by the
   correspondence for number / string / flat list literals. *)
Variable lev : str -> levres.

Definition all_in (x : str) (ys : list str) : outcome :=
  match lev x with
  | LRaise e => Raise e
  | LVal (PList xs) => Val (forallb (fun a => existsb (pyval_is_str a) xs) ys)
  | LVal _ => Raise E_Type
  end.

Definition range_in (x : str) (ys : list str) : outcome :=
  match lev x with
  | LRaise e => Raise e
  | LVal pv =>
    if negb (Nat.eqb (length ys) range_nargs) then Raise E_Type else
    match float_of_pyval pv with
    | inr e => Raise e
    | inl fx =>
      match py_float_of_str (nth range_iy ys []) with
      | None => Raise E_Value
      | Some fy =>
        match py_float_of_str (nth range_iz ys []) with
        | None => Raise E_Value
        | Some fz =>
          if fcmp range_guard fy fz then Raise E_Type else
          match lookup (nth range_il ys []) range_lower with
          | None => Raise E_Type
          | Some cl =>
            match lookup (nth range_iu ys []) range_upper with
            | None => Raise E_Type
            | Some cu => Val (fcmp cl fx fy && fcmp cu fx fz)
            end
          end
        end
      end
    end
  end.

(* compare_func(cmp_value, *args): a call with the wrong number of arguments is a TypeError *)
Definition apply_meth (m : meth) (x : str) (args : list str) : outcome :=
  match m with
  | MNum c => match args with [y] => num_op c x y | _ => Raise E_Type end
  | MStr c => match args with [y] => Val (scmp c x y) | _ => Raise E_Type end
  | MIn => match args with [y] => Val (occursb y x) | _ => Raise E_Type end
  | MOr => Val (existsb (fun a => beq x a) args)
  | MAllIn => all_in x args
  | MRangeIn => range_in x args
  end.

(* match(cmp_value, spec) *)
Definition tree_of (spec : str) : list str :=
  match parse_string spec with Some t => t | None => [spec] end.

Definition match_ (v spec : str) : outcome :=
  match tree_of spec with
  | [] => Raise E_Index
  | [t] => Val (beq t v)
  | op :: args => match lookup op op_methods with
                  | None => Raise E_Key
                  | Some m => apply_meth m v args
                  end
  end.
End WithLiteralEval.

(* ---------- predicates used as (decidable) hypotheses of the theorems ---------- *)

Definition all_lits : list str := unary_lits ++ [all_in_lit; or_lit; range_in_lit].

(* whitespace that pyparsing skips *)
Definition all_ws (w : str) : bool := forallb is_pp_ws w.
(* a word the Regex accepts as one token: non-empty, all characters in the class *)
Definition word_ok (a : str) : bool := negb (is_nil a) && forallb (fun c => cmem c atom_cs) a.
(* does not start with an operator *)
Definition no_op_prefix (a : str) : bool := forallb (fun l => negb (prefixb l a)) all_lits.
Definition atom_ok (a : str) : bool := word_ok a && no_op_prefix a.
(* the text after a word ends it: nothing, or a character outside the class *)
Definition stops (rest : str) : bool :=
  match rest with [] => true | c :: _ => negb (cmem c atom_cs) end.
(* operator [op] directly followed (after the skipped whitespace [w]) by the word [a]:
   either some whitespace separates them, or gluing them does not create a longer operator *)
Definition clean_join (op w a : str) : bool :=
  negb (is_nil w) || forallb (fun l => implb (prefixb l (op ++ a)) (prefixb l op)) all_lits.

(* further words of an n-ary operator: each is preceded by non-empty whitespace *)
Definition seg (wa : str * str) : str := fst wa ++ snd wa.
Definition item_ok (wa : str * str) : bool :=
  negb (is_nil (fst wa)) && all_ws (fst wa) && atom_ok (snd wa).
(* further alternatives of a disjunction: whitespace, the <or> literal, optional whitespace, a word *)
Definition oseg (x : str * str * str) : str := fst (fst x) ++ or_lit ++ snd (fst x) ++ snd x.
Definition oitem_ok (x : str * str * str) : bool :=
  negb (is_nil (fst (fst x))) && all_ws (fst (fst x)) && all_ws (snd (fst x)) && atom_ok (snd x).
(* what may follow the last word of <all-in> (resp. the last alternative of <or>): the end of
   the text, or something that is not one more atom (resp. one more "<or> word") *)
Definition ends_atoms (rest : str) : bool :=
  stops rest && match p_atom rest with None => true | Some _ => false end.
Definition ends_disj (rest : str) : bool :=
  stops rest && match p_or_item rest with None => true | Some _ => false end.
