(* Model/C06_CodeLib.v — the small vocabulary the statement-level translation of
   InspectWrapper (tools/gen/gen_C06_code.py -> Gen/C06_Code.v) is written in.
   Definitions only.

   Object model of the translation:
     an inspector object            = a [slot] (NAME, state, "is in self._errored_inspectors")
     self._inspectors (a set)       = [w_slots w] : the list order is the set's iteration order (a parameter)
     self._errored_inspectors       = the [s_err] flags ([x not in ...] reads it, [.add(x)] sets it)
     self._expected_format/_finished = [w_expected w] / [w_finished w];  self._source = a separate value [s]
   Every block of statements becomes a term  (state..., outcome T). *)
Require Import OV.Base.Bytes OV.Base.Py OV.Model.Wrap.

(* how a block of statements ends *)
Inductive outcome (A : Type) :=
| Normal            (* fell through *)
| Return (a : A)
| Raise (e : exn)
| Break
| Continue.
Arguments Normal {A}. Arguments Return {A} a. Arguments Raise {A} e. Arguments Break {A}. Arguments Continue {A}.

(* the value of a call whose body ended with [o]; falling off the end returns None ([d]) *)
Definition call_res {A} (d : A) (o : outcome A) : res A :=
  match o with Return a => Ok a | Raise e => Exn e | _ => Ok d end.

Section Lib.
Variable I : Type.

Definition new_slot (k : str) (i : I) : slot I := {| s_name := k; s_insp := i; s_err := false |}.
Definition slot_set_insp (x : slot I) (i : I) : slot I := {| s_name := s_name x; s_insp := i; s_err := s_err x |}.
Definition slot_set_err (x : slot I) : slot I := {| s_name := s_name x; s_insp := s_insp x; s_err := true |}.
Definition w_set_finished (w : wrapper I) (b : bool) : wrapper I :=
  {| w_slots := w_slots w; w_expected := w_expected w; w_finished := b |}.
End Lib.

(* Python truthiness *)
Definition is_nil {A} (l : list A) : bool := match l with [] => true | _ => false end.
Definition is_some {A} (o : option A) : bool := match o with Some _ => true | None => false end.
Definition truthy_optstr (o : option str) : bool := match o with Some (_ :: _) => true | _ => false end.
Definition truthy_optlist {A} (o : option (list A)) : bool := match o with Some (_ :: _) => true | _ => false end.
(* k in allowed_formats (only evaluated when allowed_formats is a non-empty list) *)
Definition opt_memb (k : str) (o : option (list str)) : bool := match o with Some l => memb k l | None => false end.
(* allowed_formats as the model takes it: None and [] both mean "all" *)
Definition allowed_list (o : option (list str)) : list str := match o with Some l => l | None => [] end.

(* what a wrapper call gave the reader, as a Python result *)
Definition out_res (o : output) : res bytes :=
  match o with OutChunk c => Ok c | OutExn e => Exn e | OutNone => Ok [] end.
