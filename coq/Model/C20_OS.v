(* Model/C20_OS.v — the runtime the file helpers of oslo_utils/fileutils.py run on.

   * [ores]: outcome of a call that may raise: a value, an OSError instance (class name +
     errno attribute; `except OSError` catches every subclass), or another exception class.
   * [fobj]: a binary file object opened for reading ([open(path, 'rb')]) over a file
     whose content does not change while it is open: content + position.  [fread],
     [fseek], [ftell] are CPython's BufferedReader.read / seek / tell on a regular file
     (tied by correspondence and by the harness' direct contract tests).
   * [runtime]: the operating system and hashlib as an interface (record of functions
     over an abstract world [W] and an abstract hash state [H]).  The theorems are
     stated for an arbitrary runtime satisfying explicit contracts (Proofs/C20.v);
     Model/C20_FS.v gives one concrete instance (a small file-system model) used for
     extraction/correspondence and to show that the contracts are satisfiable. *)
From Coq Require Import String.
Require Import OV.Base.Bytes OV.Base.Py OV.Gen.C20_Consts.
Open Scope Z_scope.

(* an OSError instance as far as the helpers can tell instances apart: the name of its class
   (OSError itself, a builtin subclass such as FileNotFoundError, or a user-defined subclass)
   and the value of its [errno] attribute.  The two are independent: CPython derives the
   class from the errno only in the constructor call OSError(errno, msg); a subclass instance,
   or an instance whose errno is assigned later, can pair any class with any errno. *)
Record oserror : Type := mk_oserror { os_class : bytes; os_errno : Z }.

Fixpoint assoc_Z (k : Z) (l : list (Z * str)) : option str :=
  match l with [] => None | (k', v) :: t => if k =? k' then Some v else assoc_Z k t end.
(* the class CPython selects for OSError(errno, msg) — what a failing system call raises *)
Definition std_class (e : Z) : bytes :=
  match assoc_Z e oserror_classes with Some c => c | None => lit "OSError" end.
Definition std_oserror (e : Z) : oserror := mk_oserror (std_class e) e.

Inductive ores (A : Type) : Type :=
| OOk (a : A)
| OErr (e : oserror)      (* an OSError instance (`except OSError` catches exactly these) *)
| OExn (e : exn).         (* any other exception class *)
Arguments OOk {A} a.
Arguments OErr {A} e.
Arguments OExn {A} e.

Definition nonempty (b : bytes) : bool := match b with [] => false | _ :: _ => true end.
(* truthiness of an optional path argument: None and '' are false *)
Definition truthy_path (p : option bytes) : bool :=
  match p with Some s => nonempty s | None => false end.

(* ---------- binary file object ---------- *)
Record fobj : Type := mk_fobj { f_data : bytes; f_pos : Z }.

Definition fopen (data : bytes) : fobj := mk_fobj data 0.
Definition fsize (f : fobj) : Z := zlen (f_data f).
Definition ftell (f : fobj) : Z := f_pos f.

(* offsets must fit the C type off_t (64 bit), otherwise CPython raises ValueError
   ("cannot fit 'int' into an offset-sized integer") before any system call *)
Definition off_min : Z := -9223372036854775808.
Definition off_max : Z := 9223372036854775807.
Definition fits_off (z : Z) : bool := (off_min <=? z) && (z <=? off_max).

(* seek(off, whence): the target position is off / pos+off / size+off; a negative
   target makes lseek fail with EINVAL and leaves the position unchanged; whence
   values other than SEEK_SET/SEEK_CUR/SEEK_END are not modelled beyond "ValueError" *)
Definition fseek (f : fobj) (off whence : Z) : fobj * ores Z :=
  if negb (fits_off off) then (f, OExn ValueError)
  else
    let target :=
      if whence =? os_SEEK_SET then Some off
      else if whence =? os_SEEK_CUR then Some (f_pos f + off)
      else if whence =? os_SEEK_END then Some (fsize f + off)
      else None in
    match target with
    | None => (f, OExn ValueError)
    | Some t => if t <? 0 then (f, OErr (std_oserror errno_EINVAL))
                else (mk_fobj (f_data f) t, OOk t)
    end.

(* the bytes from the current position to the end of the file *)
Definition frest (f : fobj) : bytes := bskip (Z.to_N (f_pos f)) (f_data f).

(* read(n): n = -1 reads everything that is left; n < -1 is a ValueError; otherwise
   the next min(n, remaining) bytes.  The position advances by what was read. *)
Definition fread (f : fobj) (n : Z) : fobj * ores bytes :=
  if n <? -1 then (f, OExn ValueError)
  else
    let d := if n =? -1 then frest f else btake (Z.to_N n) (frest f) in
    (mk_fobj (f_data f) (f_pos f + zlen d), OOk d).

(* enough iterations for any read loop that consumes at least one byte per round *)
Definition loop_fuel (f : fobj) : nat := S (length (f_data f)).

(* what a path denotes in a world: nothing, a directory, or a regular file with its content *)
Inductive node : Type := NDir | NFile (content : bytes).

(* Linux transfers at most MAX_RW_COUNT = 0x7ffff000 bytes per write(2); os.write's
   return value is ignored by write_to_tempfile, so longer contents are outside the
   write contract (Proofs/C20.v) *)
Definition max_rw_count : Z := 2147479552.

(* ---------- the runtime interface ---------- *)
Record runtime (W H : Type) : Type := mk_runtime {
  (* os.makedirs(path, mode) *)
  rt_makedirs : bytes -> Z -> W -> W * ores unit;
  (* os.path.isdir(path): never raises *)
  rt_isdir : bytes -> W -> bool;
  (* os.unlink(path) — the default [remove] of delete_if_exists *)
  rt_unlink : bytes -> W -> W * ores unit;
  (* open(path, 'rb'): the content of the file (the world is not changed) *)
  rt_open_rb : bytes -> W -> ores bytes;
  (* tempfile.mkstemp(suffix=, dir=, prefix=): (fd, path) *)
  rt_mkstemp : bytes -> option bytes -> bytes -> W -> W * ores (Z * bytes);
  (* os.write(fd, data): number of bytes written *)
  rt_write : Z -> bytes -> W -> W * ores Z;
  (* os.close(fd) *)
  rt_close : Z -> W -> W * ores unit;
  (* hashlib.new(name) / .update(data) / .hexdigest() ; the hash object is threaded
     functionally *)
  rt_hash_new : bytes -> ores H;
  rt_update : H -> bytes -> H;
  (* hexdigest() raises TypeError for the variable-length algorithms shake_128 and shake_256 *)
  rt_hexdigest : H -> ores bytes
}.
Arguments rt_makedirs {W H} r _ _ _.
Arguments rt_isdir {W H} r _ _.
Arguments rt_unlink {W H} r _ _.
Arguments rt_open_rb {W H} r _ _.
Arguments rt_mkstemp {W H} r _ _ _ _.
Arguments rt_write {W H} r _ _ _.
Arguments rt_close {W H} r _ _.
Arguments rt_hash_new {W H} r _.
Arguments rt_update {W H} r _ _.
Arguments rt_hexdigest {W H} r _.
