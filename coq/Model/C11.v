(* Model/C11.v — oslo_utils/netutils.py: is_valid_ipv4, is_valid_ipv6, is_valid_ip,
   is_valid_cidr, is_valid_ipv6_cidr, is_valid_mac, _is_int_in_range, is_valid_port,
   is_valid_icmp_type, is_valid_icmp_code.

   Three layers, bottom up:
   (1) library models (tied by correspondence): CPython's conversion of a str to a
       C string, glibc's inet_pton for AF_INET and AF_INET6 (as socket.inet_pton
       exposes it on this platform), netaddr.valid_ipv4 (INET_PTON mode) and
       netaddr.valid_ipv6;
   (2) library ORACLES with a contract (not modelled): netaddr.valid_ipv4 in
       INET_ATON mode, netaddr.IPNetwork(s), netaddr.IPNetwork(s, version=6).cidr —
       their outcome is an argument of type [ares] of the model functions;
   (3) oslo's own logic, written over the constants of Gen/C11_Netutils.v. *)
Require Import OV.Base.Bytes OV.Base.Py OV.Base.PyInt OV.Base.Str OV.Base.Regex OV.Base.C11_Lib.
Require Import OV.Gen.C11_Netutils.
Open Scope N_scope.

(* ------------------------------------------------------------------ (1) library models *)

(* CPython converts a str argument of socket.inet_pton to a C string ("s" format):
   UTF-8 encoding fails on a lone surrogate (UnicodeEncodeError, a ValueError) and an
   embedded NUL is refused (ValueError). *)
Definition cstr_char_ok (c : N) : bool := negb (c =? 0) && negb ((55296 <=? c) && (c <=? 57343)).
Definition cstr_ok (s : str) : bool := forallb cstr_char_ok s.

(* one IPv4 octet as glibc's inet_pton4 reads it: 1..3 decimal digits, no leading
   zero before another digit, value <= 255 *)
Definition octetb (f : str) : bool :=
  match f with
  | [a] => ascii_digit a
  | [a; b] => ascii_digit a && ascii_digit b && negb (a =? 48)
  | [a; b; c] => ascii_digit a && ascii_digit b && ascii_digit c && negb (a =? 48)
                 && ((a - 48) * 100 + (b - 48) * 10 + (c - 48) <=? 255)
  | _ => false
  end.

(* inet_pton(AF_INET, s) succeeds *)
Definition pton4b (s : str) : bool :=
  match split_char 46 s with
  | [a; b; c; d] => octetb a && octetb b && octetb c && octetb d
  | _ => false
  end.

Definition is_hex (c : N) : bool :=
  ((48 <=? c) && (c <=? 57)) || ((65 <=? c) && (c <=? 70)) || ((97 <=? c) && (c <=? 102)).
(* one 16-bit group: 1..4 hex digits *)
Definition h16b (f : str) : bool :=
  match f with [] => false | _ => (length f <=? 4)%nat && forallb is_hex f end.

(* number of 16-bit units of a ':'-separated field list without "::": hex groups,
   the last field may be a dotted quad (two units) *)
Fixpoint units (fs : list str) : option nat :=
  match fs with
  | [] => Some 0%nat
  | [f] => if h16b f then Some 1%nat else if pton4b f then Some 2%nat else None
  | f :: t => if h16b f then option_map S (units t) else None
  end.
(* hex groups only (left of "::") *)
Fixpoint units_h (fs : list str) : option nat :=
  match fs with
  | [] => Some 0%nat
  | f :: t => if h16b f then option_map S (units_h t) else None
  end.
(* the fields after the first empty field: nothing ("…:") is an error, one empty
   field is a trailing "::" *)
Definition tail_units (r : list str) : option nat :=
  match r with
  | [] => None
  | [[]] => Some 0%nat
  | _ => units r
  end.
(* split a field list at its first empty field *)
Fixpoint cut_empty (fs : list str) : option (list str * list str) :=
  match fs with
  | [] => None
  | [] :: t => Some ([], t)
  | f :: t => match cut_empty t with Some (l, r) => Some (f :: l, r) | None => None end
  end.

(* inet_pton(AF_INET6, s) succeeds.  As glibc: a leading ':' must be "::" and is
   then read as one ':'; without "::" exactly 8 units; with "::" at most 7. *)
Definition pton6_fields (s' : str) : bool :=
  let fs := split_char 58 s' in
  match cut_empty fs with
  | None => match units fs with Some n => Nat.eqb n 8 | None => false end
  | Some (l0, r0) =>
      match units_h l0, tail_units r0 with
      | Some nl, Some nr => (nl + nr <=? 7)%nat
      | _, _ => false
      end
  end.
Definition pton6b (s : str) : bool :=
  match s with
  | [] => false
  | c :: t =>
      if c =? 58 then
        match t with
        | c2 :: _ => if c2 =? 58 then pton6_fields t else false
        | [] => false
        end
      else pton6_fields s
  end.

(* socket.inet_pton(family, s): bytes | OSError | ValueError (argument conversion) *)
Definition inet_pton (v6 : bool) (s : str) : ares :=
  if negb (cstr_ok s) then ARaise AValueError
  else if (if v6 then pton6b s else pton4b s) then AOk true else ARaise AOSError.

(* netaddr.strategy.ipv4.valid_str(addr, flags=INET_PTON): str_to_int refuses a ':'
   and any '.'-separated part with a leading zero, calls inet_pton, turns OSError into
   AddrFormatError; valid_str turns AddrFormatError into False *)
Definition leading_zero_part (p : str) : bool :=
  match p with 48 :: _ :: _ => true | _ => false end.
Definition netaddr_valid_ipv4_pton (s : str) : ares :=
  if existsb (N.eqb 58) s then AOk false
  else if existsb leading_zero_part (split_char 46 s) then AOk false
  else match inet_pton false s with
       | ARaise AOSError => AOk false
       | r => r
       end.
(* netaddr.strategy.ipv6.valid_str(addr): inet_pton, OSError -> False *)
Definition netaddr_valid_ipv6 (s : str) : ares :=
  match inet_pton true s with
  | ARaise AOSError => AOk false
  | r => r
  end.

(* ------------------------------------------------------------------ (3) oslo's logic *)

(* try: return <call>  except <tuple>: return False *)
Definition guard (tuple : list aexn) (r : ares) : ares :=
  match r with
  | AOk b => AOk b
  | ARaise e => if caught tuple e then AOk false else ARaise e
  end.

(* is_valid_ipv4(address, strict): [aton] is the outcome of
   netaddr.valid_ipv4(address, flags=INET_ATON) (oracle), used when strict is false *)
Definition is_valid_ipv4 (strict : bool) (aton : ares) (s : str) : ares :=
  match s with
  | [] => AOk false
  | _ => guard ipv4_caught (if strict then netaddr_valid_ipv4_pton s else aton)
  end.

(* address.rsplit(sep, 1): (head, Some scope) at the LAST separator, or (s, None) *)
Definition rsplit1 (sep : N) (s : str) : str * option str :=
  let parts := split_char sep s in
  if (length parts <=? 1)%nat then (s, None)
  else (join [sep] (removelast parts), Some (last parts [])).

Definition is_valid_ipv6 (s : str) : ares :=
  match s with
  | [] => AOk false
  | _ =>
    let (addr, scope) := rsplit1 scope_sep s in
    let bad_scope := match scope with
                     | None => false
                     | Some sc => (zlen sc <? scope_min)%Z || (zlen sc >? scope_max)%Z
                                  || existsb (N.eqb scope_forbidden) sc
                     end in
    if bad_scope then AOk false else guard ipv6_caught (netaddr_valid_ipv6 addr)
  end.

(* `a or b` on outcomes: b is evaluated only when a returned False *)
Definition is_valid_ip (aton : ares) (s : str) : ares :=
  match is_valid_ipv4 ip_v4_strict aton s with
  | AOk false => is_valid_ipv6 s
  | r => r
  end.

(* is_valid_cidr: [net] is the outcome of netaddr.IPNetwork(address) (oracle: AOk _ =
   constructed).  ip_segment[1] exists whenever len(ip_segment) > cidr_seg_bad_max >= 1;
   for a smaller bound the index could fail (IndexError, [AOther]). *)
Definition is_valid_cidr (net : ares) (s : str) : ares :=
  match net with
  | ARaise e => if caught cidr_caught e then AOk false else ARaise e
  | AOk _ =>
      let seg := split_char cidr_sep s in
      if (Z.of_nat (length seg) <=? cidr_seg_bad_max)%Z then AOk false
      else match seg with
           | _ :: s1 :: _ => AOk (negb (beq s1 []))
           | _ => ARaise AOther
           end
  end.

(* is_valid_ipv6_cidr: [net6] is the outcome of netaddr.IPNetwork(address, version=6).cidr *)
Definition is_valid_ipv6_cidr (net6 : ares) (s : str) : ares :=
  match net6 with
  | AOk _ => AOk true
  | ARaise e => if caught v6cidr_caught e then AOk false else ARaise e
  end.

(* re.match(body + "\\Z", s): the backtracking matcher of Base/Regex.v run with the
   continuation "the rest of the subject is empty" *)
Definition re_match_eos (r : re) (s : str) : bool :=
  match m (N * groups) r s 0 [] (fun s' p' g' => match s' with [] => Some (p', g') | _ => None end) with
  | Some _ => true
  | None => false
  end.

(* is_valid_mac (str argument): truthiness of re.match(m, address.lower()); the translator
   splits a trailing \\Z off the pattern (mac_eos) *)
Definition is_valid_mac (s : str) : bool :=
  if mac_eos then re_match_eos mac_re (py_lower s) else re_matchb mac_re (py_lower s).

(* _is_int_in_range and its three users *)
Definition is_int_in_range (v : pyval) (lo hi : Z) : res bool :=
  match py_int_of v with
  | Ok z => Ok ((lo <=? z)%Z && (z <=? hi)%Z)
  | Exn ValueError | Exn TypeError => Ok false
  | Exn e => Exn e
  end.
Definition is_valid_port (v : pyval) : res bool := is_int_in_range v 0 65535.
Definition is_valid_icmp_type (v : pyval) : res bool := is_int_in_range v 0 255.
Definition is_valid_icmp_code (v : pyval) : res bool :=
  match v with VNone => Ok true | _ => is_int_in_range v 0 255 end.
