(* Model/C11.v — oslo_utils/netutils.py: is_valid_ipv4, is_valid_ipv6, is_valid_ip,
   is_valid_cidr, is_valid_ipv6_cidr, is_valid_mac, _is_int_in_range, is_valid_port,
   is_valid_icmp_type, is_valid_icmp_code.

   Three layers, bottom up:
   (1) library models (tied by correspondence): CPython's conversion of a str to a
       C string, glibc's inet_pton for AF_INET and AF_INET6 (as socket.inet_pton
       exposes it on this platform), netaddr.valid_ipv4 (INET_PTON mode) and
       netaddr.valid_ipv6;
   (2) library ORACLES with a contract (not modelled): netaddr.valid_ipv4 in
       INET_ATON mode, netaddr.IPNetwork(s), netaddr.IPNetwork(s, version=6).cidr —
       their outcome is an argument of type [ares] of the model functions;
   (3) oslo's own logic, written over the constants of Gen/C11_Netutils.v. *)
Require Import OV.Base.Bytes OV.Base.Py OV.Base.PyInt OV.Base.Str OV.Base.Regex OV.Base.C11_Lib.
Require Import OV.Gen.C11_Netutils.
Open Scope N_scope.

(* ------------------------------------------------------------------ (1) library models *)

(* CPython converts a str argument of socket.inet_pton to a C string ("s" format):
   UTF-8 encoding fails on a lone surrogate (UnicodeEncodeError, a ValueError) and an
   embedded NUL is refused (ValueError). *)
Definition cstr_char_ok (c : N) : bool := negb (c =? 0) && negb ((55296 <=? c) && (c <=? 57343)).
Definition cstr_ok (s : str) : bool := forallb cstr_char_ok s.

(* one IPv4 octet as glibc's inet_pton4 reads it: 1..3 decimal digits, no leading
   zero before another digit, value <= 255 *)
Definition octetb (f : str) : bool :=
  match f with
  | [a] => ascii_digit a
  | [a; b] => ascii_digit a && ascii_digit b && negb (a =? 48)
  | [a; b; c] => ascii_digit a && ascii_digit b && ascii_digit c && negb (a =? 48)
                 && ((a - 48) * 100 + (b - 48) * 10 + (c - 48) <=? 255)
  | _ => false
  end.

(* inet_pton(AF_INET, s) succeeds *)
Definition pton4b (s : str) : bool :=
  match split_char 46 s with
  | [a; b; c; d] => octetb a && octetb b && octetb c && octetb d
  | _ => false
  end.

Definition is_hex (c : N) : bool :=
  ((48 <=? c) && (c <=? 57)) || ((65 <=? c) && (c <=? 70)) || ((97 <=? c) && (c <=? 102)).
(* one 16-bit group: 1..4 hex digits *)
Definition h16b (f : str) : bool :=
  match f with [] => false | _ => (length f <=? 4)%nat && forallb is_hex f end.

(* number of 16-bit units of a ':'-separated field list without "::": hex groups,
   the last field may be a dotted quad (two units) *)
Fixpoint units (fs : list str) : option nat :=
  match fs with
  | [] => Some 0%nat
  | [f] => if h16b f then Some 1%nat else if pton4b f then Some 2%nat else None
  | f :: t => if h16b f then option_map S (units t) else None
  end.
(* hex groups only (left of "::") *)
Fixpoint units_h (fs : list str) : option nat :=
  match fs with
  | [] => Some 0%nat
  | f :: t => if h16b f then option_map S (units_h t) else None
  end.
(* the fields after the first empty field: nothing ("…:") is an error, one empty
   field is a trailing "::" *)
Definition tail_units (r : list str) : option nat :=
  match r with
  | [] => None
  | [[]] => Some 0%nat
  | _ => units r
  end.
(* split a field list at its first empty field *)
Fixpoint cut_empty (fs : list str) : option (list str * list str) :=
  match fs with
  | [] => None
  | [] :: t => Some ([], t)
  | f :: t => match cut_empty t with Some (l, r) => Some (f :: l, r) | None => None end
  end.

(* inet_pton(AF_INET6, s) succeeds.  As glibc: a leading ':' must be "::" and is
   then read as one ':'; without "::" exactly 8 units; with "::" at most 7. *)
Definition pton6_fields (s' : str) : bool :=
  let fs := split_char 58 s' in
  match cut_empty fs with
  | None => match units fs with Some n => Nat.eqb n 8 | None => false end
  | Some (l0, r0) =>
      match units_h l0, tail_units r0 with
      | Some nl, Some nr => (nl + nr <=? 7)%nat
      | _, _ => false
      end
  end.
Definition pton6b (s : str) : bool :=
  match s with
  | [] => false
  | c :: t =>
      if c =? 58 then
        match t with
        | c2 :: _ => if c2 =? 58 then pton6_fields t else false
        | [] => false
        end
      else pton6_fields s
  end.

(* socket.inet_pton(family, s): bytes | OSError | ValueError (argument conversion) *)
Definition inet_pton (v6 : bool) (s : str) : ares :=
  if negb (cstr_ok s) then ARaise AValueError
  else if (if v6 then pton6b s else pton4b s) then AOk true else ARaise AOSError.

(* netaddr.strategy.ipv4.valid_str(addr, flags=INET_PTON): str_to_int refuses a ':'
   and any '.'-separated part with a leading zero, calls inet_pton, turns OSError into
   AddrFormatError; valid_str turns AddrFormatError into False *)
Definition leading_zero_part (p : str) : bool :=
  match p with 48 :: _ :: _ => true | _ => false end.
Definition netaddr_valid_ipv4_pton (s : str) : ares :=
  if existsb (N.eqb 58) s then AOk false
  else if existsb leading_zero_part (split_char 46 s) then AOk false
  else match inet_pton false s with
       | ARaise AOSError => AOk false
       | r => r
       end.
(* netaddr.strategy.ipv6.valid_str(addr): inet_pton, OSError -> False *)
Definition netaddr_valid_ipv6 (s : str) : ares :=
  match inet_pton true s with
  | ARaise AOSError => AOk false
  | r => r
  end.

(* ------------------------------------------------------------------ (3) oslo's logic *)

(* try: return <call>  except <tuple>: return False *)
Definition guard (tuple : list aexn) (r : ares) : ares :=
  match r with
  | AOk b => AOk b
  | ARaise e => if caught tuple e then AOk false else ARaise e
  end.

(* is_valid_ipv4(address, strict): [aton] is the outcome of
   netaddr.valid_ipv4(address, flags=INET_ATON) (oracle), used when strict is false *)
Definition is_valid_ipv4 (strict : bool) (aton : ares) (s : str) : ares :=
  match s with
  | [] => AOk false
  | _ => guard ipv4_caught (if strict then netaddr_valid_ipv4_pton s else aton)
  end.

(* address.rsplit(sep, 1): (head, Some scope) at the LAST separator, or (s, None) *)
Definition rsplit1 (sep : N) (s : str) : str * option str :=
  let parts := split_char sep s in
  if (length parts <=? 1)%nat then (s, None)
  else (join [sep] (removelast parts), Some (last parts [])).

Definition is_valid_ipv6 (s : str) : ares :=
  match s with
  | [] => AOk false
  | _ =>
    let (addr, scope) := rsplit1 scope_sep s in
    let bad_scope := match scope with
                     | None => false
                     | Some sc => (zlen sc <? scope_min)%Z || (zlen sc >? scope_max)%Z
                                  || existsb (N.eqb scope_forbidden) sc
                     end in
    if bad_scope then AOk false else guard ipv6_caught (netaddr_valid_ipv6 addr)
  end.

(* `a or b` on outcomes: b is evaluated only when a returned False *)
Definition is_valid_ip (aton : ares) (s : str) : ares :=
  match is_valid_ipv4 ip_v4_strict aton s with
  | AOk false => is_valid_ipv6 s
  | r => r
  end.

(* is_valid_cidr: [net] is the outcome of netaddr.IPNetwork(address) (oracle: AOk _ =
   constructed).  ip_segment[1] exists whenever len(ip_segment) > cidr_seg_bad_max >= 1;
   for a smaller bound the index could fail (IndexError, [AOther]). *)
Definition is_valid_cidr (net : ares) (s : str) : ares :=
  match net with
  | ARaise e => if caught cidr_caught e then AOk false else ARaise e
  | AOk _ =>
      let seg := split_char cidr_sep s in
      if (Z.of_nat (length seg) <=? cidr_seg_bad_max)%Z then AOk false
      else match seg with
           | _ :: s1 :: _ => AOk (negb (beq s1 []))
           | _ => ARaise AOther
           end
  end.

(* is_valid_ipv6_cidr: [net6] is the outcome of netaddr.IPNetwork(address, version=6).cidr *)
Definition is_valid_ipv6_cidr (net6 : ares) (s : str) : ares :=
  match net6 with
  | AOk _ => AOk true
  | ARaise e => if caught v6cidr_caught e then AOk false else ARaise e
  end.

(* re.match(body + "\\Z", s): the backtracking matcher of Base/Regex.v run with the
   continuation "the rest of the subject is empty" *)
Definition re_match_eos (r : re) (s : str) : bool :=
  match m (N * groups) r s 0 [] (fun s' p' g' => match s' with [] => Some (p', g') | _ => None end) with
  | Some _ => true
  | None => false
  end.

(* is_valid_mac (str argument): truthiness of re.match(m, address.lower()); the translator
   splits a trailing \\Z off the pattern (mac_eos) *)
Definition is_valid_mac (s : str) : bool :=
  if mac_eos then re_match_eos mac_re (py_lower s) else re_matchb mac_re (py_lower s).

(* _is_int_in_range and its three users *)
Definition is_int_in_range (v : pyval) (lo hi : Z) : res bool :=
  match py_int_of v with
  | Ok z => Ok ((lo <=? z)%Z && (z <=? hi)%Z)
  | Exn ValueError | Exn TypeError => Ok false
  | Exn e => Exn e
  end.
Definition is_valid_port (v : pyval) : res bool := is_int_in_range v 0 65535.
Definition is_valid_icmp_type (v : pyval) : res bool := is_int_in_range v 0 255.
Definition is_valid_icmp_code (v : pyval) : res bool :=
  match v with VNone => Ok true | _ => is_int_in_range v 0 255 end.

(* ------------------------------------------------------------------ (4) models of the former oracles *)

(* ---------- socket.inet_aton (glibc 2.36 inet_aton, the variant that ignores what follows
   the first ASCII white space) and netaddr.valid_ipv4(s, flags=INET_ATON) ---------- *)
Definition is_c_space (c : N) : bool := ((9 <=? c) && (c <=? 13)) || (c =? 32).
(* the text up to the first C white-space character *)
Fixpoint before_space (s : str) : str :=
  match s with
  | [] => []
  | c :: t => if is_c_space c then [] else c :: before_space t
  end.

Definition is_octal (c : N) : bool := (48 <=? c) && (c <=? 55).
Definition hex_digit_val (c : N) : N := if c <=? 57 then c - 48 else if c <=? 70 then c - 55 else c - 87.
Fixpoint radix_val (r : N) (dv : N -> N) (s : str) (acc : N) : N :=
  match s with [] => acc | c :: t => radix_val r dv t (acc * r + dv c) end.
Definition hexval (s : str) : N := radix_val 16 hex_digit_val s 0.
Definition octval (s : str) : N := radix_val 8 (fun c => c - 48) s 0.

(* strtoul(p, &end, 0) consuming ALL of p: decimal (no leading 0), 0 + octal digits,
   0x/0X + at least one hex digit *)
Definition c_octal (t : str) : option N := if forallb is_octal t then Some (octval t) else None.
Definition c_number (p : str) : option N :=
  match p with
  | [] => None
  | c :: t =>
      if c =? 48 then
        match t with
        | x :: h =>
            if ((x =? 120) || (x =? 88)) && negb (beq h [])
            then (if forallb is_hex h then Some (hexval h) else None)
            else c_octal t
        | [] => c_octal t
        end
      else if ascii_digit c && forallb ascii_digit t then Some (dval p 0) else None
  end.

(* largest value of the last part when k parts precede it *)
Definition aton_limit (k : nat) : N :=
  match k with 0%nat => 4294967295 | 1%nat => 16777215 | 2%nat => 65535 | _ => 255 end.
Fixpoint aton_parts (ps : list str) (k : nat) : bool :=
  match ps with
  | [] => false
  | [p] => match c_number p with Some v => (v <=? aton_limit k) && (k <=? 3)%nat | None => false end
  | p :: t => match c_number p with
              | Some v => (v <=? 255) && (k <=? 2)%nat && aton_parts t (S k)
              | None => false
              end
  end.
Definition aton_ok (s : str) : bool := aton_parts (split_char 46 (before_space s)) 0.

Definition inet_aton (s : str) : ares :=
  if negb (cstr_ok s) then ARaise AValueError
  else if aton_ok s then AOk true else ARaise AOSError.

(* netaddr.strategy.ipv4.valid_str(addr, flags=INET_ATON): a ':' is refused first *)
Definition netaddr_valid_ipv4_aton (s : str) : ares :=
  if existsb (N.eqb 58) s then AOk false
  else match inet_aton s with
       | ARaise AOSError => AOk false
       | r => r
       end.

(* ---------- netaddr.IPNetwork(text[, version=6]) for a str argument (netaddr 1.3.0) ---------- *)
Inductive pres := PVal (v : N) | PRaise (e : aexn).

Definition octet_val (f : str) : N := dval f 0.
Definition pton4_value (s : str) : option N :=
  match split_char 46 s with
  | [a; b; c; d] =>
      if octetb a && octetb b && octetb c && octetb d
      then Some (((octet_val a * 256 + octet_val b) * 256 + octet_val c) * 256 + octet_val d)
      else None
  | _ => None
  end.

(* the 16-bit units of an IPv6 text, in parallel to units / units_h / tail_units / pton6_fields *)
Fixpoint units_v (fs : list str) : option (list N) :=
  match fs with
  | [] => Some []
  | [f] => if h16b f then Some [hexval f]
           else match pton4_value f with Some v => Some [v / 65536; v mod 65536] | None => None end
  | f :: t => if h16b f then option_map (cons (hexval f)) (units_v t) else None
  end.
Fixpoint units_hv (fs : list str) : option (list N) :=
  match fs with
  | [] => Some []
  | f :: t => if h16b f then option_map (cons (hexval f)) (units_hv t) else None
  end.
Definition tail_units_v (r : list str) : option (list N) :=
  match r with
  | [] => None
  | [[]] => Some []
  | _ => units_v r
  end.
Definition pton6_fields_v (s' : str) : option (list N) :=
  let fs := split_char 58 s' in
  match cut_empty fs with
  | None => match units_v fs with
            | Some us => if Nat.eqb (length us) 8 then Some us else None
            | None => None
            end
  | Some (l0, r0) =>
      match units_hv l0, tail_units_v r0 with
      | Some a, Some b =>
          if (length a + length b <=? 7)%nat
          then Some (a ++ repeat 0 (8 - length a - length b) ++ b) else None
      | _, _ => None
      end
  end.
Definition pton6_units (s : str) : option (list N) :=
  match s with
  | [] => None
  | c :: t =>
      if c =? 58 then
        match t with
        | c2 :: _ => if c2 =? 58 then pton6_fields_v t else None
        | [] => None
        end
      else pton6_fields_v s
  end.
Definition pton6_value (s : str) : option N :=
  option_map (fun us => fold_left (fun acc u => acc * 65536 + u) us 0) (pton6_units s).

(* module.str_to_int(addr, INET_PTON) *)
Definition str_to_int (v6 : bool) (s : str) : pres :=
  if v6 then
    (if negb (cstr_ok s) then PRaise AValueError
     else match pton6_value s with Some v => PVal v | None => PRaise AAddrFormatError end)
  else
    (if existsb (N.eqb 58) s then PRaise AAddrFormatError
     else if existsb leading_zero_part (split_char 46 s) then PRaise AAddrFormatError
     else if negb (cstr_ok s) then PRaise AValueError
     else match pton4_value s with Some v => PVal v | None => PRaise AAddrFormatError end).

(* IPAddress(addr, version, flags=INET_PTON): a '/' is refused with ValueError *)
Definition ipaddress_of (v6 : bool) (s : str) : pres :=
  if existsb (N.eqb 47) s then PRaise AValueError else str_to_int v6 s.

Definition ip_width (v6 : bool) : N := if v6 then 128 else 32.
(* IPAddress.is_netmask / is_hostmask: x & (x - 1) == 0 for x = (value ^ max) + 1, x = value + 1 *)
Definition pow2_or_zero (x : N) : bool := N.land x (x - 1) =? 0.
Definition is_netmask (v6 : bool) (v : N) : bool := pow2_or_zero (N.lxor v (2 ^ ip_width v6 - 1) + 1).
Definition is_hostmask (v : N) : bool := pow2_or_zero (v + 1).

(* addr.split('/', 1) when '/' in addr *)
Fixpoint split_first (c : N) (s : str) : str * option str :=
  match s with
  | [] => ([], None)
  | x :: t => if x =? c then ([], Some t)
              else let (a, b) := split_first c t in (x :: a, b)
  end.

(* parse_ip_network(module, addr) for a str: AOk _ = a (value, prefixlen) pair is returned *)
Definition parse_ip_network (v6 : bool) (s : str) : ares :=
  let (val1, val2) := split_first 47 s in
  match ipaddress_of v6 val1 with
  | PRaise e => ARaise e
  | PVal _ =>
      match val2 with
      | None => AOk true
      | Some p =>
          match py_int_str p with
          | Some z => if (0 <=? z)%Z && (z <=? Z.of_N (ip_width v6))%Z then AOk true else ARaise AAddrFormatError
          | None =>
              match ipaddress_of v6 p with
              | PRaise e => ARaise e
              | PVal m => if is_netmask v6 m || is_hostmask m then AOk true else ARaise AAddrFormatError
              end
          end
      end
  end.

(* IPNetwork(addr): IPv4 first, IPv6 when that raised AddrFormatError *)
Definition ipnetwork (s : str) : ares :=
  match parse_ip_network false s with
  | ARaise AAddrFormatError => parse_ip_network true s
  | r => r
  end.
(* IPNetwork(addr, version=6).cidr *)
Definition ipnetwork6 (s : str) : ares := parse_ip_network true s.

(* ------------------------------------------------------------------ (5) the validators without oracle arguments *)
Definition valid_ipv4 (strict : bool) (s : str) : ares := is_valid_ipv4 strict (netaddr_valid_ipv4_aton s) s.
Definition valid_ip (s : str) : ares := is_valid_ip (netaddr_valid_ipv4_aton s) s.
Definition valid_cidr (s : str) : ares := is_valid_cidr (ipnetwork s) s.
Definition valid_ipv6_cidr (s : str) : ares := is_valid_ipv6_cidr (ipnetwork6 s) s.
