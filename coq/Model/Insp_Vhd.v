(* Model/Insp_Vhd.v — VHDInspector *)
Require Import OV.Base.Bytes OV.Base.Py OV.Base.Insp_Struct OV.Gen.Insp_Consts OV.Model.Insp_Engine.
Open Scope N_scope.

Definition vhd_match (s : ist unit) : res bool :=
  do r <- get_region R_header s; Ok (prefixb VHD_MAGIC (r_data r)).

Definition vhd_vsize (s : ist unit) : res Z :=
  do r <- get_region R_header s;
  if negb (rcomplete r) then Ok 0%Z else
  do m <- vhd_match s;
  if negb m then Ok 0%Z else
  do b <- unpack sf_vhd_size (nsub VHD_SIZE_LO VHD_SIZE_HI (r_data r));
  Ok (Z.of_N (sint sf_vhd_size 0 b)).

Definition vhd_check (c : cname) (_ : ist unit) : res unit :=
  match c with K_null => check_null | _ => check_unknown end.

Definition vhd_fmt : fmt unit :=
  mkFmt F_vhd tt no_post no_rcomplete vhd_match vhd_vsize vhd_check.
