(* Model/C02_Cli.v — a small statement language for the body of
   oslo_utils/imageutils/cli.py:main and its interpreter.  Definitions only.

   The translator tools/gen/gen_C02_cli.py turns the statements of `main` (after the argparse
   set-up) one by one into a [list cstmt] (coq/Gen/C02_Cli.v, regenerated on every run, fail-closed);
   [cli_exec] runs such a program in an environment that says how the calls into the library end:
     path_ok      os.path.exists(image) and os.path.isfile(image)
     detect       format_inspector.detect_file_format(image): Ok tt = returned an inspector, Exn e = raised
     safety       inspector.safety_check(): Pass = returned, Fail = SafetyCheckFailed, Refused = ImageFormatError,
                  Crash e = e escaped
     vsize_ok     inspector.virtual_size did not raise
     verbose      -v / --verbose
   The result is the exit status of the process: sys.exit(n) -> n, an uncaught exception -> 1
   (CPython prints the traceback and exits 1), falling off the end of main -> 0. *)
Require Import OV.Base.Bytes OV.Base.Py OV.Model.Insp_Engine.
Open Scope Z_scope.

Inductive ccond := C_badpath | C_verbose | C_safe | C_not_safe.

(* statements allowed inside an `if` body or an `except` handler *)
Inductive csimple :=
| B_exit (n : Z)             (* sys.exit(n) *)
| B_set_safe (b : bool)      (* safe = True / False *)
| B_pure.                    (* print(...), list appends, formatting: no effect on the exit status *)

(* exception classes an `except` clause may name *)
Inductive cclass := X_SafetyCheckFailed | X_ImageFormatError | X_Exception.

Inductive cstmt :=
| S_simple (b : csimple)
| S_if (c : ccond) (body : list csimple)
| S_detect                                        (* inspector = format_inspector.detect_file_format(image) *)
| S_try_safety (catches : list cclass) (handler : list csimple)
                                                  (* try: inspector.safety_check()  except <catches>: handler *)
| S_safety                                        (* inspector.safety_check() outside any try *)
| S_vsize.                                        (* virtual_size = inspector.virtual_size *)

Record cenv := mkCenv {
  e_path_ok : bool; e_detect : res unit; e_safety : safety_result; e_vsize_ok : bool; e_verbose : bool
}.

(* control state: the value of `safe` (None = not yet bound) *)
Inductive cres := R_next (safe : option bool) | R_exit (n : Z).

Definition cond_val (env : cenv) (safe : option bool) (c : ccond) : res bool :=
  match c with
  | C_badpath => Ok (negb (e_path_ok env))
  | C_verbose => Ok (e_verbose env)
  | C_safe => match safe with Some b => Ok b | None => Exn OtherError end      (* NameError *)
  | C_not_safe => match safe with Some b => Ok (negb b) | None => Exn OtherError end
  end.

Fixpoint exec_simple (body : list csimple) (safe : option bool) : cres :=
  match body with
  | [] => R_next safe
  | B_exit n :: _ => R_exit n
  | B_set_safe b :: t => exec_simple t (Some b)
  | B_pure :: t => exec_simple t safe
  end.

(* does an except clause naming [k] catch the way safety_check() ended? *)
Definition catches1 (k : cclass) (r : safety_result) : bool :=
  match k, r with
  | _, Pass => false
  | X_SafetyCheckFailed, Fail _ => true
  | X_SafetyCheckFailed, Crash SafetyCheckFailed => true
  | X_ImageFormatError, Refused => true
  | X_ImageFormatError, Crash ImageFormatError => true
  | X_Exception, _ => true
  | _, _ => false
  end.

Definition exec_stmt (env : cenv) (s : cstmt) (safe : option bool) : cres :=
  match s with
  | S_simple b => exec_simple [b] safe
  | S_if c body =>
    match cond_val env safe c with
    | Exn _ => R_exit 1
    | Ok true => exec_simple body safe
    | Ok false => R_next safe
    end
  | S_detect => match e_detect env with Ok _ => R_next safe | Exn _ => R_exit 1 end
  | S_try_safety ks handler =>
    match e_safety env with
    | Pass => R_next safe
    | r => if existsb (fun k => catches1 k r) ks then exec_simple handler safe else R_exit 1
    end
  | S_safety => match e_safety env with Pass => R_next safe | _ => R_exit 1 end
  | S_vsize => if e_vsize_ok env then R_next safe else R_exit 1
  end.

Fixpoint exec_prog (env : cenv) (p : list cstmt) (safe : option bool) : Z :=
  match p with
  | [] => 0                                   (* main() returned: exit status 0 *)
  | s :: t =>
    match exec_stmt env s safe with
    | R_exit n => n
    | R_next safe' => exec_prog env t safe'
    end
  end.

Definition cli_exec (p : list cstmt) (env : cenv) : Z := exec_prog env p None.

(* The statement order matters for the property: the checker must run detection and the safety
   check before it can exit 0.  A program "mentions" a call when the statement occurs at top level. *)
Definition is_detect (s : cstmt) : bool := match s with S_detect => true | _ => false end.
Definition is_safety (s : cstmt) : bool := match s with S_try_safety _ _ | S_safety => true | _ => false end.
