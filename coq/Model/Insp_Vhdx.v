(* Model/Insp_Vhdx.v — VHDXInspector *)
Require Import OV.Base.Bytes OV.Base.Py OV.Base.Insp_Struct OV.Gen.Insp_Consts OV.Model.Insp_Engine.
Open Scope N_scope.

(* `_guid(buf) == CONST`: _guid unpacks '<IHHBBBBBBBB' (struct.error unless len(buf) = 16) and prints
   it canonically; the generator checked that CONST is in that canonical form, so the comparison is
   an equality of the 16 raw bytes with the mixed-endian encoding of CONST. *)
Definition vhdx_guid_is (buf g : bytes) : res bool :=
  do b <- unpack sf_vhdx_guid buf; Ok (beq b g).

(* the region table walk: [rest] = header.data[region_entry_first + 32*i :] *)
Fixpoint vhdx_rt_loop (k : nat) (rest : bytes) : res (option rspec) :=
  match k with
  | O => Ok None
  | S k' =>
    let entry := ntake VHDX_RT_ENTRY rest in
    do m <- vhdx_guid_is (ntake VHDX_RT_GUID entry) VHDX_GUID_METAREGION;
    if m then
      do b <- unpack sf_vhdx_rt_rest (nskip VHDX_RT_REST entry);
      Ok (Some (mkRspec false (sint sf_vhdx_rt_rest 0 b) (VHDX_META_A * VHDX_META_B) None))
    else vhdx_rt_loop k' (nskip VHDX_RT_STRIDE rest)
  end.

Definition vhdx_find_meta_region (s : ist unit) : res (option rspec) :=
  do r <- get_region R_header s;
  do b <- unpack sf_vhdx_rt_hdr (ntake VHDX_RT_HDR (r_data r));
  let regi := sint sf_vhdx_rt_hdr 0 b in
  let count := sint sf_vhdx_rt_hdr 2 b in
  if negb (regi =? VHDX_REGI) then Exn ImageFormatError
  else if VHDX_RT_LIMIT <=? count then Exn ImageFormatError
  else vhdx_rt_loop (N.to_nat count) (nskip VHDX_RT_FIRST (r_data r)).

(* the metadata table walk: [rest] = meta_buffer[32 + 32*i :]; result (item_offset, clamped item_length) *)
Fixpoint vhdx_mt_loop (k : nat) (guid : bytes) (rest : bytes) : res (option (N * N)) :=
  match k with
  | O => Ok None
  | S k' =>
    do m <- vhdx_guid_is (ntake VHDX_MT_GUID rest) guid;
    if m then
      do b <- unpack sf_vhdx_mt_item (nsub VHDX_MT_F_LO VHDX_MT_F_HI rest);
      Ok (Some (sint sf_vhdx_mt_item 0 b, N.min (sint sf_vhdx_mt_item 1 b) VHDX_VHDX_METADATA_TABLE_MAX_SIZE))
    else vhdx_mt_loop k' guid (nskip VHDX_MT_STRIDE2 rest)
  end.

(* _find_meta_entry(desired_guid); on success it shrinks region('metadata').length in place *)
Definition vhdx_find_meta_entry (guid : bytes) (s : ist unit) : ist unit * res (option rspec) :=
  match get_region R_metadata s with
  | Exn e => (s, Exn e)
  | Ok m =>
    let buf := r_data m in
    if flen buf <? VHDX_MT_MIN then (s, Ok None) else
    match unpack sf_vhdx_mt_hdr (ntake VHDX_MT_HDR buf) with
    | Exn e => (s, Exn e)
    | Ok b =>
      let sig := sraw sf_vhdx_mt_hdr 0 b in
      let count := sint sf_vhdx_mt_hdr 2 b in
      if negb (beq sig VHDX_META_SIG) then (s, Exn ImageFormatError) else
      if flen buf <? VHDX_MT_BASE + count * VHDX_MT_STRIDE then (s, Ok None) else
      if VHDX_MT_LIMIT <=? count then (s, Exn ImageFormatError) else
      match vhdx_mt_loop (N.to_nat count) guid (nskip VHDX_MT_BASE2 buf) with
      | Exn e => (s, Exn e)
      | Ok None => (s, Ok None)
      | Ok (Some (item_offset, item_length)) =>
        (set_regs s (rset R_metadata (set_len m (flen buf)) (i_regs s)),
         Ok (Some (mkRspec false (r_off m + item_offset) item_length None)))
      end
    end
  end.

Definition vhdx_post (s : ist unit) : ist unit * option exn :=
  match get_region R_header s with
  | Exn e => (s, Some e)
  | Ok h =>
    if rcomplete h && negb (has_region R_metadata s) then
      match vhdx_find_meta_region s with
      | Exn e => (s, Some e)
      | Ok None => (s, None)
      | Ok (Some sp) => new_region R_metadata sp s
      end
    else if has_region R_metadata s && negb (has_region R_vds s) then
      match vhdx_find_meta_entry VHDX_GUID_VIRTUAL_DISK_SIZE s with
      | (s', Exn e) => (s', Some e)
      | (s', Ok None) => (s', None)
      | (s', Ok (Some sp)) => new_region R_vds sp s'
      end
    else (s, None)
  end.

Definition vhdx_match (s : ist unit) : res bool :=
  do r <- get_region R_ident s; Ok (prefixb VHDX_MAGIC (r_data r)).

Definition vhdx_vsize (s : ist unit) : res Z :=
  if negb (has_region R_vds s) then Ok 0%Z else
  do r <- get_region R_vds s;
  if negb (rcomplete r) then Ok 0%Z else
  do b <- unpack sf_vhdx_vds (r_data r);
  Ok (Z.of_N (sint sf_vhdx_vds 0 b)).

Definition vhdx_check (c : cname) (_ : ist unit) : res unit :=
  match c with K_null => check_null | _ => check_unknown end.

Definition vhdx_fmt : fmt unit :=
  mkFmt F_vhdx tt vhdx_post no_rcomplete vhdx_match vhdx_vsize vhdx_check.
