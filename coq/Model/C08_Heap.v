(* Model/C08_Heap.v — mask_dict_password with OBJECT IDENTITY.  Definitions only.

   A heap maps locations to objects; values are references (locations).  The
   function is evaluated in store-passing style:
     out = {}                     allocates a FRESH location            (gen_out_init)
     for k, v in dictionary.items():   reads the argument's item list
         <loop body>              the regenerated term gen_body, evaluated on the heap facts
         out[k] = <rhs>           writes ONLY to the location(s) of      (gen_store_vars)
           mask_dict_password(v, ...)  the recursive call returns a location
           secret / v                  the reference itself (no copy)
           mask_password(v, ...)       an abstract heap function (Section variable + contract)
     return out                                                          (gen_return_var)
   Where the writes go, what OUT is initialised with and what is returned are regenerated
   from the source (Gen/C08_Frame.v): a source edit that writes into `dictionary` or
   returns `dictionary` itself changes those terms.
   The recursion is fuelled: fuel plays the interpreter's recursion limit, running out of it
   is RecursionError (a RuntimeError) — what the code does on a cyclic argument. *)
From Coq Require Import String.
Require Import OV.Base.Bytes OV.Base.Py OV.Base.Str.
Require Import OV.Model.C08_Syntax OV.Gen.C08_Keys OV.Gen.C08_Shape OV.Gen.C08_Frame OV.Model.C08.
Open Scope N_scope.

Definition loc := nat.
Inductive pobj :=
| PDict (kind : N) (items : list (key * loc))   (* a Mapping of concrete type [kind]; values are references *)
| PStr (s : str)
| POther (tag : bytes).
Definition heap := list pobj.                    (* location = index; allocation appends *)

Definition hget (h : heap) (l : loc) : option pobj := nth_error h l.
Fixpoint hset (h : heap) (l : loc) (o : pobj) : heap :=
  match h, l with
  | [], _ => []
  | _ :: t, O => o :: t
  | x :: t, S l' => x :: hset t l' o
  end.
Definition halloc (h : heap) (o : pobj) : heap * loc := (h ++ [o], length h).

Fixpoint dict_set_l (k : key) (l : loc) (d : list (key * loc)) : list (key * loc) :=
  match d with
  | [] => [(k, l)]
  | (k', l') :: t => if key_eqb k' k then (k', l) :: t else (k', l') :: dict_set_l k l t
  end.

Definition obj_is (o : pobj) (c : cls) : bool :=
  match o, c with
  | PStr _, CStr => true
  | PDict _ _, CMapping => true
  | PDict kd _, CDict => kind_is_dict kd
  | _, _ => false
  end.
Definition loc_is (h : heap) (l : loc) (c : cls) : bool :=
  match hget h l with Some o => obj_is o c | None => false end.
Definition env_h (h : heap) (k : key) (l : loc) : env := mkEnv (key_is k) (loc_is h l) (key_has k).

(* X[k] = l   for the dict at location t *)
Definition hstore (h : heap) (t : loc) (k : key) (l : loc) : res heap :=
  match hget h t with
  | Some (PDict kd items) => Ok (hset h t (PDict kd (dict_set_l k l items)))
  | _ => Exn TypeError
  end.
Fixpoint hstore_all (h : heap) (ts : list loc) (k : key) (l : loc) : res heap :=
  match ts with
  | [] => Ok h
  | t :: ts' => match hstore h t k l with Ok h' => hstore_all h' ts' k l | Exn e => Exn e end
  end.

(* the secret a call passes on: the reference it was given, or the default object *)
Definition secret_loc (h : heap) (dflt : str) (sa : secarg) (secret : loc) : heap * loc :=
  match sa with SecGiven => (h, secret) | SecDefault => halloc h (PStr dflt) end.

Definition var_loc (out d : loc) (v : hvar) : loc := match v with VarOut => out | VarArg => d end.

Section HMDP.
  (* mask_password(message, secret) on the heap: message and secret references in, heap and result reference out *)
  Variable mp_h : heap -> loc -> loc -> heap * loc.

  Definition entry_loc (rec : heap -> loc -> loc -> res (heap * loc)) (hc : heap) (secret : loc) (a : action) (vl : loc)
    : res (heap * loc) :=
    match a with
    | ARecurse sa => let (h2, s2) := secret_loc hc gen_default_secret sa secret in rec h2 s2 vl
    | ASecret => Ok (hc, secret)
    | AMask sa =>
        if loc_is hc vl CStr
        then let (h2, s2) := secret_loc hc gen_mp_default_secret sa secret in Ok (mp_h h2 vl s2)
        else Exn OtherError                 (* str(v) of a non-string: not modelled, never reached *)
    | AKeep => Ok (hc, vl)
    end.

  (* the loop over the argument's items (read when the loop starts) *)
  Fixpoint go_h (rec : heap -> loc -> loc -> res (heap * loc)) (secret : loc) (targets : list loc)
           (l : list (key * loc)) (hc : heap) : res heap :=
    match l with
    | [] => Ok hc
    | (k, vl) :: t =>
        match run_body gen_body (env_h hc k vl) with
        | Exn e => Exn e
        | Ok None => go_h rec secret targets t hc
        | Ok (Some a) =>
            match entry_loc rec hc secret a vl with
            | Exn e => Exn e
            | Ok (h3, nl) =>
                match hstore_all h3 targets k nl with
                | Exn e => Exn e
                | Ok h4 => go_h rec secret targets t h4
                end
            end
        end
    end.

  Fixpoint mdp_h (fuel : nat) (h : heap) (secret d : loc) {struct fuel} : res (heap * loc) :=
    match fuel with
    | O => Exn RuntimeError          (* RecursionError: maximum recursion depth exceeded *)
    | S f =>
        match hget h d with
        | None => Exn OtherError     (* a dangling reference is not a Python state *)
        | Some o =>
            if obj_is o gen_guard_cls then
              match o with
              | PDict _ items =>
                  let (h1, out) := match gen_out_init with
                                   | InitFresh kd => halloc h (PDict kd [])
                                   | InitArg => (h, d)
                                   end in
                  match go_h (mdp_h f) secret (map (var_loc out d) gen_store_vars) items h1 with
                  | Exn e => Exn e
                  | Ok hf => Ok (hf, var_loc out d gen_return_var)
                  end
              | _ => Exn AttributeError
              end
            else Exn gen_guard_exn
        end
    end.
End HMDP.

(* ---------- vocabulary of the heap theorems ---------- *)

(* [Den n0 h l v]: location l of heap h denotes the tree v (it is read back through dict
   edges as v), and every DICT location met on the way is >= n0.  With n0 = 0 this is plain
   denotation: "l is the root of a finite (acyclic, possibly shared) structure that unfolds to v".
   Defined by recursion on the tree. *)
Fixpoint Den (n0 : nat) (h : heap) (l : loc) (v : value) {struct v} : Prop :=
  match v with
  | VStr s => hget h l = Some (PStr s)
  | VOther t => hget h l = Some (POther t)
  | VMap kd vitems =>
      (n0 <= l)%nat /\
      exists items, hget h l = Some (PDict kd items) /\
        (fix items_den (its : list (key * loc)) (vs : list (key * value)) {struct vs} : Prop :=
           match its, vs with
           | [], [] => True
           | (k, l') :: its', (k', v') :: vs' => k = k' /\ Den n0 h l' v' /\ items_den its' vs'
           | _, _ => False
           end) items vitems
  end.

(* a decidable way to establish Den 0: read the structure back with fuel; None on a cycle
   deeper than the fuel or a dangling reference.  fuel = S (length h) suffices for every
   acyclic structure (not needed by the theorems: they take Den 0 itself as hypothesis). *)
Fixpoint denote (fuel : nat) (h : heap) (l : loc) : option value :=
  match fuel with
  | O => None
  | S f =>
      match hget h l with
      | None => None
      | Some (PStr s) => Some (VStr s)
      | Some (POther t) => Some (VOther t)
      | Some (PDict kd items) =>
          match (fix go (its : list (key * loc)) : option (list (key * value)) :=
                   match its with
                   | [] => Some []
                   | (k, l') :: t => match denote f h l', go t with
                                     | Some v, Some r => Some ((k, v) :: r)
                                     | _, _ => None
                                     end
                   end) items with
          | Some vs => Some (VMap kd vs)
          | None => None
          end
      end
  end.

Fixpoint height (v : value) : nat :=
  match v with
  | VMap _ items => S (fold_right (fun kv m => Nat.max (height (snd kv)) m) O items)
  | _ => O
  end.

(* [Shr n0 secret h0 h' a r v]: the SHARING structure of a result.  a is a location of the
   heap h0 before the call that unfolds to the mapping v, r the corresponding location of the
   heap h' after the call.  At every level, slot by slot (same key, same position):
   - a mapping value: the result slot is a dict location >= n0 (allocated by the call), related
     to the argument's slot in the same way (never the argument's own mapping);
   - a non-mapping value under a secret key: the result slot IS the secret reference;
   - any other non-string value (list, bytes, number, None, ...): the result slot IS the
     argument's reference — shared, not copied ("returned as they are");
   - any other string: whatever reference mask_password returned (nothing claimed). *)
Fixpoint Shr (n0 : nat) (secret : loc) (h0 h' : heap) (a r : loc) (v : value) {struct v} : Prop :=
  match v with
  | VMap kd vs =>
      (n0 <= r)%nat /\
      exists aitems ritems,
        hget h0 a = Some (PDict kd aitems) /\ hget h' r = Some (PDict dict_kind ritems) /\
        (fix slots (aits rits : list (key * loc)) (vs : list (key * value)) {struct vs} : Prop :=
           match aits, rits, vs with
           | [], [], [] => True
           | (k, al) :: aits', (k1, rl) :: rits', (k2, v') :: vs' =>
               k1 = k /\ k2 = k /\
               match v' with
               | VMap _ _ => Shr n0 secret h0 h' al rl v'
               | VStr _ => if secret_key k then rl = secret else True
               | VOther _ => rl = if secret_key k then secret else al
               end /\ slots aits' rits' vs'
           | _, _, _ => False
           end) aitems ritems vs
  | _ => True
  end.
