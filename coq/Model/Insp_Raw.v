(* Model/Insp_Raw.v — RawFileInspector *)
Require Import OV.Base.Bytes OV.Base.Py OV.Base.Insp_Struct OV.Gen.Insp_Consts OV.Model.Insp_Engine.
Open Scope N_scope.

Definition raw_check (c : cname) (_ : ist unit) : res unit :=
  match c with K_null => check_null | _ => check_unknown end.

Definition raw_fmt : fmt unit :=
  mkFmt F_raw tt no_post no_rcomplete (fun _ => Ok true) base_vsize raw_check.
