(* Model/Insp_Vdi.v — VDIInspector *)
Require Import OV.Base.Bytes OV.Base.Py OV.Base.Insp_Struct OV.Gen.Insp_Consts OV.Model.Insp_Engine.
Open Scope N_scope.

Definition vdi_match (s : ist unit) : res bool :=
  do r <- get_region R_header s;
  if negb (rcomplete r) then Ok false else
  do b <- unpack sf_vdi_sig (nsub VDI_SIG_LO VDI_SIG_HI (r_data r));
  Ok (sint sf_vdi_sig 0 b =? VDI_SIG).

Definition vdi_vsize (s : ist unit) : res Z :=
  do r <- get_region R_header s;
  if negb (rcomplete r) then Ok 0%Z else
  do m <- vdi_match s;
  if negb m then Ok 0%Z else
  do b <- unpack sf_vdi_size (nsub VDI_SIZE_LO VDI_SIZE_HI (r_data r));
  Ok (Z.of_N (sint sf_vdi_size 0 b)).

Definition vdi_check (c : cname) (_ : ist unit) : res unit :=
  match c with K_null => check_null | _ => check_unknown end.

Definition vdi_fmt : fmt unit :=
  mkFmt F_vdi tt no_post no_rcomplete vdi_match vdi_vsize vdi_check.
