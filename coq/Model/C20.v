(* Model/C20.v — the file helpers of oslo_utils/fileutils.py over the runtime interface
   of Model/C20_OS.v (definitions only).

     ensure_tree, delete_if_exists, write_to_tempfile : world -> world * outcome
     compute_file_checksum, last_bytes                : world -> outcome   (read only)

   The errno names compared against (EEXIST, ENOENT, EINVAL) are those of the source;
   their numeric values come from the errno module of the running interpreter
   (Gen/C20_Consts.v).  Proofs/C20.v proves each function equal to the statement-level
   translation of the source (Gen/C20_Code.v). *)
Require Import OV.Base.Bytes OV.Base.Py OV.Gen.C20_Consts OV.Model.C20_OS.
Open Scope Z_scope.

Section C20Model.
Context {W H : Type} (rt : runtime W H).

(* try: os.makedirs(path, mode)
   except OSError as exc:
       if exc.errno == errno.EEXIST: (if not os.path.isdir(path): raise)  else: raise
   — os.path.isdir is evaluated in the world makedirs left behind; the handler reads the
   errno attribute only: the class of the OSError instance plays no role *)
Definition ensure_tree (path : bytes) (mode : Z) (w : W) : W * ores unit :=
  match rt_makedirs rt path mode w with
  | (w1, OOk _) => (w1, OOk tt)
  | (w1, OErr e) =>
      if (os_errno e =? errno_EEXIST) && rt_isdir rt path w1 then (w1, OOk tt) else (w1, OErr e)
  | (w1, OExn x) => (w1, OExn x)
  end.

(* try: remove(path)  except OSError as e: if e.errno != errno.ENOENT: raise *)
Definition delete_if_exists (path : bytes) (remove : bytes -> W -> W * ores unit) (w : W)
  : W * ores unit :=
  match remove path w with
  | (w1, OOk _) => (w1, OOk tt)
  | (w1, OErr e) => if os_errno e =? errno_ENOENT then (w1, OOk tt) else (w1, OErr e)
  | (w1, OExn x) => (w1, OExn x)
  end.

(* view = memoryview(content)
   while len(view): view = view[os.write(fd, view):]
   — os.write may transfer fewer bytes than asked for; the loop goes on with what is left.
   [view[n:]] is Python slicing ([zslice]).  [None] = fuel exhausted (never happens when
   every write of a non-empty buffer transfers at least one byte: Proofs/C20.v,
   write_loop_total). *)
Fixpoint write_loop (fuel : nat) (fd : Z) (view : bytes) (w : W) : option (W * ores unit) :=
  match fuel with
  | O => None
  | S k =>
      if zlen view =? 0 then Some (w, OOk tt)
      else
        match rt_write rt fd view w with
        | (w1, OOk n) => write_loop k fd (zslice (Some n) None view) w1
        | (w1, OErr e) => Some (w1, OErr e)
        | (w1, OExn x) => Some (w1, OExn x)
        end
  end.

Definition write_all (fd : Z) (content : bytes) (w : W) : W * ores unit :=
  match write_loop (S (length content)) fd content w with
  | Some r => r
  | None => (w, OExn OtherError)
  end.

(* try: <write everything>  finally: os.close(fd)
   — the finally clause always runs; an exception raised by it replaces a pending one *)
Definition write_and_close (fd : Z) (content : bytes) (w : W) : W * ores unit :=
  let (w1, rw) := write_all fd content w in
  let (w2, rc) := rt_close rt fd w1 in
  match rc with
  | OOk _ => match rw with OOk _ => (w2, OOk tt) | OErr e => (w2, OErr e) | OExn x => (w2, OExn x) end
  | OErr e => (w2, OErr e)
  | OExn x => (w2, OExn x)
  end.

(* if path: ensure_tree(path)
   (fd, path) = tempfile.mkstemp(suffix=suffix, dir=path, prefix=prefix)
   try: <write everything> finally: os.close(fd)
   return path *)
Definition write_to_tempfile (content : bytes) (path : option bytes) (suffix prefix : bytes) (w : W)
  : W * ores bytes :=
  let (w1, r1) :=
    match path with
    | Some p => if nonempty p then ensure_tree p default_mode w else (w, OOk tt)
    | None => (w, OOk tt)
    end in
  match r1 with
  | OErr e => (w1, OErr e)
  | OExn x => (w1, OExn x)
  | OOk _ =>
      match rt_mkstemp rt suffix path prefix w1 with
      | (w2, OErr e) => (w2, OErr e)
      | (w2, OExn x) => (w2, OExn x)
      | (w2, OOk (fd, name)) =>
          match write_and_close fd content w2 with
          | (w3, OOk _) => (w3, OOk name)
          | (w3, OErr e) => (w3, OErr e)
          | (w3, OExn x) => (w3, OExn x)
          end
      end
  end.

(* for chunk in iter(lambda: f.read(read_chunksize), b''): checksum.update(chunk)
   — read until a read returns b''.  [None] = fuel exhausted (never happens with
   [loop_fuel]: Proofs/C20.v, read_loop_total). *)
Fixpoint read_loop (fuel : nat) (n : Z) (f : fobj) (h : H) : option (ores (fobj * H)) :=
  match fuel with
  | O => None
  | S k =>
      match fread f n with
      | (f1, OOk chunk) =>
          if beq chunk [] then Some (OOk (f1, h))
          else read_loop k n f1 (rt_update rt h chunk)
      | (_, OErr e) => Some (OErr e)
      | (_, OExn x) => Some (OExn x)
      end
  end.

(* the chunks the loop feeds to the hash, as a list (for the statements of the theorems) *)
Fixpoint read_chunks (fuel : nat) (n : Z) (f : fobj) : list bytes :=
  match fuel with
  | O => []
  | S k =>
      match fread f n with
      | (f1, OOk chunk) => if beq chunk [] then [] else chunk :: read_chunks k n f1
      | _ => []
      end
  end.

(* checksum = hashlib.new(algorithm)     (first: an unknown algorithm wins over a missing file)
   with open(path, 'rb') as f: <loop>
   return checksum.hexdigest()
   [None] only if the loop ran out of fuel. *)
Definition compute_file_checksum (path : bytes) (read_chunksize : Z) (algorithm : bytes) (w : W)
  : option (ores bytes) :=
  match rt_hash_new rt algorithm with
  | OErr e => Some (OErr e)
  | OExn x => Some (OExn x)
  | OOk h0 =>
      match rt_open_rb rt path w with
      | OErr e => Some (OErr e)
      | OExn x => Some (OExn x)
      | OOk data =>
          match read_loop (loop_fuel (fopen data)) read_chunksize (fopen data) h0 with
          | None => None
          | Some (OOk (_, h)) => Some (rt_hexdigest rt h)
          | Some (OErr e) => Some (OErr e)
          | Some (OExn x) => Some (OExn x)
          end
      end
  end.

(* unread_bytes = fp.tell(); return (fp.read(), unread_bytes) *)
Definition tell_and_read (fp : fobj) : ores (bytes * Z) :=
  let unread := ftell fp in
  match fread fp (-1) with
  | (_, OOk d) => OOk (d, unread)
  | (_, OErr e) => OErr e
  | (_, OExn x) => OExn x
  end.

(* with open(path, 'rb') as fp:
       try: fp.seek(-num, os.SEEK_END)
       except OSError as e:
           if e.errno == errno.EINVAL: fp.seek(0, os.SEEK_SET)  else: raise
       unread_bytes = fp.tell(); return (fp.read(), unread_bytes) *)
Definition last_bytes (path : bytes) (num : Z) (w : W) : ores (bytes * Z) :=
  match rt_open_rb rt path w with
  | OErr e => OErr e
  | OExn x => OExn x
  | OOk data =>
      match fseek (fopen data) (- num) os_SEEK_END with
      | (fp, OOk _) => tell_and_read fp
      | (fp, OErr e) =>
          if os_errno e =? errno_EINVAL then
            match fseek fp 0 os_SEEK_SET with
            | (fp2, OOk _) => tell_and_read fp2
            | (_, OErr e2) => OErr e2
            | (_, OExn x) => OExn x
            end
          else OErr e
      | (_, OExn x) => OExn x
      end
  end.

End C20Model.
