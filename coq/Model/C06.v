(* Model/C06.v — the C06 instantiation used by the correspondence check: the generic
   wrapper (Model/Wrap.v, shape and tables regenerated from /repo) over SCRIPTED
   inspectors that replay, call by call, what the real inspectors did in one real run
   (raised?, complete, format_match after the call).  So the wrapper logic alone is
   compared with the implementation.  Definitions only. *)
From Coq Require Import String.
Require Import OV.Base.Bytes OV.Base.Py OV.Base.PyInt OV.Base.Str OV.Base.IO OV.Base.C06_WrapShape.
Require Import OV.Gen.C06_Wrapper OV.Model.Wrap.
Open Scope N_scope.

(* checksum of a chunk (same function in tools/props/C06.py) *)
Fixpoint cksum_aux (b : bytes) (s1 s2 : N) : N :=
  match b with
  | [] => s1 + 257 * s2
  | x :: [] => s1 + x + 257 * s2
  | x :: y :: t => cksum_aux t (s1 + x + y) (s2 + y)
  end.
Definition cksum (b : bytes) : N := cksum_aux b 0 0.

(* one recorded call on a real inspector *)
Inductive sev :=
| SEat (e : option exn) (c m : bool) (len ck : N)   (* eat_chunk: raised e; complete/format_match afterwards; the chunk it was given *)
| SFin (c m : bool).                                 (* finish(); complete/format_match afterwards *)

Record sinsp := {
  si_evs : list sev;          (* what is left of the recording *)
  si_complete : bool; si_match : bool;
  si_eats : N; si_fins : N;   (* calls made by the model's wrapper *)
  si_desync : bool            (* the model made a call the real run did not make (or with another chunk) *)
}.

Definition s_eat (i : sinsp) (chunk : bytes) : sinsp * option exn :=
  match si_evs i with
  | SEat e c m len ck :: rest =>
    ({| si_evs := rest; si_complete := c; si_match := m; si_eats := si_eats i + 1; si_fins := si_fins i;
        si_desync := si_desync i || negb ((len =? blen chunk) && (ck =? cksum chunk)) |}, e)
  | _ =>
    ({| si_evs := si_evs i; si_complete := si_complete i; si_match := si_match i; si_eats := si_eats i + 1;
        si_fins := si_fins i; si_desync := true |}, None)
  end.

Definition s_finish (i : sinsp) : sinsp :=
  match si_evs i with
  | SFin c m :: rest =>
    {| si_evs := rest; si_complete := c; si_match := m; si_eats := si_eats i; si_fins := si_fins i + 1;
       si_desync := si_desync i |}
  | _ =>
    {| si_evs := si_evs i; si_complete := si_complete i; si_match := si_match i; si_eats := si_eats i;
       si_fins := si_fins i + 1; si_desync := true |}
  end.

(* ---- the instantiated wrapper *)
Definition swrapper := wrapper sinsp.
Definition sw_step := w_step sinsp s_eat s_finish si_complete si_match gen_shape.
Definition sw_read := w_read sinsp s_eat s_finish si_complete si_match gen_shape.
Definition sw_next := w_next sinsp s_eat s_finish si_complete si_match gen_shape.
Definition sw_formats := formats sinsp si_complete si_match raw_lit_nonraw raw_lit_raw.
Definition sw_format := format sinsp si_complete si_match raw_lit_nonraw raw_lit_raw.
Definition sw_detect := detect_file_format sinsp s_eat s_finish si_complete si_match gen_shape raw_lit_nonraw raw_lit_raw.

(* ---- decoding the driver arguments *)
Definition exn_table : list exn :=
  [ImageFormatError; SafetyViolation; SafetyCheckFailed; StructError; KeyError; AttributeError; IndexError;
   ValueError; TypeError; RuntimeError; UnicodeDecodeError; OverflowError; StopIteration; OSError; OtherError].
Definition exn_of_code (n : N) : option exn :=
  match n with 0 => None | _ => Some (nth (N.to_nat n - 1) exn_table OtherError) end.
Definition nb (n : N) : bool := negb (n =? 0).

(* script = c0 m0 then six numbers per call: kind(1 eat,2 finish) exn complete match len cksum *)
Fixpoint parse_evs (fuel : nat) (l : list N) : list sev :=
  match fuel with
  | O => []
  | S k =>
    match l with
    | kind :: e :: c :: m :: len :: ck :: rest =>
      (if kind =? 1 then SEat (exn_of_code e) (nb c) (nb m) len ck else SFin (nb c) (nb m)) :: parse_evs k rest
    | _ => []
    end
  end.
Definition parse_script (l : list N) : sinsp :=
  match l with
  | c0 :: m0 :: rest =>
    {| si_evs := parse_evs (length rest) rest; si_complete := nb c0; si_match := nb m0; si_eats := 0; si_fins := 0; si_desync := false |}
  | _ => {| si_evs := []; si_complete := false; si_match := false; si_eats := 0; si_fins := 0; si_desync := true |}
  end.

(* "N" = None; "L,a,b" = ['a','b']; "L" = [] *)
Definition parse_names (b : bytes) : list str := tl (split_char 44 b).
Definition parse_allowed (b : bytes) : list str := match b with 76 :: t => parse_names t | _ => [] end.
Definition parse_expected (b : bytes) : option str := match b with 83 :: t => Some t | _ => None end.

Fixpoint index_of (k : str) (l : list str) (i : nat) : option nat :=
  match l with [] => None | x :: t => if beq k x then Some i else index_of k t (S i) end.

Fixpoint split_lens (data : bytes) (lens : list N) : list bytes :=
  match lens with [] => [] | n :: t => btake n data :: split_lens (bskip n data) t end.

(* the set order observed in the real run, as a rearrangement of the model's slots *)
Fixpoint pick_slots {A} (slots : list (slot A)) (order : list str) : option (list (slot A)) :=
  match order with
  | [] => Some []
  | nm :: t =>
    match List.find (fun s => beq (s_name s) nm) slots, pick_slots slots t with
    | Some s, Some r => Some (s :: r)
    | _, _ => None
    end
  end.
Fixpoint nodupb (l : list str) : bool :=
  match l with [] => true | x :: t => negb (existsb (beq x) t) && nodupb t end.

(* ---- printing *)
Definition sep (c : string) : bytes := lit c.
Definition out_output (o : output) : bytes :=
  match o with
  | OutChunk c => lit "B" ++ out_N (blen c) ++ lit "." ++ out_N (cksum c)
  | OutExn e => lit "E" ++ exn_name e
  | OutNone => lit "N"
  end.
(* number of entries, then their names in ALL_FORMATS order (the order inside the Python list depends on set iteration) *)
Definition out_names (l : list (slot sinsp)) : bytes :=
  out_N (N.of_nat (length l)) ++ lit ":" ++
  join (lit "+") (filter (fun nm => existsb (fun s => beq (s_name s) nm) l) (map fst all_formats)).
Definition out_state (w : swrapper) : bytes :=
  join (lit ",") (map (fun s => out_N (si_eats (s_insp s))) (w_slots w)) ++ lit "|" ++
  join (lit ",") (map (fun s => out_N (si_fins (s_insp s))) (w_slots w)) ++ lit "|" ++
  join (lit ",") (map (fun s => out_bool (s_err s)) (w_slots w)) ++ lit "|" ++
  out_opt out_names (sw_formats w) ++ lit "|" ++
  out_res (out_opt (fun s => s_name s)) (sw_format w) ++
  (if existsb (fun s => si_desync (s_insp s)) (w_slots w) then lit "|DESYNC" else []).

Definition sw_read_on := w_read_on sinsp s_eat s_finish si_complete si_match gen_shape.
Definition sw_next_on := w_next_on sinsp s_eat s_finish si_complete si_match gen_shape.

(* file-like (with a schedule of transient read() faults), list iterator / generator, scripted iterator
   (transient errors, StopIteration in the middle of a resumable source) *)
Inductive source := SrcF (s : ffsrc) | SrcI (s : isrc) | SrcS (s : ssrc).
Definition out_pos (s : source) : bytes :=
  match s with
  | SrcF f => out_N (f_pos (ff_src f))
  | SrcI i => out_N (N.of_nat (length (i_chunks i)))       (* chunks LEFT in the iterator *)
  | SrcS i => out_N (N.of_nat (length (ss_items i)))       (* answers LEFT in the script *)
  end.

(* op codes: 0 next, 1 close, 9 read(-1), 10+n read(n)   (2 = a for loop, see do_ops) *)
Definition do_op (w : swrapper) (s : source) (op : N) : swrapper * source * output :=
  match s with
  | SrcF f =>
    if op =? 1 then (finish_all sinsp s_finish w, SrcF (ff_close f), OutNone)
    else if op =? 0 then (w, s, OutExn OtherError)
    else let size := if op =? 9 then (-1)%Z else (Z.of_N op - 10)%Z in
         let '(w', f', _, _, o) := sw_read_on ffsrc ff_read w f size in (w', SrcF f', o)
  | SrcI i =>
    if op =? 1 then let (w', i') := w_close_i sinsp s_finish w i in (w', SrcI i', OutNone)
    else if op =? 0 then let '(w', i', _, _, o) := sw_next w i in (w', SrcI i', o)
    else (w, s, OutExn OtherError)
  | SrcS i =>
    if op =? 1 then (finish_all sinsp s_finish w, s, OutNone)           (* no close() on this source *)
    else if op =? 0 then let '(w', i', _, _, o) := sw_next_on ssrc ss_next w i in (w', SrcS i', o)
    else (w, s, OutExn OtherError)
  end.

Definition out_entry (o : output) (w : swrapper) (s : source) : bytes :=
  out_output o ++ lit "@" ++ out_pos s ++ lit "|" ++ out_state w.

(* [for chunk in wrapper]: iter(wrapper) is the wrapper itself; next() until the first exception *)
Fixpoint do_for (fuel : nat) (w : swrapper) (s : source) : swrapper * source * list bytes :=
  match fuel with
  | O => (w, s, [])
  | S k =>
    let '(w', s', o) := do_op w s 0 in
    match o with
    | OutChunk _ => let '(w2, s2, l) := do_for k w' s' in (w2, s2, out_entry o w' s' :: l)
    | _ => (w', s', [out_entry o w' s'])
    end
  end.
Definition left_in (s : source) : nat :=
  match s with SrcF _ => 0 | SrcI i => length (i_chunks i) | SrcS i => length (ss_items i) end.

Fixpoint do_ops (w : swrapper) (s : source) (ops : list N) : list bytes :=
  match ops with
  | [] => []
  | op :: rest =>
    if op =? 2 then let '(w', s', l) := do_for (S (left_in s)) w s in l ++ do_ops w' s' rest
    else let '(w', s', o) := do_op w s op in out_entry o w' s' :: do_ops w' s' rest
  end.

(* scripted iterator: 0 = the next chunk, 1000 = StopIteration (the source resumes afterwards), k = exception k raised once *)
Fixpoint build_items (chunks : list bytes) (codes : list N) : list (res bytes) :=
  match codes with
  | [] => []
  | c :: t =>
    if c =? 0 then match chunks with x :: r => Ok x :: build_items r t | [] => build_items [] t end
    else if c =? 1000 then Exn StopIteration :: build_items chunks t
    else Exn (nth (N.to_nat c - 1) exn_table OtherError) :: build_items chunks t
  end.

(* args: "sess" kind expected allowed order data lens ops source-script script_0 ... (scripts in the observed order)
         "detect" order data script_0 ...                                                              *)
Definition factory_of (order : list str) (scripts : list (list N)) : list (str * sinsp) :=
  map (fun p => (fst p, match index_of (fst p) order 0 with
                        | Some k => parse_script (nth k scripts [])
                        | None => parse_script []
                        end)) all_formats.

Definition run (args : list bytes) : bytes :=
  let op := nth_arg args 0 in
  if is_op "sess" op then
    let kind := nth_arg args 1 in
    let expected := parse_expected (nth_arg args 2) in
    let allowed := parse_allowed (nth_arg args 3) in
    let order := parse_names (nth_arg args 4) in
    let data := nth_arg args 5 in
    let lens := nth_arg args 6 in
    let ops := nth_arg args 7 in
    let sscript := nth_arg args 8 in
    let scripts := skipn 9 args in
    let w0 := mk_wrapper sinsp (factory_of order scripts) expected allowed in
    match pick_slots (w_slots w0) order with
    | Some ss =>
      if negb (Nat.eqb (length ss) (length (w_slots w0)) && nodupb order) then lit "BADSET" else
      let w := with_slots sinsp w0 ss in
      let s := if is_op "f" kind then SrcF {| ff_src := {| f_data := data; f_pos := 0; f_closed := false |}; ff_faults := map exn_of_code sscript |}
               else if is_op "r" kind then SrcS {| ss_items := build_items (split_lens data lens) sscript |}
               else SrcI {| i_chunks := split_lens data lens; i_has_close := is_op "g" kind |} in
      out_state w ++ lit ";" ++ join (lit ";") (do_ops w s ops)
    | None => lit "BADSET"
    end
  else if is_op "detect" op then
    let order := parse_names (nth_arg args 1) in
    let data := nth_arg args 2 in
    let scripts := skipn 3 args in
    let '(w, s, _, r) := sw_detect detect_chunk_size (factory_of order scripts) data in
    out_res (out_opt (fun nm => nm)) r ++ lit "@" ++ out_N (f_pos s) ++ lit "|" ++ out_bool (f_closed s) ++ lit "|" ++ out_state w
  else lit "BADOP".
