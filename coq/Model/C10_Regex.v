(* Model/C10_Regex.v — re.match for a pattern `body\Z`.  Base/Regex.v has `$` but no end-of-string
   anchor; the translator splits a trailing \Z off the pattern into a flag, and the body is run with
   the continuation "the rest of the subject is empty" — what body\Z means under backtracking
   (an alternative that leaves text behind is rejected and the matcher backtracks). *)
Require Import OV.Base.Bytes OV.Base.PyInt OV.Base.Regex.
Open Scope N_scope.

Definition re_match_end (r : re) (eos : bool) (s : str) : option (N * groups) :=
  m _ r s 0 [] (fun s' p' g' => if eos then match s' with [] => Some (p', g') | _ => None end else Some (p', g')).

(* the (regex, flag) pairs of Gen/C10_Units.v *)
Definition rz_match (rz : re * bool) (s : str) : option (N * groups) := re_match_end (fst rz) (snd rz) s.
Definition rz_matchb (rz : re * bool) (s : str) : bool :=
  match rz_match rz s with Some _ => true | None => false end.
