(* GENERATED from oslo_utils/timeutils.py by tools/gen/gen_C12.py on every run. Do not edit. *)

From Coq Require Import String.
Require Import OV.Base.Bytes OV.Base.Py.
Require Import OV.Model.C12_Calendar OV.Model.C12_Prim.
Open Scope Z_scope.

Definition gen_MAX_DATETIME_SEC : Z := (59).

(* iso8601.parse_date; ParseError (a ValueError) and TypeError are re-raised as ValueError *)
Definition gen_parse_isotime (v_timestr : str) : M dt :=
  fun w => match lib_parse w v_timestr with
           | Ok d => (Ok d, w)
           | Exn TypeError => (Exn ValueError, w)
           | Exn e => (Exn e, w)
           end.

Definition gen_normalize_time (v_timestamp : dt) : M dt :=
  (let v_offset := (dt_utcoffset v_timestamp) in (match v_offset with None => (ret v_timestamp) | Some v_offset => (lift (dt_sub_td (dt_replace_tz_none v_timestamp) v_offset)) end)).

(* a true override wins: a non-empty list is popped from the front, a datetime (no .pop) is returned as is *)
Definition gen_utcnow (v_with_timezone : bool) : M dt :=
  fun w => match ov w with
           | One t => (Ok t, w)
           | Many (t :: r) => (Ok t, set_ov w (Many r))
           | Many [] | NoOv => real_now v_with_timezone w
           end.

Definition gen_is_older_than (v_before : targ) (v_seconds : pynum) : M bool :=
  (match v_before with TStr v_before => (bindM (gen_parse_isotime v_before) (fun v_before => (bindM (gen_normalize_time v_before) (fun v_before => (bindM (bindM (gen_utcnow false) (fun t1_ => (lift (dt_sub t1_ v_before)))) (fun t2_ => (bindM (lift (td_of_seconds v_seconds)) (fun t3_ => (ret (z_cmp CGt t2_ t3_)))))))))) | TDt v_before => (bindM (gen_normalize_time v_before) (fun v_before => (bindM (bindM (gen_utcnow false) (fun t4_ => (lift (dt_sub t4_ v_before)))) (fun t5_ => (bindM (lift (td_of_seconds v_seconds)) (fun t6_ => (ret (z_cmp CGt t5_ t6_)))))))) end).

Definition gen_is_newer_than (v_after : targ) (v_seconds : pynum) : M bool :=
  (match v_after with TStr v_after => (bindM (gen_parse_isotime v_after) (fun v_after => (bindM (gen_normalize_time v_after) (fun v_after => (bindM (bindM (gen_utcnow false) (fun t1_ => (lift (dt_sub v_after t1_)))) (fun t2_ => (bindM (lift (td_of_seconds v_seconds)) (fun t3_ => (ret (z_cmp CGt t2_ t3_)))))))))) | TDt v_after => (bindM (gen_normalize_time v_after) (fun v_after => (bindM (bindM (gen_utcnow false) (fun t4_ => (lift (dt_sub v_after t4_)))) (fun t5_ => (bindM (lift (td_of_seconds v_seconds)) (fun t6_ => (ret (z_cmp CGt t5_ t6_)))))))) end).

Definition gen_utcnow_ts (v_microsecond : bool) : M fexp :=
  (bindM (bindM get_ov (fun t1_ => (ret (ov_is_none t1_)))) (fun t2_ => if t2_ then (let v_timestamp := FTime in (if (negb v_microsecond) then (let v_timestamp := (FTrunc v_timestamp) in (ret v_timestamp)) else (ret v_timestamp))) else (bindM (gen_utcnow false) (fun v_now => (let v_timestamp := (timegm_of v_now) in (if v_microsecond then (let v_timestamp := (FAdd (FInt v_timestamp) (FDiv (FInt (dt_microsecond v_now)) (FInt (1000000)))) in (ret v_timestamp)) else (ret (FInt v_timestamp)))))))).

(* [override_time or <OS clock, naive>]: None and the empty list are false *)
Definition gen_set_time_override (v_override_time : override) : M unit :=
  fun w => match v_override_time with
           | One t => put_ov (One t) w
           | Many (t :: r) => put_ov (Many (t :: r)) w
           | Many [] | NoOv => put_ov (One (naive (real w))) w
           end.

(* the for loop rebinds a local (a list override is left alone, each sum may overflow);
   a datetime is not iterable: TypeError, then override_time += timedelta *)
Definition gen_advance_time_delta (v_timedelta : Z) : M unit :=
  fun w => match ov w with
           | NoOv => (Exn OtherError, w)
           | Many l => if forallb (fun t => in_range (wall t + v_timedelta)) l then (Ok tt, w) else (Exn OverflowError, w)
           | One t => match dt_add_td t v_timedelta with
                      | Ok t' => put_ov (One t') w
                      | Exn e => (Exn e, w)
                      end
           end.

Definition gen_advance_time_seconds (v_seconds : pynum) : M unit :=
  (bindM (bindM (lift (td_of_days_seconds (0) v_seconds)) (fun t1_ => (gen_advance_time_delta t1_))) (fun _ => (ret tt))).

Definition gen_clear_time_override : M unit :=
  (bindM (put_ov NoOv) (fun _ => (ret tt))).

Definition gen_marshall_now (v_now : option dt) : M mrec :=
  (match v_now with None => (bindM (gen_utcnow false) (fun v_now => (let v_d := {| m_day := (dt_day v_now); m_month := (dt_month v_now); m_year := (dt_year v_now); m_hour := (dt_hour v_now); m_minute := (dt_minute v_now); m_second := (dt_second v_now); m_microsecond := (dt_microsecond v_now); m_tzname := None |} in (if (dt_has_tzinfo v_now) then (let v_tzname := (dt_tzname_none v_now) in (let v_d := mrec_set_tzname v_d (if (optstr_eq_str v_tzname ([85;84;67;43;48;48;58;48;48]%N : str)) then (Some ([85;84;67]%N : str)) else v_tzname) in (ret v_d))) else (ret v_d))))) | Some v_now => (let v_d := {| m_day := (dt_day v_now); m_month := (dt_month v_now); m_year := (dt_year v_now); m_hour := (dt_hour v_now); m_minute := (dt_minute v_now); m_second := (dt_second v_now); m_microsecond := (dt_microsecond v_now); m_tzname := None |} in (if (dt_has_tzinfo v_now) then (let v_tzname := (dt_tzname_none v_now) in (let v_d := mrec_set_tzname v_d (if (optstr_eq_str v_tzname ([85;84;67;43;48;48;58;48;48]%N : str)) then (Some ([85;84;67]%N : str)) else v_tzname) in (ret v_d))) else (ret v_d))) end).

Definition gen_unmarshall_time (v_tyme : mrec) : M dt :=
  (let v_second := (Z.min (m_second v_tyme) gen_MAX_DATETIME_SEC) in (bindM (lift (mk_datetime {| f_day := (m_day v_tyme); f_month := (m_month v_tyme); f_year := (m_year v_tyme); f_hour := (m_hour v_tyme); f_minute := (m_minute v_tyme); f_second := v_second; f_us := (m_microsecond v_tyme) |})) (fun v_dt => (let v_tzname := (mrec_get_tzname v_tyme) in (match optstr_truthy v_tzname with Some v_tzname => (let v_tzname := (if (beq v_tzname ([85;84;67;43;48;48;58;48;48]%N : str)) then ([85;84;67]%N : str) else v_tzname) in (bindM (call_zone v_tzname) (fun v_tzinfo => (let v_dt := (dt_replace_zone v_dt v_tzinfo) in (ret v_dt))))) | None => (ret v_dt) end))))).

Definition gen_delta_seconds (v_before : dt) (v_after : dt) : M fexp :=
  (bindM (lift (dt_sub v_after v_before)) (fun v_delta => (ret (td_total_seconds v_delta)))).

Definition gen_is_soon (v_dt : targ) (v_window : pynum) : M bool :=
  (match v_dt with TStr v_dt => (bindM (gen_parse_isotime v_dt) (fun v_dt => (bindM (bindM (gen_utcnow false) (fun t1_ => (bindM (lift (td_of_seconds v_window)) (fun t2_ => (lift (dt_add_td t1_ t2_)))))) (fun v_soon => (bindM (gen_normalize_time v_dt) (fun t3_ => (lift (dt_cmp CLe t3_ v_soon)))))))) | TDt v_dt => (bindM (bindM (gen_utcnow false) (fun t4_ => (bindM (lift (td_of_seconds v_window)) (fun t5_ => (lift (dt_add_td t4_ t5_)))))) (fun v_soon => (bindM (gen_normalize_time v_dt) (fun t6_ => (lift (dt_cmp CLe t6_ v_soon)))))) end).

(* oslo_utils.fixture.TimeFixture: setUp = set_time_override(the constructor argument) + clear_time_override registered as
   clean-up; the advance methods call the module functions (the fixture keeps no instant of its own) *)
Definition gen_fixture_setUp (v_override_time : override) : M unit := gen_set_time_override v_override_time.
Definition gen_fixture_cleanUp : M unit := gen_clear_time_override.
Definition gen_fixture_advance_time_delta (v_timedelta : Z) : M unit := gen_advance_time_delta v_timedelta.
Definition gen_fixture_advance_time_seconds (v_seconds : pynum) : M unit := gen_advance_time_seconds v_seconds.
