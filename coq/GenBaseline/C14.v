(* GENERATED from oslo_utils/strutils.py, oslo_utils/uuidutils.py by tools/gen/gen_C14.py on every run. Do not edit. *)

Require Import OV.Base.Bytes OV.Base.Py OV.Base.PyInt OV.Base.Str OV.Model.C14_Py.
Open Scope N_scope.
Definition TRUE_STRINGS : list str := [[49]; [116]; [116;114;117;101]; [111;110]; [121]; [121;101;115]].
Definition FALSE_STRINGS : list str := [[48]; [102]; [102;97;108;115;101]; [111;102;102]; [110]; [110;111]].
Fixpoint mem_str (x : str) (l : list str) : bool := match l with [] => false | y :: t => beq x y || mem_str x t end.
Open Scope Z_scope.
Definition gen_bool_from_string (lim : N) (v_subject : pyval) (v_strict : bool) (v_default : pyval) : res (pyval) :=
if (is_bool v_subject) then (
Ok (v_subject)) else (
match v_subject with PStr s_subject => (
let v_lowered := (py_lower (strip s_subject)) in
if (mem_str v_lowered TRUE_STRINGS) then (
Ok ((PBool true))) else (
if (mem_str v_lowered FALSE_STRINGS) then (
Ok ((PBool false))) else (
if v_strict then (
Exn (ValueError)) else (
Ok (v_default))))) | _ => (
match py_str lim v_subject with Exn e__ => Exn (e__) | Ok t1__ =>
let v_subject := t1__ in
let v_lowered := (py_lower (strip v_subject)) in
if (mem_str v_lowered TRUE_STRINGS) then (
Ok ((PBool true))) else (
if (mem_str v_lowered FALSE_STRINGS) then (
Ok ((PBool false))) else (
if v_strict then (
Exn (ValueError)) else (
Ok (v_default)))) end) end).

Definition gen_int_from_bool_as_string (lim : N) (v_subject : pyval) : res (Z) :=
match gen_bool_from_string lim v_subject false (PBool false) with Exn e__ => Exn (e__) | Ok t1__ =>
match py_int_of lim t1__ with Exn e__ => Exn (e__) | Ok t2__ =>
Ok (t2__) end end.

Definition gen_is_valid_boolstr (lim : N) (v_value : pyval) : res (bool) :=
let v_boolstrs := (TRUE_STRINGS ++ FALSE_STRINGS) in
match py_str lim v_value with Exn e__ => Exn (e__) | Ok t1__ =>
Ok ((mem_str (py_lower t1__) v_boolstrs)) end.

Definition gen_is_int_like (lim : N) (v_val : pyval) : res (bool) :=
let handle1__ := fun e__ : exn => if catches [TypeError; ValueError; OverflowError] e__ then (
Ok (false)) else Exn (e__) in
match py_int_of lim v_val with Exn e__ => (handle1__ e__) | Ok t1__ =>
match str_of_int lim t1__ with Exn e__ => (handle1__ e__) | Ok t2__ =>
match py_str lim v_val with Exn e__ => (handle1__ e__) | Ok t3__ =>
Ok ((beq t2__ t3__)) end end end.

Definition gen_check_string_length (lim : N) (v_value : pyval) (v_min_length : Z) (v_max_length : option Z) : res (unit) :=
match v_value with PStr s_value => (
let v_length := (zlen s_value) in
if (v_length <? v_min_length) then (
Exn (ValueError)) else (
if (match v_max_length with Some some_max_length => (negb (some_max_length =? 0) && (v_length >? some_max_length)) | None => false end) then (
Exn (ValueError)) else (
Ok (tt)))) | _ => (
Exn (TypeError)) end.

Definition gen_validate_integer (lim : N) (v_value : pyval) (v_min_value : option Z) (v_max_value : option Z) : res (Z) :=
let handle1__ := fun e__ : exn => if catches [ValueError] e__ then (
Exn (ValueError)) else Exn (e__) in
match py_str lim v_value with Exn e__ => (handle1__ e__) | Ok t1__ =>
match py_int_of lim (PStr t1__) with Exn e__ => (handle1__ e__) | Ok t2__ =>
let v_value := t2__ in
if (match v_min_value with Some some_min_value => (v_value <? some_min_value) | None => false end) then (
Exn (ValueError)) else (
if (match v_max_value with Some some_max_value => (v_value >? some_max_value) | None => false end) then (
Exn (ValueError)) else (
Ok (v_value))) end end.

Definition gen_format_uuid_string (lim : N) (v_string : bytes) : bytes :=
((py_lower (replace ([45]%N : bytes) ([]%N : bytes) (strip_chars ([123;125]%N : bytes) (replace ([117;117;105;100;58]%N : bytes) ([]%N : bytes) (replace ([117;114;110;58]%N : bytes) ([]%N : bytes) v_string)))))).

Definition gen_is_uuid_like (lim : N) (v_val : pyval) : res (bool) :=
let handle1__ := fun e__ : exn => if catches [TypeError; ValueError; AttributeError] e__ then (
Ok (false)) else Exn (e__) in
match uuid_UUID lim v_val with Exn e__ => (handle1__ e__) | Ok t1__ =>
match need_str v_val with Exn e__ => (handle1__ e__) | Ok t2__ =>
Ok ((beq (replace ([45]%N : bytes) ([]%N : bytes) (uuid_str t1__)) (gen_format_uuid_string lim t2__))) end end.

Definition gen_generate_uuid (lim : N) (u4 : N) (v_dashed : bool) : bytes :=
if v_dashed then (
((uuid_str u4))) else (
((uuid_hex u4))).

