(* GENERATED from site-packages/iso8601/iso8601.py (ISO8601_REGEX) by tools/gen/gen_C12.py on every run. Do not edit. *)

Require Import OV.Base.Bytes OV.Base.Regex.
Open Scope N_scope.

Definition iso8601_re : re := (Seq (Group 1%nat (Rep [(48,57)] 4%nat (Some 4%nat))) (Seq (Opt (Group 2%nat (Seq (Group 3%nat (Alt (Group 4%nat (Seq (Chr [(45,45)]) (Group 5%nat (Rep [(48,57)] 1%nat (Some 2%nat))))) (Group 6%nat (Rep [(48,57)] 2%nat (Some 2%nat))))) (Opt (Group 7%nat (Seq (Group 8%nat (Alt (Group 9%nat (Seq (Chr [(45,45)]) (Group 10%nat (Rep [(48,57)] 1%nat (Some 2%nat))))) (Group 11%nat (Rep [(48,57)] 2%nat (Some 2%nat))))) (Group 12%nat (Opt (Group 13%nat (Seq (Group 14%nat (Chr [(32,32);(84,84)])) (Seq (Group 15%nat (Rep [(48,57)] 2%nat (Some 2%nat))) (Seq (Opt (Group 16%nat (Seq (Rep [(58,58)] 0%nat (Some 1%nat)) (Group 17%nat (Rep [(48,57)] 2%nat (Some 2%nat)))))) (Seq (Opt (Group 18%nat (Seq (Rep [(58,58)] 0%nat (Some 1%nat)) (Seq (Group 19%nat (Rep [(48,57)] 1%nat (Some 2%nat))) (Opt (Group 20%nat (Seq (Chr [(44,44);(46,46)]) (Group 21%nat (Rep [(48,57)] 1%nat None))))))))) (Opt (Group 22%nat (Alt (Chr [(90,90)]) (Group 23%nat (Seq (Group 24%nat (Chr [(43,43);(45,45)])) (Seq (Group 25%nat (Rep [(48,57)] 2%nat (Some 2%nat))) (Seq (Rep [(58,58)] 0%nat (Some 1%nat)) (Opt (Group 26%nat (Rep [(48,57)] 2%nat (Some 2%nat)))))))))))))))))))))))) Eol)).

Definition ig_year : nat := 1%nat.
Definition ig_monthdash : nat := 5%nat.
Definition ig_month : nat := 6%nat.
Definition ig_daydash : nat := 10%nat.
Definition ig_day : nat := 11%nat.
Definition ig_separator : nat := 14%nat.
Definition ig_hour : nat := 15%nat.
Definition ig_minute : nat := 17%nat.
Definition ig_second : nat := 19%nat.
Definition ig_second_fraction : nat := 21%nat.
Definition ig_timezone : nat := 22%nat.
Definition ig_tz_sign : nat := 24%nat.
Definition ig_tz_hour : nat := 25%nat.
Definition ig_tz_minute : nat := 26%nat.
