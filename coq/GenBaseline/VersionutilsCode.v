(* GENERATED from oslo_utils/versionutils.py by tools/gen/gen_versionutils.py (py2gal) on every run. Do not edit. *)
Require Import OV.Base.Bytes OV.Base.Py OV.Base.PyInt OV.Base.Str.
Open Scope Z_scope.
Fixpoint gen_convert_version_to_str_loop1 (fuel_ : nat) (factor : Z) (version_numbers : list bytes) (version_int : Z) {struct fuel_} : option (list bytes * Z) :=
  match fuel_ with O => None | S fuel__ =>
  if (negb (version_int =? (0))) then (
let version_number := (version_int - ((version_int / factor) * factor)) in
let version_numbers := ((dec_of_Z version_number) :: version_numbers) in
let version_int := (version_int / factor) in
gen_convert_version_to_str_loop1 fuel__ factor version_numbers version_int) else Some (version_numbers, version_int) end.
Definition gen_convert_version_to_str (fuel : nat) (version_int : Z) : res (bytes) :=
let version_numbers := (@nil bytes) in
let factor := (1000) in
match gen_convert_version_to_str_loop1 (fuel) factor version_numbers version_int with None => Exn (OtherError) | Some (version_numbers, version_int) =>
Ok ((join [46%N] version_numbers)) end.
