(* GENERATED from oslo_utils/imageutils/cli.py by tools/gen/gen_C02_cli.py on every run. Do not edit. *)
Require Import OV.Base.Bytes OV.Model.C02_Cli.
Open Scope Z_scope.
Definition cli_main : list cstmt := [
  S_if C_badpath [B_pure; B_exit (1)];
  S_detect;
  S_simple (B_set_safe true);
  S_try_safety [X_SafetyCheckFailed] [B_set_safe false; B_pure; B_pure];
  S_vsize;
  S_simple (B_pure);
  S_simple (B_pure);
  S_if C_verbose [B_pure; B_pure; B_pure; B_pure; B_pure];
  S_if C_safe [B_exit (0)];
  S_if C_verbose [B_pure];
  S_simple (B_exit (1))
].
