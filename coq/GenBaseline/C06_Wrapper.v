(* GENERATED from oslo_utils/imageutils/format_inspector.py by tools/gen/gen_C06.py on every run. Do not edit. *)

Require Import OV.Base.Bytes OV.Base.C06_WrapShape.
Open Scope N_scope.
(* ALL_FORMATS: (key, class NAME), dict order *)
Definition all_formats : list (str * str) :=
  [([114;97;119], [114;97;119]) (* raw *);
   ([113;99;111;119;50], [113;99;111;119;50]) (* qcow2 *);
   ([118;104;100], [118;104;100]) (* vhd *);
   ([118;104;100;120], [118;104;100;120]) (* vhdx *);
   ([118;109;100;107], [118;109;100;107]) (* vmdk *);
   ([118;100;105], [118;100;105]) (* vdi *);
   ([113;101;100], [113;101;100]) (* qed *);
   ([105;115;111], [105;115;111]) (* iso *);
   ([103;112;116], [103;112;116]) (* gpt *);
   ([108;117;107;115], [108;117;107;115]) (* luks *)].
(* InspectWrapper._process_chunk *)
Definition gen_shape : pc_shape :=
  {| sh_skip_errored := true; sh_reraise := RrNameEq; sh_add_errored := true;
     sh_else := [CjNameEq; CjComplete; CjNotMatch] |}.
(* InspectWrapper.formats: i.NAME != 'raw' ; str(x) == 'raw' *)
Definition raw_lit_nonraw : str := [114;97;119].
Definition raw_lit_raw : str := [114;97;119].
(* detect_file_format: _chunked_reader(wrapper, 4096) *)
Definition detect_chunk_size : Z := 4096%Z.
