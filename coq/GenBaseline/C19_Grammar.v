(* GENERATED from oslo_utils/strutils.py (split_by_commas) and the installed pyparsing by tools/gen/gen_C19.py on every run. Do not edit. *)

Require Import OV.Base.Bytes.
Open Scope N_scope.
Definition quote_char : N := 34.
Definition esc_char : N := 92.
Definition delim_char : N := 44.
Definition word_chars : list N := [33;35;36;37;38;39;40;41;42;43;45;46;47;48;49;50;51;52;53;54;55;56;57;58;59;60;61;62;63;64;65;66;67;68;69;70;71;72;73;74;75;76;77;78;79;80;81;82;83;84;85;86;87;88;89;90;91;92;93;94;95;96;97;98;99;100;101;102;103;104;105;106;107;108;109;110;111;112;113;114;115;116;117;118;119;120;121;122;123;124;125;126].
Definition white_chars : list N := [9;10;13;32].
