(* GENERATED from oslo_utils/imageutils/format_inspector.py by tools/gen/gen_C06_code.py (statement-level translation) on every run. Do not edit. *)

Require Import OV.Base.Bytes OV.Base.Py OV.Model.Wrap OV.Model.C06_CodeLib.
Open Scope N_scope.

Section C06Code.
Variable I : Type.
Variable eat : I -> bytes -> I * option exn.
Variable finish : I -> I.
Variable complete : I -> bool.
Variable fmatch : I -> bool.
(* the source object: read(size), next(), hasattr(.., "close"), close() *)
Variable Src : Type.
Variable src_read : Src -> Z -> Src * res bytes.
Variable src_next : Src -> Src * res bytes.
Variable src_has_close : Src -> bool.
Variable src_close : Src -> Src.
(* open(filename, "rb") on a file with the given content; ALL_FORMATS.items() with v() instantiated *)
Variable src_open : bytes -> Src.
Variable factory : list (str * I).

Fixpoint gen_process_chunk_loop1 (w : wrapper I) (v_chunk : bytes) (l__ : list (slot I)) {struct l__} : list (slot I) * outcome (unit) :=
  match l__ with
  | [] => ([], Normal)
  | v_inspector :: rest__ =>
    if (negb (s_err v_inspector)) then (
    let '(v_inspector, o__) := (let '(i__, oe__) := eat (s_insp v_inspector) v_chunk in
let v_inspector := slot_set_insp I v_inspector i__ in
match oe__ with Some e__h => let '(v_inspector, o__) := (if (name_is (s_name v_inspector) (w_expected w)) then (v_inspector, Raise e__h) else (v_inspector, Normal)) in
match o__ with Normal => let '(v_inspector, o__) := (if (negb (truthy_optstr (w_expected w))) then (v_inspector, Normal) else (v_inspector, Normal)) in
match o__ with Normal => let v_inspector := slot_set_err I v_inspector in
(v_inspector, Normal) | _ => (v_inspector, o__) end | _ => (v_inspector, o__) end | None => (if (((name_is (s_name v_inspector) (w_expected w)) && (complete (s_insp v_inspector))) && (negb (fmatch (s_insp v_inspector)))) then (v_inspector, Raise ImageFormatError) else (v_inspector, Normal)) end) in
    match o__ with
    | Normal | Continue => let '(rest__, o__) := gen_process_chunk_loop1 w v_chunk rest__ in (v_inspector :: rest__, o__)
    | Break => (v_inspector :: rest__, Normal)
    | _ => (v_inspector :: rest__, o__)
    end)
    else let '(rest__, o__) := gen_process_chunk_loop1 w v_chunk rest__ in (v_inspector :: rest__, o__)
  end.
Definition gen_process_chunk (w : wrapper I) (v_chunk : bytes) : wrapper I * res (unit) :=
  let '(w, o__) := ((let '(l__, o__) := gen_process_chunk_loop1 w v_chunk (w_slots w) in
let w := with_slots I w l__ in (w, o__))) in (w, call_res tt o__).

Fixpoint gen_finish_loop1 (w : wrapper I) (l__ : list (slot I)) {struct l__} : list (slot I) * outcome (unit) :=
  match l__ with
  | [] => ([], Normal)
  | v_inspector :: rest__ =>
    let '(v_inspector, o__) := (let v_inspector := slot_set_insp I v_inspector (finish (s_insp v_inspector)) in
(v_inspector, Normal)) in
    match o__ with
    | Normal | Continue => let '(rest__, o__) := gen_finish_loop1 w rest__ in (v_inspector :: rest__, o__)
    | Break => (v_inspector :: rest__, Normal)
    | _ => (v_inspector :: rest__, o__)
    end
  end.
Definition gen_finish (w : wrapper I) : wrapper I * res (unit) :=
  let '(w, o__) := (let '(w, o__) := (let '(l__, o__) := gen_finish_loop1 w (w_slots w) in
let w := with_slots I w l__ in (w, o__)) in
match o__ with Normal => let w := w_set_finished I w true in
(w, Normal) | _ => (w, o__) end) in (w, call_res tt o__).

Definition gen_formats (w : wrapper I) : res (option (list (slot I))) :=
  let '(w, o__) := (let v_non_raw := (filter (fun v_i => (negb (beq (s_name v_i) ([114;97;119] : str)))) (w_slots w)) in
let v_complete := (forallb (fun b__ => b__) (map (fun v_i => (complete (s_insp v_i))) v_non_raw)) in
let v_matches := (filter (fun v_i => (fmatch (s_insp v_i))) v_non_raw) in
let '(w, o__) := (if ((negb v_complete) && (negb (w_finished w))) then (w, Return None) else (w, Normal)) in
match o__ with Normal => let '(w, o__) := (if (negb (negb (is_nil v_matches))) then (let '(w, o__) := (w, Return (Some (filter (fun v_x => (beq (s_name v_x) ([114;97;119] : str))) (w_slots w)))) in
match o__ with Raise e__h => match e__h with IndexError => (w, Raise ImageFormatError) | _ => (w, Raise e__h) end | Normal => (w, Normal) | _ => (w, o__) end) else (w, Normal)) in
match o__ with Normal => (w, Return (Some v_matches)) | _ => (w, o__) end | _ => (w, o__) end) in call_res None o__.

Definition gen_format (w : wrapper I) : res (option (slot I)) :=
  let '(w, o__) := (let r__ := gen_formats w in
match r__ with Exn e__ => (w, Raise e__) | Ok v_matches => match v_matches with None => (w, Return None) | Some v_matches => (if (1 <? (length v_matches))%nat then (w, Raise ImageFormatError) else (let '(w, o__) := match v_matches with x__ :: _ => (w, Return (Some x__)) | [] => (w, Raise IndexError) end in
match o__ with Raise e__h => match e__h with IndexError => (w, Raise ImageFormatError) | _ => (w, Raise e__h) end | Normal => (w, Normal) | _ => (w, o__) end)) end end) in call_res None o__.

Definition gen_read (w : wrapper I) (s : Src) (v_size : Z) : wrapper I * Src * res (bytes) :=
  let '(w, s, o__) := (let '(s, r__) := src_read s v_size in
match r__ with Exn e__ => (w, s, Raise e__) | Ok v_chunk => let '(w, r__) := gen_process_chunk w v_chunk in
match r__ with Exn e__ => (w, s, Raise e__) | Ok _ => (w, s, Return v_chunk) end end) in (w, s, call_res [] o__).

Definition gen_next (w : wrapper I) (s : Src) : wrapper I * Src * res (bytes) :=
  let '(w, s, o__) := (let '(s, r__) := src_next s in
match r__ with Exn e__h => match e__h with StopIteration => let '(w, r__) := gen_finish w in
match r__ with Exn e__ => (w, s, Raise e__) | Ok _ => (w, s, Raise e__h) end | _ => (w, s, Raise e__h) end | Ok v_chunk => let '(w, r__) := gen_process_chunk w v_chunk in
match r__ with Exn e__ => (w, s, Raise e__) | Ok _ => (w, s, Return v_chunk) end end) in (w, s, call_res [] o__).

Definition gen_close (w : wrapper I) (s : Src) : wrapper I * Src * res (unit) :=
  let '(w, s, o__) := (let '(w, s, o__) := (if (src_has_close s) then let s := src_close s in
(w, s, Normal) else (w, s, Normal)) in
match o__ with Normal => let '(w, r__) := gen_finish w in
match r__ with Exn e__ => (w, s, Raise e__) | Ok _ => (w, s, Normal) end | _ => (w, s, o__) end) in (w, s, call_res tt o__).

Definition gen_init (v_source : Src) (v_expected_format : option str) (v_allowed_formats : option (list str)) : wrapper I * Src :=
  ({| w_slots := (map (fun '(v_k, v_v) => new_slot I v_k v_v) (filter (fun '(v_k, v_v) => ((negb (truthy_optlist v_allowed_formats)) || (opt_memb v_k v_allowed_formats))) factory)); w_expected := v_expected_format; w_finished := false |}, v_source).

Fixpoint gen_detect_loop1 (fuel__ : nat)  (w : wrapper I) (s : Src) {struct fuel__} : wrapper I * Src * outcome (option (slot I)) :=
  match fuel__ with
  | O => (w, s, Normal)
  | S fuel__ =>
    let '(w, s, o__) := (let '(w, s, r__) := gen_read w s (4096)%Z in
match r__ with Exn e__ => (w, s, Raise e__) | Ok v_chunk => let '(w, s, o__) := (if (negb (negb (is_nil v_chunk))) then (w, s, Break) else (w, s, Normal)) in
match o__ with Normal => let v__chunk := v_chunk in
match gen_format w with Exn e__ => (w, s, Raise e__) | Ok v_t__ => if (is_some v_t__) then match gen_format w with Exn e__ => (w, s, Raise e__) | Ok r__ => (w, s, Return r__) end else (w, s, Normal) end | _ => (w, s, o__) end end) in
    match o__ with
    | Normal | Continue => gen_detect_loop1 fuel__  w s
    | Break => (w, s, Normal)
    | _ => (w, s, o__)
    end
  end.
Definition gen_detect_file_format (fuel__ : nat) (v_data : bytes) : wrapper I * Src * res (option (slot I)) :=
  let s := src_open v_data in
  let '(w, s) := gen_init s None None in
  let '(w, s, o__) := (let '(w, s, o__) := (let '(w, s, o__) := (let '(w, s, o__) := (gen_detect_loop1 fuel__  w s) in
match o__ with Raise e__h => (w, s, Raise e__h) | Normal => (w, s, Normal) | _ => (w, s, o__) end) in
let '(w, s, of__) := let '(w, s, r__) := gen_close w s in
match r__ with Exn e__ => (w, s, Raise e__) | Ok _ => (w, s, Normal) end in
match of__ with Normal => (w, s, o__) | _ => (w, s, of__) end) in
match o__ with Normal => match gen_format w with Exn e__ => (w, s, Raise e__) | Ok r__ => (w, s, Return r__) end | _ => (w, s, o__) end) in
  let s := src_close s in      (* the with statement closes the file *)
  (w, s, call_res None o__).

End C06Code.
