(* GENERATED from oslo_utils/strutils.py by tools/gen/gen_C08.py on every run. Do not edit. *)

Require Import OV.Base.Bytes OV.Base.Py OV.Model.C08_Syntax.
Open Scope N_scope.
(* if not isinstance(dictionary, <cls>): raise <exn>(...) *)
Definition gen_guard_cls : cls := CMapping.
Definition gen_guard_exn : exn := TypeError.
(* out = {}  -> 0 (dict) ; OrderedDict() -> 1 *)
Definition gen_out_kind : N := 0.
(* default of the secret parameter of mask_dict_password / of mask_password *)
Definition gen_default_secret : str := [42;42;42].
Definition gen_mp_default_secret : str := [42;42;42].
(* body of "for k, v in dictionary.items():"; flags: k_matched=0 *)
Definition gen_body : list stmt :=
  [SIf (CIsInst SubjVal CMapping) [SOut (ARecurse SecGiven); SContinue] []; SFlag 0 false; SIf (CIsInst SubjKey CStr) [SAnyKey HLower [SOut ASecret; SFlag 0 true]] []; SIf (CNot (CFlag 0)) [SIf (CIsInst SubjVal CStr) [SOut (AMask SecGiven)] [SOut AKeep]] []].
