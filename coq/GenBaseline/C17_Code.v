(* GENERATED from oslo_utils/versionutils.py by tools/gen/gen_versionutils.py (py2gal + T17) on every run. Do not edit. *)

Require Import OV.Base.Bytes OV.Base.Py OV.Base.PyInt OV.Base.Str OV.Base.Regex OV.Base.C17_Py OV.Gen.Versionutils.
Open Scope N_scope.
Definition cmp_apply {V : Type} (vle veq : V -> V -> bool) (o : cmpop) (a b : V) : bool :=
  match o with OpLt => vle a b && negb (veq a b) | OpLe => vle a b | OpEq => veq a b
  | OpGt => vle b a && negb (veq a b) | OpGe => vle b a | OpNe => negb (veq a b) end.
Definition gen_re_1 : re := (Seq (Group 1%nat (Rep [(48,57);(1632,1641);(1776,1785);(1984,1993);(2406,2415);(2534,2543);(2662,2671);(2790,2799);(2918,2927);(3046,3055);(3174,3183);(3302,3311);(3430,3439);(3558,3567);(3664,3673);(3792,3801);(3872,3881);(4160,4169);(4240,4249);(6112,6121);(6160,6169);(6470,6479);(6608,6617);(6784,6793);(6800,6809);(6992,7001);(7088,7097);(7232,7241);(7248,7257);(42528,42537);(43216,43225);(43264,43273);(43472,43481);(43504,43513);(43600,43609);(44016,44025);(65296,65305);(66720,66729);(68912,68921);(69734,69743);(69872,69881);(69942,69951);(70096,70105);(70384,70393);(70736,70745);(70864,70873);(71248,71257);(71360,71369);(71472,71481);(71904,71913);(72016,72025);(72784,72793);(73040,73049);(73120,73129);(73552,73561);(92768,92777);(92864,92873);(93008,93017);(120782,120831);(123200,123209);(123632,123641);(124144,124153);(125264,125273);(130032,130041)] 1%nat None)) (Seq (Group 2%nat (Alt (Chr [(97,97)]) (Alt (Seq (Chr [(97,97)]) (Seq (Chr [(108,108)]) (Seq (Chr [(112,112)]) (Seq (Chr [(104,104)]) (Chr [(97,97)]))))) (Alt (Chr [(98,98)]) (Alt (Seq (Chr [(98,98)]) (Seq (Chr [(101,101)]) (Seq (Chr [(116,116)]) (Chr [(97,97)])))) (Seq (Chr [(114,114)]) (Chr [(99,99)]))))))) (Seq (Rep [(48,57);(1632,1641);(1776,1785);(1984,1993);(2406,2415);(2534,2543);(2662,2671);(2790,2799);(2918,2927);(3046,3055);(3174,3183);(3302,3311);(3430,3439);(3558,3567);(3664,3673);(3792,3801);(3872,3881);(4160,4169);(4240,4249);(6112,6121);(6160,6169);(6470,6479);(6608,6617);(6784,6793);(6800,6809);(6992,7001);(7088,7097);(7232,7241);(7248,7257);(42528,42537);(43216,43225);(43264,43273);(43472,43481);(43504,43513);(43600,43609);(44016,44025);(65296,65305);(66720,66729);(68912,68921);(69734,69743);(69872,69881);(69942,69951);(70096,70105);(70384,70393);(70736,70745);(70864,70873);(71248,71257);(71360,71369);(71472,71481);(71904,71913);(72016,72025);(72784,72793);(73040,73049);(73120,73129);(73552,73561);(92768,92777);(92864,92873);(93008,93017);(120782,120831);(123200,123209);(123632,123641);(124144,124153);(125264,125273);(130032,130041)] 1%nat None) Eol))).
Definition gen_re_2 : re := (Seq Bol (Seq (Rep [(9,13);(28,32);(133,133);(160,160);(5760,5760);(8192,8202);(8232,8233);(8239,8239);(8287,8287);(12288,12288)] 0%nat None) (Seq (Group 1%nat (Alt (Seq (Chr [(60,60)]) (Chr [(61,61)])) (Alt (Seq (Chr [(62,62)]) (Chr [(61,61)])) (Alt (Chr [(60,60)]) (Alt (Chr [(62,62)]) (Alt (Seq (Chr [(33,33)]) (Chr [(61,61)])) (Seq (Chr [(61,61)]) (Chr [(61,61)])))))))) (Seq (Rep [(9,13);(28,32);(133,133);(160,160);(5760,5760);(8192,8202);(8232,8233);(8239,8239);(8287,8287);(12288,12288)] 0%nat None) (Seq (Group 2%nat (Rep [(0,8);(14,27);(33,132);(134,159);(161,5759);(5761,8191);(8203,8231);(8234,8238);(8240,8286);(8288,12287);(12289,1114111)] 1%nat None)) (Seq (Rep [(9,13);(28,32);(133,133);(160,160);(5760,5760);(8192,8202);(8232,8233);(8239,8239);(8287,8287);(12288,12288)] 0%nat None) Eol)))))).
Open Scope Z_scope.
Definition gen_convert_version_to_tuple (version_str : bytes) : res (list Z) :=
let version_str := (re_sub gen_re_1 [TGrp 1%nat] version_str) in
match (map_res (fun part => py_int_res part) (split_char 46%N version_str)) with Exn e__ => Exn (e__) | Ok ret__ =>
Ok (ret__) end.
Definition gen_convert_version_to_int_str (version : bytes) : res (Z) :=
(* isinstance(version, str) is True for this entry point *)
match (gen_convert_version_to_tuple version) with Exn e__ => Exn (ValueError) | Ok version =>
(* isinstance(version, tuple) is True for this entry point *)
match (reduce_res (fun x y => ((x * (1000)) + y)) version) with Exn e__ => if (llenZ version =? 1) then (Exn (ValueError)) else (Exn (TypeError)) | Ok ret__ =>
Ok (ret__) end end.
Definition gen_convert_version_to_int_tuple (version : list Z) : res (Z) :=
(* isinstance(version, str) is False for this entry point *)
(* isinstance(version, tuple) is True for this entry point *)
match (reduce_res (fun x y => ((x * (1000)) + y)) version) with Exn e__ => if (llenZ version =? 1) then (Exn (ValueError)) else (Exn (TypeError)) | Ok ret__ =>
Ok (ret__) end.
Definition gen_is_compatible {V : Type} (vparse : bytes -> option V) (vle : V -> V -> bool) (major : V -> Z) (requested_version : bytes) (current_version : bytes) (same_major : bool) : res (bool) :=
match (vparse_res vparse requested_version) with Exn e__ => Exn (e__) | Ok requested =>
match (vparse_res vparse current_version) with Exn e__ => Exn (e__) | Ok current =>
if same_major then (
if (negb ((major requested) =? (major current))) then (
Ok (false)) else (
Ok ((vle requested current)))) else (
Ok ((vle requested current))) end end.
Definition gen_parse_predicate {V : Type} (vparse : bytes -> option V) (pred : bytes) : res ((option bytes * V)) :=
let res := (re_match gen_re_2 pred) in
match res with None => (
Exn (ValueError)) | Some res => (
let cond := (group_of pred res 1%nat) in
let ver_str := (group_of pred res 2%nat) in
match (vparse_opt vparse ver_str) with Exn e__ => Exn (e__) | Ok ret__ =>
Ok ((cond, ret__)) end) end.
Definition gen_predicate_init {V : Type} (vparse : bytes -> option V) (predicate_str : bytes) : res (list (option bytes * V)) :=
match (map_res (fun pred => (gen_parse_predicate vparse) pred) (split_char 44%N predicate_str)) with Exn e__ => Exn (e__) | Ok self_pred =>
Ok (self_pred) end.
Fixpoint gen_satisfied_by_loop1 {V : Type} (vle veq : V -> V -> bool) (version_str : bytes) (version : V) (l__ : list (option bytes * V)) {struct l__} : res (option bool) :=
  match l__ with
  | [] => Ok None
  | (cond, ver) :: l__' =>
    match assoc_opt cond comp_map with None => Exn KeyError | Some op__ =>
    if (negb (cmp_apply vle veq op__ version ver)) then Ok (Some false) else gen_satisfied_by_loop1 vle veq version_str version l__' end
  end.
Definition gen_satisfied_by {V : Type} (vparse : bytes -> option V) (vle veq : V -> V -> bool) (self_pred : list (option bytes * V)) (version_str : bytes) : res (bool) :=
match (vparse_res vparse version_str) with Exn e__ => Exn (e__) | Ok version =>
match gen_satisfied_by_loop1 vle veq version_str version self_pred with Exn e__ => Exn (e__) | Ok (Some r__) => Ok (r__) | Ok None =>
Ok (true) end end.
