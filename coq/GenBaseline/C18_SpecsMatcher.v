(* GENERATED from oslo_utils/specs_matcher.py by tools/gen/gen_C18.py on every run. Do not edit. *)

Require Import OV.Base.Bytes OV.Base.PyInt OV.Base.Regex.
Open Scope N_scope.
(* pyparsing.ParserElement.DEFAULT_WHITE_CHARS of the installed pyparsing 3.3.2 *)
Definition pp_white : list N := [32;10;9;13].
(* make_grammar: Literal strings in source order *)
Definition unary_lits : list str := [[61;61]; [61]; [33;61]; [60;105;110;62]; [62;61]; [60;61]; [62]; [60]; [115;61;61]; [115;33;61]; [115;60;61]; [115;60]; [115;62;61]; [115;62]].
Definition all_in_lit : str := [60;97;108;108;45;105;110;62].
Definition or_lit : str := [60;111;114;62].
Definition range_in_lit : str := [60;114;97;110;103;101;45;105;110;62].
Definition range_arity : nat := 4%nat.
(* the literals of the negative look-ahead of an atom, in source order *)
Definition atom_stop_lits : list str := [[61;61]; [61]; [33;61]; [60;105;110;62]; [62;61]; [60;61]; [62]; [60]; [115;61;61]; [115;33;61]; [115;60;61]; [115;60]; [115;62;61]; [115;62]; [60;97;108;108;45;105;110;62]; [60;111;114;62]; [60;114;97;110;103;101;45;105;110;62]].
(* Regex('\\S+'): character class and minimum count of the repeat *)
Definition atom_cs : cset := [(0,8); (14,27); (33,132); (134,159); (161,5759); (5761,8191); (8203,8231); (8234,8238); (8240,8286); (8288,12287); (12289,1114111)].
Definition atom_min : nat := 1%nat.
Definition atom_re : re := Rep atom_cs atom_min None.
(* expr = ... | ... : the alternatives in source order *)
Inductive alt := ADisj | ANary | ARange | AUnary | AAtom.
Definition expr_alts : list alt := [ADisj; ANary; ARange; AUnary; AAtom].
(* disjunction.setParseAction(lambda _s, _l, t: [HEAD] + t[START::STEP]) *)
Definition disj_head : str := [60;111;114;62].
Definition disj_start : nat := 1%nat.
Definition disj_step : nat := 2%nat.
(* op_methods *)
Inductive cmp := CLt | CLe | CEq | CNe | CGe | CGt.
Inductive meth := MNum (c : cmp) | MStr (c : cmp) | MIn | MOr | MAllIn | MRangeIn.
Definition op_methods : list (str * meth) := [([61], (MNum CGe)); ([33;61], (MNum CNe)); ([60;61], (MNum CLe)); ([60], (MNum CLt)); ([61;61], (MNum CEq)); ([62;61], (MNum CGe)); ([62], (MNum CGt)); ([115;33;61], (MStr CNe)); ([115;60], (MStr CLt)); ([115;60;61], (MStr CLe)); ([115;61;61], (MStr CEq)); ([115;62], (MStr CGt)); ([115;62;61], (MStr CGe)); ([60;97;108;108;45;105;110;62], MAllIn); ([60;105;110;62], MIn); ([60;111;114;62], MOr); ([60;114;97;110;103;101;45;105;110;62], MRangeIn)].
(* _range_in *)
Definition range_nargs : nat := 4%nat.
Definition range_iy : nat := 1%nat.
Definition range_iz : nat := 2%nat.
Definition range_guard : cmp := CGt.
Definition range_il : nat := 0%nat.
Definition range_lower : list (str * cmp) := [([91], CGe); ([40], CGt)].
Definition range_iu : nat := 3%nat.
Definition range_upper : list (str * cmp) := [([93], CLe); ([41], CLt)].
