(* GENERATED from oslo_utils/encodeutils.py, oslo_utils/strutils.py by tools/gen/gen_C16.py on every run. Do not edit. *)

Require Import OV.Base.Bytes OV.Base.PyInt OV.Base.Str OV.Base.Regex OV.Base.C16_Py OV.Gen.C16_Slug.
Open Scope N_scope.
Definition gen_safe_decode (w : world) (text : pval) (incoming : option str) (errors : str) : cres str :=
if (negb (isinstance text [TyStr; TyBytes])) then (
CExn ETypeError) else (
match (as_str text) with Some text => (
COk text) | None => (
match (truthy_opt incoming) with Some incoming => (
match (pval_decode w text incoming errors) with
| COk r__ => COk r__
| CExn e__ => if exn_isa e__ KUnicodeDecodeError then (
(pval_decode w text ([117;116;102;45;56]%N : str) errors)) else CExn e__
end) | None => (
let incoming := (default_incoming w) in
match (pval_decode w text incoming errors) with
| COk r__ => COk r__
| CExn e__ => if exn_isa e__ KUnicodeDecodeError then (
(pval_decode w text ([117;116;102;45;56]%N : str) errors)) else CExn e__
end) end) end).

Definition gen_safe_encode (w : world) (text : pval) (incoming : option str) (encoding : str) (errors : str) : cres pval :=
if (negb (isinstance text [TyStr; TyBytes])) then (
CExn ETypeError) else (
match (truthy_opt incoming) with Some incoming => (
let incoming := (py_lower incoming) in
let encoding := (py_lower encoding) in
match (as_str text) with Some text => (
(cmap (fun r__ => (PBytes r__)) (str_encode w text encoding errors))) | None => (
if ((truthy_pval text) && (negb (beq encoding incoming))) then (
match (gen_safe_decode w text (Some incoming) errors) with CExn e__ => CExn e__ | COk text =>
(cmap (fun r__ => (PBytes r__)) (str_encode w text encoding errors)) end) else (
COk text)) end) | None => (
let incoming := (default_incoming w) in
let incoming := (py_lower incoming) in
let encoding := (py_lower encoding) in
match (as_str text) with Some text => (
(cmap (fun r__ => (PBytes r__)) (str_encode w text encoding errors))) | None => (
if ((truthy_pval text) && (negb (beq encoding incoming))) then (
match (gen_safe_decode w text (Some incoming) errors) with CExn e__ => CExn e__ | COk text =>
(cmap (fun r__ => (PBytes r__)) (str_encode w text encoding errors)) end) else (
COk text)) end) end).

Definition gen_to_utf8 (w : world) (text : pval) : cres pval :=
match (as_bytes text) with Some text => (
COk (PBytes text)) | None => (
match (as_str text) with Some text => (
(cmap (fun r__ => (PBytes r__)) (str_encode w text ([117;116;102;45;56]%N : str) strict_name))) | None => (
CExn ETypeError) end) end.

Definition gen_to_slug (w : world) (value : pval) (incoming : option str) (errors : str) : cres str :=
match (gen_safe_decode w value incoming errors) with CExn e__ => CExn e__ | COk value =>
let value := (ascii_fold w value) in
let value := (py_lower (strip (re_sub re_SLUGIFY_STRIP_RE (@nil titem) value))) in
COk (re_sub re_SLUGIFY_HYPHENATE_RE [TLit 45] value) end.

(* codec names written as literals in the source *)
Definition fallback_encoding : str := ([117;116;102;45;56]%N : str).
Definition to_utf8_encoding : str := ([117;116;102;45;56]%N : str).
(* default argument values *)
Definition safe_decode_default_errors : str := ([115;116;114;105;99;116]%N : str).
Definition safe_encode_default_encoding : str := ([117;116;102;45;56]%N : str).
Definition safe_encode_default_errors : str := ([115;116;114;105;99;116]%N : str).
Definition to_slug_default_errors : str := ([115;116;114;105;99;116]%N : str).
