(* GENERATED from oslo_utils/strutils.py (split_path) by tools/gen/gen_C19.py (py2gal, extended) on every run. Do not edit. *)

Require Import OV.Base.Bytes OV.Base.Py OV.Base.Str OV.Base.C19_PyList.
Open Scope Z_scope.
Definition gen_split_path (path : bytes) (minsegs : Z) (maxsegs : option Z) (rest_with_last : bool) : res (list (option bytes)) :=
match maxsegs with
| None => (
let maxsegs := minsegs in
if (minsegs >? maxsegs) then (
Exn (ValueError)) else (
if rest_with_last then (
let segs := (py_split1 path 47%N maxsegs) in
let minsegs := (minsegs + (1)) in
let maxsegs := (maxsegs + (1)) in
let count := (llen segs) in
match (res_or (res_map str_truth (lidx segs (0))) (res_or (Ok (count <? minsegs)) (res_or (Ok (count >? maxsegs)) (Ok (str_in ([]%N : bytes) (lslice (Some (1)) (Some minsegs) segs)))))) with
| Exn e__ => Exn (e__)
| Ok c__ => if c__ then (
Exn (ValueError)) else (
let segs := (lslice (Some (1)) (Some maxsegs) segs) in
let segs := (pad_none segs ((maxsegs - (1)) - (llen segs))) in
Ok (segs))
end) else (
let minsegs := (minsegs + (1)) in
let maxsegs := (maxsegs + (1)) in
let segs := (py_split1 path 47%N maxsegs) in
let count := (llen segs) in
match (res_or (res_map str_truth (lidx segs (0))) (res_or (Ok (count <? minsegs)) (res_or (Ok (count >? (maxsegs + (1)))) (res_or (Ok (str_in ([]%N : bytes) (lslice (Some (1)) (Some minsegs) segs))) (res_and (Ok (count =? (maxsegs + (1)))) (res_map str_truth (lidx segs maxsegs))))))) with
| Exn e__ => Exn (e__)
| Ok c__ => if c__ then (
Exn (ValueError)) else (
let segs := (lslice (Some (1)) (Some maxsegs) segs) in
let segs := (pad_none segs ((maxsegs - (1)) - (llen segs))) in
Ok (segs))
end)))
| Some some_maxsegs => if (some_maxsegs =? 0) then (
let maxsegs := minsegs in
if (minsegs >? maxsegs) then (
Exn (ValueError)) else (
if rest_with_last then (
let segs := (py_split1 path 47%N maxsegs) in
let minsegs := (minsegs + (1)) in
let maxsegs := (maxsegs + (1)) in
let count := (llen segs) in
match (res_or (res_map str_truth (lidx segs (0))) (res_or (Ok (count <? minsegs)) (res_or (Ok (count >? maxsegs)) (Ok (str_in ([]%N : bytes) (lslice (Some (1)) (Some minsegs) segs)))))) with
| Exn e__ => Exn (e__)
| Ok c__ => if c__ then (
Exn (ValueError)) else (
let segs := (lslice (Some (1)) (Some maxsegs) segs) in
let segs := (pad_none segs ((maxsegs - (1)) - (llen segs))) in
Ok (segs))
end) else (
let minsegs := (minsegs + (1)) in
let maxsegs := (maxsegs + (1)) in
let segs := (py_split1 path 47%N maxsegs) in
let count := (llen segs) in
match (res_or (res_map str_truth (lidx segs (0))) (res_or (Ok (count <? minsegs)) (res_or (Ok (count >? (maxsegs + (1)))) (res_or (Ok (str_in ([]%N : bytes) (lslice (Some (1)) (Some minsegs) segs))) (res_and (Ok (count =? (maxsegs + (1)))) (res_map str_truth (lidx segs maxsegs))))))) with
| Exn e__ => Exn (e__)
| Ok c__ => if c__ then (
Exn (ValueError)) else (
let segs := (lslice (Some (1)) (Some maxsegs) segs) in
let segs := (pad_none segs ((maxsegs - (1)) - (llen segs))) in
Ok (segs))
end))) else (
if (minsegs >? some_maxsegs) then (
Exn (ValueError)) else (
if rest_with_last then (
let segs := (py_split1 path 47%N some_maxsegs) in
let minsegs := (minsegs + (1)) in
let maxsegs := (some_maxsegs + (1)) in
let count := (llen segs) in
match (res_or (res_map str_truth (lidx segs (0))) (res_or (Ok (count <? minsegs)) (res_or (Ok (count >? maxsegs)) (Ok (str_in ([]%N : bytes) (lslice (Some (1)) (Some minsegs) segs)))))) with
| Exn e__ => Exn (e__)
| Ok c__ => if c__ then (
Exn (ValueError)) else (
let segs := (lslice (Some (1)) (Some maxsegs) segs) in
let segs := (pad_none segs ((maxsegs - (1)) - (llen segs))) in
Ok (segs))
end) else (
let minsegs := (minsegs + (1)) in
let maxsegs := (some_maxsegs + (1)) in
let segs := (py_split1 path 47%N maxsegs) in
let count := (llen segs) in
match (res_or (res_map str_truth (lidx segs (0))) (res_or (Ok (count <? minsegs)) (res_or (Ok (count >? (maxsegs + (1)))) (res_or (Ok (str_in ([]%N : bytes) (lslice (Some (1)) (Some minsegs) segs))) (res_and (Ok (count =? (maxsegs + (1)))) (res_map str_truth (lidx segs maxsegs))))))) with
| Exn e__ => Exn (e__)
| Ok c__ => if c__ then (
Exn (ValueError)) else (
let segs := (lslice (Some (1)) (Some maxsegs) segs) in
let segs := (pad_none segs ((maxsegs - (1)) - (llen segs))) in
Ok (segs))
end)))
end.
Definition gen_default_minsegs : Z := (1).
Definition gen_default_maxsegs : option Z := None.
Definition gen_default_rest_with_last : bool := false.
