(* GENERATED from oslo_utils/imageutils/format_inspector.py by tools/gen/gen_insp_engine.py on every run. Do not edit. *)

Require Import OV.Base.Bytes OV.Base.Py OV.Base.Insp_Struct OV.Gen.Insp_Consts OV.Model.Insp_Engine OV.Model.Insp_PyPrims.
Open Scope N_scope.

Definition gen_end_complete (self : region) : bool :=
(((base_complete self) && (r_fin self))).

Definition gen_end_finish (self : region) : region :=
let self := set_fin self true in
self.

Definition gen_has_region {X} (self : ist X) (name : rname) : bool :=
((py_contains self name)).

Definition gen_region {X} (self : ist X) (name : rname) : res region :=
((py_getitem self name)).

Definition gen_region_name {X} (self : ist X) (region : nat) : res rname :=
match py_find_key self (fun name => (py_item_is self name region)) with Some name => Ok name | None => Exn ValueError end.

Definition gen_new_region {X} (F : fmt X) (self : ist X) (name : rname) (region : rspec) : ist X * option exn :=
if (gen_has_region self name) then (
(self, Some ImageFormatError)) else (
let self := py_setitem_new self name region in
(self, None)).

Definition gen_delete_region {X} (F : fmt X) (self : ist X) (name : rname) : ist X * option exn :=
match (py_delitem self name) with (self, Some e__) => (self, Some e__) | (self, None) =>
(self, None) end.

Definition gen_finish {X} (self : ist X) : ist X :=
let self := py_set_finished self true in
let self := py_for_items self (fun _name region =>
if (py_isinstance_end region) then (let region := gen_end_finish region in region) else (region)) in
self.

Definition gen__capture {X} (F : fmt X) (self : ist X) (chunk : bytes) (only : option (list rname)) : ist X * option exn :=
if (i_fin self) then (
(self, Some RuntimeError)) else (
let self := py_for_items self (fun name region =>
if ((py_opt_truthy only) && (negb (mem_rname name (py_opt_list only)))) then (region) else (if ((py_isinstance_end region) || (negb (py_region_complete region))) then (let region := py_region_capture region chunk (i_pos self) in region) else (region))) in
(self, None)).

Fixpoint gen_eat_chunk_loop1 {X} (fuel_ : nat) (F : fmt X) (chunk : bytes) (pre_regions : list nat) (pre_complete : list nat) (self : ist X) (known_regions : list nat) (new_regions : list nat) {struct fuel_} : ist X * res (list nat * list nat) :=
  if (py_truthy new_regions) then (
  match fuel_ with O => (self, Exn OtherError) | S fuel__ =>
match (py_mapM (fun r => (gen_region_name self r)) new_regions) with Exn e__ => (self, Exn e__) | Ok tmp1__ =>
match (gen__capture F self chunk (Some tmp1__)) with (self, Some e__) => (self, Exn e__) | (self, None) =>
let known_regions := (py_idset (py_values self)) in
match (f_post F self) with (self, Some e__) => (self, Exn e__) | (self, None) =>
let new_regions := (py_diff (py_idset (py_values self)) known_regions) in
gen_eat_chunk_loop1 fuel__ F chunk pre_regions pre_complete self known_regions new_regions end end end end) else (self, Ok (known_regions, new_regions)).
Definition gen_eat_chunk {X} (F : fmt X) (self : ist X) (chunk : bytes) : ist X * option exn :=
let pre_regions := (py_idset (py_values self)) in
let pre_complete := (py_idset (filter (fun region => (py_region_complete region)) (py_values self))) in
let self := py_set_total self ((i_pos self) + (flen chunk)) in
match (gen__capture F self chunk None) with (self, Some e__) => (self, Some e__) | (self, None) =>
match (f_post F self) with (self, Some e__) => (self, Some e__) | (self, None) =>
let known_regions := pre_regions in
let new_regions := (py_diff (py_idset (py_values self)) known_regions) in
match gen_eat_chunk_loop1 eat_fuel F chunk pre_regions pre_complete self known_regions new_regions with (self, Exn e__) => (self, Some e__) | (self, Ok (known_regions, new_regions)) =>
let post_complete := (py_idset (filter (fun region => (py_region_complete region)) (py_values self))) in
match (py_for_each (py_diff post_complete pre_complete) (fun region self =>
match (gen_region_name self region) with Exn e__ => (self, Some e__) | Ok tmp2__ =>
match (f_rcomplete F tmp2__ self) with (self, Some e__) => (self, Some e__) | (self, None) =>
(self, None) end end) self) with (self, Some e__) => (self, Some e__) | (self, None) =>
(self, None) end end end end.

Definition gen_inspector_complete {X} (self : ist X) : bool :=
((forallb (fun r => (py_region_complete r)) (py_values self))).

Definition gen_context_info {X} (self : ist X) : list (rname * N) :=
((map (fun '(name, region) => (name, (flen (r_data region)))) (py_items self))).
