(* GENERATED from oslo_utils/imageutils/qemu.py by tools/gen/gen_C10.py (statement-level) on every run. Do not edit. *)

Require Import OV.Base.Bytes OV.Base.Py OV.Base.PyInt OV.Base.Str OV.Base.Regex OV.Base.PyFloat.
Require Import OV.Model.C10_Regex OV.Gen.C10_Units OV.Model.C10.
Open Scope Z_scope.
Definition gen_canonicalize (field : str) : str :=
let field := strip (py_lower field) in
let field := replace ([32]%N : str) ([95]%N : str) field in
let field := replace ([45]%N : str) ([95]%N : str) field in
field.
Definition gen_extract_bytes (details : str) : res Z :=
let real_size := search_groups size_re details in
match real_size with
| None => (
Exn ValueError)
| Some g_real_size => (
let magnitude := (group_text details g_real_size 1%nat) in
match magnitude with
| None => Exn AttributeError
| Some magnitude_s => (
if (occursb ([101]%N : str) (py_lower magnitude_s)) then (
match float_of_optstr (group_text details g_real_size 1%nat) with Exn e_ => Exn e_ | Ok f_ =>
let magnitude := Some (float_fmt_f0 f_) in
let unit_of_measure := (group_text details g_real_size 2%nat) in
let bytes_info := (group_text details g_real_size 3%nat) in
if (truthy bytes_info) then (
(int_of_optstr (group_text details g_real_size 4%nat))) else (
if (negb (truthy unit_of_measure)) then (
(int_of_optstr magnitude)) else (
match unit_of_measure with
| None => Exn TypeError
| Some unit_of_measure_s => (
if (((zlen unit_of_measure_s) =? (1)%Z)%Z && (negb (beq unit_of_measure_s ([66]%N : str)))) then (
match unit_of_measure with None => Exn TypeError | Some x_s =>
let unit_of_measure := Some (x_s ++ ([66]%N : str)) in
(s2b_int (str_of_optstr magnitude ++ str_of_optstr unit_of_measure)) end) else (
(s2b_int (str_of_optstr magnitude ++ str_of_optstr unit_of_measure))))
end)) end) else (
let unit_of_measure := (group_text details g_real_size 2%nat) in
let bytes_info := (group_text details g_real_size 3%nat) in
if (truthy bytes_info) then (
(int_of_optstr (group_text details g_real_size 4%nat))) else (
if (negb (truthy unit_of_measure)) then (
(int_of_optstr magnitude)) else (
match unit_of_measure with
| None => Exn TypeError
| Some unit_of_measure_s => (
if (((zlen unit_of_measure_s) =? (1)%Z)%Z && (negb (beq unit_of_measure_s ([66]%N : str)))) then (
match unit_of_measure with None => Exn TypeError | Some x_s =>
let unit_of_measure := Some (x_s ++ ([66]%N : str)) in
(s2b_int (str_of_optstr magnitude ++ str_of_optstr unit_of_measure)) end) else (
(s2b_int (str_of_optstr magnitude ++ str_of_optstr unit_of_measure))))
end))))
end)
end.
(* _extract_details restricted to the byte-size fields: None = another kind of field *)
Definition gen_size_details (root_cmd root_details : str) : option (res Z) :=
if (beq root_cmd ([98;97;99;107;105;110;103;95;102;105;108;101]%N : str)) then None else (
if (optstr_in (Some root_cmd) [([118;105;114;116;117;97;108;95;115;105;122;101]%N : str); ([99;108;117;115;116;101;114;95;115;105;122;101]%N : str); ([100;105;115;107;95;115;105;122;101]%N : str)]) then Some (
if (optstr_in (Some root_details) [([78;111;110;101]%N : str); ([117;110;97;118;97;105;108;97;98;108;101]%N : str)]) then (
let real_details := (0)%Z in
Ok real_details) else (
match (gen_extract_bytes root_details) with Exn e_ => Exn e_ | Ok real_details =>
Ok real_details end)) else (
if (beq root_cmd ([102;105;108;101;95;102;111;114;109;97;116]%N : str)) then None else (
if (beq root_cmd ([115;110;97;112;115;104;111;116;95;108;105;115;116]%N : str)) then None else (
None)))).
