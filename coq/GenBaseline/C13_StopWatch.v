(* GENERATED from oslo_utils/timeutils.py by tools/gen/gen_C13.py on every run. Do not edit. *)

From Coq Require Import ZArith List.
Require Import OV.Base.Bytes OV.Base.Py OV.Base.C13_Types.
Import ListNotations.
Definition C13_STARTED : bytes := [83;84;65;82;84;69;68]%N.
Definition C13_STOPPED : bytes := [83;84;79;80;80;69;68]%N.
Definition gen_Split (T : Type) (elapsed length : T) : split T := mkSplit elapsed length.
Definition gen_Split_elapsed (T : Type) (s : split T) : T := sp_elapsed s.
Definition gen_Split_length (T : Type) (s : split T) : T := sp_length s.
Definition gen_delta_seconds (T : Type) (N : num T) (earlier later : T) : T :=
(n_max N (n_zero N) (n_sub N later earlier)).
Definition gen_stop (T : Type) (N : num T) (clk : nat -> T) (self__state : ostate) (self__started_at : option T) (self__stopped_at : option T) (self__splits : list (split T)) (self__duration : option T) (self_tick : nat) : gst T * res (unit) :=
if (ostate_eqb self__state (Some C13_STOPPED)) then (
((self__state, self__started_at, self__stopped_at, self__splits, self__duration, self_tick), Ok tt))
else (
if (negb (ostate_eqb self__state (Some C13_STARTED))) then (
((self__state, self__started_at, self__stopped_at, self__splits, self__duration, self_tick), Exn RuntimeError))
else (
let now1 := clk self_tick in
let self_tick := S self_tick in
let self__stopped_at := (Some now1) in
let self__state := (Some C13_STOPPED) in
((self__state, self__started_at, self__stopped_at, self__splits, self__duration, self_tick), Ok tt))).
Definition gen_start (T : Type) (N : num T) (clk : nat -> T) (self__state : ostate) (self__started_at : option T) (self__stopped_at : option T) (self__splits : list (split T)) (self__duration : option T) (self_tick : nat) : gst T * res (unit) :=
if (ostate_eqb self__state (Some C13_STARTED)) then (
((self__state, self__started_at, self__stopped_at, self__splits, self__duration, self_tick), Ok tt))
else (
let now1 := clk self_tick in
let self_tick := S self_tick in
let self__started_at := (Some now1) in
let self__stopped_at := None in
let self__state := (Some C13_STARTED) in
let self__splits := (@nil (split T)) in
((self__state, self__started_at, self__stopped_at, self__splits, self__duration, self_tick), Ok tt)).
Definition gen_resume (T : Type) (N : num T) (clk : nat -> T) (self__state : ostate) (self__started_at : option T) (self__stopped_at : option T) (self__splits : list (split T)) (self__duration : option T) (self_tick : nat) : gst T * res (unit) :=
if (ostate_eqb self__state (Some C13_STOPPED)) then (
let self__state := (Some C13_STARTED) in
((self__state, self__started_at, self__stopped_at, self__splits, self__duration, self_tick), Ok tt))
else (
((self__state, self__started_at, self__stopped_at, self__splits, self__duration, self_tick), Exn RuntimeError)).
Definition gen_elapsed (T : Type) (N : num T) (clk : nat -> T) (self__state : ostate) (self__started_at : option T) (self__stopped_at : option T) (self__splits : list (split T)) (self__duration : option T) (self_tick : nat) (maximum : option T) : gst T * res (T) :=
if (negb ((ostate_eqb self__state (Some C13_STARTED)) || (ostate_eqb self__state (Some C13_STOPPED)))) then (
((self__state, self__started_at, self__stopped_at, self__splits, self__duration, self_tick), Exn RuntimeError))
else (
if (ostate_eqb self__state (Some C13_STOPPED)) then (
match self__started_at with Some u1 =>
match self__stopped_at with Some u2 =>
let elapsed := (gen_delta_seconds T N u1 u2) in
match maximum with Some some3 => (
if (n_gtb N elapsed some3) then (
let elapsed := (n_max N (n_zero N) some3) in
((self__state, self__started_at, self__stopped_at, self__splits, self__duration, self_tick), Ok elapsed))
else (
((self__state, self__started_at, self__stopped_at, self__splits, self__duration, self_tick), Ok elapsed)))
| None => (
((self__state, self__started_at, self__stopped_at, self__splits, self__duration, self_tick), Ok elapsed)) end
| None => ((self__state, self__started_at, self__stopped_at, self__splits, self__duration, self_tick), Exn TypeError) end
| None => ((self__state, self__started_at, self__stopped_at, self__splits, self__duration, self_tick), Exn TypeError) end)
else (
let tmp4 := self__started_at in
let now5 := clk self_tick in
let self_tick := S self_tick in
match tmp4 with Some u6 =>
let elapsed := (gen_delta_seconds T N u6 now5) in
match maximum with Some some7 => (
if (n_gtb N elapsed some7) then (
let elapsed := (n_max N (n_zero N) some7) in
((self__state, self__started_at, self__stopped_at, self__splits, self__duration, self_tick), Ok elapsed))
else (
((self__state, self__started_at, self__stopped_at, self__splits, self__duration, self_tick), Ok elapsed)))
| None => (
((self__state, self__started_at, self__stopped_at, self__splits, self__duration, self_tick), Ok elapsed)) end
| None => ((self__state, self__started_at, self__stopped_at, self__splits, self__duration, self_tick), Exn TypeError) end)).
Definition gen_elapsed_default_maximum (T : Type) : option T := None.
Definition gen_restart (T : Type) (N : num T) (clk : nat -> T) (self__state : ostate) (self__started_at : option T) (self__stopped_at : option T) (self__splits : list (split T)) (self__duration : option T) (self_tick : nat) : gst T * res (unit) :=
if (ostate_eqb self__state (Some C13_STARTED)) then (
match gen_stop T N clk self__state self__started_at self__stopped_at self__splits self__duration self_tick with
| ((self__state, self__started_at, self__stopped_at, self__splits, self__duration, self_tick), r__1) =>
match r__1 with Exn e__2 => ((self__state, self__started_at, self__stopped_at, self__splits, self__duration, self_tick), Exn e__2)
| Ok v3 =>
match gen_start T N clk self__state self__started_at self__stopped_at self__splits self__duration self_tick with
| ((self__state, self__started_at, self__stopped_at, self__splits, self__duration, self_tick), r__4) =>
match r__4 with Exn e__5 => ((self__state, self__started_at, self__stopped_at, self__splits, self__duration, self_tick), Exn e__5)
| Ok v6 =>
((self__state, self__started_at, self__stopped_at, self__splits, self__duration, self_tick), Ok tt) end end end end)
else (
match gen_start T N clk self__state self__started_at self__stopped_at self__splits self__duration self_tick with
| ((self__state, self__started_at, self__stopped_at, self__splits, self__duration, self_tick), r__7) =>
match r__7 with Exn e__8 => ((self__state, self__started_at, self__stopped_at, self__splits, self__duration, self_tick), Exn e__8)
| Ok v9 =>
((self__state, self__started_at, self__stopped_at, self__splits, self__duration, self_tick), Ok tt) end end).
Definition gen_split (T : Type) (N : num T) (clk : nat -> T) (self__state : ostate) (self__started_at : option T) (self__stopped_at : option T) (self__splits : list (split T)) (self__duration : option T) (self_tick : nat) : gst T * res (split T) :=
if (ostate_eqb self__state (Some C13_STARTED)) then (
match gen_elapsed T N clk self__state self__started_at self__stopped_at self__splits self__duration self_tick None with
| ((self__state, self__started_at, self__stopped_at, self__splits, self__duration, self_tick), r__1) =>
match r__1 with Exn e__2 => ((self__state, self__started_at, self__stopped_at, self__splits, self__duration, self_tick), Exn e__2)
| Ok v3 =>
let elapsed := v3 in
if (nonempty self__splits) then (
match last_opt self__splits with Some last4 =>
let length := (gen_delta_seconds T N (gen_Split_elapsed T last4) elapsed) in
let self__splits := (self__splits ++ [(gen_Split T elapsed length)]) in
match last_opt self__splits with Some last5 =>
((self__state, self__started_at, self__stopped_at, self__splits, self__duration, self_tick), Ok last5)
| None => ((self__state, self__started_at, self__stopped_at, self__splits, self__duration, self_tick), Exn IndexError) end
| None => ((self__state, self__started_at, self__stopped_at, self__splits, self__duration, self_tick), Exn IndexError) end)
else (
let length := elapsed in
let self__splits := (self__splits ++ [(gen_Split T elapsed length)]) in
match last_opt self__splits with Some last6 =>
((self__state, self__started_at, self__stopped_at, self__splits, self__duration, self_tick), Ok last6)
| None => ((self__state, self__started_at, self__stopped_at, self__splits, self__duration, self_tick), Exn IndexError) end) end end)
else (
((self__state, self__started_at, self__stopped_at, self__splits, self__duration, self_tick), Exn RuntimeError)).
Definition gen_leftover (T : Type) (N : num T) (clk : nat -> T) (self__state : ostate) (self__started_at : option T) (self__stopped_at : option T) (self__splits : list (split T)) (self__duration : option T) (self_tick : nat) (return_none : bool) : gst T * res (option T) :=
if (negb (ostate_eqb self__state (Some C13_STARTED))) then (
((self__state, self__started_at, self__stopped_at, self__splits, self__duration, self_tick), Exn RuntimeError))
else (
match self__duration with Some some1 => (
let tmp2 := (n_zero N) in
let tmp3 := some1 in
match gen_elapsed T N clk self__state self__started_at self__stopped_at self__splits self__duration self_tick None with
| ((self__state, self__started_at, self__stopped_at, self__splits, self__duration, self_tick), r__4) =>
match r__4 with Exn e__5 => ((self__state, self__started_at, self__stopped_at, self__splits, self__duration, self_tick), Exn e__5)
| Ok v6 =>
((self__state, self__started_at, self__stopped_at, self__splits, self__duration, self_tick), Ok (Some (n_max N tmp2 (n_sub N tmp3 v6)))) end end)
| None => (
if return_none then (
((self__state, self__started_at, self__stopped_at, self__splits, self__duration, self_tick), Ok None))
else (
((self__state, self__started_at, self__stopped_at, self__splits, self__duration, self_tick), Exn RuntimeError))) end).
Definition gen_leftover_default_return_none (T : Type) : bool := false.
Definition gen_expired (T : Type) (N : num T) (clk : nat -> T) (self__state : ostate) (self__started_at : option T) (self__stopped_at : option T) (self__splits : list (split T)) (self__duration : option T) (self_tick : nat) : gst T * res (bool) :=
if (negb ((ostate_eqb self__state (Some C13_STARTED)) || (ostate_eqb self__state (Some C13_STOPPED)))) then (
((self__state, self__started_at, self__stopped_at, self__splits, self__duration, self_tick), Exn RuntimeError))
else (
match self__duration with Some some1 => (
match gen_elapsed T N clk self__state self__started_at self__stopped_at self__splits self__duration self_tick None with
| ((self__state, self__started_at, self__stopped_at, self__splits, self__duration, self_tick), r__2) =>
match r__2 with Exn e__3 => ((self__state, self__started_at, self__stopped_at, self__splits, self__duration, self_tick), Exn e__3)
| Ok v4 =>
((self__state, self__started_at, self__stopped_at, self__splits, self__duration, self_tick), Ok (n_gtb N v4 some1)) end end)
| None => (
((self__state, self__started_at, self__stopped_at, self__splits, self__duration, self_tick), Ok false)) end).
Definition gen_has_started (T : Type) (N : num T) (clk : nat -> T) (self__state : ostate) (self__started_at : option T) (self__stopped_at : option T) (self__splits : list (split T)) (self__duration : option T) (self_tick : nat) : gst T * res (bool) :=
((self__state, self__started_at, self__stopped_at, self__splits, self__duration, self_tick), Ok (ostate_eqb self__state (Some C13_STARTED))).
Definition gen_has_stopped (T : Type) (N : num T) (clk : nat -> T) (self__state : ostate) (self__started_at : option T) (self__stopped_at : option T) (self__splits : list (split T)) (self__duration : option T) (self_tick : nat) : gst T * res (bool) :=
((self__state, self__started_at, self__stopped_at, self__splits, self__duration, self_tick), Ok (ostate_eqb self__state (Some C13_STOPPED))).
Definition gen_splits (T : Type) (N : num T) (clk : nat -> T) (self__state : ostate) (self__started_at : option T) (self__stopped_at : option T) (self__splits : list (split T)) (self__duration : option T) (self_tick : nat) : gst T * res (list (split T)) :=
((self__state, self__started_at, self__stopped_at, self__splits, self__duration, self_tick), Ok self__splits).
Definition gen_enter (T : Type) (N : num T) (clk : nat -> T) (self__state : ostate) (self__started_at : option T) (self__stopped_at : option T) (self__splits : list (split T)) (self__duration : option T) (self_tick : nat) : gst T * res (unit) :=
match gen_start T N clk self__state self__started_at self__stopped_at self__splits self__duration self_tick with
| ((self__state, self__started_at, self__stopped_at, self__splits, self__duration, self_tick), r__1) =>
match r__1 with Exn e__2 => ((self__state, self__started_at, self__stopped_at, self__splits, self__duration, self_tick), Exn e__2)
| Ok v3 =>
((self__state, self__started_at, self__stopped_at, self__splits, self__duration, self_tick), Ok tt) end end.
Definition gen_exit (T : Type) (N : num T) (clk : nat -> T) (self__state : ostate) (self__started_at : option T) (self__stopped_at : option T) (self__splits : list (split T)) (self__duration : option T) (self_tick : nat) (type : option unit) (value : option unit) (traceback : option unit) : gst T * res (option bool) :=
match gen_stop T N clk self__state self__started_at self__stopped_at self__splits self__duration self_tick with
| ((self__state, self__started_at, self__stopped_at, self__splits, self__duration, self_tick), r__1) =>
match r__1 with Exn e__2 => match e__2 with RuntimeError => (
((self__state, self__started_at, self__stopped_at, self__splits, self__duration, self_tick), Ok None))
| _ => ((self__state, self__started_at, self__stopped_at, self__splits, self__duration, self_tick), Exn e__2) end
| Ok v3 =>
((self__state, self__started_at, self__stopped_at, self__splits, self__duration, self_tick), Ok None) end end.
Definition gen_init (T : Type) (N : num T) (clk : nat -> T) (self__state : ostate) (self__started_at : option T) (self__stopped_at : option T) (self__splits : list (split T)) (self__duration : option T) (self_tick : nat) (duration : option T) : gst T * res (unit) :=
match duration with Some some1 => (
if (n_gtb N (n_zero N) some1) then (
((self__state, self__started_at, self__stopped_at, self__splits, self__duration, self_tick), Exn ValueError))
else (
let self__duration := (Some some1) in
let self__started_at := None in
let self__stopped_at := None in
let self__state := None in
let self__splits := (@nil (split T)) in
((self__state, self__started_at, self__stopped_at, self__splits, self__duration, self_tick), Ok tt)))
| None => (
let self__duration := duration in
let self__started_at := None in
let self__stopped_at := None in
let self__state := None in
let self__splits := (@nil (split T)) in
((self__state, self__started_at, self__stopped_at, self__splits, self__duration, self_tick), Ok tt)) end.
Definition gen_init_default_duration (T : Type) : option T := None.
