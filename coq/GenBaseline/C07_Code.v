(* GENERATED from oslo_utils/imageutils/format_inspector.py by tools/gen/gen_C07.py (py2gal) on every run. Do not edit. *)
Require Import OV.Base.Bytes OV.Base.Py OV.Model.C07_Struct.
Open Scope Z_scope.
Section C07_gen_vhd_vsize_sec.
Variables (hdr_complete : bool) (fmatch : bool) (hdr : bytes).
Definition C07_gen_vhd_vsize : res (Z) :=
if (negb hdr_complete) then (
Ok ((0))) else (
if (negb fmatch) then (
Ok ((0))) else (
match ((C07_unpack1 true 8) (zslice (Some (40)) (Some (48)) hdr)) with Exn e__ => Exn (e__) | Ok ret__ =>
Ok (ret__) end)).
End C07_gen_vhd_vsize_sec.
Section C07_gen_vdi_vsize_sec.
Variables (hdr_complete : bool) (fmatch : bool) (hdr : bytes).
Definition C07_gen_vdi_vsize : res (Z) :=
if (negb hdr_complete) then (
Ok ((0))) else (
if (negb fmatch) then (
Ok ((0))) else (
match ((C07_unpack1 false 8) (zslice (Some (368)) (Some (376)) hdr)) with Exn e__ => Exn (e__) | Ok size =>
Ok (size) end)).
End C07_gen_vdi_vsize_sec.
Section C07_gen_iso_vsize_sec.
Variables (all_complete : bool) (fmatch : bool) (hdr0 : Z) (hdr : bytes).
Definition C07_gen_iso_vsize : res (Z) :=
if (negb all_complete) then (
Ok ((0))) else (
if (negb fmatch) then (
Ok ((0))) else (
let descriptor_type := hdr0 in
if (negb (descriptor_type =? (1))) then (
Ok ((0))) else (
let logical_block_size_data := (zslice (Some (128)) (Some (132)) hdr) in
match ((C07_unpack1 false 2) (zslice None (Some (2)) logical_block_size_data)) with Exn e__ => Exn (e__) | Ok logical_block_size =>
let volume_space_size_data := (zslice (Some (80)) (Some (88)) hdr) in
match ((C07_unpack1 false 4) (zslice None (Some (4)) volume_space_size_data)) with Exn e__ => Exn (e__) | Ok volume_space_size =>
Ok ((volume_space_size * logical_block_size)) end end))).
End C07_gen_iso_vsize_sec.
Section C07_gen_luks_vsize_sec.
Variables (total : Z) (payload_offset : Z).
Definition C07_gen_luks_vsize : Z :=
((total - (payload_offset * (512)))).
End C07_gen_luks_vsize_sec.
Section C07_gen_vhdx_vsize_sec.
Variables (has_vds : bool) (vds_complete : bool) (vds : bytes).
Definition C07_gen_vhdx_vsize : res (Z) :=
if ((negb has_vds) || (negb vds_complete)) then (
Ok ((0))) else (
match ((C07_unpack1 false 8) vds) with Exn e__ => Exn (e__) | Ok size =>
Ok (size) end).
End C07_gen_vhdx_vsize_sec.
