(* GENERATED from oslo_utils/imageutils/format_inspector.py by tools/gen/gen_insp_engine.py (format_match) on every run. Do not edit. *)

Require Import OV.Base.Bytes OV.Base.Py OV.Base.Insp_Struct OV.Gen.Insp_Consts OV.Model.Insp_Engine OV.Model.Insp_PyPrims OV.Gen.Insp_EngineCode.
Require Import OV.Model.Insp_Qcow2 OV.Model.Insp_Vmdk.
Open Scope N_scope.

Definition gen_raw_format_match (self : ist unit) : res bool :=
Ok true.

Definition gen_qcow2_format_match (self : ist qx) : res bool :=
do t1__ <- (gen_region self R_header);
if (negb (py_region_complete t1__)) then (
Ok false) else (
Ok (match (option_map q_magic (i_ext self)) with Some m__ => beq m__ ([81;70;73;251]%N : bytes) | None => false end)).

Definition gen_qed_format_match (self : ist unit) : res bool :=
do t1__ <- (gen_region self R_header);
if (negb (py_region_complete t1__)) then (
Ok false) else (
do t2__ <- (gen_region self R_header);
Ok (prefixb ([81;69;68;0]%N : bytes) (r_data t2__))).

Definition gen_vhd_format_match (self : ist unit) : res bool :=
do t1__ <- (gen_region self R_header);
Ok (prefixb ([99;111;110;101;99;116;105;120]%N : bytes) (r_data t1__)).

Definition gen_vhdx_format_match (self : ist unit) : res bool :=
do t1__ <- (gen_region self R_ident);
Ok (prefixb ([118;104;100;120;102;105;108;101]%N : bytes) (r_data t1__)).

Definition gen_vmdk_format_match (self : ist vx) : res bool :=
if (gen_has_region self R_header) then (
do t1__ <- (gen_region self R_header);
Ok (prefixb ([75;68;77;86]%N : bytes) (r_data t1__))) else (
Ok (negb (beq (v_vmdktype (i_ext self)) ([102;111;114;109;97;116;110;111;116;102;111;117;110;100]%N : bytes)))).

Definition gen_vdi_format_match (self : ist unit) : res bool :=
do t1__ <- (gen_region self R_header);
if (negb (py_region_complete t1__)) then (
Ok false) else (
do t2__ <- (gen_region self R_header);
do t3__ <- (unpack (mkSfmt false 4 [(0, 4)]) (nsub 64 68 (r_data t2__)));
let signature := sint (mkSfmt false 4 [(0, 4)]) 0 t3__ in
Ok (signature =? 3201962111)).

Definition gen_iso_format_match (self : ist unit) : res bool :=
if (negb (gen_inspector_complete self)) then (
Ok false) else (
do t1__ <- (gen_region self R_header);
let signature := (nsub 1 6 (r_data t1__)) in
Ok (mem_str signature [([67;68;48;48;49]%N : bytes); ([78;83;82;48;50]%N : bytes); ([78;83;82;48;51]%N : bytes)])).

Definition gen_gpt_check_for_fat (self : ist unit) : res bool :=
do t1__ <- (gen_region self R_mbr);
let boot_sector := (r_data t1__) in
do t2__ <- (bidx boot_sector 16);
let num_fats := t2__ in
do t3__ <- (bidx boot_sector 21);
let media_desc := t3__ in
Ok ((num_fats =? 2) && (media_desc =? 248)).

Definition gen_gpt_format_match (self : ist unit) : res bool :=
do t1__ <- (gen_region self R_mbr);
if (negb (py_region_complete t1__)) then (
Ok false) else (
do t2__ <- (gen_gpt_check_for_fat self);
let is_fat := t2__ in
do t3__ <- (gen_region self R_mbr);
do t4__ <- (unpack (mkSfmt false 2 [(0, 2)]) (nsub 510 512 (r_data t3__)));
let mbr_sig := sint (mkSfmt false 2 [(0, 2)]) 0 t4__ in
Ok ((mbr_sig =? 43605) && (negb is_fat))).

Definition gen_luks_format_match (self : ist unit) : res bool :=
do t1__ <- (gen_region self R_header);
Ok (beq (ntake 6 (r_data t1__)) ([76;85;75;83;186;190]%N : bytes)).
