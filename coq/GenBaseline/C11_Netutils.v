(* GENERATED from oslo_utils/netutils.py by tools/gen/gen_C11.py on every run. Do not edit. *)

Require Import OV.Base.Bytes OV.Base.PyInt OV.Base.Regex OV.Base.C11_Lib.
Open Scope N_scope.
(* is_valid_mac: re.match('[0-9a-f]{2}(:[0-9a-f]{2}){5}\\Z', address.lower()) *)
Definition mac_re : re := (Seq (Rep [(48,57);(97,102)] 2%nat (Some 2%nat)) (Seq (Group 1%nat (Seq (Chr [(58,58)]) (Rep [(48,57);(97,102)] 2%nat (Some 2%nat)))) (Seq (Group 1%nat (Seq (Chr [(58,58)]) (Rep [(48,57);(97,102)] 2%nat (Some 2%nat)))) (Seq (Group 1%nat (Seq (Chr [(58,58)]) (Rep [(48,57);(97,102)] 2%nat (Some 2%nat)))) (Seq (Group 1%nat (Seq (Chr [(58,58)]) (Rep [(48,57);(97,102)] 2%nat (Some 2%nat)))) (Group 1%nat (Seq (Chr [(58,58)]) (Rep [(48,57);(97,102)] 2%nat (Some 2%nat))))))))).
(* the pattern ends in \Z (end of string), split off by the translator *)
Definition mac_eos : bool := true.
(* is_valid_ipv6: address.rsplit(scope_sep, 1); len(scope) < scope_min or len(scope) > scope_max *)
Definition scope_sep : N := 37.
Definition scope_min : Z := (1)%Z.
Definition scope_max : Z := (15)%Z.
(* ... or scope_forbidden in scope -> False *)
Definition scope_forbidden : N := 47.
(* the except tuples *)
Definition ipv4_caught : list aexn := [AValueError; AAddrFormatError].
Definition ipv6_caught : list aexn := [AValueError; AAddrFormatError].
Definition cidr_caught : list aexn := [ATypeError; AValueError; AAddrFormatError].
Definition v6cidr_caught : list aexn := [ATypeError; AValueError; AAddrFormatError].
(* is_valid_cidr: ip_segment = address.split(cidr_sep); len(ip_segment) <= cidr_seg_bad_max or ip_segment[1] == '' -> False *)
Definition cidr_sep : N := 47.
Definition cidr_seg_bad_max : Z := (1)%Z.
(* is_valid_ipv4(address, strict=ipv4_strict_default); is_valid_ip calls is_valid_ipv4(address, ip_v4_strict) *)
Definition ipv4_strict_default : bool := true.
Definition ip_v4_strict : bool := false.
