(* GENERATED from oslo_utils/excutils.py, oslo_utils/fileutils.py by tools/gen/gen_C09.py on every run. Do not edit. *)

Require Import List.
Import ListNotations.
Require Import OV.Base.C09_HL.
Definition gen_init_default_reraise : bool := true.
Definition gen_init : hstmt := (SSeq SInitFlag SInitSelf).
Definition gen_force : hstmt := (SSeq (SIf (CAnd (CTypeNone TSelf) (CValNone VSelf)) SRaiseRuntime SSkip) (STryFinally (SSeq (SIf (CValNone VSelf) (SNewFromType VSelf TSelf) SSkip) (SSeq (SIf (CTbDiffers VSelf BSelf) (SRaiseWithTb VSelf BSelf) SSkip) (SRaise VSelf))) (SSeq (SClearV VSelf) (SClearB BSelf)))).
Definition gen_capture_default_check : bool := true.
Definition gen_capture : hstmt := (SSeq SReadInfo (SSeq (SIf (CAnd (CFlag FCheck) (CAnd (CTypeNone TLoc) (CValNone VLoc))) SRaiseRuntime SSkip) (SSeq SStore SReturnSelf))).
Definition gen_enter_check : bool := false.
Definition gen_exit : hstmt := (SSeq (SIf (CNot (CTypeNone TArg)) (SSeq (SIf (CFlag FReraise) SLog SSkip) SReturnFalse) SSkip) (SIf (CFlag FReraise) SForce SSkip)).
Definition gen_filt_init_order : init_order := AssignThenWrap.
Definition gen_get_rebinds : bool := true.
Definition gen_filt_exit : hstmt := (SIf (CNot (CValNone VArg)) (SReturnPred VArg) SSkip).
Definition gen_filt_call : hstmt := (SSeq SReadInfo (STryFinally (SIf (CNot (CPred VArg)) (SIf (CSame VLoc VArg) (STryFinally (SSeq (SIf (CValNone VLoc) (SNewFromType VLoc TLoc) SSkip) (SSeq (SIf (CTbDiffers VLoc BLoc) (SRaiseWithTb VLoc BLoc) SSkip) (SRaise VLoc))) (SSeq (SClearV VLoc) (SClearB BLoc))) (SRaise VArg)) SSkip) SSkip)).
Definition gen_rwc_cause_from_active : bool := true.
Definition gen_rwc_raise_from_cause : bool := true.
Definition gen_rpoe_catch : catchkind := CatchException.
Definition gen_rpoe_reraise : bool := gen_init_default_reraise.
