(* GENERATED from oslo_utils/netutils.py by tools/gen/gen_C11.py (py2gal) on every run. Do not edit. *)
Require Import OV.Base.Bytes OV.Base.Py OV.Base.PyInt OV.Base.C11_Lib.
Open Scope Z_scope.
Definition gen_is_int_in_range (value : pyval) (start : Z) (end_ : Z) : res (bool) :=
match (py_int_of value) with
| Exn e__ => if ((match e__ with ValueError => true | _ => false end) || (match e__ with TypeError => true | _ => false end)) then (
Ok (false)) else Exn (e__)
| Ok val =>
Ok (((start <=? val) && (val <=? end_))) end.
Definition gen_is_valid_port (port : pyval) : res (bool) :=
match (gen_is_int_in_range port (0) (65535)) with Exn e__ => Exn (e__) | Ok ret__ =>
Ok (ret__) end.
Definition gen_is_valid_icmp_type (type_ : pyval) : res (bool) :=
match (gen_is_int_in_range type_ (0) (255)) with Exn e__ => Exn (e__) | Ok ret__ =>
Ok (ret__) end.
Definition gen_is_valid_icmp_code (code : pyval) : res (bool) :=
if (pyval_is_none code) then (
Ok (true)) else (
match (gen_is_int_in_range code (0) (255)) with Exn e__ => Exn (e__) | Ok ret__ =>
Ok (ret__) end).
