(* GENERATED from oslo_utils/imageutils/format_inspector.py by tools/gen/gen_insp_hooks.py on every run. Do not edit. *)

Require Import OV.Base.Bytes OV.Base.Py OV.Base.PyInt OV.Base.Str OV.Base.Insp_Struct OV.Gen.Insp_Consts OV.Model.Insp_Engine OV.Model.Insp_PyPrims.
Require Import OV.Gen.Insp_EngineCode OV.Gen.Insp_FormatCode OV.Model.Insp_Qcow2 OV.Model.Insp_Vmdk OV.Model.Insp_HookPrims.
Open Scope N_scope.

Definition gen_qcow_region_complete (self : ist qx) (region : rname) : ist qx * option exn :=
match (gen_region self R_header) with Exn e__ => (self, Some e__) | Ok t1__ =>
match (unpack (mkSfmt true 32 [(0, 4); (4, 4); (8, 8); (16, 4); (20, 4); (24, 8)]) (ntake 32 (r_data t1__))) with Exn e__ => (self, Some e__) | Ok t2__ =>
let self := set_ext self (Some (mkQhdr (sraw (mkSfmt true 32 [(0, 4); (4, 4); (8, 8); (16, 4); (20, 4); (24, 8)]) 0 t2__) (sint (mkSfmt true 32 [(0, 4); (4, 4); (8, 8); (16, 4); (20, 4); (24, 8)]) 1 t2__) (sint (mkSfmt true 32 [(0, 4); (4, 4); (8, 8); (16, 4); (20, 4); (24, 8)]) 2 t2__) (sint (mkSfmt true 32 [(0, 4); (4, 4); (8, 8); (16, 4); (20, 4); (24, 8)]) 3 t2__) (sint (mkSfmt true 32 [(0, 4); (4, 4); (8, 8); (16, 4); (20, 4); (24, 8)]) 4 t2__) (sint (mkSfmt true 32 [(0, 4); (4, 4); (8, 8); (16, 4); (20, 4); (24, 8)]) 5 t2__))) in
match (gen_qcow2_format_match self) with Exn e__ => (self, Some e__) | Ok t3__ =>
if t3__ then (
(self, None)) else (
let self := set_ext self None in
(self, None)) end end end.

Definition gen_vhdx_guid (buf : bytes) : res bytes := unpack (mkSfmt false 16 [(0, 4); (4, 2); (6, 2); (8, 1); (9, 1); (10, 1); (11, 1); (12, 1); (13, 1); (14, 1); (15, 1)]) buf.

Fixpoint gen_vhdx_find_meta_region_loop1 (k_ : nat) (i : N) (self : ist unit) (region_entry_first : N) (regi : N) (cksum : N) (count : N) (reserved : N) (meta_offset : N) {struct k_} : ist unit * res (option rspec) :=
  match k_ with
  | O =>
(self, Ok None)
  | S k__ =>
let entry_start := (region_entry_first + (i * 32)) in
let entry_end := (entry_start + 32) in
match (gen_region self R_header) with Exn e__ => (self, Exn e__) | Ok t3__ =>
let entry := (nsub entry_start entry_end (r_data t3__)) in
match (gen_vhdx_guid (ntake 16 entry)) with Exn e__ => (self, Exn e__) | Ok t4__ =>
let guid := t4__ in
if (beq guid VHDX_GUID_METAREGION) then (
match (unpack (mkSfmt false 16 [(0, 8); (8, 4); (12, 4)]) (nskip 16 entry)) with Exn e__ => (self, Exn e__) | Ok t5__ =>
let meta_offset := sint (mkSfmt false 16 [(0, 8); (8, 4); (12, 4)]) 0 t5__ in
let meta_len := sint (mkSfmt false 16 [(0, 8); (8, 4); (12, 4)]) 1 t5__ in
let meta_req := sint (mkSfmt false 16 [(0, 8); (8, 4); (12, 4)]) 2 t5__ in
let meta_len := (2048 * 32) in
(self, Ok (Some (mkRspec false meta_offset meta_len None))) end) else (
gen_vhdx_find_meta_region_loop1 k__ (i + 1) self region_entry_first regi cksum count reserved meta_offset) end end
  end.
Definition gen_vhdx_find_meta_region (self : ist unit) : ist unit * res (option rspec) :=
let region_entry_first := 16 in
match (gen_region self R_header) with Exn e__ => (self, Exn e__) | Ok t1__ =>
match (unpack (mkSfmt false 16 [(0, 4); (4, 4); (8, 4); (12, 4)]) (ntake 16 (r_data t1__))) with Exn e__ => (self, Exn e__) | Ok t2__ =>
let regi := sint (mkSfmt false 16 [(0, 4); (4, 4); (8, 4); (12, 4)]) 0 t2__ in
let cksum := sint (mkSfmt false 16 [(0, 4); (4, 4); (8, 4); (12, 4)]) 1 t2__ in
let count := sint (mkSfmt false 16 [(0, 4); (4, 4); (8, 4); (12, 4)]) 2 t2__ in
let reserved := sint (mkSfmt false 16 [(0, 4); (4, 4); (8, 4); (12, 4)]) 3 t2__ in
if (negb (regi =? 1768383858)) then (
(self, Exn ImageFormatError)) else (
if (2048 <=? count) then (
(self, Exn ImageFormatError)) else (
let meta_offset := 0 in
gen_vhdx_find_meta_region_loop1 (N.to_nat count) 0 self region_entry_first regi cksum count reserved meta_offset)) end end.

Fixpoint gen_vhdx_find_meta_entry_loop1 (k_ : nat) (i : N) (self : ist unit) (desired_guid : bytes) (meta_buffer : bytes) (sig : bytes) (reserved : N) (count : N) (entries_size : N) {struct k_} : ist unit * res (option rspec) :=
  match k_ with
  | O =>
(self, Ok None)
  | S k__ =>
let entry_offset := (32 + (i * 32)) in
match (gen_vhdx_guid (nsub entry_offset (entry_offset + 16) meta_buffer)) with Exn e__ => (self, Exn e__) | Ok t3__ =>
let guid := t3__ in
if (beq guid desired_guid) then (
match (unpack (mkSfmt false 12 [(0, 4); (4, 4); (8, 4)]) (nsub (entry_offset + 16) (entry_offset + 28) meta_buffer)) with Exn e__ => (self, Exn e__) | Ok t4__ =>
let item_offset := sint (mkSfmt false 12 [(0, 4); (4, 4); (8, 4)]) 0 t4__ in
let item_length := sint (mkSfmt false 12 [(0, 4); (4, 4); (8, 4)]) 1 t4__ in
let _reserved := sint (mkSfmt false 12 [(0, 4); (4, 4); (8, 4)]) 2 t4__ in
let item_length := (N.min item_length 65536) in
match py_set_region_length self R_metadata (flen meta_buffer) with (self, Some e__) => (self, Exn e__) | (self, None) =>
match (gen_region self R_metadata) with Exn e__ => (self, Exn e__) | Ok t5__ =>
(self, Ok (Some (mkRspec false ((r_off t5__) + item_offset) item_length None))) end end end) else (
gen_vhdx_find_meta_entry_loop1 k__ (i + 1) self desired_guid meta_buffer sig reserved count entries_size) end
  end.
Definition gen_vhdx_find_meta_entry (self : ist unit) (desired_guid : bytes) : ist unit * res (option rspec) :=
match (gen_region self R_metadata) with Exn e__ => (self, Exn e__) | Ok t1__ =>
let meta_buffer := (r_data t1__) in
if ((flen meta_buffer) <? 32) then (
(self, Ok None)) else (
match (unpack (mkSfmt false 12 [(0, 8); (8, 2); (10, 2)]) (ntake 12 meta_buffer)) with Exn e__ => (self, Exn e__) | Ok t2__ =>
let sig := sraw (mkSfmt false 12 [(0, 8); (8, 2); (10, 2)]) 0 t2__ in
let reserved := sint (mkSfmt false 12 [(0, 8); (8, 2); (10, 2)]) 1 t2__ in
let count := sint (mkSfmt false 12 [(0, 8); (8, 2); (10, 2)]) 2 t2__ in
if (negb (beq sig ([109;101;116;97;100;97;116;97]%N : bytes))) then (
(self, Exn ImageFormatError)) else (
let entries_size := (32 + (count * 32)) in
if ((flen meta_buffer) <? entries_size) then (
(self, Ok None)) else (
if (2048 <=? count) then (
(self, Exn ImageFormatError)) else (
gen_vhdx_find_meta_entry_loop1 (N.to_nat count) 0 self desired_guid meta_buffer sig reserved count entries_size))) end) end.

Definition gen_vhdx_post_process (self : ist unit) : ist unit * option exn :=
match (gen_region self R_header) with Exn e__ => (self, Some e__) | Ok t1__ =>
if (py_region_complete t1__) then (
if (gen_has_region self R_metadata) then (
if (gen_has_region self R_metadata) then (
if (gen_has_region self R_vds) then (
(self, None)) else (
match (gen_vhdx_find_meta_entry self VHDX_GUID_VIRTUAL_DISK_SIZE) with (self, Exn e__) => (self, Some e__) | (self, Ok t2__) =>
let region := t2__ in
match region with Some region => (
match (new_region R_vds region self) with (self, Some e__) => (self, Some e__) | (self, None) =>
(self, None) end) | None => (
(self, None)) end end)) else (
(self, None))) else (
match (gen_vhdx_find_meta_region self) with (self, Exn e__) => (self, Some e__) | (self, Ok t3__) =>
let region := t3__ in
match region with Some region => (
match (new_region R_metadata region self) with (self, Some e__) => (self, Some e__) | (self, None) =>
(self, None) end) | None => (
(self, None)) end end)) else (
if (gen_has_region self R_metadata) then (
if (gen_has_region self R_vds) then (
(self, None)) else (
match (gen_vhdx_find_meta_entry self VHDX_GUID_VIRTUAL_DISK_SIZE) with (self, Exn e__) => (self, Some e__) | (self, Ok t4__) =>
let region := t4__ in
match region with Some region => (
match (new_region R_vds region self) with (self, Some e__) => (self, Some e__) | (self, None) =>
(self, None) end) | None => (
(self, None)) end end)) else (
(self, None))) end.

Definition gen_vmdk_parse_descriptor (self : ist vx) : ist vx * option exn :=
match (gen_region self R_descriptor) with Exn e__ => (self, Some e__) | Ok t1__ =>
let desc_data := (r_data t1__) in
match (py_index ([0]%N : bytes) desc_data) with Exn e__ => match (py_decode_ascii desc_data) with Exn e__ => (self, None) | Ok t5__ =>
let desc_text := (lower_ascii t5__) in
match (py_index ([99;114;101;97;116;101;116;121;112;101;61;34]%N : bytes) desc_text) with Exn e__ => let vmdktype := ([102;111;114;109;97;116;110;111;116;102;111;117;110;100]%N : bytes) in
let self := set_ext self (mkVx (Some desc_text) (v_vmdktype (i_ext self))) in
let self := set_ext self (mkVx (v_desc_text (i_ext self)) vmdktype) in
(self, None) | Ok t6__ =>
let type_idx := (t6__ + (flen ([99;114;101;97;116;101;116;121;112;101;61;34]%N : bytes))) in
let type_end := (py_find_from ([34]%N : bytes) desc_text type_idx) in
if ((type_end - (Z.of_N type_idx))%Z <? (Z.of_N 64))%Z then (
let vmdktype := (zslice (Some (Z.of_N type_idx)) (Some type_end) desc_text) in
let self := set_ext self (mkVx (Some desc_text) (v_vmdktype (i_ext self))) in
let self := set_ext self (mkVx (v_desc_text (i_ext self)) vmdktype) in
(self, None)) else (
let vmdktype := ([102;111;114;109;97;116;110;111;116;102;111;117;110;100]%N : bytes) in
let self := set_ext self (mkVx (Some desc_text) (v_vmdktype (i_ext self))) in
let self := set_ext self (mkVx (v_desc_text (i_ext self)) vmdktype) in
(self, None)) end end | Ok t2__ =>
let pad_idx := t2__ in
let desc_data := (ntake pad_idx desc_data) in
match (py_decode_ascii desc_data) with Exn e__ => (self, None) | Ok t3__ =>
let desc_text := (lower_ascii t3__) in
match (py_index ([99;114;101;97;116;101;116;121;112;101;61;34]%N : bytes) desc_text) with Exn e__ => let vmdktype := ([102;111;114;109;97;116;110;111;116;102;111;117;110;100]%N : bytes) in
let self := set_ext self (mkVx (Some desc_text) (v_vmdktype (i_ext self))) in
let self := set_ext self (mkVx (v_desc_text (i_ext self)) vmdktype) in
(self, None) | Ok t4__ =>
let type_idx := (t4__ + (flen ([99;114;101;97;116;101;116;121;112;101;61;34]%N : bytes))) in
let type_end := (py_find_from ([34]%N : bytes) desc_text type_idx) in
if ((type_end - (Z.of_N type_idx))%Z <? (Z.of_N 64))%Z then (
let vmdktype := (zslice (Some (Z.of_N type_idx)) (Some type_end) desc_text) in
let self := set_ext self (mkVx (Some desc_text) (v_vmdktype (i_ext self))) in
let self := set_ext self (mkVx (v_desc_text (i_ext self)) vmdktype) in
(self, None)) else (
let vmdktype := ([102;111;114;109;97;116;110;111;116;102;111;117;110;100]%N : bytes) in
let self := set_ext self (mkVx (Some desc_text) (v_vmdktype (i_ext self))) in
let self := set_ext self (mkVx (v_desc_text (i_ext self)) vmdktype) in
(self, None)) end end end end.

Definition gen_vmdk_region_complete (self : ist vx) (region_name : rname) : ist vx * option exn :=
if (rname_beq region_name R_descriptor) then (
match (gen_vmdk_parse_descriptor self) with (self, Some e__) => (self, Some e__) | (self, None) =>
(self, None) end) else (
(self, None)).

Definition gen_vmdk_post_process (self : ist vx) : ist vx * option exn :=
if (gen_has_region self R_header) then (
match (gen_region self R_header) with Exn e__ => (self, Some e__) | Ok t1__ =>
if (py_region_complete t1__) then (
match (vmdk_parse_sparse self R_header 0) with Exn e__ => (self, Some e__) | Ok t2__ =>
let '(sig, ver, desc_sec, desc_num, gdOffset) := t2__ in
match (gen_region self R_header) with Exn e__ => (self, Some e__) | Ok t3__ =>
let is_text := (py_all_ascii (fun char => negb ((negb (cmem char ASCII_PRINT_RANGES)) && (negb (cmem char ASCII_SPACE_RANGES)))) (r_data t3__)) in
if (negb (beq sig ([75;68;77;86]%N : bytes))) then (
if is_text then (
match (delete_region R_header self) with (self, Some e__) => (self, Some e__) | (self, None) =>
(self, None) end) else (
(self, Some ImageFormatError))) else (
if (negb ((ver =? 1) || (ver =? 2) || (ver =? 3))) then (
(self, Some ImageFormatError)) else (
if (gdOffset =? 18446744073709551615) then (
if (gen_has_region self R_footer) then (
let desc_offset := (desc_sec * 512) in
let desc_size := (N.min (desc_num * 512) 1048575) in
if (negb (desc_offset =? 512)) then (
(self, Some ImageFormatError)) else (
match (gen_region self R_descriptor) with Exn e__ => (self, Some e__) | Ok t4__ =>
if ((r_off t4__) =? 0) then (
match (delete_region R_descriptor self) with (self, Some e__) => (self, Some e__) | (self, None) =>
match (new_region R_descriptor (mkRspec false desc_offset desc_size None) self) with (self, Some e__) => (self, Some e__) | (self, None) =>
(self, None) end end) else (
(self, None)) end)) else (
match (new_region R_footer (mkRspec true 1536 1536 None) self) with (self, Some e__) => (self, Some e__) | (self, None) =>
match (add_check K_footer self) with (self, Some e__) => (self, Some e__) | (self, None) =>
let desc_offset := (desc_sec * 512) in
let desc_size := (N.min (desc_num * 512) 1048575) in
if (negb (desc_offset =? 512)) then (
(self, Some ImageFormatError)) else (
match (gen_region self R_descriptor) with Exn e__ => (self, Some e__) | Ok t5__ =>
if ((r_off t5__) =? 0) then (
match (delete_region R_descriptor self) with (self, Some e__) => (self, Some e__) | (self, None) =>
match (new_region R_descriptor (mkRspec false desc_offset desc_size None) self) with (self, Some e__) => (self, Some e__) | (self, None) =>
(self, None) end end) else (
(self, None)) end) end end)) else (
let desc_offset := (desc_sec * 512) in
let desc_size := (N.min (desc_num * 512) 1048575) in
if (negb (desc_offset =? 512)) then (
(self, Some ImageFormatError)) else (
match (gen_region self R_descriptor) with Exn e__ => (self, Some e__) | Ok t6__ =>
if ((r_off t6__) =? 0) then (
match (delete_region R_descriptor self) with (self, Some e__) => (self, Some e__) | (self, None) =>
match (new_region R_descriptor (mkRspec false desc_offset desc_size None) self) with (self, Some e__) => (self, Some e__) | (self, None) =>
(self, None) end end) else (
(self, None)) end)))) end end) else (
(self, None)) end) else (
(self, None)).
