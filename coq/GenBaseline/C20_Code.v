(* GENERATED from oslo_utils/fileutils.py by tools/gen/gen_C20.py (statement-level translation) on every run. Do not edit. *)

Require Import OV.Base.Bytes OV.Base.Py OV.Gen.C20_Consts OV.Model.C20_OS.
Open Scope Z_scope.
Section C20Gen.
Context {W H : Type} (rt : runtime W H).
Definition gen_ensure_tree (path : bytes) (mode : Z) (w : W) : W * ores (unit) :=
match rt_makedirs rt path mode w with
| (w, OOk _) =>
(w, OOk tt)
| (w, OErr e_1) => (
if ((os_errno e_1) =? errno_EEXIST) then (
if (negb (rt_isdir rt path w)) then (
(w, OErr e_1)
) else (
(w, OOk tt)
)
) else (
(w, OErr e_1)
))
| (w, OExn x_2) => (w, OExn x_2)
end.

Definition gen_delete_if_exists (path : bytes) (remove : bytes -> W -> W * ores unit) (w : W) : W * ores (unit) :=
match remove path w with
| (w, OOk _) =>
(w, OOk tt)
| (w, OErr e_1) => (
if (negb ((os_errno e_1) =? errno_ENOENT)) then (
(w, OErr e_1)
) else (
(w, OOk tt)
))
| (w, OExn x_2) => (w, OExn x_2)
end.

Fixpoint gen_write_to_tempfile_wloop (fuel_ : nat) (fd : Z) (view : bytes) (w : W) {struct fuel_} : option (W * ores unit) :=
  match fuel_ with O => None | S fuel__ =>
  if (negb ((zlen view) =? 0)) then (
match rt_write rt fd view w with
| (w, OOk n_1) =>
let view := zslice (Some n_1) None view in
gen_write_to_tempfile_wloop fuel__ fd view w
| (w, OErr e_2) => Some (w, OErr e_2)
| (w, OExn x_3) => Some (w, OExn x_3)
end)
  else Some (w, OOk tt) end.
Definition gen_write_to_tempfile (content : bytes) (path : option bytes) (suffix : bytes) (prefix : bytes) (w : W) : W * ores (bytes) :=
match path with
| Some path__s => if nonempty path__s then (
match gen_ensure_tree path__s default_mode w with
| (w, OOk _) =>
match rt_mkstemp rt suffix path prefix w with
| (w, OOk (fd, path)) =>
let view := content in
match gen_write_to_tempfile_wloop (S (length view)) fd view w with
| None => match rt_close rt fd w with
| (w, OOk _) => (w, OExn OtherError)
| (w, OErr e_5) => (w, OErr e_5)
| (w, OExn x_6) => (w, OExn x_6)
end
| Some (w, OOk _) =>
match rt_close rt fd w with
| (w, OOk _) => (
(w, OOk path))
| (w, OErr e_5) => (w, OErr e_5)
| (w, OExn x_6) => (w, OExn x_6)
end
| Some (w, OErr e_7) => match rt_close rt fd w with
| (w, OOk _) => (w, OErr e_7)
| (w, OErr e_5) => (w, OErr e_5)
| (w, OExn x_6) => (w, OExn x_6)
end
| Some (w, OExn x_8) => match rt_close rt fd w with
| (w, OOk _) => (w, OExn x_8)
| (w, OErr e_5) => (w, OErr e_5)
| (w, OExn x_6) => (w, OExn x_6)
end
end
| (w, OErr e_3) => (w, OErr e_3)
| (w, OExn x_4) => (w, OExn x_4)
end
| (w, OErr e_1) => (w, OErr e_1)
| (w, OExn x_2) => (w, OExn x_2)
end
) else (
match rt_mkstemp rt suffix path prefix w with
| (w, OOk (fd, path)) =>
let view := content in
match gen_write_to_tempfile_wloop (S (length view)) fd view w with
| None => match rt_close rt fd w with
| (w, OOk _) => (w, OExn OtherError)
| (w, OErr e_11) => (w, OErr e_11)
| (w, OExn x_12) => (w, OExn x_12)
end
| Some (w, OOk _) =>
match rt_close rt fd w with
| (w, OOk _) => (
(w, OOk path))
| (w, OErr e_11) => (w, OErr e_11)
| (w, OExn x_12) => (w, OExn x_12)
end
| Some (w, OErr e_13) => match rt_close rt fd w with
| (w, OOk _) => (w, OErr e_13)
| (w, OErr e_11) => (w, OErr e_11)
| (w, OExn x_12) => (w, OExn x_12)
end
| Some (w, OExn x_14) => match rt_close rt fd w with
| (w, OOk _) => (w, OExn x_14)
| (w, OErr e_11) => (w, OErr e_11)
| (w, OExn x_12) => (w, OExn x_12)
end
end
| (w, OErr e_9) => (w, OErr e_9)
| (w, OExn x_10) => (w, OExn x_10)
end
)
| None => (
match rt_mkstemp rt suffix path prefix w with
| (w, OOk (fd, path)) =>
let view := content in
match gen_write_to_tempfile_wloop (S (length view)) fd view w with
| None => match rt_close rt fd w with
| (w, OOk _) => (w, OExn OtherError)
| (w, OErr e_11) => (w, OErr e_11)
| (w, OExn x_12) => (w, OExn x_12)
end
| Some (w, OOk _) =>
match rt_close rt fd w with
| (w, OOk _) => (
(w, OOk path))
| (w, OErr e_11) => (w, OErr e_11)
| (w, OExn x_12) => (w, OExn x_12)
end
| Some (w, OErr e_13) => match rt_close rt fd w with
| (w, OOk _) => (w, OErr e_13)
| (w, OErr e_11) => (w, OErr e_11)
| (w, OExn x_12) => (w, OExn x_12)
end
| Some (w, OExn x_14) => match rt_close rt fd w with
| (w, OOk _) => (w, OExn x_14)
| (w, OErr e_11) => (w, OErr e_11)
| (w, OExn x_12) => (w, OExn x_12)
end
end
| (w, OErr e_9) => (w, OErr e_9)
| (w, OExn x_10) => (w, OExn x_10)
end
)
end.

Fixpoint gen_compute_file_checksum_loop (fuel_ : nat) (read_chunksize : Z) (f : fobj) (checksum : H) {struct fuel_} : option (ores (fobj * H)) :=
  match fuel_ with O => None | S fuel__ =>
  match fread f read_chunksize with
  | (f, OOk chunk) => if beq chunk ([]%N : bytes) then Some (OOk (f, checksum)) else (
let checksum := rt_update rt checksum chunk in
gen_compute_file_checksum_loop fuel__ read_chunksize f checksum)
  | (f, OErr e_6) => Some (OErr e_6)
  | (f, OExn x_7) => Some (OExn x_7)
  end end.
Definition gen_compute_file_checksum (path : bytes) (read_chunksize : Z) (algorithm : bytes) (w : W) : ores (bytes) :=
match rt_hash_new rt algorithm with
| OOk checksum =>
match rt_open_rb rt path w with
| OOk data_3 =>
let f := fopen data_3 in
match gen_compute_file_checksum_loop (loop_fuel f) read_chunksize f checksum with
| None => OExn OtherError
| Some (OOk (f, checksum)) =>
match rt_hexdigest rt checksum with
| OOk v_10 =>
OOk v_10
| OErr e_11 => OErr e_11
| OExn x_12 => OExn x_12
end
| Some (OErr e_8) => OErr e_8
| Some (OExn x_9) => OExn x_9
end
| OErr e_4 => OErr e_4
| OExn x_5 => OExn x_5
end
| OErr e_1 => OErr e_1
| OExn x_2 => OExn x_2
end.

Definition gen_last_bytes (path : bytes) (num : Z) (w : W) : ores (bytes * Z) :=
match rt_open_rb rt path w with
| OOk data_1 =>
let fp := fopen data_1 in
match fseek fp (- num) os_SEEK_END with
| (fp, OOk _) =>
let unread_bytes := (ftell fp) in
match fread fp (-1) with
| (fp, OOk v_6) =>
OOk (v_6, unread_bytes)
| (fp, OErr e_7) => OErr e_7
| (fp, OExn x_8) => OExn x_8
end
| (fp, OErr e_4) => (
if ((os_errno e_4) =? errno_EINVAL) then (
match fseek fp (0) os_SEEK_SET with
| (fp, OOk _) =>
let unread_bytes := (ftell fp) in
match fread fp (-1) with
| (fp, OOk v_11) =>
OOk (v_11, unread_bytes)
| (fp, OErr e_12) => OErr e_12
| (fp, OExn x_13) => OExn x_13
end
| (fp, OErr e_9) => OErr e_9
| (fp, OExn x_10) => OExn x_10
end
) else (
OErr e_4
))
| (fp, OExn x_5) => OExn x_5
end
| OErr e_2 => OErr e_2
| OExn x_3 => OExn x_3
end.

End C20Gen.
