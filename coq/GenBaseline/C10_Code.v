(* GENERATED from oslo_utils/strutils.py by tools/gen/gen_C10.py (statement-level) on every run. Do not edit. *)

Require Import OV.Base.Bytes OV.Base.Py OV.Base.PyInt OV.Base.Str OV.Base.Regex OV.Base.PyFloat.
Require Import OV.Model.C10_Regex OV.Gen.C10_Units OV.Model.C10.
Open Scope Z_scope.
Definition gen_default_unit_system : str := [73;69;67]%N.
Definition gen_string_to_bytes (text unit_system : str) (return_int : bool) : res num :=
match lookup unit_system unit_system_info with
| None => (
Exn ValueError)
| Some (base, reg_ex) => (
let match_ := rz_match reg_ex text in
match match_ with
| Some (_, g_match) => (
match float_of_optstr (group_text text g_match 1%nat) with Exn e_ => Exn e_ | Ok magnitude =>
let unit_prefix := (group_text text g_match 2%nat) in
if (optstr_in (group_text text g_match 3%nat) [([98]%N : str); ([98;105;116]%N : str)]) then (
match f_div_int magnitude (8)%Z with Exn e_ => Exn e_ | Ok magnitude =>
if (beq unit_system ([109;105;120;101;100]%N : str)) then (
if (match unit_prefix with Some (c_ :: r_) => let unit_prefix_s := (c_ :: r_) in (negb (endswith ([105]%N : str) unit_prefix_s)) | _ => false end) then (
match unit_prefix with
| None => Exn AttributeError
| Some _ => (
if false then (
let unit_prefix := Some ([107]%N : str) in
let base := Some (1000)%Z in
if (negb (truthy unit_prefix)) then (
let res := magnitude in
if return_int then (
match ceil_to_Z res with
| Ok z_ => Ok (NInt z_)
| Exn e_ => match e_ with OverflowError => (
Exn ValueError)
| _ => Exn e_ end
end) else (
Ok (NFloat res))) else (
match lookup_opt unit_prefix unit_prefix_exponent with None => Exn KeyError | Some e_ =>
match py_pow base e_ with Exn x_ => Exn x_ | Ok p_ =>
match f_mul_int magnitude p_ with Exn x_ => Exn x_ | Ok res =>
if return_int then (
match ceil_to_Z res with
| Ok z_ => Ok (NInt z_)
| Exn e_ => match e_ with OverflowError => (
Exn ValueError)
| _ => Exn e_ end
end) else (
Ok (NFloat res)) end end end)) else (
let base := Some (1000)%Z in
if (negb (truthy unit_prefix)) then (
let res := magnitude in
if return_int then (
match ceil_to_Z res with
| Ok z_ => Ok (NInt z_)
| Exn e_ => match e_ with OverflowError => (
Exn ValueError)
| _ => Exn e_ end
end) else (
Ok (NFloat res))) else (
match lookup_opt unit_prefix unit_prefix_exponent with None => Exn KeyError | Some e_ =>
match py_pow base e_ with Exn x_ => Exn x_ | Ok p_ =>
match f_mul_int magnitude p_ with Exn x_ => Exn x_ | Ok res =>
if return_int then (
match ceil_to_Z res with
| Ok z_ => Ok (NInt z_)
| Exn e_ => match e_ with OverflowError => (
Exn ValueError)
| _ => Exn e_ end
end) else (
Ok (NFloat res)) end end end)))
end) else (
let base := Some (1024)%Z in
if (negb (truthy unit_prefix)) then (
let res := magnitude in
if return_int then (
match ceil_to_Z res with
| Ok z_ => Ok (NInt z_)
| Exn e_ => match e_ with OverflowError => (
Exn ValueError)
| _ => Exn e_ end
end) else (
Ok (NFloat res))) else (
match lookup_opt unit_prefix unit_prefix_exponent with None => Exn KeyError | Some e_ =>
match py_pow base e_ with Exn x_ => Exn x_ | Ok p_ =>
match f_mul_int magnitude p_ with Exn x_ => Exn x_ | Ok res =>
if return_int then (
match ceil_to_Z res with
| Ok z_ => Ok (NInt z_)
| Exn e_ => match e_ with OverflowError => (
Exn ValueError)
| _ => Exn e_ end
end) else (
Ok (NFloat res)) end end end))) else (
if (negb (truthy unit_prefix)) then (
let res := magnitude in
if return_int then (
match ceil_to_Z res with
| Ok z_ => Ok (NInt z_)
| Exn e_ => match e_ with OverflowError => (
Exn ValueError)
| _ => Exn e_ end
end) else (
Ok (NFloat res))) else (
match lookup_opt unit_prefix unit_prefix_exponent with None => Exn KeyError | Some e_ =>
match py_pow base e_ with Exn x_ => Exn x_ | Ok p_ =>
match f_mul_int magnitude p_ with Exn x_ => Exn x_ | Ok res =>
if return_int then (
match ceil_to_Z res with
| Ok z_ => Ok (NInt z_)
| Exn e_ => match e_ with OverflowError => (
Exn ValueError)
| _ => Exn e_ end
end) else (
Ok (NFloat res)) end end end)) end) else (
if (beq unit_system ([109;105;120;101;100]%N : str)) then (
if (match unit_prefix with Some (c_ :: r_) => let unit_prefix_s := (c_ :: r_) in (negb (endswith ([105]%N : str) unit_prefix_s)) | _ => false end) then (
match unit_prefix with
| None => Exn AttributeError
| Some _ => (
if false then (
let unit_prefix := Some ([107]%N : str) in
let base := Some (1000)%Z in
if (negb (truthy unit_prefix)) then (
let res := magnitude in
if return_int then (
match ceil_to_Z res with
| Ok z_ => Ok (NInt z_)
| Exn e_ => match e_ with OverflowError => (
Exn ValueError)
| _ => Exn e_ end
end) else (
Ok (NFloat res))) else (
match lookup_opt unit_prefix unit_prefix_exponent with None => Exn KeyError | Some e_ =>
match py_pow base e_ with Exn x_ => Exn x_ | Ok p_ =>
match f_mul_int magnitude p_ with Exn x_ => Exn x_ | Ok res =>
if return_int then (
match ceil_to_Z res with
| Ok z_ => Ok (NInt z_)
| Exn e_ => match e_ with OverflowError => (
Exn ValueError)
| _ => Exn e_ end
end) else (
Ok (NFloat res)) end end end)) else (
let base := Some (1000)%Z in
if (negb (truthy unit_prefix)) then (
let res := magnitude in
if return_int then (
match ceil_to_Z res with
| Ok z_ => Ok (NInt z_)
| Exn e_ => match e_ with OverflowError => (
Exn ValueError)
| _ => Exn e_ end
end) else (
Ok (NFloat res))) else (
match lookup_opt unit_prefix unit_prefix_exponent with None => Exn KeyError | Some e_ =>
match py_pow base e_ with Exn x_ => Exn x_ | Ok p_ =>
match f_mul_int magnitude p_ with Exn x_ => Exn x_ | Ok res =>
if return_int then (
match ceil_to_Z res with
| Ok z_ => Ok (NInt z_)
| Exn e_ => match e_ with OverflowError => (
Exn ValueError)
| _ => Exn e_ end
end) else (
Ok (NFloat res)) end end end)))
end) else (
let base := Some (1024)%Z in
if (negb (truthy unit_prefix)) then (
let res := magnitude in
if return_int then (
match ceil_to_Z res with
| Ok z_ => Ok (NInt z_)
| Exn e_ => match e_ with OverflowError => (
Exn ValueError)
| _ => Exn e_ end
end) else (
Ok (NFloat res))) else (
match lookup_opt unit_prefix unit_prefix_exponent with None => Exn KeyError | Some e_ =>
match py_pow base e_ with Exn x_ => Exn x_ | Ok p_ =>
match f_mul_int magnitude p_ with Exn x_ => Exn x_ | Ok res =>
if return_int then (
match ceil_to_Z res with
| Ok z_ => Ok (NInt z_)
| Exn e_ => match e_ with OverflowError => (
Exn ValueError)
| _ => Exn e_ end
end) else (
Ok (NFloat res)) end end end))) else (
if (negb (truthy unit_prefix)) then (
let res := magnitude in
if return_int then (
match ceil_to_Z res with
| Ok z_ => Ok (NInt z_)
| Exn e_ => match e_ with OverflowError => (
Exn ValueError)
| _ => Exn e_ end
end) else (
Ok (NFloat res))) else (
match lookup_opt unit_prefix unit_prefix_exponent with None => Exn KeyError | Some e_ =>
match py_pow base e_ with Exn x_ => Exn x_ | Ok p_ =>
match f_mul_int magnitude p_ with Exn x_ => Exn x_ | Ok res =>
if return_int then (
match ceil_to_Z res with
| Ok z_ => Ok (NInt z_)
| Exn e_ => match e_ with OverflowError => (
Exn ValueError)
| _ => Exn e_ end
end) else (
Ok (NFloat res)) end end end))) end)
| None => (
Exn ValueError)
end)
end.
