(* GENERATED from oslo_utils/imageutils/format_inspector.py by tools/gen/gen_C02_checks.py (py2gal extended) on every run. Do not edit. *)
Require Import OV.Base.Bytes OV.Base.Py OV.Base.PyInt OV.Base.Str OV.Base.Insp_Struct OV.Base.C02_Py OV.Gen.Insp_Consts.
Open Scope Z_scope.
Definition C02sf_0 : sfmt := mkSfmt true 8%N [(0%N, 8%N)].  (* >Q *)
Definition C02sf_1 : sfmt := mkSfmt false 16%N [(0%N, 1%N); (1%N, 1%N); (2%N, 1%N); (3%N, 1%N); (4%N, 1%N); (5%N, 1%N); (6%N, 1%N); (7%N, 1%N); (8%N, 4%N); (12%N, 4%N)].  (* <B3BB3BII *)
Definition C02sf_2 : sfmt := mkSfmt true 108%N [(0%N, 6%N); (6%N, 2%N); (8%N, 32%N); (40%N, 32%N); (72%N, 32%N); (104%N, 4%N)].  (* >6sh32s32s32sI *)
Definition C02sf_3 : sfmt := mkSfmt false 64%N [(0%N, 4%N); (4%N, 4%N); (8%N, 4%N); (12%N, 8%N); (20%N, 8%N); (28%N, 8%N); (36%N, 8%N); (44%N, 4%N); (48%N, 8%N); (56%N, 8%N)].  (* <4sIIQQQQIQQ *)
Definition C02sf_4 : sfmt := mkSfmt false 512%N [(0%N, 8%N); (8%N, 4%N); (12%N, 4%N); (16%N, 496%N)].  (* <QII496s *)
Definition gen_qcow_check_backing_file (hdr : bytes) : res unit :=
let bf_offset_bytes := (zslice (Some (Z.of_N QCOW_BF_OFFSET)) (Some ((Z.of_N QCOW_BF_OFFSET) + (Z.of_N QCOW_BF_OFFSET_LEN))) hdr) in
match unpackZ C02sf_0 bf_offset_bytes with Exn e__ => Exn e__ | Ok u__1 =>
let bf_offset := ufield C02sf_0 0 u__1 in
if (negb (bf_offset =? (0))) then (
Exn SafetyViolation) else (
Ok tt) end.

Definition gen_qcow_check_data_file (hdr : bytes) : res unit :=
let i_features := (zslice (Some (Z.of_N QCOW_I_FEATURES)) (Some ((Z.of_N QCOW_I_FEATURES) + (Z.of_N QCOW_I_FEATURES_LEN))) hdr) in
let byte := (((Z.of_N QCOW_I_FEATURES_LEN) - (1)) - ((Z.of_N QCOW_I_FEATURES_DATAFILE_BIT) / (8))) in
let bit := (Z.shiftl (1) ((Z.of_N QCOW_I_FEATURES_DATAFILE_BIT) - ((1) mod (8)))) in
match (bidxZ i_features byte) with Exn e__ => Exn e__ | Ok ix__1 =>
if (negb ((Z.land ix__1 bit) =? 0)) then (
Exn SafetyViolation) else (
Ok tt) end.

Fixpoint gen_qcow_check_unknown_features_loop1 (fuel__ : nat) (i : Z) (n__ : Z) (hdr : bytes) (i_features : bytes) (max_byte : Z) (ver : option Z) (version : option Z) {struct fuel__} : res (unit) :=
  match fuel__ with O => Ok tt | S k__ =>
let byte_num := n__ - 1 - i in
if (byte_num =? max_byte) then (
let allow_mask := ((Z.shiftl (1) ((Z.of_N QCOW_I_FEATURES_MAX_BIT) mod (8))) - (1)) in
match (bidxZ i_features i) with Exn e__ => Exn e__ | Ok ix__1 =>
if (negb ((Z.land ix__1 (Z.lnot allow_mask)) =? 0)) then (
match (bidxZ i_features byte_num) with Exn e__ => Exn e__ | Ok ix__2 =>
Exn SafetyViolation end) else (
gen_qcow_check_unknown_features_loop1 k__ (i + 1) n__ hdr i_features max_byte ver version) end) else (
if (byte_num >? max_byte) then (
let allow_mask := (0) in
match (bidxZ i_features i) with Exn e__ => Exn e__ | Ok ix__3 =>
if (negb ((Z.land ix__3 (Z.lnot allow_mask)) =? 0)) then (
match (bidxZ i_features byte_num) with Exn e__ => Exn e__ | Ok ix__4 =>
Exn SafetyViolation end) else (
gen_qcow_check_unknown_features_loop1 k__ (i + 1) n__ hdr i_features max_byte ver version) end) else (
let allow_mask := (255) in
match (bidxZ i_features i) with Exn e__ => Exn e__ | Ok ix__5 =>
if (negb ((Z.land ix__5 (Z.lnot allow_mask)) =? 0)) then (
match (bidxZ i_features byte_num) with Exn e__ => Exn e__ | Ok ix__6 =>
Exn SafetyViolation end) else (
gen_qcow_check_unknown_features_loop1 k__ (i + 1) n__ hdr i_features max_byte ver version) end)) end.
Definition gen_qcow_check_unknown_features (hdr : bytes) (version : option Z) : res unit :=
let ver := version in
if (opt_eqb ver (2)) then (
Ok tt) else (
if (negb (opt_eqb ver (3))) then (
Exn SafetyViolation) else (
let i_features := (zslice (Some (Z.of_N QCOW_I_FEATURES)) (Some ((Z.of_N QCOW_I_FEATURES) + (Z.of_N QCOW_I_FEATURES_LEN))) hdr) in
let max_byte := ((Z.of_N QCOW_I_FEATURES_MAX_BIT) / (8)) in
match gen_qcow_check_unknown_features_loop1 (Z.to_nat (Z.of_N QCOW_I_FEATURES_LEN)) 0 (Z.of_N QCOW_I_FEATURES_LEN) hdr i_features max_byte ver version with Exn e__ => Exn e__ | Ok _ =>
Ok tt end)).

Fixpoint gen_gpt_check_mbr_partitions_loop1 (fuel__ : nat) (i : Z) (n__ : Z) (mbr : bytes) (found_gpt : bool) (valid_partitions : list Z) {struct fuel__} : res (bool * list Z) :=
  match fuel__ with O => Ok (found_gpt, valid_partitions) | S k__ =>
let pte_start := ((Z.of_N GPT_MBR_PTE_START) + ((16) * i)) in
let pte := (zslice (Some pte_start) (Some (pte_start + (16))) mbr) in
match unpackZ C02sf_1 pte with Exn e__ => Exn e__ | Ok u__1 =>
let boot := ufield C02sf_1 0 u__1 in
let starth := ufield C02sf_1 1 u__1 in
let starts := ufield C02sf_1 2 u__1 in
let startt := ufield C02sf_1 3 u__1 in
let ostype := ufield C02sf_1 4 u__1 in
let endh := ufield C02sf_1 5 u__1 in
let ehds := ufield C02sf_1 6 u__1 in
let endt := ufield C02sf_1 7 u__1 in
let startlba := ufield C02sf_1 8 u__1 in
let sizelba := ufield C02sf_1 9 u__1 in
if (negb ((boot =? 0) || (boot =? 128))) then (
Exn SafetyViolation) else (
if (negb (ostype =? (0))) then (
let valid_partitions := (valid_partitions ++ [i]) in
if (ostype =? (238)) then (
let found_gpt := true in
if (negb ((starth =? (0)) && (starts =? (2)) && (startt =? (0)))) then (
Exn SafetyViolation) else (
if (negb (startlba =? (1))) then (
Exn SafetyViolation) else (
gen_gpt_check_mbr_partitions_loop1 k__ (i + 1) n__ mbr found_gpt valid_partitions))) else (
gen_gpt_check_mbr_partitions_loop1 k__ (i + 1) n__ mbr found_gpt valid_partitions)) else (
if (ostype =? (238)) then (
let found_gpt := true in
if (negb ((starth =? (0)) && (starts =? (2)) && (startt =? (0)))) then (
Exn SafetyViolation) else (
if (negb (startlba =? (1))) then (
Exn SafetyViolation) else (
gen_gpt_check_mbr_partitions_loop1 k__ (i + 1) n__ mbr found_gpt valid_partitions))) else (
gen_gpt_check_mbr_partitions_loop1 k__ (i + 1) n__ mbr found_gpt valid_partitions))) end end.
Definition gen_gpt_check_mbr_partitions (mbr : bytes) : res unit :=
let valid_partitions := (@nil Z) in
let found_gpt := false in
match gen_gpt_check_mbr_partitions_loop1 (Z.to_nat (4)) 0 (4) mbr found_gpt valid_partitions with Exn e__ => Exn e__ | Ok (found_gpt, valid_partitions) =>
if (found_gpt && (negb (zlist_eqb valid_partitions [(0)]))) then (
Exn SafetyViolation) else (
if (negb (negb (is_nil valid_partitions))) then (
Exn SafetyViolation) else (
Ok tt)) end.

Definition gen_luks_check_version (hdr : bytes) : res unit :=
match unpackZ C02sf_2 (zslice None (Some (108)) hdr) with Exn e__ => Exn e__ | Ok header =>
if (negb ((sfield C02sf_2 1 header) =? (1))) then (
Exn SafetyViolation) else (
Ok tt) end.

Definition gen_vmdk_parse_sparse_header (data : bytes) (offset : Z) : res (bytes * Z * Z * Z * Z) :=
match unpackZ C02sf_3 (zslice (Some offset) (Some (offset + (Z.of_N VMDK_MIN_SPARSE_HEADER))) data) with Exn e__ => Exn e__ | Ok u__1 =>
let sig := bfield C02sf_3 0 u__1 in
let ver := ufield C02sf_3 1 u__1 in
let _flags := ufield C02sf_3 2 u__1 in
let _sectors := ufield C02sf_3 3 u__1 in
let _grain := ufield C02sf_3 4 u__1 in
let desc_sec := ufield C02sf_3 5 u__1 in
let desc_num := ufield C02sf_3 6 u__1 in
let _numGTEsperGT := ufield C02sf_3 7 u__1 in
let _rgdOffset := ufield C02sf_3 8 u__1 in
let gdOffset := ufield C02sf_3 9 u__1 in
Ok (sig, ver, desc_sec, desc_num, gdOffset) end.

Definition gen_vmdk_check_footer (hdr : bytes) (foot : bytes) : res unit :=
match gen_vmdk_parse_sparse_header hdr (0) with Exn e__ => Exn e__ | Ok (h_sig, h_ver, h_desc_sec, h_desc_num, h_goff) =>
match gen_vmdk_parse_sparse_header foot (512) with Exn e__ => Exn e__ | Ok (f_sig, f_ver, f_desc_sec, f_desc_num, f_goff) =>
if (negb (beq h_sig f_sig)) then (
Exn SafetyViolation) else (
if (negb (h_ver =? f_ver)) then (
Exn SafetyViolation) else (
if ((negb (h_desc_sec =? f_desc_sec)) || (negb (h_desc_num =? f_desc_num))) then (
Exn SafetyViolation) else (
if (f_goff =? (Z.of_N VMDK_GD_AT_END)) then (
Exn SafetyViolation) else (
let pad := (brepeat ([0]%N : bytes) (496)) in
match unpackZ C02sf_4 (zslice None (Some (512)) foot) with Exn e__ => Exn e__ | Ok u__1 =>
let val := ufield C02sf_4 0 u__1 in
let size := ufield C02sf_4 1 u__1 in
let typ := ufield C02sf_4 2 u__1 in
let zero := bfield C02sf_4 3 u__1 in
if ((negb (size =? (0))) || (negb (typ =? (Z.of_N VMDK_MARKER_FOOTER))) || (negb (beq zero pad))) then (
Exn SafetyViolation) else (
match unpackZ C02sf_4 (zslice (Some (- (512))) None foot) with Exn e__ => Exn e__ | Ok u__2 =>
let val := ufield C02sf_4 0 u__2 in
let size := ufield C02sf_4 1 u__2 in
let typ := ufield C02sf_4 2 u__2 in
let zero := bfield C02sf_4 3 u__2 in
if ((negb (val =? (0))) || (negb (size =? (0))) || (negb (typ =? (Z.of_N VMDK_MARKER_EOS))) || (negb (beq zero pad))) then (
Exn SafetyViolation) else (
Ok tt) end) end)))) end end.

Fixpoint gen_vmdk_check_descriptor_loop1 (items__ : list bytes) (desc_text : option bytes) (extent_access : list bytes) (vmdktype : bytes) (ddb : list bytes) (extents : list bytes) (header_fields : list bytes) {struct items__} : res (list bytes * list bytes * list bytes) :=
  match items__ with [] => Ok (ddb, extents, header_fields) | line :: l__ =>
if ((prefixb ([35]%N : bytes) line) || (negb (negb (is_nil line)))) then (
gen_vmdk_check_descriptor_loop1 l__ desc_text extent_access vmdktype ddb extents header_fields) else (
if (prefixb ([100;100;98]%N : bytes) line) then (
let ddb := (ddb ++ [line]) in
gen_vmdk_check_descriptor_loop1 l__ desc_text extent_access vmdktype ddb extents header_fields) else (
if ((memN 61%N line) && (negb (memN 32%N (first_field 61%N line)))) then (
let header_fields := (header_fields ++ [line]) in
gen_vmdk_check_descriptor_loop1 l__ desc_text extent_access vmdktype ddb extents header_fields) else (
if (mem_str (first_field 32%N line) extent_access) then (
let extents := (extents ++ [line]) in
gen_vmdk_check_descriptor_loop1 l__ desc_text extent_access vmdktype ddb extents header_fields) else (
Exn SafetyViolation)))) end.
Fixpoint gen_vmdk_check_descriptor_loop2 (items__ : list bytes) (ddb : list bytes) (desc_text : option bytes) (extent_access : list bytes) (extents : list bytes) (header_fields : list bytes) (vmdktype : bytes) {struct items__} : res (unit) :=
  match items__ with [] => Ok tt | extent_line :: l__ =>
if (memN 47%N extent_line) then (
Exn SafetyViolation) else (
gen_vmdk_check_descriptor_loop2 l__ ddb desc_text extent_access extents header_fields vmdktype) end.
Definition gen_vmdk_check_descriptor (desc_text : option bytes) (vmdktype : bytes) : res unit :=
match desc_text with
| None => Exn SafetyViolation
| Some [] => Exn SafetyViolation
| Some text__1 =>
let extent_access := [([114;119]%N : bytes); ([114;100;111;110;108;121]%N : bytes); ([110;111;97;99;99;101;115;115]%N : bytes)] in
let header_fields := (@nil bytes) in
let extents := (@nil bytes) in
let ddb := (@nil bytes) in
if (negb (mem_str vmdktype [([109;111;110;111;108;105;116;104;105;99;115;112;97;114;115;101]%N : bytes); ([115;116;114;101;97;109;111;112;116;105;109;105;122;101;100]%N : bytes)])) then (
Exn SafetyViolation) else (
match gen_vmdk_check_descriptor_loop1 (map strip (split_char 10%N text__1)) desc_text extent_access vmdktype ddb extents header_fields with Exn e__ => Exn e__ | Ok (ddb, extents, header_fields) =>
match gen_vmdk_check_descriptor_loop2 extents ddb desc_text extent_access extents header_fields vmdktype with Exn e__ => Exn e__ | Ok _ =>
if (negb (negb (is_nil extents))) then (
Exn SafetyViolation) else (
Ok tt) end end) end.

Definition gen_check_call (target : res unit) : res unit :=
match (match target with Exn e__ => Exn e__ | Ok _ =>
Ok tt end) with
| Ok _ =>
Ok tt
| Exn e__1 => if (match e__1 with SafetyViolation => true | _ => false end) then (
Exn e__1) else (
Exn SafetyViolation) end.

Fixpoint gen_safety_check_loop (items__ : list (bytes * res unit)) (failures : list bytes) {struct items__} : res (list bytes) :=
  match items__ with [] => Ok failures | (check_name, check_out) :: l__ =>
match (match gen_check_call check_out with Exn e__ => Exn e__ | Ok result =>
if (match result with tt => false end) then (
Exn RuntimeError) else (
Ok tt) end) with
| Ok _ =>
gen_safety_check_loop l__ failures
| Exn e__1 => if (match e__1 with SafetyViolation => true | _ => false end) then (
let failures := (failures ++ [check_name]) in
gen_safety_check_loop l__ failures) else Exn e__1 end end.
Definition gen_safety_check (complete : bool) (fmatch : bool) (checks : list (bytes * res unit)) : res (option (list bytes)) :=
if (negb complete) then (
Exn ImageFormatError) else (
if (negb fmatch) then (
Exn ImageFormatError) else (
let failures := (@nil bytes) in
match gen_safety_check_loop checks failures with Exn e__ => Exn e__ | Ok failures =>
if (negb (is_nil failures)) then (
Ok (Some failures)) else (
Ok None) end)).
