(* GENERATED from oslo_utils/netutils.py by tools/gen/gen_C15.py (py2gal + str/tuple extensions) on every run. Do not edit. *)
Require Import OV.Base.Bytes OV.Base.Py OV.Base.PyInt OV.Base.Str OV.Base.C15_PyVal.
Open Scope Z_scope.
(* exception classes a netaddr call can raise, as the except clauses name them *)
Inductive libexn := LValueError | LAddrFormatError | LTypeError | LOtherExn.
(* guards in front of the try: block of get_ipv6_addr_by_EUI64 *)
Inductive guard := GuardNotStr | GuardIPv4Loose | GuardIPv4Strict.
Definition gen_eui64_combine (first eui64 : Z) : Z :=
(Z.lxor (first + eui64) (Z.shiftl (1) (57))).
Definition gen_eui64_prechecks : list (guard * exn) := [(GuardNotStr, TypeError); (GuardIPv4Loose, ValueError)].
Definition gen_eui64_handlers : list (list libexn * exn) := [([LValueError; LAddrFormatError], ValueError); ([LTypeError], TypeError)].

Definition gen_mac_of_ipv6 (ipv6 : Z) : Z :=
(Z.lxor ((Z.shiftr (Z.land ipv6 (18446742974197923840)) (16)) + (Z.land ipv6 (16777215))) (2199023255552)).

Definition gen_parse_host_port (address : bytes) (default_port : pyval) : res (option bytes * option Z) :=
if (bempty address) then (
Ok ((None, None))) else (
match nth_error address 0%nat with None => Exn (IndexError) | Some c__ =>
if (c__ =? 91)%N then (
match (rsplit_char_max 93%N (zslice (Some (1)) None address) 1%nat) with
| [f0__; f1__] =>
let _host := f0__ in
let _port := f1__ in
let host := _host in
if (has_char 58%N _port) then (
match nth_error (split_char 58%N _port) 1%nat with None => Exn (IndexError) | Some f__ =>
let port := (VStr f__) in
match opt_int port with Exn e__ => Exn (e__) | Ok r1__ =>
Ok (((Some host), r1__)) end end) else (
let port := default_port in
match opt_int port with Exn e__ => Exn (e__) | Ok r1__ =>
Ok (((Some host), r1__)) end)
| _ => Exn (ValueError) end) else (
if ((count_char 58%N address) =? (1)) then (
match (split_char 58%N address) with
| [f0__; f1__] =>
let host := f0__ in
let port := (VStr f1__) in
match opt_int port with Exn e__ => Exn (e__) | Ok r1__ =>
Ok (((Some host), r1__)) end
| _ => Exn (ValueError) end) else (
let host := address in
let port := default_port in
match opt_int port with Exn e__ => Exn (e__) | Ok r1__ =>
Ok (((Some host), r1__)) end)) end).

Definition gen_urlsplit_post (scheme : bytes) (netloc : bytes) (path : bytes) (query : bytes) (fragment : bytes) (allow_fragments : bool) : res (bytes * bytes * bytes * bytes * bytes) :=
if (allow_fragments && (has_char 35%N path)) then (
match (split_char_max 35%N path 1%nat) with
| [f0__; f1__] =>
let path := f0__ in
let fragment := f1__ in
if (has_char 63%N path) then (
match (split_char_max 63%N path 1%nat) with
| [f0__; f1__] =>
let path := f0__ in
let query := f1__ in
Ok ((scheme, netloc, path, query, fragment))
| _ => Exn (ValueError) end) else (
Ok ((scheme, netloc, path, query, fragment)))
| _ => Exn (ValueError) end) else (
if (has_char 63%N path) then (
match (split_char_max 63%N path 1%nat) with
| [f0__; f1__] =>
let path := f0__ in
let query := f1__ in
Ok ((scheme, netloc, path, query, fragment))
| _ => Exn (ValueError) end) else (
Ok ((scheme, netloc, path, query, fragment)))).
