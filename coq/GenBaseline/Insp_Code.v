(* GENERATED from oslo_utils/imageutils/format_inspector.py by tools/gen/gen_insp.py (py2gal) on every run. Do not edit. *)
Require Import OV.Base.Bytes OV.Base.Py.
Open Scope Z_scope.
Definition gen_capture (self_offset : Z) (self_length : Z) (self_data : bytes) (chunk : bytes) (current_position : Z) : (Z * Z * bytes) * unit :=
let read_start := (current_position - (zlen chunk)) in
let wanted := (self_offset + (zlen self_data)) in
if ((read_start <=? wanted) && (wanted <=? current_position)) then (
let self_data := (self_data ++ (zslice (Some (wanted - read_start)) None chunk)) in
let self_data := (zslice None (Some self_length) self_data) in
(((self_offset, self_length, self_data), tt))) else (
(((self_offset, self_length, self_data), tt))).
Definition gen_complete (self_length : Z) (self_data : bytes) (self_min_length : option Z) : (Z * bytes * option Z) * bool :=
match self_min_length with Some some_self_min_length => (
(((self_length, self_data, self_min_length), (some_self_min_length <=? (zlen self_data))))) | None => (
(((self_length, self_data, self_min_length), (self_length =? (zlen self_data))))) end.
Definition gen_end_capture (self_offset : Z) (self_length : Z) (self_data : bytes) (chunk : bytes) (current_position : Z) : (Z * Z * bytes) * unit :=
let self_data := (self_data ++ chunk) in
let self_data := (zslice (Some ((0) - self_length)) None self_data) in
let self_offset := (current_position - (zlen self_data)) in
(((self_offset, self_length, self_data), tt)).
