(* GENERATED from oslo_utils/strutils.py by tools/gen/gen_C08.py on every run. Do not edit. *)

Require Import OV.Base.Bytes OV.Model.C08_Syntax.
Open Scope N_scope.
(* out = ... before the loop *)
Definition gen_out_init : out_init := InitFresh 0.
(* the variables written through (X[k] = ..., del X[k], X.update(..), ...) anywhere in the function *)
Definition gen_store_vars : list hvar := [VarOut].
(* return ... *)
Definition gen_return_var : hvar := VarOut.
