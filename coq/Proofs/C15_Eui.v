(* Proofs/C15_Eui.v — get_ipv6_addr_by_EUI64 / get_mac_addr_by_ipv6: bit-level facts turned
   into div/mod arithmetic, the value theorem, the MAC round trip, the exception clause. *)
Require Import OV.Base.Bytes OV.Base.Py OV.Base.PyInt OV.Base.Str OV.Base.C15_PyVal.
Require Import OV.Gen.C15_Netutils OV.Model.C15 OV.Model.C15_Spec.
Open Scope Z_scope.

(* ================================================================== bit operations as arithmetic *)

(* x xor 2^k flips one bit: adds or subtracts 2^k *)
Lemma lxor_pow2 x k : 0 <= k ->
  Z.lxor x (2 ^ k) = if Z.testbit x k then x - 2 ^ k else x + 2 ^ k.
Proof.
  intros Hk.
  assert (Clear : forall y, Z.testbit y k = false -> Z.lxor y (2 ^ k) = y + 2 ^ k).
  { intros y Hy. symmetry. apply Z.add_nocarry_lxor.
    apply Z.bits_inj'. intros n Hn. rewrite Z.land_spec, Z.bits_0, Z.pow2_bits_eqb by exact Hk.
    destruct (Z.eqb_spec k n) as [->|]; [rewrite Hy; reflexivity|apply andb_false_r]. }
  destruct (Z.testbit x k) eqn:Hx; [|apply Clear; exact Hx].
  set (y := Z.lxor x (2 ^ k)).
  assert (Hy : Z.testbit y k = false).
  { subst y. rewrite Z.lxor_spec, Hx, Z.pow2_bits_true by exact Hk. reflexivity. }
  pose proof (Clear y Hy) as E. subst y.
  rewrite Z.lxor_assoc, Z.lxor_nilpotent, Z.lxor_0_r in E. lia.
Qed.

Lemma testbit_arith x k : 0 <= k -> Z.testbit x k = ((x / 2 ^ k) mod 2 =? 1).
Proof. apply Z.testbit_eqb. Qed.

(* a * 2^k and a number below 2^k have no common bit: or = + *)
Lemma land_mul_pow2_small a b k : 0 <= k -> 0 <= b < 2 ^ k -> Z.land (a * 2 ^ k) b = 0.
Proof.
  intros Hk Hb. apply Z.bits_inj'. intros n Hn. rewrite Z.land_spec, Z.bits_0.
  destruct (Z.ltb_spec n k) as [Hlt|Hge].
  - rewrite Z.mul_pow2_bits_low by exact Hlt. reflexivity.
  - replace (Z.testbit b n) with false; [apply andb_false_r|].
    symmetry. destruct (Z.eq_dec b 0) as [->|Hnz]; [apply Z.bits_0|].
    apply Z.bits_above_log2; [lia|].
    apply Z.log2_lt_pow2; [lia|].
    apply Z.lt_le_trans with (2 ^ k); [lia|]. apply Z.pow_le_mono_r; lia.
Qed.

Lemma lor_mul_pow2_small a b k : 0 <= k -> 0 <= b < 2 ^ k -> Z.lor (a * 2 ^ k) b = a * 2 ^ k + b.
Proof.
  intros Hk Hb. pose proof (land_mul_pow2_small a b k Hk Hb) as L.
  rewrite <- Z.lxor_lor by exact L. symmetry. apply Z.add_nocarry_lxor. exact L.
Qed.

(* x & (ones(a) << b) = ((x / 2^b) mod 2^a) * 2^b *)
Lemma land_shifted_ones x a b : 0 <= a -> 0 <= b ->
  Z.land x (Z.shiftl (Z.ones a) b) = ((x / 2 ^ b) mod 2 ^ a) * 2 ^ b.
Proof.
  intros Ha Hb. apply Z.bits_inj'. intros n Hn.
  rewrite Z.land_spec, Z.shiftl_spec, Z.mul_pow2_bits by assumption.
  destruct (Z.ltb_spec n b) as [Hlt|Hge].
  - rewrite (Z.testbit_neg_r (Z.ones a)), (Z.testbit_neg_r (_ mod _)) by lia. apply andb_false_r.
  - rewrite Z.testbit_ones_nonneg by lia. rewrite Z.testbit_mod_pow2 by exact Ha.
    rewrite Z.div_pow2_bits by lia. replace (n - b + b) with n by lia.
    destruct (Z.ltb_spec (n - b) a).
    + rewrite andb_true_r. reflexivity.
    + rewrite andb_false_r. reflexivity.
Qed.

Lemma mask_hi_eq : 0xFFFFFF0000000000 = Z.shiftl (Z.ones 24) 40. Proof. reflexivity. Qed.
Lemma mask_lo_eq : 0xFFFFFF = Z.ones 24. Proof. reflexivity. Qed.

(* ================================================================== the library arithmetic *)

Lemma eui48_to_64_arith mac : 0 <= mac < 2 ^ 48 -> eui48_to_64 mac = eui64_arith mac.
Proof.
  intros Hm. unfold eui48_to_64, eui64_arith.
  rewrite Z.shiftr_div_pow2, Z.shiftl_mul_pow2 by lia.
  rewrite mask_lo_eq, Z.land_ones by lia.
  assert (H1 : 0 <= mac mod 2 ^ 24 < 2 ^ 24) by (apply Z.mod_pos_bound; lia).
  rewrite (lor_mul_pow2_small (mac / 2 ^ 24) 0xFFFE000000 40) by lia.
  replace (mac / 2 ^ 24 * 2 ^ 40 + 0xFFFE000000) with ((mac / 2 ^ 24 * 2 ^ 16 + 0xFFFE) * 2 ^ 24) by lia.
  rewrite lor_mul_pow2_small by lia. lia.
Qed.

(* ================================================================== the U/L flip on the 24-bit OUI *)

Ltac dm := Z.div_mod_to_equations; lia.

Definition flip17 (hi : Z) : Z := if (hi / 2 ^ 17) mod 2 =? 1 then hi - 2 ^ 17 else hi + 2 ^ 17.

Lemma flip17_range hi : 0 <= hi < 2 ^ 24 -> 0 <= flip17 hi < 2 ^ 24.
Proof. intros H. unfold flip17. destruct (Z.eqb_spec ((hi / 2 ^ 17) mod 2) 1); dm. Qed.

Lemma flip17_invol hi : 0 <= hi < 2 ^ 24 -> flip17 (flip17 hi) = hi.
Proof.
  intros H. unfold flip17.
  destruct (Z.eqb_spec ((hi / 2 ^ 17) mod 2) 1) as [E|E].
  - assert (E' : ((hi - 2 ^ 17) / 2 ^ 17) mod 2 = 0) by dm.
    rewrite E'. cbn [Z.eqb]. lia.
  - assert (E' : ((hi + 2 ^ 17) / 2 ^ 17) mod 2 = 1) by dm.
    rewrite E'. cbn [Z.eqb Pos.eqb]. lia.
Qed.

(* (hi24 * 2^40 + 0xFFFE * 2^24 + lo24) xor 2^57, with the flip pushed into hi24 *)
Lemma modified_arith_form mac : 0 <= mac < 2 ^ 48 ->
  modified_eui64_arith mac = flip17 (mac / 2 ^ 24) * 2 ^ 40 + 0xFFFE * 2 ^ 24 + mac mod 2 ^ 24.
Proof.
  intros Hm. unfold modified_eui64_arith. rewrite lxor_pow2, testbit_arith by lia.
  unfold eui64_arith, flip17.
  set (hi := mac / 2 ^ 24). set (lo := mac mod 2 ^ 24).
  assert (Hhi : 0 <= hi < 2 ^ 24) by (subst hi; dm).
  assert (Hlo : 0 <= lo < 2 ^ 24) by (subst lo; dm).
  clearbody hi lo.
  assert (E : (hi * 2 ^ 40 + 65534 * 2 ^ 24 + lo) / 2 ^ 57 = hi / 2 ^ 17) by dm.
  rewrite E. destruct (Z.eqb_spec ((hi / 2 ^ 17) mod 2) 1); lia.
Qed.

Lemma modified_arith_range mac : 0 <= mac < 2 ^ 48 -> 2 ^ 32 <= modified_eui64_arith mac < 2 ^ 64.
Proof.
  intros Hm. rewrite modified_arith_form by exact Hm.
  assert (Hhi : 0 <= mac / 2 ^ 24 < 2 ^ 24) by dm.
  pose proof (flip17_range _ Hhi). assert (0 <= mac mod 2 ^ 24 < 2 ^ 24) by dm. lia.
Qed.

(* ================================================================== value of get_ipv6_addr_by_EUI64 *)

Lemma run_guards_ipv6 gs : run_guards true false false gs = None.
Proof. induction gs as [|[[| |] e] gs IH]; cbn [run_guards guard_holds negb]; exact IH || reflexivity. Qed.

(* (first + eui64) xor 2^57 = first + (eui64 xor 2^57) when the low 64 bits of first are clear *)
Lemma combine_low_clear first mac : 0 <= mac < 2 ^ 48 -> 0 <= first -> first mod 2 ^ 64 = 0 ->
  eui64_combine first (eui48_to_64 mac) = first + modified_eui64_arith mac.
Proof.
  intros Hm Hf H0. unfold eui64_combine, modified_eui64_arith.
  rewrite eui48_to_64_arith by exact Hm.
  assert (R : 0 <= eui64_arith mac < 2 ^ 64).
  { unfold eui64_arith. assert (0 <= mac / 2 ^ 24 < 2 ^ 24) by dm. assert (0 <= mac mod 2 ^ 24 < 2 ^ 24) by dm. lia. }
  set (e := eui64_arith mac) in *. clearbody e.
  rewrite !lxor_pow2, !testbit_arith by lia.
  assert (E : ((first + e) / 2 ^ 57) mod 2 = (e / 2 ^ 57) mod 2) by dm.
  rewrite E. destruct (Z.eqb_spec ((e / 2 ^ 57) mod 2) 1); lia.
Qed.

(* the property's first sentence, forward half: for every 48-bit MAC and every IPv6 network
   address whose low 64 bits are clear (every prefix of length <= 64, host bits or not, since
   IPNetwork.first masks them; and longer prefixes without bits there) the result is the IPv6
   address first + modified EUI-64 = first | modified EUI-64 *)
Theorem eui64_value first mac : 0 <= mac < 2 ^ 48 -> 0 <= first < 2 ^ 128 -> first mod 2 ^ 64 = 0 ->
  get_ipv6_addr_by_EUI64 true false false (LOk (EUI48 mac)) (LOk first)
    = Ok (6, first + modified_eui64_arith mac) /\
  first + modified_eui64_arith mac = Z.lor first (modified_eui64_arith mac) /\
  (first + modified_eui64_arith mac) / 2 ^ 64 = first / 2 ^ 64 /\
  (first + modified_eui64_arith mac) mod 2 ^ 64 = modified_eui64_arith mac.
Proof.
  intros Hm Hf H0. pose proof (modified_arith_range mac Hm) as R.
  split; [|split; [|split]].
  - unfold get_ipv6_addr_by_EUI64. rewrite run_guards_ipv6. cbn [eui64_int].
    change (gen_eui64_combine first (eui48_to_64 mac)) with (eui64_combine first (eui48_to_64 mac)). rewrite combine_low_clear by lia.
    unfold ip_address_of_int.
    replace (0 <=? first + modified_eui64_arith mac) with true by lia.
    replace (first + modified_eui64_arith mac <=? 2 ^ 32 - 1) with false by lia.
    replace (2 ^ 32 - 1 <? first + modified_eui64_arith mac) with true by lia.
    replace (first + modified_eui64_arith mac <=? 2 ^ 128 - 1) with true by dm.
    reflexivity.
  - replace first with (first / 2 ^ 64 * 2 ^ 64) at 1 2 by dm.
    symmetry. apply lor_mul_pow2_small; lia.
  - dm.
  - dm.
Qed.

(* what the code computes for EVERY network address (prefixes longer than /64 with bits in the
   low half included): arithmetic +, then the bit flip, then IPAddress(int)'s range rule *)
Theorem eui64_general first mac : 0 <= mac < 2 ^ 48 -> 0 <= first ->
  let r := Z.lxor (first + eui64_arith mac) (2 ^ 57) in
  get_ipv6_addr_by_EUI64 true false false (LOk (EUI48 mac)) (LOk first) =
    if r <? 2 ^ 32 then Ok (4, r) else if r <? 2 ^ 128 then Ok (6, r) else Exn (handle LAddrFormatError).
Proof.
  intros Hm Hf r. unfold get_ipv6_addr_by_EUI64. rewrite run_guards_ipv6. cbn [eui64_int].
  change (gen_eui64_combine first (eui48_to_64 mac)) with (Z.lxor (first + eui48_to_64 mac) (2 ^ 57)).
  rewrite eui48_to_64_arith by exact Hm. fold r.
  assert (Hr : 0 <= r).
  { subst r. apply Z.lxor_nonneg. split; intros _; [lia|].
    unfold eui64_arith. assert (0 <= mac / 2 ^ 24) by dm. assert (0 <= mac mod 2 ^ 24) by dm. lia. }
  unfold ip_address_of_int.
  destruct (Z.ltb_spec r (2 ^ 32)).
  - replace (0 <=? r) with true by lia. replace (r <=? 2 ^ 32 - 1) with true by lia. reflexivity.
  - replace (r <=? 2 ^ 32 - 1) with false by lia. rewrite andb_false_r.
    replace (2 ^ 32 - 1 <? r) with true by lia.
    destruct (Z.ltb_spec r (2 ^ 128)).
    + replace (r <=? 2 ^ 128 - 1) with true by lia. reflexivity.
    + replace (r <=? 2 ^ 128 - 1) with false by lia. reflexivity.
Qed.

(* ... and that is NOT "network address | modified EUI-64" once the low half of the network
   address is occupied: ::200:0:0:0/128 with 02:00:00:00:00:00 carries into bit 58 *)
Example ex_eui64_low_bits_add :
  let first := 2 ^ 57 in let mac := 0x020000000000 in
  get_ipv6_addr_by_EUI64 true false false (LOk (EUI48 mac)) (LOk first) = Ok (6, 2 ^ 58 + 2 ^ 57 + 0xFFFE000000) /\
  Z.lor first (modified_eui64_arith mac) = 2 ^ 57 + 0xFFFE000000.
Proof. split; vm_compute; reflexivity. Qed.
(* the returned IPAddress can even be an IPv4 one *)
Example ex_eui64_ipv4_result :
  get_ipv6_addr_by_EUI64 true false false (LOk (EUI48 0)) (LOk (2 ^ 57 - 0xFFFE000000)) = Ok (4, 0).
Proof. vm_compute. reflexivity. Qed.
(* and past the top of the address space the overflow is reported as ValueError *)
Example ex_eui64_overflow :
  get_ipv6_addr_by_EUI64 true false false (LOk (EUI48 0)) (LOk (2 ^ 128 - 1)) = Exn ValueError.
Proof. vm_compute. reflexivity. Qed.
Example ex_eui64_value_hyp : 0 <= 0x00163e334455 < 2 ^ 48 /\ 0 <= 0x20010db8 * 2 ^ 96 < 2 ^ 128 /\ (0x20010db8 * 2 ^ 96) mod 2 ^ 64 = 0.
Proof. repeat split; vm_compute; congruence. Qed.

(* ================================================================== get_mac_addr_by_ipv6 *)

Lemma mac_of_ipv6_arith v : 0 <= v ->
  mac_of_ipv6 v = Z.lxor (((v / 2 ^ 40) mod 2 ^ 24) * 2 ^ 24 + v mod 2 ^ 24) (2 ^ 41).
Proof.
  intros Hv. unfold mac_of_ipv6.
  rewrite mask_hi_eq, land_shifted_ones by lia.
  rewrite mask_lo_eq, Z.land_ones by lia.
  rewrite Z.shiftr_div_pow2 by lia.
  replace ((v / 2 ^ 40) mod 2 ^ 24 * 2 ^ 40 / 2 ^ 16) with ((v / 2 ^ 40) mod 2 ^ 24 * 2 ^ 24).
  - reflexivity.
  - replace (2 ^ 40) with (2 ^ 24 * 2 ^ 16) by reflexivity.
    rewrite Z.mul_assoc, Z.div_mul by lia. reflexivity.
Qed.

(* the function never fails on a version-6 address: the result is always a 48-bit EUI *)
Theorem mac_of_ipv6_range v : 0 <= v -> 0 <= gen_mac_of_ipv6 v < 2 ^ 48.
Proof.
  intros Hv. change (gen_mac_of_ipv6 v) with (mac_of_ipv6 v). rewrite mac_of_ipv6_arith by exact Hv.
  set (a := (v / 2 ^ 40) mod 2 ^ 24). set (b := v mod 2 ^ 24).
  assert (Ha : 0 <= a < 2 ^ 24) by (subst a; dm). assert (Hb : 0 <= b < 2 ^ 24) by (subst b; dm).
  clearbody a b. rewrite lxor_pow2, testbit_arith by lia.
  destruct (Z.eqb_spec (((a * 2 ^ 24 + b) / 2 ^ 41) mod 2) 1) as [E|E]; dm.
Qed.

(* the inverse on its own: any address whose low 64 bits are the modified EUI-64 of a MAC *)
Theorem mac_of_interface_id hi64 mac : 0 <= mac < 2 ^ 48 -> 0 <= hi64 ->
  gen_mac_of_ipv6 (hi64 * 2 ^ 64 + modified_eui64_arith mac) = mac.
Proof.
  intros Hm Hh. change (gen_mac_of_ipv6 ?v) with (mac_of_ipv6 v).
  pose proof (modified_arith_range mac Hm) as R.
  rewrite mac_of_ipv6_arith by lia.
  rewrite modified_arith_form by exact Hm.
  set (hi := mac / 2 ^ 24). set (lo := mac mod 2 ^ 24).
  assert (Hhi : 0 <= hi < 2 ^ 24) by (subst hi; dm).
  assert (Hlo : 0 <= lo < 2 ^ 24) by (subst lo; dm).
  assert (Hmac : mac = hi * 2 ^ 24 + lo) by (subst hi lo; dm).
  pose proof (flip17_range hi Hhi) as Hf. pose proof (flip17_invol hi Hhi) as Hinv.
  set (h' := flip17 hi) in *. clearbody hi lo h'.
  set (v := hi64 * 2 ^ 64 + (h' * 2 ^ 40 + 65534 * 2 ^ 24 + lo)).
  assert (E1 : (v / 2 ^ 40) mod 2 ^ 24 = h') by (subst v; dm).
  assert (E2 : v mod 2 ^ 24 = lo) by (subst v; dm).
  rewrite E1, E2. rewrite lxor_pow2, testbit_arith by lia.
  assert (E3 : (h' * 2 ^ 24 + lo) / 2 ^ 41 = h' / 2 ^ 17) by dm.
  rewrite E3. unfold flip17 in Hinv.
  destruct (Z.eqb_spec ((h' / 2 ^ 17) mod 2) 1); lia.
Qed.

(* the property's first sentence, both halves: get_mac_addr_by_ipv6 recovers the MAC from
   what get_ipv6_addr_by_EUI64 returned *)
Theorem mac_roundtrip first mac : 0 <= mac < 2 ^ 48 -> 0 <= first < 2 ^ 128 -> first mod 2 ^ 64 = 0 ->
  exists r, get_ipv6_addr_by_EUI64 true false false (LOk (EUI48 mac)) (LOk first) = Ok (6, r) /\
            get_mac_addr_by_ipv6 6 r = LOk (EUI48 mac).
Proof.
  intros Hm Hf H0. exists (first + modified_eui64_arith mac). split; [apply eui64_value; assumption|].
  unfold get_mac_addr_by_ipv6. cbn [Z.eqb Pos.eqb].
  replace first with (first / 2 ^ 64 * 2 ^ 64) by dm.
  rewrite mac_of_interface_id by (try exact Hm; dm).
  unfold eui_of_int. replace (0 <=? mac) with true by lia. replace (mac <=? 2 ^ 48 - 1) with true by lia.
  reflexivity.
Qed.

(* not so once the low half of the network address is occupied (see ex_eui64_low_bits_add) *)
Example ex_roundtrip_needs_clear_low :
  get_mac_addr_by_ipv6 6 (2 ^ 58 + 2 ^ 57 + 0xFFFE000000) = LOk (EUI48 0x040000000000).
Proof. vm_compute. reflexivity. Qed.

(* ================================================================== byte-level reading *)

(* (hi24 * 2^40 + 0xFFFE * 2^24 + lo24) xor 2^57 is the RFC 4291 interface identifier
   b0^0x02 : b1 : b2 : ff : fe : b3 : b4 : b5 *)
Theorem modified_eui64_bytes mac : 0 <= mac < 2 ^ 48 -> modified_eui64_arith mac = modified_eui64 mac.
Proof.
  intros Hm. rewrite modified_arith_form by exact Hm.
  unfold modified_eui64, be_bytes, mac_byte. cbn [fold_left].
  change (256 ^ (5 - 0)) with (2 ^ 40). change (256 ^ (5 - 1)) with (2 ^ 32). change (256 ^ (5 - 2)) with (2 ^ 24).
  change (256 ^ (5 - 3)) with (2 ^ 16). change (256 ^ (5 - 4)) with (2 ^ 8). change (256 ^ (5 - 5)) with 1.
  replace (Z.lxor ((mac / 2 ^ 40) mod 256) 2) with (Z.lxor ((mac / 2 ^ 40) mod 256) (2 ^ 1)) by reflexivity.
  rewrite lxor_pow2, testbit_arith by lia.
  unfold flip17.
  assert (E : ((mac / 2 ^ 24) / 2 ^ 17) mod 2 = (((mac / 2 ^ 40) mod 256) / 2 ^ 1) mod 2) by dm.
  rewrite E.
  destruct (Z.eqb_spec ((((mac / 2 ^ 40) mod 256) / 2 ^ 1) mod 2) 1); dm.
Qed.

(* ================================================================== the exception clause *)

Definition lib_class (e : libexn) : bool := match e with LOtherExn => false | _ => true end.
Definition is_VE_TE (e : exn) : Prop := e = ValueError \/ e = TypeError.

Lemma handle_classes e : lib_class e = true -> is_VE_TE (handle e).
Proof. destruct e; intros H; try discriminate; vm_compute; auto. Qed.

Lemma guards_classes is_str v4l v4s e :
  run_guards is_str v4l v4s gen_eui64_prechecks = Some e -> is_VE_TE e.
Proof.
  destruct is_str, v4l, v4s; vm_compute; intros H; inversion H; auto.
Qed.

(* an IPv4 address given as prefix (is_valid_ipv4 says yes, strictly and loosely) *)
Theorem ipv4_prefix_rejected mac net :
  exists e, get_ipv6_addr_by_EUI64 true true true mac net = Exn e /\ is_VE_TE e.
Proof.
  unfold get_ipv6_addr_by_EUI64.
  destruct (run_guards true true true gen_eui64_prechecks) as [g|] eqn:G.
  - exists g. split; [reflexivity|]. eapply guards_classes; exact G.
  - exfalso. vm_compute in G. discriminate.
Qed.

(* a prefix that is not a str *)
Theorem nonstr_prefix_rejected v4l v4s mac net :
  exists e, get_ipv6_addr_by_EUI64 false v4l v4s mac net = Exn e /\ is_VE_TE e.
Proof.
  unfold get_ipv6_addr_by_EUI64.
  destruct (run_guards false v4l v4s gen_eui64_prechecks) as [g|] eqn:G.
  - exists g. split; [reflexivity|]. eapply guards_classes; exact G.
  - exfalso. destruct v4l, v4s; vm_compute in G; discriminate.
Qed.

(* a MAC or a prefix netaddr refuses (with ValueError, AddrFormatError or TypeError) *)
Theorem bad_mac_rejected is_str v4l v4s e net : lib_class e = true ->
  exists e', get_ipv6_addr_by_EUI64 is_str v4l v4s (LExn e) net = Exn e' /\ is_VE_TE e'.
Proof.
  intros He. unfold get_ipv6_addr_by_EUI64.
  destruct (run_guards is_str v4l v4s gen_eui64_prechecks) as [g|] eqn:G.
  - exists g. split; [reflexivity|]. eapply guards_classes; exact G.
  - exists (handle e). split; [reflexivity|]. apply handle_classes; exact He.
Qed.

Theorem bad_prefix_rejected is_str v4l v4s m e : lib_class e = true ->
  exists e', get_ipv6_addr_by_EUI64 is_str v4l v4s (LOk m) (LExn e) = Exn e' /\ is_VE_TE e'.
Proof.
  intros He. unfold get_ipv6_addr_by_EUI64.
  destruct (run_guards is_str v4l v4s gen_eui64_prechecks) as [g|] eqn:G.
  - exists g. split; [reflexivity|]. eapply guards_classes; exact G.
  - exists (handle e). split; [reflexivity|]. apply handle_classes; exact He.
Qed.

(* nothing but ValueError / TypeError ever escapes, whatever the inputs, as long as netaddr
   itself raises only the classes the except clauses name *)
Theorem eui64_only_VE_TE is_str v4l v4s mac net e :
  (forall x, mac = LExn x -> lib_class x = true) -> (forall x, net = LExn x -> lib_class x = true) ->
  get_ipv6_addr_by_EUI64 is_str v4l v4s mac net = Exn e -> is_VE_TE e.
Proof.
  intros Hm Hn. unfold get_ipv6_addr_by_EUI64.
  destruct (run_guards is_str v4l v4s gen_eui64_prechecks) as [g|] eqn:G.
  - intros H. inversion H; subst. eapply guards_classes; exact G.
  - destruct mac as [m|x]; [|intros H; inversion H; apply handle_classes; auto].
    destruct net as [f|x]; [|intros H; inversion H; apply handle_classes; auto].
    unfold ip_address_of_int.
    destruct ((0 <=? _) && (_ <=? 2 ^ 32 - 1)); [discriminate|].
    destruct ((2 ^ 32 - 1 <? _) && (_ <=? 2 ^ 128 - 1)); [discriminate|].
    intros H. inversion H. apply handle_classes. reflexivity.
Qed.

Example ex_lib_class : lib_class LAddrFormatError = true /\ lib_class LValueError = true /\ lib_class LTypeError = true.
Proof. repeat split. Qed.
Example ex_bad_mac : get_ipv6_addr_by_EUI64 true false false (LExn LAddrFormatError) (LOk 0) = Exn ValueError.
Proof. vm_compute. reflexivity. Qed.
Example ex_bad_mac_type : get_ipv6_addr_by_EUI64 true false false (LExn LTypeError) (LOk 0) = Exn TypeError.
Proof. vm_compute. reflexivity. Qed.
(* 00:16:3e:33:44:55 on 2001:db8::/64 -> 2001:db8::216:3eff:fe33:4455, and back *)
Example ex_eui64_doc :
  get_ipv6_addr_by_EUI64 true false false (LOk (EUI48 0x00163e334455)) (LOk (0x20010db8 * 2 ^ 96))
    = Ok (6, 0x20010db80000000002163efffe334455) /\
  get_mac_addr_by_ipv6 6 0x20010db80000000002163efffe334455 = LOk (EUI48 0x00163e334455).
Proof. split; vm_compute; reflexivity. Qed.
