(* Proofs/C10_Form.v — what a unit-system regex of string_to_bytes admits.

   The regexes are regenerated from the source; this file does not mention any
   of them.  It defines the SHAPE  (^[sign]?D*[dot]?D+)(PRE)?(U)\Z  (the \Z being the translator's flag) by a
   pattern-matching function [unit_parts], a boolean checker [unit_ok (r, eos) prefixes]
   (evaluated by vm_compute on whatever regex was generated) and proves, for
   every regex that passes the checker:

     unit_match_iff_form   rz_matchb (r, eos) t = true <-> form prefixes t
     unit_match_groups     the three groups are the number, the prefix (absent
                           when empty) and the unit of ANY decomposition of t *)
From Coq Require Import String.
Require Import OV.Base.Bytes OV.Base.PyInt OV.Base.Regex OV.Model.C10_Regex OV.Proofs.C10_Regex.
Open Scope N_scope.

(* ---------- inversion of derivations ---------- *)

Lemma mt_eps_inv s p g s' p' g' : mt Eps s p g s' p' g' -> s' = s /\ p' = p /\ g' = g.
Proof. intros H. inversion H; subst. auto. Qed.
Lemma mt_chr_inv cs s p g s' p' g' :
  mt (Chr cs) s p g s' p' g' -> exists c, s = c :: s' /\ cmem c cs = true /\ p' = p + 1 /\ g' = g.
Proof. intros H. inversion H; subst. eauto. Qed.
Lemma mt_seq_inv a b s p g s2 p2 g2 :
  mt (Seq a b) s p g s2 p2 g2 -> exists s1 p1 g1, mt a s p g s1 p1 g1 /\ mt b s1 p1 g1 s2 p2 g2.
Proof. intros H. inversion H; subst. eauto. Qed.
Lemma mt_alt_inv a b s p g s' p' g' :
  mt (Alt a b) s p g s' p' g' -> mt a s p g s' p' g' \/ mt b s p g s' p' g'.
Proof. intros H. inversion H; subst; auto. Qed.
Lemma mt_rep_inv cs mn mx s p g s' p' g' :
  mt (Rep cs mn mx) s p g s' p' g' ->
  exists w, s = w ++ s' /\ allin cs w = true /\ (mn <= length w)%nat /\ le_opt (length w) mx /\
            p' = p + blen w /\ g' = g.
Proof. intros H. inversion H; subst. exists w. auto 10. Qed.
Lemma mt_opt_inv a s p g s' p' g' :
  mt (Opt a) s p g s' p' g' -> mt a s p g s' p' g' \/ (s' = s /\ p' = p /\ g' = g).
Proof. intros H. inversion H; subst; auto. Qed.
Lemma mt_group_inv i a s p g s' p' g' :
  mt (Group i a) s p g s' p' g' -> exists g1, mt a s p g s' p' g1 /\ g' = (i, (p, p')) :: g1.
Proof. intros H. inversion H; subst. eauto. Qed.
Lemma mt_bol_inv s p g s' p' g' : mt Bol s p g s' p' g' -> p = 0 /\ s' = s /\ p' = 0 /\ g' = g.
Proof. intros H. inversion H; subst. auto. Qed.
Lemma mt_eol_inv s p g s' p' g' :
  mt Eol s p g s' p' g' -> (s = [] \/ s = [10]) /\ s' = s /\ p' = p /\ g' = g.
Proof. intros H. inversion H; subst; auto. Qed.

(* ---------- character sets ---------- *)

Fixpoint range_list (lo : N) (n : nat) : list N :=
  match n with O => [] | S k => lo :: range_list (lo + 1) k end.
Definition cset_elems (cs : cset) : list N :=
  flat_map (fun r => range_list (fst r) (N.to_nat (snd r + 1 - fst r))) cs.
Definition cset_size (cs : cset) : N :=
  fold_right (fun r acc => (snd r + 1 - fst r) + acc) 0 cs.

Lemma range_list_In c : forall n lo, In c (range_list lo n) <-> lo <= c < lo + N.of_nat n.
Proof.
  induction n as [|n IH]; intros lo; cbn [range_list In].
  - lia.
  - rewrite IH. lia.
Qed.

Lemma cmem_elems c cs : cmem c cs = true <-> In c (cset_elems cs).
Proof.
  induction cs as [|[lo hi] t IH]; cbn [cmem cset_elems flat_map].
  - split; [discriminate|intros []].
  - rewrite in_app_iff, <- IH, range_list_In, orb_true_iff. cbn [fst snd]. lia.
Qed.

(* inclusion of character sets, decided on the range lists *)
Fixpoint find_cover (c : N) (B : cset) : option N :=
  match B with
  | [] => None
  | (l, h) :: t => if (l <=? c) && (c <=? h) then Some h else find_cover c t
  end.
Fixpoint covered (fuel : nat) (lo hi : N) (B : cset) : bool :=
  match fuel with
  | O => false
  | S f => match find_cover lo B with
           | None => false
           | Some h => if hi <=? h then true else covered f (h + 1) hi B
           end
  end.
Definition cs_incl (A B : cset) : bool :=
  forallb (fun r => (snd r <? fst r) || covered (S (length B)) (fst r) (snd r) B) A.

Lemma find_cover_sound c B h : find_cover c B = Some h -> forall x, c <= x <= h -> cmem x B = true.
Proof.
  induction B as [|[l h'] t IH]; cbn [find_cover cmem]; [discriminate|].
  destruct ((l <=? c) && (c <=? h')) eqn:E; intros H x Hx.
  - injection H as ->. apply orb_true_iff. left. lia.
  - apply orb_true_iff. right. apply (IH H x Hx).
Qed.

Lemma covered_sound B : forall fuel lo hi, covered fuel lo hi B = true ->
  forall x, lo <= x <= hi -> cmem x B = true.
Proof.
  induction fuel as [|f IH]; intros lo hi H x Hx; cbn [covered] in H; [discriminate|].
  destruct (find_cover lo B) as [h|] eqn:E; [|discriminate].
  destruct (N.le_gt_cases x h) as [Hle|Hgt].
  - apply (find_cover_sound lo B h E). lia.
  - destruct (hi <=? h) eqn:Eh; [lia|]. apply (IH (h + 1) hi H). lia.
Qed.

Lemma cs_incl_sound A B : cs_incl A B = true -> forall c, cmem c A = true -> cmem c B = true.
Proof.
  unfold cs_incl. intros H c Hc.
  induction A as [|[lo hi] t IH]; cbn [cmem forallb] in *; [discriminate|].
  apply andb_true_iff in H. destruct H as [H1 H2].
  apply orb_true_iff in Hc. destruct Hc as [Hc|Hc]; [|apply (IH H2 Hc)].
  cbn [fst snd] in H1. apply orb_true_iff in H1. destruct H1 as [H1|H1]; [lia|].
  apply (covered_sound B _ _ _ H1). lia.
Qed.

(* Unicode decimal digits (Base/PyInt.v, from unicodedata) as a character set *)
Definition nd_ranges : cset := map (fun s => (s, s + 9)) OV.Gen.Unicode.nd_starts.

Lemma digit_in_ranges c : forall starts,
  match digit_in c starts with Some _ => true | None => false end = cmem c (map (fun s => (s, s + 9)) starts).
Proof.
  induction starts as [|s t IH]; cbn [digit_in map cmem]; [reflexivity|].
  destruct ((s <=? c) && (c <? s + 10)) eqn:E.
  - symmetry. apply orb_true_iff. left. lia.
  - rewrite IH. replace ((s <=? c) && (c <=? s + 9)) with false by lia. reflexivity.
Qed.

Lemma is_digit_ranges c : is_digit c = cmem c nd_ranges.
Proof. unfold is_digit, digit_val, nd_ranges. apply digit_in_ranges. Qed.

Definition digits (w : str) : bool := forallb is_digit w.

(* ---------- regexes with a finite language (no groups, no anchors) ---------- *)

Definition small (cs : cset) : bool := cset_size cs <=? 64.
Definition singles (cs : cset) : list str := map (fun c => [c]) (cset_elems cs).
Definition cat_all (la lb : list str) : list str := flat_map (fun a => map (fun b => a ++ b) lb) la.

Fixpoint finite_lang (r : re) : option (list str) :=
  match r with
  | Eps => Some [[]]
  | Chr cs => if small cs then Some (singles cs) else None
  | Seq a b => match finite_lang a, finite_lang b with
               | Some la, Some lb => Some (cat_all la lb)
               | _, _ => None
               end
  | Alt a b => match finite_lang a, finite_lang b with
               | Some la, Some lb => Some (la ++ lb)
               | _, _ => None
               end
  | Rep cs O (Some (S O)) => if small cs then Some ([] :: singles cs) else None
  | Opt a => option_map (cons []) (finite_lang a)
  | _ => None
  end.

Lemma in_singles c cs : In [c] (singles cs) <-> cmem c cs = true.
Proof.
  unfold singles. rewrite in_map_iff, cmem_elems. split.
  - intros [x [Hx Hin]]. injection Hx as ->. exact Hin.
  - intros H. exists c. auto.
Qed.

Lemma in_cat_all la lb w1 w2 : In w1 la -> In w2 lb -> In (w1 ++ w2) (cat_all la lb).
Proof.
  intros H1 H2. unfold cat_all. apply in_flat_map. exists w1. split; [exact H1|].
  apply in_map. exact H2.
Qed.

Lemma in_cat_all_inv la lb w : In w (cat_all la lb) -> exists w1 w2, w = w1 ++ w2 /\ In w1 la /\ In w2 lb.
Proof.
  unfold cat_all. intros H. apply in_flat_map in H. destruct H as [w1 [H1 H2]].
  apply in_map_iff in H2. destruct H2 as [w2 [<- H2]]. eauto.
Qed.

Lemma finite_lang_sound : forall r L, finite_lang r = Some L ->
  forall s p g s' p' g', mt r s p g s' p' g' ->
  exists w, In w L /\ s = w ++ s' /\ p' = p + blen w /\ g' = g.
Proof.
  induction r as [|cs|a IHa b IHb|a IHa b IHb|cs mn mx|a IHa|i a IHa| |]; intros L HL s p g s' p' g' H;
    cbn [finite_lang] in HL; try discriminate.
  - injection HL as <-. apply mt_eps_inv in H. destruct H as [-> [-> ->]].
    exists []. repeat split; [left; reflexivity|rewrite blen_nil; lia].
  - destruct (small cs); [|discriminate]. injection HL as <-.
    apply mt_chr_inv in H. destruct H as [c [-> [Hc [-> ->]]]].
    exists [c]. repeat split; [apply in_singles; exact Hc].
  - destruct (finite_lang a) as [la|]; [|discriminate]. destruct (finite_lang b) as [lb|]; [|discriminate].
    injection HL as <-. apply mt_seq_inv in H. destruct H as [s1 [p1 [g1 [Ha Hb]]]].
    destruct (IHa la eq_refl _ _ _ _ _ _ Ha) as [w1 [I1 [-> [-> ->]]]].
    destruct (IHb lb eq_refl _ _ _ _ _ _ Hb) as [w2 [I2 [-> [-> ->]]]].
    exists (w1 ++ w2). repeat split; [apply in_cat_all; assumption|rewrite app_assoc; reflexivity|rewrite blen_app; lia].
  - destruct (finite_lang a) as [la|]; [|discriminate]. destruct (finite_lang b) as [lb|]; [|discriminate].
    injection HL as <-. apply mt_alt_inv in H. destruct H as [H|H].
    + destruct (IHa la eq_refl _ _ _ _ _ _ H) as [w [I1 [-> [-> ->]]]].
      exists w. repeat split. apply in_or_app. auto.
    + destruct (IHb lb eq_refl _ _ _ _ _ _ H) as [w [I1 [-> [-> ->]]]].
      exists w. repeat split. apply in_or_app. auto.
  - destruct mn; [|discriminate]. destruct mx as [[|[|k]]|]; try discriminate.
    destruct (small cs); [|discriminate]. injection HL as <-.
    apply mt_rep_inv in H. destruct H as [w [-> [Ha [_ [Hm [-> ->]]]]]].
    exists w. repeat split. cbn in Hm.
    destruct w as [|c [|d w']]; [left; reflexivity| |cbn in Hm; lia].
    right. apply in_singles. cbn in Ha. rewrite andb_true_r in Ha. exact Ha.
  - destruct (finite_lang a) as [la|]; [|discriminate]. injection HL as <-.
    apply mt_opt_inv in H. destruct H as [H|[-> [-> ->]]].
    + destruct (IHa la eq_refl _ _ _ _ _ _ H) as [w [I1 [-> [-> ->]]]].
      exists w. repeat split. right. exact I1.
    + exists []. rewrite blen_nil. repeat split; [left; reflexivity|lia].
Qed.

Lemma finite_lang_complete : forall r L, finite_lang r = Some L ->
  forall w, In w L -> forall s' p g, mt r (w ++ s') p g s' (p + blen w) g.
Proof.
  induction r as [|cs|a IHa b IHb|a IHa b IHb|cs mn mx|a IHa|i a IHa| |]; intros L HL w Hw s' p g;
    cbn [finite_lang] in HL; try discriminate.
  - injection HL as <-. destruct Hw as [<-|[]]. cbn [app]. rewrite blen_nil, N.add_0_r. constructor.
  - destruct (small cs); [|discriminate]. injection HL as <-.
    unfold singles in Hw. apply in_map_iff in Hw. destruct Hw as [c [<- Hc]].
    apply cmem_elems in Hc. cbn. constructor. exact Hc.
  - destruct (finite_lang a) as [la|]; [|discriminate]. destruct (finite_lang b) as [lb|]; [|discriminate].
    injection HL as <-. apply in_cat_all_inv in Hw. destruct Hw as [w1 [w2 [-> [H1 H2]]]].
    rewrite <- app_assoc. econstructor; [apply (IHa la eq_refl w1 H1)|].
    replace (p + blen (w1 ++ w2)) with (p + blen w1 + blen w2) by (rewrite blen_app; lia).
    apply (IHb lb eq_refl w2 H2).
  - destruct (finite_lang a) as [la|]; [|discriminate]. destruct (finite_lang b) as [lb|]; [|discriminate].
    injection HL as <-. apply in_app_or in Hw. destruct Hw as [Hw|Hw].
    + apply mt_alt_l. apply (IHa la eq_refl w Hw).
    + apply mt_alt_r. apply (IHb lb eq_refl w Hw).
  - destruct mn; [|discriminate]. destruct mx as [[|[|k]]|]; try discriminate.
    destruct (small cs); [|discriminate]. injection HL as <-.
    destruct Hw as [<-|Hw].
    + apply (mt_rep cs 0%nat (Some 1%nat) [] s' p g); cbn; auto.
    + unfold singles in Hw. apply in_map_iff in Hw. destruct Hw as [c [<- Hc]].
      apply cmem_elems in Hc.
      apply (mt_rep cs 0%nat (Some 1%nat) [c] s' p g); cbn; [rewrite Hc; reflexivity|lia|lia].
  - destruct (finite_lang a) as [la|]; [|discriminate]. injection HL as <-.
    destruct Hw as [<-|Hw].
    + cbn [app]. rewrite blen_nil, N.add_0_r. apply mt_opt_none.
    + apply mt_opt_some. apply (IHa la eq_refl w Hw).
Qed.

(* ---------- the shape of a unit-system regex ---------- *)

Definition unit_shape (cs_s cs_d1 cs_dot cs_d2 : cset) (PRE U : re) : re :=
  Seq (Group 1 (Seq Bol (Seq (Rep cs_s 0 (Some 1%nat)) (Seq (Rep cs_d1 0 None) (Seq (Rep cs_dot 0 (Some 1%nat)) (Rep cs_d2 1 None))))))
      (Seq (Opt (Group 2 PRE)) (Group 3 U)).

Definition unit_parts (r : re) : option (cset * cset * cset * cset * re * re) :=
  match r with
  | Seq (Group 1%nat (Seq Bol (Seq (Rep cs_s 0%nat (Some 1%nat)) (Seq (Rep cs_d1 0%nat None) (Seq (Rep cs_dot 0%nat (Some 1%nat)) (Rep cs_d2 1%nat None))))))
        (Seq (Opt (Group 2%nat PRE)) (Group 3%nat U)) => Some (cs_s, cs_d1, cs_dot, cs_d2, PRE, U)
  | _ => None
  end.

Lemma unit_parts_eq r a b c d e f : unit_parts r = Some (a, b, c, d, e, f) -> r = unit_shape a b c d e f.
Proof.
  unfold unit_parts. intros H.
  repeat match type of H with context [match ?x with _ => _ end] => destruct x; try discriminate end.
  injection H as <- <- <- <- <- <-. reflexivity.
Qed.

(* ---------- the form, at the level of the specification ---------- *)

Definition units3 : list str := [lit "b"; lit "bit"; lit "B"].

(* number = [sign] digits [.] digits+   (Unicode decimal digits, as \d and float() read them) *)
Definition numform (num : str) : Prop :=
  exists sg d1 dot d2, num = sg ++ d1 ++ dot ++ d2 /\
    (sg = [] \/ sg = [43] \/ sg = [45]) /\ digits d1 = true /\
    (dot = [] \/ dot = [46]) /\ digits d2 = true /\ d2 <> [].

(* [sign]number[prefix]unit and nothing else *)
Definition form (prefixes : list str) (t : str) : Prop :=
  exists num pre un, t = num ++ pre ++ un /\ numform num /\
    (pre = [] \/ In pre prefixes) /\ In un units3.

Definition numchar (c : N) : bool := (c =? 43) || (c =? 45) || (c =? 46) || is_digit c.

Lemma digits_numchar w : digits w = true -> forallb numchar w = true.
Proof.
  unfold digits. induction w as [|c w IH]; cbn [forallb]; [reflexivity|].
  intros H. apply andb_true_iff in H. destruct H as [Hc Hw].
  unfold numchar at 1. rewrite Hc, IH by exact Hw. rewrite !orb_true_r. reflexivity.
Qed.

Lemma numform_numchar num : numform num -> forallb numchar num = true.
Proof.
  intros [sg [d1 [dot [d2 [-> [Hs [H1 [Hd [H2 _]]]]]]]]].
  rewrite !forallb_app. rewrite (digits_numchar _ H1), (digits_numchar _ H2).
  destruct Hs as [->|[->| ->]]; destruct Hd as [->| ->]; reflexivity.
Qed.

(* list equality test on strings / sets of strings *)
Definition str_mem (w : str) (l : list str) : bool := existsb (beq w) l.
Lemma str_mem_In w l : str_mem w l = true <-> In w l.
Proof.
  unfold str_mem. rewrite existsb_exists. split.
  - intros [x [Hx He]]. apply beq_eq in He. subst. exact Hx.
  - intros H. exists w. split; [exact H|apply beq_refl].
Qed.
Definition same_set (a b : list str) : bool :=
  forallb (fun w => str_mem w b) a && forallb (fun w => str_mem w a) b.
Lemma same_set_In a b : same_set a b = true -> forall w, In w a <-> In w b.
Proof.
  unfold same_set. intros H w. apply andb_true_iff in H. destruct H as [H1 H2].
  rewrite forallb_forall in H1, H2. split; intros Hw.
  - apply str_mem_In. apply H1. exact Hw.
  - apply str_mem_In. apply H2. exact Hw.
Qed.

(* unique decomposition of the text after the number *)
Definition tails (prefixes : list str) : list (str * str * str) :=
  flat_map (fun pre => flat_map (fun un => [(pre, un, [])]) units3) ([] :: prefixes).
Definition tcat (x : str * str * str) : str := fst (fst x) ++ snd (fst x) ++ snd x.
Definition teqb (x y : str * str * str) : bool :=
  beq (fst (fst x)) (fst (fst y)) && beq (snd (fst x)) (snd (fst y)) && beq (snd x) (snd y).
Definition head_not_numchar (w : str) : bool := match w with c :: _ => negb (numchar c) | [] => false end.
Definition uniq_ok (prefixes : list str) : bool :=
  forallb (fun x => head_not_numchar (tcat x) && forallb (fun y => implb (beq (tcat x) (tcat y)) (teqb x y)) (tails prefixes))
          (tails prefixes).

Lemma in_tails prefixes pre un :
  (pre = [] \/ In pre prefixes) -> In un units3 -> In (pre, un, []) (tails prefixes).
Proof.
  intros Hp Hu. unfold tails. apply in_flat_map. exists pre. split; [destruct Hp as [->|Hp]; [left; reflexivity|right; exact Hp]|].
  apply in_flat_map. exists un. split; [exact Hu|]. left. reflexivity.
Qed.

Lemma span_unique : forall a a' b b',
  forallb numchar a = true -> forallb numchar a' = true ->
  head_not_numchar b = true -> head_not_numchar b' = true ->
  a ++ b = a' ++ b' -> a = a' /\ b = b'.
Proof.
  induction a as [|x a IH]; intros a' b b' Ha Ha' Hb Hb' E.
  - destruct a' as [|y a']; [auto|].
    cbn in E. subst b. cbn in Ha', Hb. apply andb_true_iff in Ha'. destruct Ha' as [Hy _]. rewrite Hy in Hb. discriminate.
  - destruct a' as [|y a'].
    + cbn in E. subst b'. cbn in Ha, Hb'. apply andb_true_iff in Ha. destruct Ha as [Hx _]. rewrite Hx in Hb'. discriminate.
    + cbn in E. injection E as -> E. cbn in Ha, Ha'.
      apply andb_true_iff in Ha. apply andb_true_iff in Ha'.
      destruct (IH a' b b') as [-> ->]; tauto.
Qed.

Lemma decomposition_unique prefixes : uniq_ok prefixes = true ->
  forall num pre un num' pre' un',
  numform num -> (pre = [] \/ In pre prefixes) -> In un units3 ->
  numform num' -> (pre' = [] \/ In pre' prefixes) -> In un' units3 ->
  num ++ pre ++ un = num' ++ pre' ++ un' ->
  num = num' /\ pre = pre' /\ un = un'.
Proof.
  intros HU num pre un num' pre' un' Hn Hp Hu Hn' Hp' Hu' E.
  unfold uniq_ok in HU. rewrite forallb_forall in HU.
  pose proof (in_tails prefixes pre un Hp Hu) as I1.
  pose proof (in_tails prefixes pre' un' Hp' Hu') as I2.
  pose proof (HU _ I1) as C1. pose proof (HU _ I2) as C2.
  apply andb_true_iff in C1. destruct C1 as [C1h C1u]. apply andb_true_iff in C2. destruct C2 as [C2h _].
  unfold tcat in C1h, C2h. cbn [fst snd] in C1h, C2h. rewrite app_nil_r in C1h, C2h.
  destruct (span_unique num num' (pre ++ un) (pre' ++ un')) as [-> E2];
    [apply numform_numchar; exact Hn|apply numform_numchar; exact Hn'|exact C1h|exact C2h|exact E|].
  split; [reflexivity|].
  rewrite forallb_forall in C1u. specialize (C1u _ I2).
  unfold tcat in C1u. cbn [fst snd] in C1u. rewrite !app_nil_r in C1u.
  rewrite E2, beq_refl in C1u. cbn [implb] in C1u.
  unfold teqb in C1u. cbn [fst snd] in C1u.
  apply andb_true_iff in C1u. destruct C1u as [C _]. apply andb_true_iff in C. destruct C as [C1 C2].
  apply beq_eq in C1, C2. auto.
Qed.

(* ---------- the checker ---------- *)

Definition list_eqb (a b : list N) : bool := beq a b.

Definition unit_ok (rz : re * bool) (prefixes : list str) : bool :=
  snd rz &&
  match unit_parts (fst rz) with
  | Some (cs_s, cs_d1, cs_dot, cs_d2, PRE, U) =>
      small cs_s && list_eqb (cset_elems cs_s) [43; 45] &&
      small cs_dot && list_eqb (cset_elems cs_dot) [46] &&
      cs_incl cs_d1 nd_ranges && cs_incl nd_ranges cs_d1 &&
      cs_incl cs_d2 nd_ranges && cs_incl nd_ranges cs_d2 &&
      match finite_lang PRE, finite_lang U with
      | Some Lp, Some Lu => same_set Lp prefixes && same_set Lu units3 && negb (str_mem [] prefixes)
      | _, _ => false
      end
  | None => false
  end.

Section Shape.
Variables (r : re) (eos : bool) (prefixes : list str).
Hypothesis OK : unit_ok (r, eos) prefixes = true.

Lemma ok_eos : eos = true.
Proof. unfold unit_ok in OK. cbn [fst snd] in OK. apply andb_true_iff in OK. tauto. Qed.

Lemma ok_parts : exists cs_s cs_d1 cs_dot cs_d2 PRE U Lp Lu,
  r = unit_shape cs_s cs_d1 cs_dot cs_d2 PRE U /\
  (forall c, cmem c cs_s = true <-> c = 43 \/ c = 45) /\
  (forall c, cmem c cs_dot = true <-> c = 46) /\
  (forall c, cmem c cs_d1 = true <-> is_digit c = true) /\
  (forall c, cmem c cs_d2 = true <-> is_digit c = true) /\
  finite_lang PRE = Some Lp /\ finite_lang U = Some Lu /\
  (forall w, In w Lp <-> In w prefixes) /\ (forall w, In w Lu <-> In w units3) /\ ~ In [] prefixes.
Proof.
  pose proof OK as OK'. clear OK. rename OK' into OK.
  unfold unit_ok in OK. cbn [fst snd] in OK. apply andb_true_iff in OK. destruct OK as [_ OK2]. clear OK. rename OK2 into OK.
  destruct (unit_parts r) as [[[[[[cs_s cs_d1] cs_dot] cs_d2] PRE] U]|] eqn:EP; [|discriminate].
  apply unit_parts_eq in EP.
  destruct (finite_lang PRE) as [Lp|] eqn:ELp; [|rewrite andb_false_r in OK; discriminate].
  destruct (finite_lang U) as [Lu|] eqn:ELu; [|rewrite andb_false_r in OK; discriminate].
  repeat match goal with H : _ && _ = true |- _ => apply andb_true_iff in H; destruct H end.
  exists cs_s, cs_d1, cs_dot, cs_d2, PRE, U, Lp, Lu.
  split; [exact EP|].
  unfold list_eqb in *.
  repeat match goal with H : beq _ _ = true |- _ => apply beq_eq in H end.
  split; [|split; [|split; [|split; [|split; [|split; [|split; [|split]]]]]]].
  - intros c. rewrite cmem_elems. match goal with H : cset_elems cs_s = _ |- _ => rewrite H end. cbn. intuition congruence.
  - intros c. rewrite cmem_elems. match goal with H : cset_elems cs_dot = _ |- _ => rewrite H end. cbn. intuition congruence.
  - intros c. rewrite is_digit_ranges. split; apply cs_incl_sound; assumption.
  - intros c. rewrite is_digit_ranges. split; apply cs_incl_sound; assumption.
  - exact ELp.
  - exact ELu.
  - apply same_set_In. assumption.
  - apply same_set_In. assumption.
  - intros Hin. apply str_mem_In in Hin.
    match goal with H : negb _ = true |- _ => rewrite Hin in H; discriminate end.
Qed.

Lemma allin_digits cs w : (forall c, cmem c cs = true <-> is_digit c = true) -> allin cs w = digits w.
Proof.
  intros H. unfold allin, digits. induction w as [|c w IH]; cbn [forallb]; [reflexivity|].
  rewrite IH. f_equal. specialize (H c). destruct (cmem c cs), (is_digit c); intuition congruence.
Qed.

(* every derivation of the regex reads the text as number, prefix, unit, end *)
Lemma shape_inv t s' e g :
  mt r t 0 [] s' e g ->
  exists num (opre : option str) un,
    let pre := match opre with Some p => p | None => [] end in
    t = num ++ pre ++ un ++ s' /\ numform num /\
    match opre with Some p => In p prefixes | None => True end /\
    In un units3 /\
    e = blen num + blen pre + blen un /\
    g = (3%nat, (blen num + blen pre, blen num + blen pre + blen un)) ::
        match opre with Some p => [(2%nat, (blen num, blen num + blen p))] | None => [] end ++
        [(1%nat, (0, blen num))].
Proof.
  destruct ok_parts as [cs_s [cs_d1 [cs_dot [cs_d2 [PRE [U [Lp [Lu [-> [HS [HDot [HD1 [HD2 [ELp [ELu [HLp [HLu _]]]]]]]]]]]]]]]]].
  unfold unit_shape. intros H.
  apply mt_seq_inv in H. destruct H as [s1 [p1 [g1 [H1 H]]]].
  apply mt_group_inv in H1. destruct H1 as [g1' [H1 ->]].
  apply mt_seq_inv in H1. destruct H1 as [sa [pa [ga [Hbol H1]]]].
  apply mt_bol_inv in Hbol. destruct Hbol as [_ [-> [-> ->]]].
  apply mt_seq_inv in H1. destruct H1 as [sb [pb [gb [Hsg H1]]]].
  apply mt_rep_inv in Hsg. destruct Hsg as [sg [-> [Asg [_ [Msg [-> ->]]]]]].
  apply mt_seq_inv in H1. destruct H1 as [sc [pc [gc [Hd1 H1]]]].
  apply mt_rep_inv in Hd1. destruct Hd1 as [d1 [-> [Ad1 [_ [_ [-> ->]]]]]].
  apply mt_seq_inv in H1. destruct H1 as [sd [pd [gd [Hdot H1]]]].
  apply mt_rep_inv in Hdot. destruct Hdot as [dot [-> [Adot [_ [Mdot [-> ->]]]]]].
  apply mt_rep_inv in H1. destruct H1 as [d2 [-> [Ad2 [Md2 [_ [-> ->]]]]]].
  set (num := sg ++ d1 ++ dot ++ d2).
  assert (Hnum : numform num).
  { exists sg, d1, dot, d2. split; [reflexivity|].
    rewrite (allin_digits _ _ HD1) in Ad1. rewrite (allin_digits _ _ HD2) in Ad2.
    repeat split; try assumption.
    - cbn in Msg. destruct sg as [|c [|c' sg']]; [auto| |cbn in Msg; lia].
      cbn in Asg. rewrite andb_true_r in Asg. apply HS in Asg. destruct Asg as [->| ->]; auto.
    - cbn in Mdot. destruct dot as [|c [|c' dot']]; [auto| |cbn in Mdot; lia].
      cbn in Adot. rewrite andb_true_r in Adot. apply HDot in Adot. subst. auto.
    - intros ->. cbn in Md2. lia. }
  assert (Hp1 : 0 + blen sg + blen d1 + blen dot + blen d2 = blen num).
  { unfold num. rewrite !blen_app. lia. }
  rewrite Hp1 in *.
  apply mt_seq_inv in H. destruct H as [s2 [p2 [g2 [Hopt H]]]].
  rename H into Hu.
  apply mt_group_inv in Hu. destruct Hu as [g3' [Hu ->]].
  destruct (finite_lang_sound U Lu ELu _ _ _ _ _ _ Hu) as [un [Iun [-> [-> ->]]]].
  apply mt_opt_inv in Hopt. destruct Hopt as [Hpre|[E1 [E2 E3]]]; [|subst s1 p2 g2].
  - apply mt_group_inv in Hpre. destruct Hpre as [g2' [Hpre ->]].
    destruct (finite_lang_sound PRE Lp ELp _ _ _ _ _ _ Hpre) as [pre [Ipre [-> [-> ->]]]].
    exists num, (Some pre), un. cbn zeta.
    split; [unfold num; rewrite <- !app_assoc; reflexivity|].
    split; [exact Hnum|]. split; [apply HLp; exact Ipre|]. split; [apply HLu; exact Iun|].
    split; reflexivity.
  - exists num, None, un. cbn zeta. cbn [app]. rewrite blen_nil, N.add_0_r.
    split; [unfold num; rewrite <- !app_assoc; reflexivity|].
    split; [exact Hnum|]. split; [exact I|]. split; [apply HLu; exact Iun|].
    split; reflexivity.
Qed.

(* conversely every text of the form has a derivation *)
Lemma shape_intro num pre un nl :
  numform num -> (pre = [] \/ In pre prefixes) -> In un units3 ->
  exists e g, mt r (num ++ pre ++ un ++ nl) 0 [] nl e g.
Proof.
  destruct ok_parts as [cs_s [cs_d1 [cs_dot [cs_d2 [PRE [U [Lp [Lu [-> [HS [HDot [HD1 [HD2 [ELp [ELu [HLp [HLu _]]]]]]]]]]]]]]]]].
  intros [sg [d1 [dot [d2 [-> [Hsg [Hd1 [Hdot [Hd2 Hne]]]]]]]]] Hpre Hun.
  assert (Asg : allin cs_s sg = true /\ le_opt (length sg) (Some 1%nat)).
  { destruct Hsg as [->|[->| ->]]; cbn; (split; [|lia]); auto.
    - replace (cmem 43 cs_s) with true by (symmetry; apply HS; auto). reflexivity.
    - replace (cmem 45 cs_s) with true by (symmetry; apply HS; auto). reflexivity. }
  assert (Adot : allin cs_dot dot = true /\ le_opt (length dot) (Some 1%nat)).
  { destruct Hdot as [->| ->]; cbn; (split; [|lia]); auto.
    replace (cmem 46 cs_dot) with true by (symmetry; apply HDot; auto). reflexivity. }
  rewrite <- (allin_digits _ _ HD1) in Hd1. rewrite <- (allin_digits _ _ HD2) in Hd2.
  assert (Ld2 : (1 <= length d2)%nat) by (destruct d2; [congruence|cbn; lia]).
  unfold unit_shape.
  set (num := sg ++ d1 ++ dot ++ d2).
  set (pn := 0 + blen sg + blen d1 + blen dot + blen d2).
  assert (Hnum : forall rest g,
    mt (Seq Bol (Seq (Rep cs_s 0 (Some 1%nat)) (Seq (Rep cs_d1 0 None) (Seq (Rep cs_dot 0 (Some 1%nat)) (Rep cs_d2 1 None)))))
       (num ++ rest) 0 g rest pn g).
  { intros rest g. unfold num, pn. rewrite <- !app_assoc.
    apply (mt_seq _ _ _ _ _ (sg ++ d1 ++ dot ++ d2 ++ rest) 0 g); [apply mt_bol|].
    apply (mt_seq _ _ _ _ _ (d1 ++ dot ++ d2 ++ rest) (0 + blen sg) g); [apply mt_rep; [apply Asg|lia|apply Asg]|].
    apply (mt_seq _ _ _ _ _ (dot ++ d2 ++ rest) (0 + blen sg + blen d1) g); [apply mt_rep; [exact Hd1|lia|exact I]|].
    apply (mt_seq _ _ _ _ _ (d2 ++ rest) (0 + blen sg + blen d1 + blen dot) g); [apply mt_rep; [apply Adot|lia|apply Adot]|].
    apply mt_rep; [exact Hd2|exact Ld2|exact I]. }
  assert (Iu : In un Lu) by (apply HLu; exact Hun).
  assert (Hu : forall p g, mt (Group 3 U) (un ++ nl) p g nl (p + blen un) ((3%nat, (p, p + blen un)) :: g)).
  { intros p g. apply mt_group. apply (finite_lang_complete U Lu ELu un Iu). }
  destruct Hpre as [->|Hpre].
  - exists (pn + blen un), ((3%nat, (pn, pn + blen un)) :: [(1%nat, (0, pn))]).
    apply (mt_seq _ _ _ _ _ ([] ++ un ++ nl) pn [(1%nat, (0, pn))]); [apply mt_group; apply Hnum|].
    apply (mt_seq _ _ _ _ _ (un ++ nl) pn [(1%nat, (0, pn))]); [apply mt_opt_none|apply Hu].
  - assert (Ip : In pre Lp) by (apply HLp; exact Hpre).
    exists (pn + blen pre + blen un), ((3%nat, (pn + blen pre, pn + blen pre + blen un)) :: (2%nat, (pn, pn + blen pre)) :: [(1%nat, (0, pn))]).
    apply (mt_seq _ _ _ _ _ (pre ++ un ++ nl) pn [(1%nat, (0, pn))]); [apply mt_group; apply Hnum|].
    apply (mt_seq _ _ _ _ _ (un ++ nl) (pn + blen pre) ((2%nat, (pn, pn + blen pre)) :: [(1%nat, (0, pn))])); [|apply Hu].
    apply mt_opt_some. apply mt_group. apply (finite_lang_complete PRE Lp ELp pre Ip).
Qed.

Theorem unit_match_iff_form t : rz_matchb (r, eos) t = true <-> form prefixes t.
Proof.
  unfold rz_matchb, rz_match. cbn [fst snd]. rewrite ok_eos. split.
  - destruct (re_match_end r true t) as [[e g]|] eqn:E; [|discriminate]. intros _.
    apply re_match_end_sound in E.
    apply shape_inv in E. destruct E as [num [opre [un [Ht [Hn [Hp [Hu _]]]]]]].
    cbn zeta in Ht. rewrite app_nil_r in Ht.
    exists num, (match opre with Some p => p | None => [] end), un.
    repeat split; try assumption. destruct opre; [right; exact Hp|left; reflexivity].
  - intros [num [pre [un [-> [Hn [Hp Hu]]]]]].
    destruct (shape_intro num pre un [] Hn Hp Hu) as [e [g Hm]]. rewrite !app_nil_r in Hm.
    apply re_match_end_complete in Hm. destruct (re_match_end r true (num ++ pre ++ un)); [reflexivity|congruence].
Qed.

(* the groups of the answer are the components of any decomposition of the text *)
Theorem unit_match_groups : uniq_ok prefixes = true ->
  forall num pre un,
  numform num -> (pre = [] \/ In pre prefixes) -> In un units3 ->
  exists e g, rz_match (r, eos) (num ++ pre ++ un) = Some (e, g) /\
    group_text (num ++ pre ++ un) g 1 = Some num /\
    group_text (num ++ pre ++ un) g 2 = (match pre with [] => None | _ => Some pre end) /\
    group_text (num ++ pre ++ un) g 3 = Some un.
Proof.
  intros HU num pre un Hn Hp Hu. unfold rz_match. cbn [fst snd]. rewrite ok_eos.
  destruct ok_parts as [_ [_ [_ [_ [_ [_ [_ [_ [_ [_ [_ [_ [_ [_ [_ [_ [_ Hnonil]]]]]]]]]]]]]]]]].
  destruct (shape_intro num pre un [] Hn Hp Hu) as [e0 [g0 Hm0]]. rewrite !app_nil_r in Hm0.
  apply re_match_end_complete in Hm0.
  destruct (re_match_end r true (num ++ pre ++ un)) as [[e g]|] eqn:E; [|congruence].
  exists e, g. split; [reflexivity|].
  apply re_match_end_sound in E.
  apply shape_inv in E. destruct E as [num' [opre [un' [Ht [Hn' [Hp' [Hu' [_ Hg]]]]]]]].
  cbn zeta in Ht, Hg. rewrite app_nil_r in Ht.
  destruct opre as [p|].
  - destruct (decomposition_unique prefixes HU num pre un num' p un' Hn Hp Hu Hn' (or_intror Hp') Hu' Ht) as [<- [<- <-]].
    subst g. unfold group_text. cbn [gget Nat.eqb app].
    split; [|split].
    + f_equal. apply (slice_mid [] num (pre ++ un)).
    + destruct pre as [|c p']; [contradiction|]. f_equal. apply (slice_mid num (c :: p') un).
    + f_equal.
      replace (num ++ pre ++ un) with ((num ++ pre) ++ un ++ []) by (rewrite <- !app_assoc, app_nil_r; reflexivity).
      replace (blen num + blen pre) with (blen (num ++ pre)) by apply blen_app.
      apply slice_mid.
  - destruct (decomposition_unique prefixes HU num pre un num' [] un' Hn Hp Hu Hn' (or_introl eq_refl) Hu' Ht) as [<- [-> <-]].
    subst g. unfold group_text. cbn [gget Nat.eqb app].
    split; [|split].
    + f_equal. apply (slice_mid [] num un).
    + reflexivity.
    + f_equal. rewrite blen_nil, N.add_0_r.
      replace (num ++ un) with (num ++ un ++ []) by (rewrite app_nil_r; reflexivity). apply (slice_mid num un []).
Qed.

End Shape.
