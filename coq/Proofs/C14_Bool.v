(* Proofs/C14_Bool.v — bool_from_string, is_valid_boolstr, int_from_bool_as_string *)
From Coq Require Import String.
Require Import OV.Base.Bytes OV.Base.Py OV.Base.PyInt OV.Base.Str OV.Gen.Unicode.
Require Import OV.Model.C14_Py OV.Gen.C14 OV.Model.C14 OV.Proofs.C14_Str.
Open Scope N_scope.

Definition all_words : list str := TRUE_STRINGS ++ FALSE_STRINGS.
(* every character that occurs in a generated word *)
Definition cs_words : list N := concat all_words.

(* no non-ASCII code point lowers into a character of a word (KELVIN SIGN lowers to 'k',
   U+0130 to 'i' + U+0307: neither letter occurs in a word) — recomputed from the generated
   Unicode tables and the generated words on every run *)
Lemma no_nonascii_letter_folds_into_a_word : lower_avoids cs_words = true.
Proof. vm_compute. reflexivity. Qed.

(* every word is non-empty and neither starts nor ends with whitespace *)
Lemma words_trimmed : forallb ends_nonspace all_words = true.
Proof. vm_compute. reflexivity. Qed.

(* no word is both a true word and a false word *)
Lemma words_disjoint : forallb (fun w => negb (mem_str w FALSE_STRINGS)) TRUE_STRINGS = true.
Proof. vm_compute. reflexivity. Qed.

Lemma mem_str_In x l : mem_str x l = true <-> In x l.
Proof.
  induction l as [|y t IH]; cbn [mem_str In]; [split; [discriminate|tauto]|].
  rewrite orb_true_iff, IH, beq_eq. split; intros [H|H]; auto.
Qed.

Lemma mem_str_app x a b : mem_str x (a ++ b) = mem_str x a || mem_str x b.
Proof. induction a as [|y t IH]; cbn [app mem_str]; [reflexivity|]. rewrite IH. apply orb_assoc. Qed.

(* s is the word w up to ASCII case, possibly surrounded by whitespace *)
Definition case_pad_variant (s w : str) : Prop :=
  exists pre x post, s = pre ++ x ++ post /\ all_space pre = true /\ all_space post = true /\ lower_ascii x = w.

Definition word_match (s : str) (ws : list str) : Prop := exists w, In w ws /\ case_pad_variant s w.

Lemma word_chars w a : In w all_words -> In a w -> In a cs_words.
Proof. intros Hw Ha. unfold cs_words. apply in_concat. exists w. split; assumption. Qed.

(* subject.strip().lower() is the word w  <->  the subject is w in some ASCII casing with whitespace padding *)
Lemma norm_bool_word s w : In w all_words -> (norm_bool s = w <-> case_pad_variant s w).
Proof.
  intros Hw. unfold norm_bool.
  pose proof (py_lower_eq_word cs_words w no_nonascii_letter_folds_into_a_word (fun a => word_chars w a Hw)) as L.
  split.
  - intros H. destruct (strip_padded s) as (pre & post & E & Hpre & Hpost).
    exists pre, (strip s), post. repeat split; try assumption. apply L. exact H.
  - intros (pre & x & post & -> & Hpre & Hpost & Hx).
    pose proof words_trimmed as T. rewrite forallb_forall in T. specialize (T _ Hw).
    rewrite <- Hx in T. apply ends_nonspace_lower_ascii in T.
    rewrite (strip_unique pre x post Hpre Hpost T). apply L. exact Hx.
Qed.

Lemma mem_norm_iff s ws : incl ws all_words -> (mem_str (norm_bool s) ws = true <-> word_match s ws).
Proof.
  intros Hi. rewrite mem_str_In. split.
  - intros H. exists (norm_bool s). split; [exact H|]. apply norm_bool_word; [apply Hi, H|reflexivity].
  - intros (w & Hw & Hv). apply norm_bool_word in Hv; [|apply Hi, Hw]. rewrite Hv. exact Hw.
Qed.

Lemma incl_true : incl TRUE_STRINGS all_words.
Proof. intros w H. apply in_or_app. left. exact H. Qed.
Lemma incl_false : incl FALSE_STRINGS all_words.
Proof. intros w H. apply in_or_app. right. exact H. Qed.

Lemma true_false_exclusive s : word_match s TRUE_STRINGS -> word_match s FALSE_STRINGS -> False.
Proof.
  intros Ht Hf. apply (mem_norm_iff s _ incl_true) in Ht. apply (mem_norm_iff s _ incl_false) in Hf.
  pose proof words_disjoint as D. rewrite forallb_forall in D.
  apply mem_str_In in Ht. specialize (D _ Ht). rewrite Hf in D. discriminate.
Qed.

(* ---------- bool_from_string ---------- *)
Lemma bool_from_string_str lim s strict default :
  (word_match s TRUE_STRINGS -> bool_from_string lim (PStr s) strict default = Ok (PBool true)) /\
  (word_match s FALSE_STRINGS -> bool_from_string lim (PStr s) strict default = Ok (PBool false)) /\
  (~ word_match s TRUE_STRINGS -> ~ word_match s FALSE_STRINGS ->
   bool_from_string lim (PStr s) strict default = if strict then Exn ValueError else Ok default).
Proof.
  unfold bool_from_string. cbn [py_str bind]. unfold classify_bool.
  pose proof (mem_norm_iff s _ incl_true) as HT. pose proof (mem_norm_iff s _ incl_false) as HF.
  destruct (mem_str (norm_bool s) TRUE_STRINGS) eqn:Et; destruct (mem_str (norm_bool s) FALSE_STRINGS) eqn:Ef.
  - exfalso. apply (true_false_exclusive s); [apply HT|apply HF]; reflexivity.
  - split; [reflexivity|split].
    + intros H. apply HF in H. discriminate.
    + intros H. exfalso. apply H, HT. reflexivity.
  - split; [|split; [reflexivity|]].
    + intros H. apply HT in H. discriminate.
    + intros _ H. exfalso. apply H, HF. reflexivity.
  - split; [|split; [|reflexivity]].
    + intros H. apply HT in H. discriminate.
    + intros H. apply HF in H. discriminate.
Qed.

Lemma bool_from_string_bool lim b strict default :
  bool_from_string lim (PBool b) strict default = Ok (PBool b).
Proof. reflexivity. Qed.

(* anything that is not a bool is converted with str() first; if str() raises, that escapes *)
Lemma bool_from_string_via_str lim v strict default : is_bool v = false ->
  bool_from_string lim v strict default =
  match py_str lim v with
  | Ok s => bool_from_string lim (PStr s) strict default
  | Exn e => Exn e
  end.
Proof. destruct v; try discriminate; intros _; unfold bool_from_string, bind; cbn [py_str]; try reflexivity;
  destruct (str_of_int lim z); reflexivity. Qed.

Lemma int_from_bool_as_string_spec lim v :
  int_from_bool_as_string lim v =
  match bool_from_string lim v false (PBool false) with
  | Ok (PBool true) => Ok 1%Z
  | Ok (PBool false) => Ok 0%Z
  | Ok other => py_int_of lim other
  | Exn e => Exn e
  end.
Proof.
  unfold int_from_bool_as_string, bind. destruct (bool_from_string lim v false (PBool false)) as [r|e]; [|reflexivity].
  destruct r as [| |[|]| |]; reflexivity.
Qed.

(* with default=False the result is always a bool *)
Lemma bool_from_string_default_false_is_bool lim v r :
  bool_from_string lim v false (PBool false) = Ok r -> exists b, r = PBool b.
Proof.
  destruct (is_bool v) eqn:Eb.
  - destruct v; try discriminate. cbn. intros H. injection H as <-. eauto.
  - rewrite (bool_from_string_via_str lim v false (PBool false) Eb).
    destruct (py_str lim v) as [s|e]; [|discriminate].
    unfold bool_from_string. cbn [py_str bind]. unfold classify_bool.
    destruct (mem_str _ TRUE_STRINGS); [intros H; injection H as <-; eauto|].
    destruct (mem_str _ FALSE_STRINGS); intros H; injection H as <-; eauto.
Qed.

(* ---------- is_valid_boolstr ---------- *)
Definition recognised (r : res pyval) : bool := match r with Ok _ => true | Exn _ => false end.

(* on unpadded text is_valid_boolstr says exactly whether strict bool_from_string recognises it *)
Lemma is_valid_boolstr_agrees_unpadded lim s default : strip s = s ->
  is_valid_boolstr lim (PStr s) = Ok (recognised (bool_from_string lim (PStr s) true default)).
Proof.
  intros Hs. unfold is_valid_boolstr, bool_from_string. cbn [py_str bind]. unfold classify_bool, norm_bool.
  rewrite Hs. fold all_words. unfold all_words. rewrite mem_str_app.
  destruct (mem_str (py_lower s) TRUE_STRINGS); [reflexivity|].
  destruct (mem_str (py_lower s) FALSE_STRINGS); reflexivity.
Qed.

(* the same for any non-bool value whose str() is unpadded *)
Lemma is_valid_boolstr_agrees_value lim v s default : is_bool v = false -> py_str lim v = Ok s -> strip s = s ->
  is_valid_boolstr lim v = Ok (recognised (bool_from_string lim v true default)).
Proof.
  intros Hb Hv Hs. rewrite (bool_from_string_via_str lim v true default Hb), Hv.
  rewrite <- (is_valid_boolstr_agrees_unpadded lim s default Hs).
  unfold is_valid_boolstr, bind. rewrite Hv. reflexivity.
Qed.

(* booleans: both functions recognise them *)
Lemma is_valid_boolstr_bool lim b : is_valid_boolstr lim (PBool b) = Ok true.
Proof. destruct b; vm_compute; reflexivity. Qed.

(* a padded word: is_valid_boolstr does not strip (why the hypothesis above is needed) *)
Example is_valid_boolstr_padded :
  is_valid_boolstr 0 (PStr (32 :: lit "true")) = Ok false /\
  bool_from_string 0 (PStr (32 :: lit "true")) true PNone = Ok (PBool true).
Proof. split; vm_compute; reflexivity. Qed.

Lemma is_valid_boolstr_spec lim s :
  is_valid_boolstr lim (PStr s) = Ok (mem_str (py_lower s) all_words).
Proof. reflexivity. Qed.

(* py_lower on the words' characters: is_valid_boolstr (no strip) accepts exactly ASCII case variants *)
Lemma is_valid_boolstr_iff lim s :
  is_valid_boolstr lim (PStr s) = Ok true <-> exists w, In w all_words /\ lower_ascii s = w.
Proof.
  rewrite is_valid_boolstr_spec. split.
  - intros H0. assert (H : mem_str (py_lower s) all_words = true) by congruence. clear H0.
    apply mem_str_In in H. exists (py_lower s). split; [exact H|].
    apply (py_lower_eq_word cs_words (py_lower s) no_nonascii_letter_folds_into_a_word (fun a => word_chars _ a H)). reflexivity.
  - intros (w & Hw & Hl). f_equal. apply mem_str_In.
    apply (py_lower_eq_word cs_words w no_nonascii_letter_folds_into_a_word (fun a => word_chars _ a Hw)) in Hl.
    rewrite Hl. exact Hw.
Qed.
