(* Proofs/C04_Render.v — rendering_masked_R: for EVERY key over [a-z_]+ (generic in the key:
   proved from the pattern TEMPLATE), every per-letter casing of it, every digit suffix, every
   amount of optional white space the pattern allows, every value of the rendering's value
   class (all lengths, all code points of the class), the designated pattern applied to the
   rendering R(K,d,v) yields R(K,d,mask). *)
From Coq Require Import String.
Require Import OV.Base.Bytes OV.Base.PyInt OV.Base.Str OV.Base.Regex OV.Base.C04_Tmpl.
Require Import OV.Gen.Unicode OV.Gen.C04_Sanitize OV.Model.C04 OV.Model.C04_Spec OV.Proofs.C04_Regex OV.Proofs.C04.
Open Scope N_scope.

(* the sets the generated templates use for the value, read off the templates *)
Definition rep_cs (r : re) : cset := match r with Rep cs _ _ => cs | _ => [] end.
Definition value_re (r : re) : re := match r with Seq _ (Seq x _) => x | Seq _ x => x | _ => Eps end.
Definition cs_bare : cset := rep_cs (value_re (gen_tp1_0 [])).
Definition cs_quoted : cset := rep_cs (value_re (gen_tp2_0 [])).
Definition cs_dq : cset := rep_cs (value_re (gen_tp2_1 [])).
Definition cs_sq : cset := rep_cs (value_re (gen_tp2_2 [])).
Definition cs_dd : cset := rep_cs (value_re (gen_tp2_4 [])).
Definition cs_xml : cset := rep_cs (value_re (gen_tp2_5 [])).
Definition cs_nonspace : cset := rep_cs (value_re (gen_tp2_9 [])).
Definition cs_quotes : cset := [(34, 34); (39, 39)].

Ltac by_cover excl :=
  match goal with
  | |- cmem ?c ?cs = true =>
      assert (Hcov : cmem c (cs ++ excl) = true)
        by (apply (covers_sound 64 (cs ++ excl) 0 1114111 ltac:(vm_compute; reflexivity)); lia);
      rewrite cmem_app in Hcov
  end.

Lemma is_quote_cmem c : cmem c cs_quotes = is_quote c.
Proof. unfold cs_quotes, is_quote. cbn [cmem]. rewrite orb_false_r. f_equal; lia. Qed.
Lemma cmem_single c x : cmem c [(x, x)] = (c =? x).
Proof. cbn [cmem]. rewrite orb_false_r. lia. Qed.

Lemma bare_in c : bare_char c = true -> cmem c cs_bare = true.
Proof.
  unfold bare_char, valid_cp. intros H. apply andb_true_iff in H. destruct H as [H Hq].
  apply andb_true_iff in H. destruct H as [Hv Hs]. apply N.leb_le in Hv.
  by_cover (py_space ++ cs_quotes). rewrite cmem_app, is_quote_cmem in Hcov.
  unfold is_space in Hs. apply negb_true_iff in Hs, Hq. rewrite Hs, Hq, !orb_false_r in Hcov. exact Hcov.
Qed.
Lemma quoted_in c : quoted_char c = true -> cmem c cs_quoted = true.
Proof.
  unfold quoted_char, valid_cp. intros H. apply andb_true_iff in H. destruct H as [Hv Hq]. apply N.leb_le in Hv.
  by_cover cs_quotes. rewrite is_quote_cmem in Hcov. apply negb_true_iff in Hq. rewrite Hq, orb_false_r in Hcov. exact Hcov.
Qed.
Lemma dq_in c : dq_char c = true -> cmem c cs_dq = true.
Proof.
  unfold dq_char, valid_cp. intros H. apply andb_true_iff in H. destruct H as [Hv Hq]. apply N.leb_le in Hv.
  by_cover [(34, 34)]. rewrite cmem_single in Hcov. apply negb_true_iff in Hq. rewrite Hq, orb_false_r in Hcov. exact Hcov.
Qed.
Lemma sq_in c : sq_char c = true -> cmem c cs_sq = true.
Proof.
  unfold sq_char, valid_cp. intros H. apply andb_true_iff in H. destruct H as [Hv Hq]. apply N.leb_le in Hv.
  by_cover [(39, 39)]. rewrite cmem_single in Hcov. apply negb_true_iff in Hq. rewrite Hq, orb_false_r in Hcov. exact Hcov.
Qed.
Lemma xml_in c : xml_char c = true -> cmem c cs_xml = true.
Proof.
  unfold xml_char, valid_cp. intros H. apply andb_true_iff in H. destruct H as [Hv Hq]. apply N.leb_le in Hv.
  by_cover [(60, 60)]. rewrite cmem_single in Hcov. apply negb_true_iff in Hq. rewrite Hq, orb_false_r in Hcov. exact Hcov.
Qed.
Lemma nonspace_in c : nonspace_char c = true -> cmem c cs_nonspace = true.
Proof.
  unfold nonspace_char, valid_cp. intros H. apply andb_true_iff in H. destruct H as [Hv Hs]. apply N.leb_le in Hv.
  by_cover py_space. unfold is_space in Hs. apply negb_true_iff in Hs. rewrite Hs, orb_false_r in Hcov. exact Hcov.
Qed.
Lemma dd_in c : dd_char c = true -> cmem c cs_dd = true.
Proof.
  unfold dd_char, bare_char, valid_cp. intros H. apply andb_true_iff in H. destruct H as [H He].
  apply andb_true_iff in H. destruct H as [H Hq]. apply andb_true_iff in H. destruct H as [Hv Hs]. apply N.leb_le in Hv.
  by_cover (py_space ++ cs_quotes ++ [(61, 61)]). rewrite !cmem_app, is_quote_cmem, cmem_single in Hcov.
  unfold is_space in Hs. apply negb_true_iff in Hs, Hq, He. rewrite Hs, Hq, He, !orb_false_r in Hcov. exact Hcov.
Qed.

(* ---------- keys and casings ---------- *)
Definition key_alphabet : list N := 95 :: map (fun i => 97 + N.of_nat i) (seq 0 26).
Lemma key_char_in c : key_char c = true -> In c key_alphabet.
Proof.
  unfold key_char, key_alphabet. intros H. destruct (c =? 95) eqn:E.
  - left. lia.
  - right. apply in_map_iff. exists (N.to_nat (c - 97)). split; [lia|]. apply in_seq. lia.
Qed.
Lemma ci_table_ok :
  forallb (fun c => cmem c (ci_lookup gen_ci_table c) && cmem (upper_ascii1 c) (ci_lookup gen_ci_table c)) key_alphabet = true.
Proof. vm_compute. reflexivity. Qed.


Lemma casing_ok_of k K : forallb key_char k = true -> casing_of k K -> casing_ok gen_ci_table k K.
Proof.
  intros Hk H. induction H as [|c C k K Hc _ IH]; [constructor|].
  cbn [forallb] in Hk. apply andb_true_iff in Hk. destruct Hk as [Hc1 Hk]. constructor; [|apply IH; exact Hk].
  pose proof ci_table_ok as T. rewrite forallb_forall in T. specialize (T c (key_char_in c Hc1)).
  apply andb_true_iff in T. destruct T as [T1 T2]. destruct Hc as [-> | ->]; assumption.
Qed.

Lemma digits_in d : forallb ascii_digit d = true -> all_in [(48, 57)] d = true.
Proof.
  apply all_in_impl. intros c H. unfold ascii_digit in H. cbn [cmem]. rewrite H. reflexivity.
Qed.
Lemma spaces_in w : forallb is_space w = true -> all_in py_space w = true.
Proof. intros H. exact H. Qed.
Lemma quote_in q : is_quote q = true -> cmem q cs_quotes = true.
Proof. intros H. rewrite is_quote_cmem. exact H. Qed.

(* a symbolic character is never normalised by vm_compute (huge stuck terms): look its class up instead *)
Ltac solve_hd ::=
  lazymatch goal with
  | |- hd_notin _ [] = true => reflexivity
  | |- hd_notin _ (_ ++ _) = true =>
      first [ eapply hd_notin_run1; [solve_allin | solve_len | vmr]
            | eapply hd_notin_run; [solve_allin | vmr | solve_hd] ]
  | |- hd_notin _ (?c :: _) = true =>
      tryif is_var c
      then (match goal with H : cmem c _ = true |- _ => eapply hd_notin_sym; [exact H | vmr] end)
      else (cbn [hd_notin]; vmr)
  end.

Section Renderings.
Variables (k K d : str).
Hypothesis Hk : forallb key_char k = true.
Hypothesis Hcase : casing_of k K.
Hypothesis Hd : forallb ascii_digit d = true.

Let HK : casing_ok gen_ci_table k K := casing_ok_of k K Hk Hcase.
Let Hd' : all_in [(48, 57)] d = true := digits_in d Hd.

(* k = v (bare):  K d w1 '=' w2 v  ->  K d w1 '=' w2 mask      [_FORMAT_PATTERNS_1[0]] *)
Lemma rendering_masked_bare w1 w2 v mask :
  forallb is_space w1 = true -> forallb is_space w2 = true ->
  forallb bare_char v = true -> (1 <= length v)%nat ->
  re_sub (gen_tp1_0 k) (t1 mask) (K ++ d ++ w1 ++ 61 :: w2 ++ v) = K ++ d ++ w1 ++ 61 :: w2 ++ mask.
Proof.
  intros Hw1 Hw2 Hv Hl.
  pose proof (spaces_in _ Hw1) as Hw1'. pose proof (spaces_in _ Hw2) as Hw2'.
  pose proof (all_in_impl _ _ _ bare_in Hv) as Hv'.
  pose proof HK as HK'. pose proof Hd' as Hd''.
  replace (K ++ d ++ w1 ++ 61 :: w2 ++ v) with (K ++ d ++ w1 ++ 61 :: w2 ++ v ++ []) by (rewrite app_nil_r; reflexivity).
  eapply gm_sub_one' with (tbl := gen_ci_table) (h := K ++ d ++ w1 ++ 61 :: w2) (v := v).
  - cbv [gen_tp1_0]. gm_go.
  - norm_app.
  - rewrite app_nil_r. norm_app.
  - norm_app.
  - destruct v; [inversion Hl|]. destruct K, d, w1; discriminate.
  - cbn [gget Nat.eqb app]. reflexivity.
  - norm_app.
Qed.

Ltac solve_ne := clear; let E := fresh "E" in intro E; apply (f_equal (@length N)) in E; rewrite ?app_length in E; cbn [length] in E; lia.
Ltac norm_app' := repeat first [rewrite <- app_assoc | progress (cbn [app])]; rewrite ?app_nil_r; reflexivity.
Ltac finish2 t :=
  [> t | norm_app' | norm_app' | norm_app' | solve_ne | cbn [gget Nat.eqb app]; reflexivity | norm_app'
     | cbn [gget Nat.eqb app]; reflexivity | norm_app' | norm_app' ].

(* k = "v" / k = 'v'  (either quote on either side, value without quotes)    [_FORMAT_PATTERNS_2[0]] *)
Lemma rendering_masked_eq_quoted w1 w2 q1 q2 v mask :
  forallb is_space w1 = true -> forallb is_space w2 = true ->
  is_quote q1 = true -> is_quote q2 = true -> forallb quoted_char v = true ->
  re_sub (gen_tp2_0 k) (t2 mask) (K ++ d ++ w1 ++ 61 :: w2 ++ q1 :: v ++ [q2])
  = K ++ d ++ w1 ++ 61 :: w2 ++ q1 :: mask ++ [q2].
Proof.
  intros Hw1 Hw2 Hq1 Hq2 Hv.
  pose proof (spaces_in _ Hw1) as Hw1'. pose proof (spaces_in _ Hw2) as Hw2'.
  pose proof (quote_in _ Hq1) as Hq1'. pose proof (quote_in _ Hq2) as Hq2'.
  pose proof (all_in_impl _ _ _ quoted_in Hv) as Hv'. pose proof HK as HK'. pose proof Hd' as Hd''.
  eapply gm_sub_two' with (tbl := gen_ci_table) (h := K ++ d ++ w1 ++ 61 :: w2 ++ [q1]) (v := v) (t := [q2]); finish2 ltac:(cbv [gen_tp2_0]; gm_go).
Qed.

(* k = "v" where v may contain single quotes                                 [_FORMAT_PATTERNS_2[1]] *)
Lemma rendering_masked_eq_dq w1 w2 v mask :
  forallb is_space w1 = true -> forallb is_space w2 = true -> forallb dq_char v = true ->
  re_sub (gen_tp2_1 k) (t2 mask) (K ++ d ++ w1 ++ 61 :: w2 ++ 34 :: v ++ [34])
  = K ++ d ++ w1 ++ 61 :: w2 ++ 34 :: mask ++ [34].
Proof.
  intros Hw1 Hw2 Hv.
  pose proof (spaces_in _ Hw1) as Hw1'. pose proof (spaces_in _ Hw2) as Hw2'.
  pose proof (all_in_impl _ _ _ dq_in Hv) as Hv'. pose proof HK as HK'. pose proof Hd' as Hd''.
  eapply gm_sub_two' with (tbl := gen_ci_table) (h := K ++ d ++ w1 ++ 61 :: w2 ++ [34]) (v := v) (t := [34]); finish2 ltac:(cbv [gen_tp2_1]; gm_go).
Qed.

(* k = 'v' where v may contain double quotes                                 [_FORMAT_PATTERNS_2[2]] *)
Lemma rendering_masked_eq_sq w1 w2 v mask :
  forallb is_space w1 = true -> forallb is_space w2 = true -> forallb sq_char v = true ->
  re_sub (gen_tp2_2 k) (t2 mask) (K ++ d ++ w1 ++ 61 :: w2 ++ 39 :: v ++ [39])
  = K ++ d ++ w1 ++ 61 :: w2 ++ 39 :: mask ++ [39].
Proof.
  intros Hw1 Hw2 Hv.
  pose proof (spaces_in _ Hw1) as Hw1'. pose proof (spaces_in _ Hw2) as Hw2'.
  pose proof (all_in_impl _ _ _ sq_in Hv) as Hv'. pose proof HK as HK'. pose proof Hd' as Hd''.
  eapply gm_sub_two' with (tbl := gen_ci_table) (h := K ++ d ++ w1 ++ 61 :: w2 ++ [39]) (v := v) (t := [39]); finish2 ltac:(cbv [gen_tp2_2]; gm_go).
Qed.

(* k 'v'  (white space, then a quoted value)                                 [_FORMAT_PATTERNS_2[3]] *)
Lemma rendering_masked_key_quoted w1 q1 q2 v mask :
  forallb is_space w1 = true -> (1 <= length w1)%nat ->
  is_quote q1 = true -> is_quote q2 = true -> forallb quoted_char v = true ->
  re_sub (gen_tp2_3 k) (t2 mask) (K ++ d ++ w1 ++ q1 :: v ++ [q2]) = K ++ d ++ w1 ++ q1 :: mask ++ [q2].
Proof.
  intros Hw1 Hl1 Hq1 Hq2 Hv.
  pose proof (spaces_in _ Hw1) as Hw1'.
  pose proof (quote_in _ Hq1) as Hq1'. pose proof (quote_in _ Hq2) as Hq2'.
  pose proof (all_in_impl _ _ _ quoted_in Hv) as Hv'. pose proof HK as HK'. pose proof Hd' as Hd''.
  eapply gm_sub_two' with (tbl := gen_ci_table) (h := K ++ d ++ w1 ++ [q1]) (v := v) (t := [q2]); finish2 ltac:(cbv [gen_tp2_3]; gm_go).
Qed.

(* --k v  (trailing white space is kept)                                      [_FORMAT_PATTERNS_2[4]] *)
Lemma rendering_masked_dashdash w1 w2 v mask :
  forallb is_space w1 = true -> (1 <= length w1)%nat -> forallb is_space w2 = true ->
  forallb dd_char v = true -> (1 <= length v)%nat ->
  re_sub (gen_tp2_4 k) (t2 mask) ([45; 45] ++ K ++ d ++ w1 ++ v ++ w2) = [45; 45] ++ K ++ d ++ w1 ++ mask ++ w2.
Proof.
  intros Hw1 Hl1 Hw2 Hv Hlv.
  pose proof (spaces_in _ Hw1) as Hw1'. pose proof (spaces_in _ Hw2) as Hw2'.
  pose proof (all_in_impl _ _ _ dd_in Hv) as Hv'. pose proof HK as HK'. pose proof Hd' as Hd''.
  replace ([45; 45] ++ K ++ d ++ w1 ++ v ++ w2) with ([45; 45] ++ K ++ d ++ w1 ++ v ++ w2 ++ []) by (rewrite app_nil_r; reflexivity).
  eapply gm_sub_two' with (tbl := gen_ci_table) (h := [45; 45] ++ K ++ d ++ w1) (v := v) (t := w2); finish2 ltac:(cbv [gen_tp2_4]; gm_go).
Qed.

(* <k>v</k>  (the closing tag may use another casing / digit suffix)          [_FORMAT_PATTERNS_2[5]] *)
Lemma rendering_masked_xml K' d' v mask :
  casing_of k K' -> forallb ascii_digit d' = true -> forallb xml_char v = true ->
  re_sub (gen_tp2_5 k) (t2 mask) (60 :: K ++ d ++ 62 :: v ++ 60 :: 47 :: K' ++ d' ++ [62])
  = 60 :: K ++ d ++ 62 :: mask ++ 60 :: 47 :: K' ++ d' ++ [62].
Proof.
  intros Hc2 Hd2 Hv.
  pose proof (casing_ok_of k K' Hk Hc2) as HK2. pose proof (digits_in d' Hd2) as Hd2'.
  pose proof (all_in_impl _ _ _ xml_in Hv) as Hv'. pose proof HK as HK'. pose proof Hd' as Hd''.
  eapply gm_sub_two' with (tbl := gen_ci_table) (h := 60 :: K ++ d ++ [62]) (v := v) (t := 60 :: 47 :: K' ++ d' ++ [62]); finish2 ltac:(cbv [gen_tp2_5]; gm_go).
Qed.

(* "k": "v" / 'k' : 'v'  (dict / JSON style)                                  [_FORMAT_PATTERNS_2[6]] *)
Lemma rendering_masked_json q1 q2 w1 w2 q3 q4 v mask :
  is_quote q1 = true -> is_quote q2 = true -> is_quote q3 = true -> is_quote q4 = true ->
  forallb is_space w1 = true -> forallb is_space w2 = true -> forallb quoted_char v = true ->
  re_sub (gen_tp2_6 k) (t2 mask) (q1 :: K ++ d ++ q2 :: w1 ++ 58 :: w2 ++ q3 :: v ++ [q4])
  = q1 :: K ++ d ++ q2 :: w1 ++ 58 :: w2 ++ q3 :: mask ++ [q4].
Proof.
  intros Hq1 Hq2 Hq3 Hq4 Hw1 Hw2 Hv.
  pose proof (spaces_in _ Hw1) as Hw1'. pose proof (spaces_in _ Hw2) as Hw2'.
  pose proof (quote_in _ Hq1) as Hq1'. pose proof (quote_in _ Hq2) as Hq2'.
  pose proof (quote_in _ Hq3) as Hq3'. pose proof (quote_in _ Hq4) as Hq4'.
  pose proof (all_in_impl _ _ _ quoted_in Hv) as Hv'. pose proof HK as HK'. pose proof Hd' as Hd''.
  eapply gm_sub_two' with (tbl := gen_ci_table) (h := q1 :: K ++ d ++ q2 :: w1 ++ 58 :: w2 ++ [q3]) (v := v) (t := [q4]); finish2 ltac:(cbv [gen_tp2_6]; gm_go).
Qed.

(* k --flag v  /  k -f v  (command form; trailing white space kept)           [_FORMAT_PATTERNS_2[9]] *)
Definition cs_flag : cset := match gen_tp2_9 [] with
  | Seq (Group _ (Seq _ (Seq _ (Seq _ (Seq _ (Seq (Rep cs _ _) _)))))) _ => cs | _ => [] end.
Lemma rendering_masked_cmd2 w1 dash fl w2 v w3 mask :
  forallb is_space w1 = true -> (dash = [] \/ dash = [45]) ->
  all_in cs_flag fl = true -> (1 <= length fl)%nat ->
  forallb is_space w2 = true -> (1 <= length w2)%nat ->
  forallb nonspace_char v = true -> (1 <= length v)%nat -> forallb is_space w3 = true ->
  re_sub (gen_tp2_9 k) (t2 mask) (K ++ d ++ w1 ++ 45 :: dash ++ fl ++ w2 ++ v ++ w3)
  = K ++ d ++ w1 ++ 45 :: dash ++ fl ++ w2 ++ mask ++ w3.
Proof.
  intros Hw1 Hdash Hfl Hlf Hw2 Hl2 Hv Hlv Hw3.
  pose proof (spaces_in _ Hw1) as Hw1'. pose proof (spaces_in _ Hw2) as Hw2'. pose proof (spaces_in _ Hw3) as Hw3'.
  assert (Hdash' : all_in [(45, 45)] dash = true) by (destruct Hdash as [-> | ->]; reflexivity).
  assert (Hdl : (length dash <= 1)%nat) by (destruct Hdash as [-> | ->]; cbn; repeat constructor).
  pose proof (all_in_impl _ _ _ nonspace_in Hv) as Hv'. pose proof HK as HK'. pose proof Hd' as Hd''.
  replace (K ++ d ++ w1 ++ 45 :: dash ++ fl ++ w2 ++ v ++ w3) with (K ++ d ++ w1 ++ 45 :: dash ++ fl ++ w2 ++ v ++ w3 ++ [])
    by (rewrite app_nil_r; reflexivity).
  eapply gm_sub_two' with (tbl := gen_ci_table) (h := K ++ d ++ w1 ++ 45 :: dash ++ fl ++ w2) (v := v) (t := w3); finish2 ltac:(cbv [gen_tp2_9]; gm_go).
Qed.
End Renderings.

(* ---------- the two renderings whose pattern backtracks (['"][^'"]*key…) ----------
   proved with Proofs/C04_Quote.v: a match exists (completeness of the matcher for an explicit
   parse) and every successful parse reads the same text (group 1 consumes a fixed number of quote
   characters and ends in one). *)
Require Import OV.Proofs.C11_Regex OV.Proofs.C04_Quote.

Definition opt_u (u : str) : Prop := u = [] \/ u = [117] \/ u = [85].

Lemma ci_disj_quotes :
  forallb (fun c => cset_disj (ci_lookup gen_ci_table c) cs_quotes) key_alphabet = true.
Proof. vm_compute. reflexivity. Qed.

Lemma qcount_keyseq k rest : forallb key_char k = true ->
  qcount cs_quotes (keyseq gen_ci_table k rest) = qcount cs_quotes rest.
Proof.
  induction k as [|c k IH]; intros Hk; [reflexivity|].
  cbn [forallb] in Hk. apply andb_true_iff in Hk. destruct Hk as [Hc Hk].
  pose proof ci_disj_quotes as T. rewrite forallb_forall in T. specialize (T c (key_char_in c Hc)).
  cbn [keyseq qcount]. rewrite T, (IH Hk). destruct (qcount cs_quotes rest); reflexivity.
Qed.
Lemma last_q_keyseq Q tbl k rest : k <> [] \/ True -> last_q Q (keyseq tbl k rest) = last_q Q rest.
Proof. intros _. induction k as [|c k IH]; [reflexivity|]. cbn [keyseq last_q]. exact IH. Qed.

Lemma countq_casing k K : forallb key_char k = true -> casing_ok gen_ci_table k K -> countq cs_quotes K = 0%nat.
Proof.
  intros Hk H. induction H as [|c C k K Hc _ IH]; [reflexivity|].
  cbn [forallb] in Hk. apply andb_true_iff in Hk. destruct Hk as [Hc1 Hk].
  pose proof ci_disj_quotes as T. rewrite forallb_forall in T. specialize (T c (key_char_in c Hc1)).
  rewrite countq_cons_n; [apply IH; exact Hk|]. apply (cset_disj_sound _ _ _ T Hc).
Qed.

Ltac mt_go :=
  lazymatch goal with
  | |- mt (Seq _ _) _ _ _ _ => eapply mt_seq; [mt_go | mt_go]
  | |- mt (Group _ _) _ _ _ _ => apply mt_group; mt_go
  | |- mt (keyseq _ _ _) _ _ _ _ => eapply mt_keyseq; [eassumption | mt_go]
  | |- mt (Chr _) (?c :: _) _ _ _ => eapply mt_chr; tryif is_var c then eassumption else vmr
  | |- mt (Rep _ _ _) _ _ _ _ => eapply mt_rep_run; [solve_allin | solve_len | solve_within]
  end.

Ltac norm_app2 := repeat first [rewrite <- app_assoc | progress (cbn [app])]; rewrite ?app_nil_r; reflexivity.

Lemma opt_u_in u : opt_u u -> all_in [(85, 85); (117, 117)] u = true /\ (length u <= 1)%nat.
Proof. intros [-> | [-> | ->]]; split; try reflexivity; cbn; repeat constructor. Qed.

Section Renderings2.
Variables (k K d : str).
Hypothesis Hk : forallb key_char k = true.
Hypothesis Hcase : casing_of k K.
Hypothesis Hd : forallb ascii_digit d = true.

(* '…k': u'v'  — any quote-free prefix inside the key string, optional u    [_FORMAT_PATTERNS_2[7]] *)
Lemma rendering_masked_json_prefix q1 pfx q2 w1 w2 u q3 q4 v mask :
  is_quote q1 = true -> is_quote q2 = true -> is_quote q3 = true -> is_quote q4 = true ->
  forallb quoted_char pfx = true -> forallb is_space w1 = true -> forallb is_space w2 = true -> opt_u u ->
  forallb quoted_char v = true ->
  re_sub (gen_tp2_7 k) (t2 mask) (q1 :: pfx ++ K ++ d ++ q2 :: w1 ++ 58 :: w2 ++ u ++ q3 :: v ++ [q4])
  = q1 :: pfx ++ K ++ d ++ q2 :: w1 ++ 58 :: w2 ++ u ++ q3 :: mask ++ [q4].
Proof.
  intros Hq1 Hq2 Hq3 Hq4 Hp Hw1 Hw2 Hu Hv.
  pose proof (casing_ok_of k K Hk Hcase) as HK. pose proof (digits_in d Hd) as Hd'.
  pose proof (spaces_in _ Hw1) as Hw1'. pose proof (spaces_in _ Hw2) as Hw2'.
  pose proof (quote_in _ Hq1) as Hq1'. pose proof (quote_in _ Hq2) as Hq2'.
  pose proof (quote_in _ Hq3) as Hq3'. pose proof (quote_in _ Hq4) as Hq4'.
  pose proof (all_in_impl _ _ _ quoted_in Hp) as Hp'. pose proof (all_in_impl _ _ _ quoted_in Hv) as Hv'.
  destruct (opt_u_in u Hu) as [Hu' Hul].
  set (h := [q1] ++ pfx ++ K ++ d ++ [q2] ++ w1 ++ [58] ++ w2 ++ u ++ [q3]).
  replace (q1 :: pfx ++ K ++ d ++ q2 :: w1 ++ 58 :: w2 ++ u ++ q3 :: v ++ [q4]) with (h ++ v ++ [q4]) by (unfold h; norm_app2).
  replace (q1 :: pfx ++ K ++ d ++ q2 :: w1 ++ 58 :: w2 ++ u ++ q3 :: mask ++ [q4]) with (h ++ mask ++ [q4]) by (unfold h; norm_app2).
  cbv [gen_tp2_7].
  eapply (quote_delimited_sub cs_quotes) with (h0 := [q1] ++ pfx ++ K ++ d ++ [q2] ++ w1 ++ [58] ++ w2 ++ u) (q3 := q3).
  - cbn [qcount]. rewrite (qcount_keyseq _ _ Hk). vm_compute. reflexivity.
  - cbn [last_q]. rewrite last_q_keyseq by (right; exact I). vm_compute. reflexivity.
  - vmr.
  - vmr.
  - replace (h ++ v ++ [q4]) with (q1 :: pfx ++ K ++ d ++ q2 :: w1 ++ 58 :: w2 ++ u ++ q3 :: v ++ [q4]) by (unfold h; norm_app2).
    mt_go.
  - unfold h. rewrite !countq_app.
    rewrite (countq_one cs_quotes _ Hq1'), (countq_one cs_quotes _ Hq2'), (countq_one cs_quotes _ Hq3').
    rewrite (countq_none cs_quotes _ _ Hp' ltac:(vmr)), (countq_casing _ _ Hk HK), (countq_none cs_quotes _ _ Hd' ltac:(vmr)).
    rewrite (countq_none cs_quotes _ _ Hw1' ltac:(vmr)), (countq_none cs_quotes _ _ Hw2' ltac:(vmr)), (countq_none cs_quotes _ _ Hu' ltac:(vmr)).
    reflexivity.
  - unfold h. norm_app2.
  - exact Hq3'.
  - exact Hv'.
  - exact Hq4'.
Qed.

(* 'k', '--flag', 'v'                                                        [_FORMAT_PATTERNS_2[8]] *)
Lemma rendering_masked_cmd1 q1 pfx q2 w1 w2 dash fl w3 w4 u q3 q4 v mask :
  is_quote q1 = true -> is_quote q2 = true -> is_quote q3 = true -> is_quote q4 = true ->
  forallb quoted_char pfx = true -> forallb is_space w1 = true -> forallb is_space w2 = true ->
  (dash = [] \/ dash = [45]) -> all_in cs_flag fl = true -> (1 <= length fl)%nat ->
  forallb is_space w3 = true -> forallb is_space w4 = true -> opt_u u -> forallb quoted_char v = true ->
  re_sub (gen_tp2_8 k) (t2 mask)
    (q1 :: pfx ++ K ++ d ++ q2 :: w1 ++ 44 :: w2 ++ 39 :: 45 :: dash ++ fl ++ 39 :: w3 ++ 44 :: w4 ++ u ++ q3 :: v ++ [q4])
  = q1 :: pfx ++ K ++ d ++ q2 :: w1 ++ 44 :: w2 ++ 39 :: 45 :: dash ++ fl ++ 39 :: w3 ++ 44 :: w4 ++ u ++ q3 :: mask ++ [q4].
Proof.
  intros Hq1 Hq2 Hq3 Hq4 Hp Hw1 Hw2 Hdash Hfl Hlf Hw3 Hw4 Hu Hv.
  pose proof (casing_ok_of k K Hk Hcase) as HK. pose proof (digits_in d Hd) as Hd'.
  pose proof (spaces_in _ Hw1) as Hw1'. pose proof (spaces_in _ Hw2) as Hw2'.
  pose proof (spaces_in _ Hw3) as Hw3'. pose proof (spaces_in _ Hw4) as Hw4'.
  pose proof (quote_in _ Hq1) as Hq1'. pose proof (quote_in _ Hq2) as Hq2'.
  pose proof (quote_in _ Hq3) as Hq3'. pose proof (quote_in _ Hq4) as Hq4'.
  pose proof (all_in_impl _ _ _ quoted_in Hp) as Hp'. pose proof (all_in_impl _ _ _ quoted_in Hv) as Hv'.
  destruct (opt_u_in u Hu) as [Hu' Hul].
  assert (Hdash' : all_in [(45, 45)] dash = true) by (destruct Hdash as [-> | ->]; reflexivity).
  assert (Hdl : (length dash <= 1)%nat) by (destruct Hdash as [-> | ->]; cbn; repeat constructor).
  set (h := [q1] ++ pfx ++ K ++ d ++ [q2] ++ w1 ++ [44] ++ w2 ++ [39] ++ [45] ++ dash ++ fl ++ [39] ++ w3 ++ [44] ++ w4 ++ u ++ [q3]).
  replace (q1 :: pfx ++ K ++ d ++ q2 :: w1 ++ 44 :: w2 ++ 39 :: 45 :: dash ++ fl ++ 39 :: w3 ++ 44 :: w4 ++ u ++ q3 :: v ++ [q4])
    with (h ++ v ++ [q4]) by (unfold h; norm_app2).
  replace (q1 :: pfx ++ K ++ d ++ q2 :: w1 ++ 44 :: w2 ++ 39 :: 45 :: dash ++ fl ++ 39 :: w3 ++ 44 :: w4 ++ u ++ q3 :: mask ++ [q4])
    with (h ++ mask ++ [q4]) by (unfold h; norm_app2).
  cbv [gen_tp2_8].
  eapply (quote_delimited_sub cs_quotes)
    with (h0 := [q1] ++ pfx ++ K ++ d ++ [q2] ++ w1 ++ [44] ++ w2 ++ [39] ++ [45] ++ dash ++ fl ++ [39] ++ w3 ++ [44] ++ w4 ++ u) (q3 := q3).
  - cbn [qcount]. rewrite (qcount_keyseq _ _ Hk). vm_compute. reflexivity.
  - cbn [last_q]. rewrite last_q_keyseq by (right; exact I). vm_compute. reflexivity.
  - vmr.
  - vmr.
  - replace (h ++ v ++ [q4])
      with (q1 :: pfx ++ K ++ d ++ q2 :: w1 ++ 44 :: w2 ++ 39 :: 45 :: dash ++ fl ++ 39 :: w3 ++ 44 :: w4 ++ u ++ q3 :: v ++ [q4])
      by (unfold h; norm_app2).
    mt_go.
  - unfold h. rewrite !countq_app.
    rewrite (countq_one cs_quotes _ Hq1'), (countq_one cs_quotes _ Hq2'), (countq_one cs_quotes _ Hq3').
    rewrite (countq_none cs_quotes _ _ Hp' ltac:(vmr)), (countq_casing _ _ Hk HK), (countq_none cs_quotes _ _ Hd' ltac:(vmr)).
    rewrite (countq_none cs_quotes _ _ Hw1' ltac:(vmr)), (countq_none cs_quotes _ _ Hw2' ltac:(vmr)), (countq_none cs_quotes _ _ Hu' ltac:(vmr)).
    rewrite (countq_none cs_quotes _ _ Hw3' ltac:(vmr)), (countq_none cs_quotes _ _ Hw4' ltac:(vmr)).
    rewrite (countq_none cs_quotes _ _ Hdash' ltac:(vmr)), (countq_none cs_quotes _ _ Hfl ltac:(vmr)).
    reflexivity.
  - unfold h. norm_app2.
  - exact Hq3'.
  - exact Hv'.
  - exact Hq4'.
Qed.
End Renderings2.
