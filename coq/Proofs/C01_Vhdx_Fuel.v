(* Proofs/C01_Vhdx_Fuel.v — the `while new_regions` loop of eat_chunk (the D1 repair; [settle] with
   fuel in the model) never runs out of fuel for VHDXInspector: from ANY inspector state and for ANY
   chunk, eat_chunk does not end in the model's OtherError.  Reason: an iteration of the loop needs a
   region object that the preceding post_process created; post_process creates 'metadata' only when
   it is absent and 'vds' only when it is absent, and never deletes: at most two creations. *)
Require Import OV.Base.Bytes OV.Base.Py OV.Base.Insp_Struct OV.Gen.Insp_Consts OV.Model.Insp_Engine.
Require Import OV.Model.Insp_Vhdx.
Require Import OV.Proofs.Insp_Engine OV.Proofs.Insp_FmtOk OV.Proofs.C01_Vhdx_Step.
Open Scope N_scope.

(* regions post_process may still create *)
Definition todo (l : regions) : nat :=
  ((if rhas R_metadata l then 0 else 1) + (if rhas R_vds l then 0 else 1))%nat.

Lemma todo_le l : (todo l <= 2)%nat.
Proof. unfold todo. destruct (rhas R_metadata l), (rhas R_vds l); cbn; lia. Qed.

Lemma rhas_capture n only c pos l : rhas n (capture_regs only c pos l) = rhas n l.
Proof.
  unfold rhas. induction l as [|[k r] t IH]; [reflexivity|].
  rewrite capture_regs_map. cbn [map]. rewrite <- capture_regs_map.
  pose proof (cap1_fst only c pos (k, r)) as Hf. destruct (cap1 only c pos (k, r)) as [k' r']. cbn [fst] in Hf. subst k'.
  cbn [rget]. destruct (rname_beq k n); [reflexivity | exact IH].
Qed.

Lemma rhas_rset n m r' l : rhas n (rset m r' l) = rhas n l.
Proof.
  unfold rhas. induction l as [|[k r] t IH]; [reflexivity|]. cbn [rset].
  destruct (rname_beq k m); cbn [rget]; destruct (rname_beq k n); try reflexivity. exact IH.
Qed.

Lemma rhas_snoc n k r l : rhas n (l ++ [(k, r)]) = rhas n l || rname_beq k n.
Proof.
  unfold rhas. induction l as [|[k' r'] t IH]; cbn [app rget].
  - destruct (rname_beq k n); reflexivity.
  - destruct (rname_beq k' n); [reflexivity | exact IH].
Qed.

Lemma todo_capture only c pos l : todo (capture_regs only c pos l) = todo l.
Proof. unfold todo. rewrite !rhas_capture. reflexivity. Qed.

(* the table walks fail only with struct.error *)
Lemma rt_loop_exn k rest e : vhdx_rt_loop k rest = Exn e -> e = StructError.
Proof.
  revert rest. induction k as [|k IH]; intros rest H; cbn [vhdx_rt_loop] in H; [discriminate|].
  unfold vhdx_guid_is, unpack in H.
  destruct (flen _ =? _); cbn [bind] in H; [|inversion H; reflexivity].
  destruct (beq _ _).
  - destruct (flen _ =? _); cbn [bind] in H; [discriminate | inversion H; reflexivity].
  - apply (IH _ H).
Qed.
Lemma mt_loop_exn k g rest e : vhdx_mt_loop k g rest = Exn e -> e = StructError.
Proof.
  revert rest. induction k as [|k IH]; intros rest H; cbn [vhdx_mt_loop] in H; [discriminate|].
  unfold vhdx_guid_is, unpack in H.
  destruct (flen _ =? _); cbn [bind] in H; [|inversion H; reflexivity].
  destruct (beq _ _).
  - destruct (flen _ =? _); cbn [bind] in H; [discriminate | inversion H; reflexivity].
  - apply (IH _ H).
Qed.

(* one post_process: either no region object is new, or one of the two possible creations happened *)
Lemma post_shape (s s' : ist unit) e :
  vhdx_post s = (s', e) ->
  e <> Some OtherError /\
  (ids (i_regs s') = ids (i_regs s) \/ (todo (i_regs s') < todo (i_regs s))%nat).
Proof.
  unfold vhdx_post, get_region. intros H.
  destruct (rget R_header (i_regs s)) as [h|]; [|inversion H; subst; split; [discriminate | left; reflexivity]].
  destruct (rcomplete h && negb (has_region R_metadata s)) eqn:Hb1.
  - apply andb_true_iff in Hb1. destruct Hb1 as [_ Hnm]. apply negb_true_iff in Hnm.
    unfold vhdx_find_meta_region, get_region in H.
    destruct (rget R_header (i_regs s)) as [h'|]; cbn [bind] in H; [|inversion H; subst; split; [discriminate | left; reflexivity]].
    unfold unpack in H.
    destruct (flen _ =? _); cbn [bind] in H; [|inversion H; subst; split; [discriminate | left; reflexivity]].
    destruct (negb (_ =? VHDX_REGI)); [inversion H; subst; split; [discriminate | left; reflexivity]|].
    destruct (VHDX_RT_LIMIT <=? _); [inversion H; subst; split; [discriminate | left; reflexivity]|].
    destruct (vhdx_rt_loop _ _) as [[sp|]|ex] eqn:Hl.
    + unfold new_region in H. rewrite Hnm in H. inversion H; subst. split; [discriminate|]. right.
      cbn [i_regs]. unfold todo. rewrite !rhas_snoc. unfold has_region in Hnm. rewrite Hnm.
      rewrite rname_beq_refl. change (rname_beq R_metadata R_vds) with false. rewrite orb_false_r.
      destruct (rhas R_vds (i_regs s)); cbn; lia.
    + inversion H; subst. split; [discriminate | left; reflexivity].
    + inversion H; subst. apply rt_loop_exn in Hl. subst. split; [discriminate | left; reflexivity].
  - destruct (has_region R_metadata s && negb (has_region R_vds s)) eqn:Hb2;
      [|inversion H; subst; split; [discriminate | left; reflexivity]].
    apply andb_true_iff in Hb2. destruct Hb2 as [Hm Hnv]. apply negb_true_iff in Hnv.
    destruct (vhdx_find_meta_entry VHDX_GUID_VIRTUAL_DISK_SIZE s) as [s1 r] eqn:Hf.
    (* the state after _find_meta_entry has the same region objects and names *)
    assert (Hs1 : ids (i_regs s1) = ids (i_regs s) /\ (forall n, rhas n (i_regs s1) = rhas n (i_regs s))
                  /\ (forall ex, r = Exn ex -> ex <> OtherError)).
    { unfold vhdx_find_meta_entry, get_region in Hf.
      destruct (rget R_metadata (i_regs s)) as [m|] eqn:Hg; [|inversion Hf; subst; repeat split; intros; congruence].
      destruct (flen (r_data m) <? VHDX_MT_MIN); [inversion Hf; subst; repeat split; intros; congruence|].
      unfold unpack in Hf.
      destruct (flen _ =? _); [|inversion Hf; subst; repeat split; intros; congruence].
      destruct (negb (beq _ _)); [inversion Hf; subst; repeat split; intros; congruence|].
      destruct (flen (r_data m) <? _); [inversion Hf; subst; repeat split; intros; congruence|].
      destruct (VHDX_MT_LIMIT <=? _); [inversion Hf; subst; repeat split; intros; congruence|].
      destruct (vhdx_mt_loop _ _ _) as [[[io il]|]|ex] eqn:Hl; inversion Hf; subst.
      - split; [|split].
        + cbn [set_regs i_regs]. eapply rset_ids; [exact Hg | reflexivity].
        + intros n. cbn [set_regs i_regs]. apply rhas_rset.
        + intros; congruence.
      - repeat split; intros; congruence.
      - apply mt_loop_exn in Hl. subst. repeat split. intros ex Hx. inversion Hx. discriminate. }
    destruct Hs1 as (Hids & Hhas & Hex).
    destruct r as [[sp|]|ex].
    + unfold new_region, has_region in H. rewrite (Hhas R_vds) in H. unfold has_region in Hnv. rewrite Hnv in H.
      inversion H; subst. split; [discriminate|]. right.
      cbn [i_regs]. unfold todo. rewrite !rhas_snoc, !Hhas. rewrite Hnv. unfold has_region in Hm. rewrite Hm.
      rewrite rname_beq_refl. cbn. lia.
    + inversion H; subst. split; [discriminate | left; exact Hids].
    + inversion H; subst. split; [|left; exact Hids]. intros Hx. inversion Hx. exact (Hex ex eq_refl H1).
Qed.

(* the loop: fine as long as the fuel exceeds the number of creations still possible *)
Lemma settle_no_other c : forall fuel known (s : ist unit),
  (new_names known (i_regs s) = [] \/ (todo (i_regs s) < fuel)%nat) ->
  snd (settle fuel vhdx_fmt c known s) <> Some OtherError.
Proof.
  induction fuel as [|fuel IH]; intros known s Hc; cbn [settle].
  - destruct (new_names known (i_regs s)); [cbn; discriminate|]. destruct Hc as [Hc|Hc]; [discriminate | lia].
  - destruct (new_names known (i_regs s)) as [|n0 new] eqn:Hn; [cbn; discriminate|].
    destruct Hc as [Hc|Hc]; [discriminate|].
    unfold do_capture. destruct (i_fin s); [cbn; discriminate|].
    set (s1 := set_regs s (capture_regs (n0 :: new) c (i_pos s) (i_regs s))).
    cbn [f_post vhdx_fmt].
    destruct (vhdx_post s1) as [s2 [e|]] eqn:Hp.
    + destruct (post_shape _ _ _ Hp) as [He _]. cbn. exact He.
    + destruct (post_shape _ _ _ Hp) as [_ Hsh]. apply IH.
      destruct Hsh as [Hids|Hlt].
      * left. rewrite <- Hids. apply new_names_known.
      * right. subst s1. cbn [set_regs i_regs] in Hlt. rewrite todo_capture in Hlt. lia.
Qed.

(* OtherError excluded: for every inspector state and every chunk *)
Theorem vhdx_fuel_never_exhausted (s : ist unit) c :
  snd (eat_chunk vhdx_fmt s c) <> Some OtherError.
Proof.
  unfold eat_chunk, do_capture. cbn [set_pos i_fin i_regs i_pos].
  destruct (i_fin s); [cbn; discriminate|].
  set (s1 := set_regs (set_pos s (i_pos s + flen c)) (capture_regs [] c (i_pos s + flen c) (i_regs s))).
  cbn [f_post vhdx_fmt].
  destruct (vhdx_post s1) as [s2 [e|]] eqn:Hp.
  - destruct (post_shape _ _ _ Hp) as [He _]. cbn. exact He.
  - destruct (post_shape _ _ _ Hp) as [_ Hsh].
    pose proof (settle_no_other c eat_fuel (ids (i_regs s)) s2) as Hs.
    destruct (settle eat_fuel vhdx_fmt c (ids (i_regs s)) s2) as [s3 [e|]] eqn:Hst.
    + cbn [snd] in *. apply Hs.
      destruct Hsh as [Hids|Hlt].
      * left. subst s1. cbn [set_regs i_regs] in Hids. rewrite capture_regs_ids in Hids. rewrite <- Hids. apply new_names_known.
      * right. pose proof (todo_le (i_regs s1)). unfold eat_fuel. lia.
    + rewrite vhdx_no_callbacks. cbn. discriminate.
Qed.
