(* Proofs/C17_Pred.v — VersionPredicate: the parser on the generated predicate regex and operator map *)
From Coq Require Import String.
Require Import OV.Base.Bytes OV.Base.Py OV.Base.PyInt OV.Base.Str OV.Base.Regex.
Require Import OV.Gen.Versionutils OV.Model.C17 OV.Model.C17_Spec.
Require Import OV.Proofs.C11_Regex OV.Proofs.C04_Regex OV.Proofs.C11_Split.
Require Import OV.Proofs.C17_Regex OV.Proofs.C17_PredRe OV.Proofs.C17_Str OV.Proofs.C17.
Open Scope N_scope.

(* ---------- the parts of the generated predicate regex ---------- *)
Definition pparts : cset * list str * cset :=
  match pred_parts predicate_re with Some x => x | None => ([], [], []) end.
Definition pred_ws : cset := fst (fst pparts).
Definition pred_ops : list str := snd (fst pparts).
Definition pred_nw : cset := snd pparts.
Lemma pred_parts_gen : pred_parts predicate_re = Some (pred_ws, pred_ops, pred_nw).
Proof. vm_compute. reflexivity. Qed.
Lemma pred_ok_gen : pred_ok pred_ws pred_ops pred_nw = true.
Proof. vm_compute. reflexivity. Qed.
Definition psplit : str -> option (str * str * str * str * str) := pred_split pred_ws pred_ops pred_nw.

(* ---------- regex alternatives against the operator map ---------- *)
Definition cmpop_eqb (a b : cmpop) : bool :=
  match a, b with
  | OpLt, OpLt | OpLe, OpLe | OpEq, OpEq | OpGt, OpGt | OpGe, OpGe | OpNe, OpNe => true
  | _, _ => false
  end.
Lemma cmpop_eqb_eq a b : cmpop_eqb a b = true -> a = b.
Proof. destruct a, b; try discriminate; reflexivity. Qed.

Lemma assoc_in k v : In (k, v) comp_map -> assoc_str k comp_map = Some v.
Proof.
  assert (P : forallb (fun kv => match assoc_str (fst kv) comp_map with Some x => cmpop_eqb x (snd kv) | None => false end) comp_map = true)
    by (vm_compute; reflexivity).
  rewrite forallb_forall in P. intros H. specialize (P _ H). cbn [fst snd] in P.
  destruct (assoc_str k comp_map) as [x|]; [|discriminate]. apply cmpop_eqb_eq in P. subst. reflexivity.
Qed.

(* every alternative of the regex is a key of the operator map (no KeyError later) ... *)
Lemma ops_are_keys o : In o pred_ops -> exists op, assoc_str o comp_map = Some op.
Proof.
  assert (P : forallb (fun o => match assoc_str o comp_map with Some _ => true | None => false end) pred_ops = true)
    by (vm_compute; reflexivity).
  rewrite forallb_forall in P. intros H. specialize (P _ H). destruct (assoc_str o comp_map) as [x|]; [eauto|discriminate].
Qed.
(* ... and every key of the map is an alternative of the regex *)
Lemma keys_are_ops k v : In (k, v) comp_map -> In k pred_ops.
Proof.
  assert (P : forallb (fun kv => existsb (beq (fst kv)) pred_ops) comp_map = true) by (vm_compute; reflexivity).
  rewrite forallb_forall in P. intros H. specialize (P _ H). cbn [fst] in P.
  apply existsb_exists in P. destruct P as [o [Ho E]]. apply beq_eq in E. subst. exact Ho.
Qed.

Lemma comma_not_ws : cmem comma pred_ws = false. Proof. vm_compute. reflexivity. Qed.
Lemma eq_not_ws : cmem 61 pred_ws = false. Proof. vm_compute. reflexivity. Qed.
Lemma keys_no_comma k v : In (k, v) comp_map -> ~ In comma k.
Proof.
  assert (P : forallb (fun kv => negb (existsb (N.eqb comma) (fst kv))) comp_map = true) by (vm_compute; reflexivity).
  rewrite forallb_forall in P. intros H Hin. specialize (P _ H). cbn [fst] in P. apply negb_true_iff in P.
  assert (existsb (N.eqb comma) k = true); [|congruence]. apply existsb_exists. exists comma. split; [exact Hin|apply N.eqb_refl].
Qed.

Lemma all_in_notin cs w c : all_in cs w = true -> cmem c cs = false -> ~ In c w.
Proof. unfold all_in. rewrite forallb_forall. intros H Hc Hin. rewrite (H c Hin) in Hc. discriminate. Qed.

(* the first alternative (in the regex's order) that is a prefix of "k rest" is k itself,
   unless rest starts with '=' *)
Lemma pred_ops_val : pred_ops = [[60; 61]; [62; 61]; [60]; [62]; [33; 61]; [61; 61]].
Proof. vm_compute. reflexivity. Qed.
Lemma first_op k v rest : In (k, v) comp_map -> hd 0 rest <> 61 ->
  List.find (fun x => prefixb x (k ++ rest)) pred_ops = Some k.
Proof.
  intros H Hr. rewrite pred_ops_val. unfold comp_map in H. cbn [In] in H.
  destruct rest as [|y rest].
  - destruct H as [H|[H|[H|[H|[H|[H|[]]]]]]]; injection H as <- <-; reflexivity.
  - cbn [hd] in Hr. assert (E : (61 =? y) = false) by lia.
    destruct H as [H|[H|[H|[H|[H|[H|[]]]]]]]; injection H as <- <-; cbn [List.find prefixb app]; rewrite ?E; reflexivity.
Qed.

(* ---------- parse_predicate through the functional description ---------- *)
Lemma parse_predicate_eq part : parse_predicate part =
  match psplit part with
  | Some (a1, o, a2, ver, a3) => match assoc_str o comp_map with Some op => Some (op, ver) | None => None end
  | None => None
  end.
Proof.
  unfold parse_predicate, psplit. rewrite (re_match_pred _ _ _ _ pred_parts_gen pred_ok_gen).
  destruct (pred_split pred_ws pred_ops pred_nw part) as [[[[[a1 o] a2] ver] a3]|] eqn:E; [|reflexivity].
  destruct (pred_split_sound _ _ _ _ _ _ _ _ _ E) as (-> & _).
  cbn [option_map pred_groups]. unfold group_text. cbn [gget Nat.eqb].
  replace (blen a1 + blen o) with (blen (a1 ++ o)) by apply blen_app.
  rewrite (slice_mid a1 o (a2 ++ ver ++ a3)).
  replace (a1 ++ o ++ a2 ++ ver ++ a3) with ((a1 ++ o ++ a2) ++ ver ++ a3) by (rewrite <- !app_assoc; reflexivity).
  replace (blen (a1 ++ o) + blen a2) with (blen (a1 ++ o ++ a2)) by (rewrite !blen_app; lia).
  replace (blen (a1 ++ o ++ a2) + blen ver) with (blen ((a1 ++ o ++ a2) ++ ver)) by (rewrite !blen_app; lia).
  rewrite (slice_mid (a1 ++ o ++ a2) ver a3). reflexivity.
Qed.

Lemma parse_predicate_none part : parse_predicate part = None <-> psplit part = None.
Proof.
  rewrite parse_predicate_eq. destruct (psplit part) as [[[[[a1 o] a2] ver] a3]|] eqn:E; [|tauto].
  destruct (pred_split_sound _ _ _ _ _ _ _ _ _ E) as (_ & Ho & _).
  destruct (ops_are_keys o Ho) as [op ->]. split; discriminate.
Qed.

(* ---------- well-formed comparisons ---------- *)
Definition wf_cmp (c : cmp_text) (op : cmpop) : Prop :=
  In (c_op c, op) comp_map /\
  all_in pred_ws (c_lead c) = true /\ all_in pred_ws (c_mid c) = true /\ all_in pred_ws (c_trail c) = true /\
  c_ver c <> [] /\ all_in pred_nw (c_ver c) = true /\ ~ In comma (c_ver c) /\
  (c_mid c <> [] \/ hd 0 (c_ver c) <> 61).

Lemma parse_predicate_wf c op : wf_cmp c op -> parse_predicate (render_cmp c) = Some (op, c_ver c).
Proof.
  intros (Hk & A1 & A2 & A3 & Nv & Av & _ & Hd). rewrite parse_predicate_eq. unfold psplit, render_cmp.
  rewrite (pred_split_complete _ _ _ pred_ok_gen); auto.
  - rewrite (assoc_in _ _ Hk). reflexivity.
  - apply (first_op _ op); [exact Hk|]. destruct (c_mid c) as [|x m] eqn:Em.
    + cbn [app]. destruct Hd as [Hd|Hd]; [congruence|]. destruct (c_ver c); [congruence|exact Hd].
    + cbn [app hd]. cbn [all_in forallb] in A2. apply andb_true_iff in A2. destruct A2 as [A2 _].
      intros ->. rewrite eq_not_ws in A2. discriminate.
Qed.

Lemma render_no_comma c op : wf_cmp c op -> ~ In comma (render_cmp c).
Proof.
  intros (Hk & A1 & A2 & A3 & Nv & Av & Hc & _) H. unfold render_cmp in H.
  apply in_app_or in H; destruct H as [H|H]; [exact (all_in_notin _ _ _ A1 comma_not_ws H)|].
  apply in_app_or in H; destruct H as [H|H]; [exact (keys_no_comma _ _ Hk H)|].
  apply in_app_or in H; destruct H as [H|H]; [exact (all_in_notin _ _ _ A2 comma_not_ws H)|].
  apply in_app_or in H; destruct H as [H|H]; [exact (Hc H)|exact (all_in_notin _ _ _ A3 comma_not_ws H)].
Qed.

(* the PARSER: a comma-joined list of well-formed comparisons is parsed into exactly the
   list of (operator, version text) pairs, in order *)
Theorem parse_predicates_wf cs ops : cs <> [] -> Forall2 wf_cmp cs ops ->
  parse_predicates (join [comma] (map render_cmp cs)) = Some (combine ops (map c_ver cs)).
Proof.
  intros Hne HF. unfold parse_predicates. change 44 with comma. rewrite split_join.
  - clear Hne. induction HF as [|c op cs ops Hc _ IH]; [reflexivity|].
    cbn [map map_opt combine]. rewrite (parse_predicate_wf c op Hc), IH. reflexivity.
  - destruct cs; [congruence|discriminate].
  - clear Hne. induction HF as [|c op cs ops Hc _ IH]; [constructor|]. cbn [map]. constructor; [|exact IH].
    eapply render_no_comma. exact Hc.
Qed.

(* ---------- malformed predicates ---------- *)
Lemma parse_predicates_none s :
  parse_predicates s = None <-> exists part, In part (split_char comma s) /\ psplit part = None.
Proof.
  unfold parse_predicates. change 44 with comma. rewrite map_opt_none. split; intros [part [Hin H]]; exists part; (split; [exact Hin|]).
  - apply parse_predicate_none. exact H.
  - apply parse_predicate_none. exact H.
Qed.

(* a part is accepted by the regex exactly when it reads  blanks op blanks version blanks *)
Theorem part_accepted part :
  psplit part <> None <->
  exists a1 o a2 ver a3, part = a1 ++ o ++ a2 ++ ver ++ a3 /\ In o pred_ops /\
    all_in pred_ws a1 = true /\ all_in pred_ws a2 = true /\ all_in pred_nw ver = true /\ ver <> [] /\ all_in pred_ws a3 = true.
Proof. apply (pred_split_accepts _ _ _ pred_ok_gen). Qed.

(* empty or blank part: '', ' ', and the parts produced by ",," or a leading/trailing comma *)
Theorem reject_blank part : all_in pred_ws part = true -> psplit part = None.
Proof.
  intros A. apply reject_no_operator. intros o Ho.
  rewrite <- (app_nil_r part). rewrite (span_cs_app pred_ws part [] A eq_refl). cbn [snd].
  destruct (ok_op _ _ _ pred_ok_gen o Ho) as [c [t [-> _]]]. reflexivity.
Qed.

Theorem reject_no_op part :
  (forall o, In o pred_ops -> prefixb o (snd (span_cs pred_ws part)) = false) -> psplit part = None.
Proof. apply reject_no_operator. Qed.

Theorem reject_empty_ver a1 o a2 :
  all_in pred_ws a1 = true -> In o pred_ops -> all_in pred_ws a2 = true ->
  (forall x, In x pred_ops -> prefixb x (o ++ a2) = true -> x = o) ->
  psplit (a1 ++ o ++ a2) = None.
Proof. apply (reject_empty_version _ _ _ pred_ok_gen). Qed.

Theorem reject_inner_blank a1 o a2 v1 w v2 a3 :
  all_in pred_ws a1 = true -> In o pred_ops -> v1 <> [] -> all_in pred_nw v1 = true ->
  w <> [] -> all_in pred_ws w = true -> v2 <> [] -> all_in pred_nw v2 = true ->
  (forall x, In x pred_ops -> prefixb x (o ++ a2 ++ v1 ++ w ++ v2 ++ a3) = true -> (length x < length (o ++ a2 ++ v1))%nat) ->
  psplit (a1 ++ o ++ a2 ++ v1 ++ w ++ v2 ++ a3) = None.
Proof. apply (reject_inner_space _ _ _ pred_ok_gen). Qed.

(* ---------- __init__ and satisfied_by over the version contract ---------- *)
Section Init.
  Variable V : Type.
  Variable vparse : str -> option V.
  Variable vle veq : V -> V -> bool.

  Theorem init_malformed s part : In part (split_char comma s) -> psplit part = None ->
    predicate_init V vparse s = Exn ValueError.
  Proof.
    intros Hin Hp. unfold predicate_init.
    assert (parse_predicates s = None) as -> by (apply parse_predicates_none; exists part; auto). reflexivity.
  Qed.

  (* ValueError, or a list: nothing else *)
  Theorem init_total s : (exists l, predicate_init V vparse s = Ok l) \/ predicate_init V vparse s = Exn ValueError.
  Proof.
    unfold predicate_init. destruct (parse_predicates s) as [l|]; [|right; reflexivity].
    destruct (map_opt (parse_version_of V vparse) l) as [l'|]; [left; eauto|right; reflexivity].
  Qed.

  Theorem init_wf cs ops vs : cs <> [] -> Forall2 wf_cmp cs ops ->
    Forall2 (fun c v => vparse (c_ver c) = Some v) cs vs ->
    predicate_init V vparse (join [comma] (map render_cmp cs)) = Ok (combine ops vs).
  Proof.
    intros Hne HF HV. unfold predicate_init. rewrite (parse_predicates_wf cs ops Hne HF).
    assert (E : map_opt (parse_version_of V vparse) (combine ops (map c_ver cs)) = Some (combine ops vs)).
    { clear Hne. revert vs HV. induction HF as [|c op cs ops Hc _ IH]; intros vs HV; inversion HV as [|? v ? vs' Hv HV']; subst; [reflexivity|].
      cbn [map combine map_opt]. unfold parse_version_of at 1. cbn [fst snd]. rewrite Hv, (IH vs' HV'). reflexivity. }
    rewrite E. reflexivity.
  Qed.

  Theorem init_bad_version cs ops c : cs <> [] -> Forall2 wf_cmp cs ops -> In c cs -> vparse (c_ver c) = None ->
    predicate_init V vparse (join [comma] (map render_cmp cs)) = Exn ValueError.
  Proof.
    intros Hne HF Hin Hv. unfold predicate_init. rewrite (parse_predicates_wf cs ops Hne HF).
    assert (E : map_opt (parse_version_of V vparse) (combine ops (map c_ver cs)) = None).
    { apply map_opt_none. clear Hne. induction HF as [|c' op cs ops Hc _ IH]; [destruct Hin|].
      cbn [map combine]. destruct Hin as [->|Hin].
      - exists (op, c_ver c). split; [left; reflexivity|]. unfold parse_version_of. cbn [snd]. rewrite Hv. reflexivity.
      - destruct (IH Hin) as [x [Hx Hn]]. exists x. split; [right; exact Hx|exact Hn]. }
    rewrite E. reflexivity.
  Qed.

  Theorem satisfied_by_str_spec preds vs :
    (vparse vs = None -> predicate_satisfied_by V vparse vle veq preds vs = Exn ValueError) /\
    (forall v, vparse vs = Some v ->
       exists b, predicate_satisfied_by V vparse vle veq preds vs = Ok b /\
                 (b = true <-> forall p, In p preds -> cmp_holds V vle veq (fst p) v (snd p) = true)).
  Proof.
    unfold predicate_satisfied_by. split; [intros ->; reflexivity|]. intros v ->. eexists. split; [reflexivity|].
    apply satisfied_by_spec.
  Qed.
End Init.

(* non-vacuity, and what the regex really does on the edge cases *)
Example parse_examples :
  parse_predicates (lit " >= 1.0 , < 2") = Some [(OpGe, lit "1.0"); (OpLt, lit "2")] /\
  parse_predicates (lit "<=1") = Some [(OpLe, lit "1")] /\          (* not ('<', '=1') *)
  parse_predicates (lit ">=") = Some [(OpGt, lit "=")] /\           (* "empty version" after >= is read as '>' '=' *)
  parse_predicates (lit "==") = None /\ parse_predicates (lit "") = None /\
  parse_predicates (lit ">=1,") = None /\ parse_predicates (lit ">=1 0") = None /\
  parse_predicates (lit "~=1") = None /\ parse_predicates (10 :: lit ">=1" ++ [10]) = Some [(OpGe, lit "1")].
Proof. vm_compute. repeat split. Qed.

(* is_compatible on strings *)
Section CompatStr.
  Variable V : Type.
  Variable vparse : str -> option V.
  Variable vle : V -> V -> bool.
  Variable major : V -> Z.
  Theorem is_compatible_str_spec req cur sm :
    ((vparse req = None \/ vparse cur = None) -> is_compatible_str V vparse vle major req cur sm = Exn ValueError) /\
    (forall r c, vparse req = Some r -> vparse cur = Some c ->
       exists b, is_compatible_str V vparse vle major req cur sm = Ok b /\
                 (b = true <-> (vle r c = true /\ (sm = true -> major r = major c)))).
  Proof.
    unfold is_compatible_str. split.
    - intros [->| ->]; [reflexivity|]. destruct (vparse req); reflexivity.
    - intros r c -> ->. eexists. split; [reflexivity|]. apply is_compatible_spec.
  Qed.
End CompatStr.

(* instances of the hypotheses (non-vacuity) *)
Example wf_example :
  Forall2 wf_cmp [ {| c_lead := lit " "; c_op := lit ">="; c_mid := lit " "; c_ver := lit "1.0"; c_trail := [] |};
                   {| c_lead := []; c_op := lit "<"; c_mid := []; c_ver := lit "2"; c_trail := [10] |} ] [OpGe; OpLt].
Proof.
  constructor; [|constructor; [|constructor]]; unfold wf_cmp; cbn [c_lead c_op c_mid c_ver c_trail].
  - repeat split; try (vm_compute; reflexivity); try discriminate.
    + unfold comp_map. cbn. auto 10.
    + vm_compute. intuition discriminate.
    + left. discriminate.
  - repeat split; try (vm_compute; reflexivity); try discriminate.
    + unfold comp_map. cbn. auto 10.
    + vm_compute. intuition discriminate.
    + right. vm_compute. discriminate.
Qed.

Example reject_empty_ver_instance : psplit (lit " == ") = None.
Proof.
  apply (reject_empty_ver (lit " ") (lit "==") (lit " ")); try (vm_compute; reflexivity).
  - rewrite pred_ops_val. cbn. auto 10.
  - intros x Hx. rewrite pred_ops_val in Hx. cbn [In] in Hx.
    destruct Hx as [<-|[<-|[<-|[<-|[<-|[<-|[]]]]]]]; vm_compute; intros; congruence.
Qed.

Example reject_inner_blank_instance : psplit (lit ">=1 0") = None.
Proof.
  apply (reject_inner_blank [] (lit ">=") [] (lit "1") (lit " ") (lit "0") []); try (vm_compute; reflexivity); try discriminate.
  - rewrite pred_ops_val. cbn. auto 10.
  - intros x Hx. rewrite pred_ops_val in Hx. cbn [In] in Hx.
    destruct Hx as [<-|[<-|[<-|[<-|[<-|[<-|[]]]]]]]; vm_compute; intros; try discriminate; lia.
Qed.
