(* Proofs/C01_Vmdk_Run.v — VMDK refinement: for every byte string outside the two known-finding zones and
   every chunk list, the verdict of the streaming inspector is vmdk_spec of the concatenated bytes. *)
Require Import OV.Base.Bytes OV.Base.Py OV.Base.PyInt OV.Base.Str OV.Base.Insp_Struct OV.Gen.Insp_Consts.
Require Import OV.Model.Insp_Engine OV.Model.Insp_Vmdk OV.Model.Insp_All OV.Model.C01_Vmdk.
Require Import OV.Proofs.Insp_Engine OV.Proofs.Insp_All OV.Proofs.C01_Vmdk_Base OV.Proofs.C01_Vmdk_Step.
Open Scope N_scope.

(* ---------------------------------------------------------------- run = eat_all; finish *)
Definition vrun (s : ist vx) (cs : list bytes) : istate * option exn :=
  let '(s', e) := eat_all vmdk_fmt s cs in (I_vmdk (Insp_Engine.finish s'), e).

Lemma run_vmdk cs : run F_vmdk cs = vrun (init_ist vmdk_fmt) cs.
Proof.
  unfold run, vrun. cbn [init].
  assert (G : forall cs s, eat_list (I_vmdk s) cs = (let '(s', e) := eat_all vmdk_fmt s cs in (I_vmdk s', e))).
  { clear. induction cs as [|c t IH]; intros s; cbn [eat_list eat_all]; [reflexivity|].
    cbn [eat]. destruct (eat_chunk vmdk_fmt s c) as [s' [e|]]; [reflexivity|]. apply IH. }
  rewrite G. destruct (eat_all vmdk_fmt (init_ist vmdk_fmt) cs) as [s' e']. reflexivity.
Qed.

Lemma vrun_cons_exn s c t s' e : eat_chunk vmdk_fmt s c = (s', Some e) -> vrun s (c :: t) = (I_vmdk (Insp_Engine.finish s'), Some e).
Proof. intros H. unfold vrun. cbn [eat_all]. rewrite H. reflexivity. Qed.
Lemma vrun_cons_ok s c t s' : eat_chunk vmdk_fmt s c = (s', None) -> vrun s (c :: t) = vrun s' t.
Proof. intros H. unfold vrun. cbn [eat_all]. rewrite H. reflexivity. Qed.

(* ---------------------------------------------------------------- queries when no createType was found *)
Lemma mem_notfound : mem_str VMDK_NOTFOUND VMDK_SUBFORMATS = false.
Proof. reflexivity. Qed.

Lemma vsize_early (s : ist vx) : early (i_ext s) -> vmdk_vsize s = Ok 0%Z.
Proof.
  unfold early, vmdk_vsize. intros H. destruct (desc_text_truthy (i_ext s)); [|reflexivity]. cbn [negb].
  rewrite H, mem_notfound. reflexivity.
Qed.

Lemma check_desc_eq (s : ist vx) : vmdk_check_descriptor s = check_descriptor_of (v_desc_text (i_ext s)) (v_vmdktype (i_ext s)).
Proof. reflexivity. Qed.

Lemma check_desc_early t ty : ty = VMDK_NOTFOUND -> check_descriptor_of t ty = violation.
Proof. intros ->. unfold check_descriptor_of. rewrite mem_notfound. destruct t as [[|? ?]|]; reflexivity. Qed.

(* ---------------------------------------------------------------- final verdicts *)
Definition vverdict (s : ist vx) (e : option exn) : verdict := verdict_of (I_vmdk (Insp_Engine.finish s), e).

Lemma vverdict_eq s e :
  vverdict s e = mkVerdict e (vmdk_match (Insp_Engine.finish s)) (Insp_Engine.complete (Insp_Engine.finish s))
                           (vmdk_vsize (Insp_Engine.finish s)) (safety_check vmdk_fmt (Insp_Engine.finish s)).
Proof. reflexivity. Qed.

(* fewer than 64 bytes in total *)
Lemma final_S0 st d x : blen st < 64 -> early x ->
  vverdict (S0 st d x) None = mkVerdict None (Ok (prefixb VMDK_MAGIC st)) false (Ok 0%Z) Refused.
Proof.
  intros Hst Hx. rewrite vverdict_eq.
  assert (Hc : Insp_Engine.complete (Insp_Engine.finish (S0 st d x)) = false).
  { unfold Insp_Engine.complete, Insp_Engine.finish, S0. cbn [i_regs map fst snd forallb hreg r_end].
    fold (hreg st). rewrite rcomplete_hreg. replace (64 <=? blen st) with false by lia. reflexivity. }
  rewrite Hc. rewrite vsize_early by exact Hx. unfold safety_check. rewrite Hc. reflexivity.
Qed.

(* ImageFormatError on signature / version: header and the offset-0 descriptor region are complete *)
Lemma final_T0 st h d x : 64 <= blen h -> 4 <= blen d -> early x ->
  vverdict (T0 st h d x) (Some ImageFormatError) =
  mkVerdict (Some ImageFormatError) (Ok (prefixb VMDK_MAGIC h)) true (Ok 0%Z)
            (spec_safety true (prefixb VMDK_MAGIC h) [(K_descriptor, violation)]).
Proof.
  intros Hl Hd Hx. rewrite vverdict_eq.
  assert (Hc : Insp_Engine.complete (Insp_Engine.finish (T0 st h d x)) = true).
  { unfold Insp_Engine.complete, Insp_Engine.finish, T0. cbn [i_regs map fst snd forallb hreg d0reg r_end].
    fold (hreg h). fold (d0reg d). rewrite rcomplete_hreg, rcomplete_d0reg.
    replace (64 <=? blen h) with true by lia. replace (4 <=? blen d) with true by lia. reflexivity. }
  rewrite Hc. rewrite vsize_early by exact Hx. unfold safety_check, spec_safety. rewrite Hc. cbn [negb].
  change (f_match vmdk_fmt (Insp_Engine.finish (T0 st h d x))) with (Ok (A := bool) (prefixb VMDK_MAGIC h)).
  change (vmdk_match (Insp_Engine.finish (T0 st h d x))) with (Ok (A := bool) (prefixb VMDK_MAGIC h)).
  destruct (prefixb VMDK_MAGIC h); [|reflexivity]. cbn [negb].
  cbn [Insp_Engine.finish T0 i_checks filter f_check vmdk_fmt vmdk_check snd].
  rewrite check_desc_eq, check_desc_early by exact Hx. reflexivity.
Qed.

(* "Wrong descriptor location" after the footer region was created: it stays empty *)
Lemma final_T0f st h d x : early x ->
  vverdict (T0f st h d x) (Some ImageFormatError) =
  mkVerdict (Some ImageFormatError) (Ok (prefixb VMDK_MAGIC h)) false (Ok 0%Z) Refused.
Proof.
  intros Hx. rewrite vverdict_eq.
  assert (Hc : Insp_Engine.complete (Insp_Engine.finish (T0f st h d x)) = false).
  { unfold Insp_Engine.complete, Insp_Engine.finish, T0f. cbn [i_regs map fst snd forallb hreg d0reg freg r_end].
    unfold rcomplete at 3. cbn [set_fin r_end base_complete r_min r_len r_data flen flen_acc N.eqb andb]. rewrite !andb_false_r. reflexivity. }
  rewrite Hc. rewrite vsize_early by exact Hx. unfold safety_check. rewrite Hc. reflexivity.
Qed.

(* valid sparse header: the verdict from the parts of the final state *)
Definition vsize_of (x : vx) (h : bytes) : res Z :=
  if negb (desc_text_truthy x) then Ok 0%Z else
  if negb (mem_str (v_vmdktype x) VMDK_SUBFORMATS) then Ok 0%Z else
  do b <- unpack sf_vmdk_vs (ntake VMDK_VS_SLICE h);
  Ok (Z.of_N (sint sf_vmdk_vs 3 b * VMDK_VS_SECTOR)).

Lemma check_footer_eq (s : ist vx) h f :
  rget R_header (i_regs s) = Some h -> rget R_footer (i_regs s) = Some f -> 64 <= blen (r_data h) ->
  vmdk_check_footer s = check_footer_of (btake 64 (r_data h)) (r_data f).
Proof.
  intros Hh Hf Hl. unfold vmdk_check_footer, check_footer_of.
  rewrite (parse_sparse_at s R_header h 0 Hh). unfold bslice at 1. rewrite bskip_0.
  unfold vmdk_parse_sparse at 1, get_region. rewrite Hf. cbn [bind]. fold (parse64 (nsub VMDK_FT_HDR_OFF (VMDK_FT_HDR_OFF + VMDK_MIN_SPARSE_HEADER) (r_data f))).
  reflexivity.
Qed.

Lemma final_S1 foot dsz st h dd x :
  64 <= blen h ->
  vverdict (S1 foot dsz st h dd x) None =
  let fm := prefixb VMDK_MAGIC h in
  let dc := dsz =? blen dd in
  let fc := match foot with Some (_, fd) => 1536 =? blen fd | None => true end in
  let cdesc := (K_descriptor, check_descriptor_of (v_desc_text x) (v_vmdktype x)) in
  mkVerdict None (Ok fm) (fc && dc) (vsize_of x h)
            (spec_safety (fc && dc) fm
               (cdesc :: match foot with Some (_, fd) => [(K_footer, check_footer_of (btake 64 h) fd)] | None => [] end)).
Proof.
  intros Hl. rewrite vverdict_eq. cbv zeta.
  destruct foot as [[off fd]|].
  - set (s' := Insp_Engine.finish (S1 (Some (off, fd)) dsz st h dd x)).
    assert (Hs' : s' = mkIst (blen st) [(R_header, hreg h); (R_footer, set_fin (freg off fd) true); (R_descriptor, dreg 3 dsz dd)] 4 true [K_descriptor; K_footer] x) by reflexivity.
    assert (Hc : Insp_Engine.complete s' = (1536 =? blen fd) && (dsz =? blen dd)).
    { rewrite Hs'. unfold Insp_Engine.complete. cbn [i_regs forallb snd]. rewrite rcomplete_hreg, rcomplete_dreg.
      replace (64 <=? blen h) with true by lia. cbn [andb]. rewrite andb_true_r. f_equal.
      unfold rcomplete, base_complete, freg, set_fin. cbn [r_end r_min r_len r_data r_fin]. rewrite flen_blen, andb_true_r. reflexivity. }
    rewrite Hc.
    assert (Hm : vmdk_match s' = Ok (prefixb VMDK_MAGIC h)) by (rewrite Hs'; reflexivity).
    assert (Hv : vmdk_vsize s' = vsize_of x h) by (rewrite Hs'; reflexivity).
    rewrite Hm, Hv. f_equal.
    unfold safety_check, spec_safety. rewrite Hc. destruct ((1536 =? blen fd) && (dsz =? blen dd)); [|reflexivity]. cbn [negb].
    cbn [f_match vmdk_fmt]. rewrite Hm. destruct (prefixb VMDK_MAGIC h); [|reflexivity]. cbn [negb].
    assert (Hk : i_checks s' = [K_descriptor; K_footer]) by (rewrite Hs'; reflexivity). rewrite Hk.
    cbn [filter f_check vmdk_fmt vmdk_check snd].
    rewrite check_desc_eq.
    rewrite (check_footer_eq s' (hreg h) (set_fin (freg off fd) true)); [| rewrite Hs'; reflexivity | rewrite Hs'; reflexivity | exact Hl].
    assert (Hx : i_ext s' = x) by (rewrite Hs'; reflexivity). rewrite Hx.
    cbn [hreg freg set_fin r_data].
    destruct (is_exn (check_descriptor_of (v_desc_text x) (v_vmdktype x))), (is_exn (check_footer_of (btake 64 h) fd)); reflexivity.
  - set (s' := Insp_Engine.finish (S1 None dsz st h dd x)).
    assert (Hs' : s' = mkIst (blen st) [(R_header, hreg h); (R_descriptor, dreg 2 dsz dd)] 3 true [K_descriptor] x) by reflexivity.
    assert (Hc : Insp_Engine.complete s' = true && (dsz =? blen dd)).
    { rewrite Hs'. unfold Insp_Engine.complete. cbn [i_regs forallb snd]. rewrite rcomplete_hreg, rcomplete_dreg.
      replace (64 <=? blen h) with true by lia. cbn [andb]. rewrite andb_true_r. reflexivity. }
    rewrite Hc.
    assert (Hm : vmdk_match s' = Ok (prefixb VMDK_MAGIC h)) by (rewrite Hs'; reflexivity).
    assert (Hv : vmdk_vsize s' = vsize_of x h) by (rewrite Hs'; reflexivity).
    rewrite Hm, Hv. f_equal.
    unfold safety_check, spec_safety. rewrite Hc. destruct (true && (dsz =? blen dd)); [|reflexivity]. cbn [negb].
    cbn [f_match vmdk_fmt]. rewrite Hm. destruct (prefixb VMDK_MAGIC h); [|reflexivity]. cbn [negb].
    assert (Hk : i_checks s' = [K_descriptor]) by (rewrite Hs'; reflexivity). rewrite Hk.
    cbn [filter f_check vmdk_fmt vmdk_check snd].
    rewrite check_desc_eq.
    assert (Hx : i_ext s' = x) by (rewrite Hs'; reflexivity). rewrite Hx.
    destruct (is_exn (check_descriptor_of (v_desc_text x) (v_vmdktype x))); reflexivity.
Qed.

(* ---------------------------------------------------------------- phase 1 over a chunk list *)
(* the footer region has been fed every byte from a position below 64 on *)
Definition foot_inv (st : bytes) (foot : option (N * bytes)) : Prop :=
  match foot with
  | Some (_, fd) => exists pre A, st = pre ++ A /\ blen pre < 64 /\ fd = btail 1536 A
  | None => True
  end.
(* the attributes: parsed from the complete descriptor, "nothing found" before *)
Definition ext_inv (dsz : N) (dd : bytes) (x : vx) : Prop :=
  if dsz =? blen dd then exists xe, early xe /\ x = parse_ext dd xe else early x.

Lemma bslice_complete_ext off len st c : blen (bslice off len st) = len -> bslice off len (st ++ c) = bslice off len st.
Proof.
  intros H. pose proof (slice_ext (bslice off len st) off st c) as G. rewrite H in G. symmetry. apply G. reflexivity.
Qed.

Lemma ext_inv_next dsz st c x :
  ext_inv dsz (bslice 512 dsz st) x ->
  ext_inv dsz (bslice 512 dsz (st ++ c)) (x1_next dsz (bslice 512 dsz st) (bslice 512 dsz (st ++ c)) x).
Proof.
  unfold ext_inv, x1_next. destruct (dsz =? blen (bslice 512 dsz st)) eqn:Hd; cbn [negb andb].
  - apply N.eqb_eq in Hd. rewrite (bslice_complete_ext 512 dsz st c (eq_sym Hd)).
    rewrite <- Hd at 1. rewrite N.eqb_refl. tauto.
  - intros Hx. destruct (dsz =? blen (bslice 512 dsz (st ++ c))); [|exact Hx]. exists x. split; [exact Hx | reflexivity].
Qed.

Lemma foot_inv_next st c foot : foot_inv st foot -> foot_inv (st ++ c) (foot_next foot st c).
Proof.
  destruct foot as [[off fd]|]; cbn [foot_inv foot_next]; [|tauto].
  intros (pre & A & -> & Hp & ->). exists pre, (A ++ c). split; [rewrite app_assoc; reflexivity|]. split; [exact Hp|].
  apply btail_app.
Qed.

Lemma eat_all_S1 h dsz :
  64 <= blen h -> let u := btake 64 h in
  hdr_sig_ok u = true -> hdr_ver_ok u = true -> hdr_loc_ok u = true ->
  forall cs foot st x,
  hdr_foot u = has_foot foot -> foot_inv st foot -> ext_inv dsz (bslice 512 dsz st) x ->
  exists foot' x',
    eat_all vmdk_fmt (S1 foot dsz st h (bslice 512 dsz st) x) cs
    = (S1 foot' dsz (st ++ concat cs) h (bslice 512 dsz (st ++ concat cs)) x', None)
    /\ has_foot foot' = has_foot foot /\ foot_inv (st ++ concat cs) foot'
    /\ ext_inv dsz (bslice 512 dsz (st ++ concat cs)) x'.
Proof.
  intros Hl u Hs Hv Ho. induction cs as [|c t IH]; intros foot st x Hf Hfi Hxi.
  - exists foot, x. cbn [eat_all concat]. rewrite app_nil_r. auto.
  - cbn [eat_all concat]. rewrite (step1 foot dsz st h x c Hl Hs Hv Ho Hf).
    assert (Hf' : has_foot (foot_next foot st c) = has_foot foot) by (destruct foot as [[? ?]|]; reflexivity).
    destruct (IH (foot_next foot st c) (st ++ c) _ (eq_trans Hf (eq_sym Hf')) (foot_inv_next st c foot Hfi) (ext_inv_next dsz st c x Hxi))
      as (foot' & x' & He & H1 & H2 & H3).
    exists foot', x'. rewrite He. rewrite <- !app_assoc in *. split; [reflexivity|]. split; [congruence|]. split; assumption.
Qed.

(* ---------------------------------------------------------------- header fields of b and the zones *)
Lemma vh_prefix b : is_prefix (vh b) b.
Proof. apply is_prefix_btake. Qed.
Lemma blen_vh b : 64 <= blen b -> blen (vh b) = 64.
Proof. intros H. unfold vh. rewrite blen_btake. unfold VMDK_MIN_SPARSE_HEADER. lia. Qed.

Lemma sig_vh b : sraw sf_vmdk_sparse 0 (vh b) = btake 4 b.
Proof.
  unfold sraw. cbn [sf_vmdk_sparse sf_fields nth]. unfold bslice, vh. rewrite bskip_0, btake_btake. reflexivity.
Qed.
Lemma int_vh b i off len :
  nth i (sf_fields sf_vmdk_sparse) (0, 0) = (off, len) -> off + len <= 64 -> 64 <= blen b ->
  sint sf_vmdk_sparse i (vh b) = le_val (bslice off len b).
Proof.
  intros Hn Hb Hl. unfold sint, sraw. rewrite Hn. cbn [sf_vmdk_sparse sf_big].
  rewrite (bslice_prefix off len (vh b) b (vh_prefix b)); [reflexivity|]. rewrite blen_vh by exact Hl. exact Hb.
Qed.

Lemma valid_vh b : 64 <= blen b -> valid_magic_ver b = hdr_sig_ok (vh b) && hdr_ver_ok (vh b).
Proof.
  intros Hl. unfold valid_magic_ver, hdr_sig_ok, hdr_ver_ok. rewrite sig_vh.
  rewrite (int_vh b 1 4 4 eq_refl ltac:(lia) Hl). reflexivity.
Qed.

Lemma zone_noct b : zone_vmdk_text b = false -> noct b.
Proof.
  unfold zone_vmdk_text. destruct (valid_magic_ver b) eqn:Hv; [intros _; apply valid_noct; exact Hv|].
  cbn [negb andb]. intros H. apply orb_false_iff in H. exact (proj1 H).
Qed.

Lemma zone_not_text b :
  zone_vmdk_text b = false -> 64 <= blen b -> hdr_sig_ok (vh b) = false -> forallb ascii_text (vh b) = false.
Proof.
  intros Hz Hl Hs. unfold zone_vmdk_text in Hz. rewrite (valid_vh b Hl), Hs in Hz. cbn [andb negb] in Hz.
  apply orb_false_iff in Hz. destruct Hz as [_ Hz].
  unfold hdr_sig_ok in Hs. rewrite sig_vh in Hs. rewrite Hs in Hz. cbn [negb] in Hz. rewrite andb_true_r in Hz.
  replace (VMDK_MIN_SPARSE_HEADER <=? blen b) with true in Hz by (unfold VMDK_MIN_SPARSE_HEADER; lia).
  exact Hz.
Qed.

Lemma zone_foot_len b :
  zone_vmdk_shortfoot b = false -> 64 <= blen b ->
  hdr_sig_ok (vh b) = true -> hdr_ver_ok (vh b) = true -> hdr_foot (vh b) = true -> 1599 <= blen b.
Proof.
  intros Hz Hl Hs Hv Hf. unfold zone_vmdk_shortfoot in Hz. rewrite (valid_vh b Hl), Hs, Hv in Hz. cbn [andb] in Hz.
  unfold hdr_foot in Hf. rewrite (int_vh b 9 56 8 eq_refl ltac:(lia) Hl) in Hf. rewrite Hf in Hz. cbn [andb] in Hz.
  unfold VMDK_FOOTER_LEN in Hz. lia.
Qed.

(* ---------------------------------------------------------------- the final state of a valid image against the spec *)
Lemma ext_inv_cases dsz dd x :
  ext_inv dsz dd x ->
  match (if blen dd =? dsz then parse_desc dd else None) with
  | Some (t, ty) => x = mkVx (Some t) ty
  | None => early x
  end.
Proof.
  unfold ext_inv. rewrite (N.eqb_sym (blen dd) dsz). destruct (dsz =? blen dd); [|tauto].
  intros (xe & He & ->). unfold parse_ext. destruct (parse_desc dd) as [[t ty]|]; [reflexivity | exact He].
Qed.

Lemma vsize_of_early x h : early x -> vsize_of x h = Ok 0%Z.
Proof.
  unfold early, vsize_of. intros H. destruct (desc_text_truthy x); [|reflexivity]. cbn [negb]. rewrite H, mem_notfound. reflexivity.
Qed.

Lemma final_valid b h foot x :
  64 <= blen b -> is_prefix h b -> 64 <= blen h ->
  hdr_sig_ok (vh b) = true -> hdr_ver_ok (vh b) = true -> hdr_loc_ok (vh b) = true ->
  hdr_foot (vh b) = has_foot foot -> foot_inv b foot -> (hdr_foot (vh b) = true -> 1599 <= blen b) ->
  ext_inv (hdr_dsz (vh b)) (bslice 512 (hdr_dsz (vh b)) b) x ->
  vverdict (S1 foot (hdr_dsz (vh b)) b h (bslice 512 (hdr_dsz (vh b)) b) x) None = vmdk_spec b.
Proof.
  intros Hb Hp Hl Hs Hv Ho Hf Hfi Hlen Hxi. rewrite (final_S1 _ _ _ _ _ _ Hl). cbv zeta.
  unfold vmdk_spec.
  replace (blen b <? VMDK_MIN_SPARSE_HEADER) with false by (unfold VMDK_MIN_SPARSE_HEADER; lia).
  change (beq (vh_sig b) VMDK_MAGIC_PP) with (hdr_sig_ok (vh b)). change (ver_ok (vh_ver b)) with (hdr_ver_ok (vh b)).
  change (vh_desc_sec b * VMDK_SECTOR_A =? VMDK_DESC_OFFSET) with (hdr_loc_ok (vh b)).
  rewrite Hs, Hv, Ho. cbn [negb orb]. cbv zeta.
  change (vh_gd b =? VMDK_GD_AT_END) with (hdr_foot (vh b)).
  change (N.min (vh_desc_num b * VMDK_SECTOR_B) VMDK_DESC_MAX_SIZE) with (hdr_dsz (vh b)).
  change VMDK_DESC_OFFSET with 512.
  set (dsz := hdr_dsz (vh b)) in *. set (dd := bslice 512 dsz b) in *.
  assert (Hfm : prefixb VMDK_MAGIC h = prefixb VMDK_MAGIC b).
  { apply prefixb_prefix; [exact Hp|]. change (blen VMDK_MAGIC) with 4. lia. }
  rewrite Hfm. rewrite (N.eqb_sym dsz (blen dd)).
  (* the footer *)
  assert (Hfoot : match foot with
                  | Some (_, fd) => hdr_foot (vh b) = true /\ 1536 =? blen fd = true /\ fd = last_bytes VMDK_FOOTER_LEN b /\ (VMDK_FOOTER_LEN <=? blen b) = true
                  | None => hdr_foot (vh b) = false end).
  { destruct foot as [[off fd]|]; [|exact Hf]. cbn [has_foot] in Hf. specialize (Hlen Hf).
    cbn [foot_inv] in Hfi. destruct Hfi as (pre & A & HbA & Hpre & ->).
    assert (HA : 1536 <= blen A) by (rewrite HbA, blen_app in Hlen; lia).
    split; [exact Hf|]. split; [rewrite blen_btail; lia|]. split; [|unfold VMDK_FOOTER_LEN; lia].
    change (last_bytes VMDK_FOOTER_LEN b) with (btail 1536 b). rewrite HbA. symmetry. apply btail_app_ge. exact HA. }
  (* the attributes *)
  pose proof (ext_inv_cases dsz dd x Hxi) as Hx.
  assert (Hvs : vsize_of x h =
                Ok match (if blen dd =? dsz then parse_desc dd else None) with
                   | Some (_ :: _, ty) => if mem_str ty VMDK_SUBFORMATS then Z.of_N (vh_sectors b * VMDK_VS_SECTOR) else 0%Z
                   | _ => 0%Z
                   end).
  { destruct (if blen dd =? dsz then parse_desc dd else None) as [[t ty]|]; [|apply vsize_of_early; exact Hx].
    subst x. unfold vsize_of, desc_text_truthy. cbn [v_desc_text v_vmdktype]. destruct t as [|a t]; [reflexivity|]. cbn [negb].
    destruct (mem_str ty VMDK_SUBFORMATS); [|reflexivity]. cbn [negb].
    unfold unpack. rewrite flen_blen, ntake_btake, blen_btake.
    replace (N.min VMDK_VS_SLICE (blen h) =? sf_size sf_vmdk_vs) with true by (unfold VMDK_VS_SLICE; cbn [sf_vmdk_vs sf_size]; lia).
    cbn [bind]. unfold vh_sectors. rewrite (btake_prefix VMDK_VS_SLICE h b Hp) by (unfold VMDK_VS_SLICE; lia). reflexivity. }
  assert (Hcd : check_descriptor_of (v_desc_text x) (v_vmdktype x) =
                match (if blen dd =? dsz then parse_desc dd else None) with
                | Some (text, ty) => check_descriptor_of (Some text) ty
                | None => violation
                end).
  { destruct (if blen dd =? dsz then parse_desc dd else None) as [[t ty]|]; [subst x; reflexivity|].
    apply check_desc_early. exact Hx. }
  rewrite Hvs, Hcd.
  assert (Hu : btake 64 h = vh b) by (unfold vh; apply btake_prefix; [exact Hp | exact Hl]).
  rewrite Hu.
  destruct foot as [[off fd]|].
  - destruct Hfoot as (H1 & H2 & H3 & H4). rewrite H1, H2, H4, <- H3. cbn [andb]. rewrite andb_true_r. reflexivity.
  - rewrite Hfoot. cbn [andb]. rewrite andb_true_r. reflexivity.
Qed.

(* ---------------------------------------------------------------- the whole run, from any phase-0 state *)
Lemma vverdict_vrun_nil s : verdict_of (vrun s []) = vverdict s None.
Proof. reflexivity. Qed.

Lemma vrun_S0 b :
  zone_vmdk_text b = false -> zone_vmdk_shortfoot b = false ->
  forall cs st d x,
  b = st ++ concat cs -> blen st < 64 -> (blen d < 4 -> d = st) -> is_prefix d st -> early x ->
  verdict_of (vrun (S0 st d x) cs) = vmdk_spec b.
Proof.
  intros Hz1 Hz3. pose proof (zone_noct b Hz1) as Hnoct.
  induction cs as [|c t IH]; intros st d x Hb Hst Hd Hpd Hx.
  - (* the stream ends before 64 bytes *)
    cbn [concat] in Hb. rewrite app_nil_r in Hb. subst st.
    rewrite vverdict_vrun_nil, (final_S0 b d x Hst Hx). unfold vmdk_spec.
    replace (blen b <? VMDK_MIN_SPARSE_HEADER) with true by (unfold VMDK_MIN_SPARSE_HEADER; lia). reflexivity.
  - cbn [concat] in Hb. rewrite app_assoc in Hb.
    assert (Hpb : is_prefix (st ++ c) b) by (exists (concat t); exact Hb).
    assert (Hd'p : is_prefix (d0_next st d c) (st ++ c)).
    { unfold d0_next. destruct (4 <=? blen d); [apply is_prefix_app; exact Hpd | apply is_prefix_btake]. }
    destruct (N.lt_ge_cases (blen st + blen c) 64) as [Hc|Hc].
    + (* still below 64 bytes *)
      rewrite (vrun_cons_ok _ _ _ _ (step0 st d x c Hst Hd Hc)).
      apply IH; [exact Hb | rewrite blen_app; exact Hc | | exact Hd'p |].
      * unfold d0_next. destruct (4 <=? blen d) eqn:H4; [lia|]. intros _. apply btake_all. rewrite blen_app. lia.
      * unfold x_next. destruct (negb (4 <=? blen d) && (4 <=? blen (d0_next st d c))); [|exact Hx].
        apply parse_ext_early; [|exact Hx]. apply (noct_prefix _ b); [|exact Hnoct]. eapply is_prefix_trans; eassumption.
    + (* this chunk completes the header *)
      set (h := btake 512 (st ++ c)).
      assert (Hlb : 64 <= blen b) by (apply is_prefix_len in Hpb; rewrite blen_app in Hpb; lia).
      assert (Hl : 64 <= blen h) by (subst h; rewrite blen_btake, blen_app; lia).
      assert (Hph : is_prefix h b) by (eapply is_prefix_trans; [apply is_prefix_btake | exact Hpb]).
      assert (Hu : btake 64 h = vh b) by (unfold vh; apply btake_prefix; [exact Hph | exact Hl]).
      assert (Hd4 : 4 <= blen (d0_next st d c)).
      { unfold d0_next. destruct (4 <=? blen d) eqn:H4; [lia|]. rewrite blen_btake, blen_app. lia. }
      assert (Hfm : prefixb VMDK_MAGIC h = prefixb VMDK_MAGIC b).
      { apply prefixb_prefix; [exact Hph|]. change (blen VMDK_MAGIC) with 4. lia. }
      unfold vmdk_spec.
      replace (blen b <? VMDK_MIN_SPARSE_HEADER) with false by (unfold VMDK_MIN_SPARSE_HEADER; lia).
      change (beq (vh_sig b) VMDK_MAGIC_PP) with (hdr_sig_ok (vh b)). change (ver_ok (vh_ver b)) with (hdr_ver_ok (vh b)).
      change (vh_desc_sec b * VMDK_SECTOR_A =? VMDK_DESC_OFFSET) with (hdr_loc_ok (vh b)).
      change (vh_gd b =? VMDK_GD_AT_END) with (hdr_foot (vh b)).
      destruct (hdr_sig_ok (vh b)) eqn:Hs; cbn [negb orb].
      2:{ (* Signature KDMV not found *)
        assert (Ht : forallb ascii_text h = false).
        { destruct (forallb ascii_text h) eqn:Ht; [|reflexivity].
          rewrite <- (zone_not_text b Hz1 Hlb Hs). symmetry. rewrite <- Hu. apply (forallb_prefix _ _ h (is_prefix_btake 64 h) Ht). }
        rewrite (vrun_cons_exn _ _ _ _ _ (stepT_bad st d x c Hst Hd Hc (or_introl (conj (eq_trans (f_equal hdr_sig_ok Hu) Hs) Ht)))).
        fold h. change (verdict_of (I_vmdk (Insp_Engine.finish (T0 (st ++ c) h (d0_next st d c) x)), Some ImageFormatError))
          with (vverdict (T0 (st ++ c) h (d0_next st d c) x) (Some ImageFormatError)).
        rewrite (final_T0 _ _ _ _ Hl Hd4 Hx), Hfm. reflexivity. }
      destruct (hdr_ver_ok (vh b)) eqn:Hv; cbn [negb].
      2:{ (* Unsupported format version *)
        rewrite (vrun_cons_exn _ _ _ _ _ (stepT_bad st d x c Hst Hd Hc
                   (or_intror (conj (eq_trans (f_equal hdr_sig_ok Hu) Hs) (eq_trans (f_equal hdr_ver_ok Hu) Hv))))).
        fold h. change (verdict_of (I_vmdk (Insp_Engine.finish (T0 (st ++ c) h (d0_next st d c) x)), Some ImageFormatError))
          with (vverdict (T0 (st ++ c) h (d0_next st d c) x) (Some ImageFormatError)).
        rewrite (final_T0 _ _ _ _ Hl Hd4 Hx), Hfm. reflexivity. }
      destruct (hdr_loc_ok (vh b)) eqn:Ho; cbn [negb].
      2:{ (* Wrong descriptor location *)
        rewrite (vrun_cons_exn _ _ _ _ _ (stepT_wrongloc st d x c Hst Hd Hc
                   (eq_trans (f_equal hdr_sig_ok Hu) Hs) (eq_trans (f_equal hdr_ver_ok Hu) Hv) (eq_trans (f_equal hdr_loc_ok Hu) Ho))).
        fold h. rewrite Hu. destruct (hdr_foot (vh b)); cbn [negb].
        - change (verdict_of (I_vmdk (Insp_Engine.finish (T0f (st ++ c) h (d0_next st d c) x)), Some ImageFormatError))
            with (vverdict (T0f (st ++ c) h (d0_next st d c) x) (Some ImageFormatError)).
          rewrite (final_T0f _ _ _ _ Hx), Hfm. reflexivity.
        - change (verdict_of (I_vmdk (Insp_Engine.finish (T0 (st ++ c) h (d0_next st d c) x)), Some ImageFormatError))
            with (vverdict (T0 (st ++ c) h (d0_next st d c) x) (Some ImageFormatError)).
          rewrite (final_T0 _ _ _ _ Hl Hd4 Hx), Hfm. reflexivity. }
      (* valid sparse header *)
      pose proof (stepT_valid st d x c Hst Hd Hc (eq_trans (f_equal hdr_sig_ok Hu) Hs) (eq_trans (f_equal hdr_ver_ok Hu) Hv)
                    (eq_trans (f_equal hdr_loc_ok Hu) Ho)) as Hstep.
      cbv zeta in Hstep. fold h in Hstep. rewrite Hu in Hstep.
      set (dsz := hdr_dsz (vh b)) in *.
      rewrite (vrun_cons_ok _ _ _ _ Hstep).
      set (foot1 := if hdr_foot (vh b) then Some (blen (st ++ c) - blen (btail 1536 c), btail 1536 c) else None) in *.
      set (x1 := if dsz =? blen (bslice 512 dsz (st ++ c)) then parse_ext (bslice 512 dsz (st ++ c)) x else x) in *.
      assert (Hf1 : hdr_foot (btake 64 h) = has_foot foot1) by (rewrite Hu; subst foot1; destruct (hdr_foot (vh b)); reflexivity).
      assert (Hfi1 : foot_inv (st ++ c) foot1).
      { subst foot1. destruct (hdr_foot (vh b)); cbn [foot_inv]; [|exact I]. exists st, c. auto. }
      assert (Hxi1 : ext_inv dsz (bslice 512 dsz (st ++ c)) x1).
      { unfold ext_inv. subst x1. destruct (dsz =? blen (bslice 512 dsz (st ++ c))); [|exact Hx]. exists x. auto. }
      destruct (eat_all_S1 h dsz Hl (eq_trans (f_equal hdr_sig_ok Hu) Hs) (eq_trans (f_equal hdr_ver_ok Hu) Hv)
                  (eq_trans (f_equal hdr_loc_ok Hu) Ho) t foot1 (st ++ c) x1 Hf1 Hfi1 Hxi1) as (foot' & x' & He & Hf' & Hfi' & Hxi').
      unfold vrun. rewrite He. rewrite <- Hb in *.
      change (verdict_of (I_vmdk (Insp_Engine.finish (S1 foot' dsz b h (bslice 512 dsz b) x')), None))
        with (vverdict (S1 foot' dsz b h (bslice 512 dsz b) x') None).
      transitivity (vmdk_spec b).
      * apply (final_valid b h foot' x' Hlb Hph Hl Hs Hv Ho); [rewrite Hf', <- Hf1, Hu; reflexivity | exact Hfi' | | exact Hxi'].
        intros Hfoot. exact (zone_foot_len b Hz3 Hlb Hs Hv Hfoot).
      * unfold vmdk_spec.
        replace (blen b <? VMDK_MIN_SPARSE_HEADER) with false by (unfold VMDK_MIN_SPARSE_HEADER; lia).
        change (beq (vh_sig b) VMDK_MAGIC_PP) with (hdr_sig_ok (vh b)). change (ver_ok (vh_ver b)) with (hdr_ver_ok (vh b)).
        change (vh_desc_sec b * VMDK_SECTOR_A =? VMDK_DESC_OFFSET) with (hdr_loc_ok (vh b)).
        rewrite Hs, Hv, Ho. reflexivity.
Qed.

(* ---------------------------------------------------------------- the theorem *)
Theorem vmdk_refines_spec b cs :
  concat cs = b -> zone_vmdk_text b = false /\ zone_vmdk_shortfoot b = false ->
  verdict_of (run F_vmdk cs) = vmdk_spec b.
Proof.
  intros Hb [Hz1 Hz3]. rewrite run_vmdk, init_S0.
  apply (vrun_S0 b Hz1 Hz3 cs [] [] x0); [symmetry; exact Hb | reflexivity | reflexivity | apply is_prefix_refl | reflexivity].
Qed.

Corollary vmdk_chunking_independent cs1 cs2 :
  concat cs1 = concat cs2 ->
  zone_vmdk_text (concat cs1) = false /\ zone_vmdk_shortfoot (concat cs1) = false ->
  verdict_of (run F_vmdk cs1) = verdict_of (run F_vmdk cs2).
Proof.
  intros Hc Hz. rewrite (vmdk_refines_spec (concat cs1) cs1 eq_refl Hz).
  rewrite (vmdk_refines_spec (concat cs1) cs2 (eq_sym Hc) Hz). reflexivity.
Qed.

Corollary vmdk_empty_chunks_irrelevant cs :
  zone_vmdk_text (concat cs) = false /\ zone_vmdk_shortfoot (concat cs) = false ->
  verdict_of (run F_vmdk (filter nonempty cs)) = verdict_of (run F_vmdk cs).
Proof.
  intros Hz. apply vmdk_chunking_independent; [apply concat_filter_nonempty|].
  rewrite concat_filter_nonempty. exact Hz.
Qed.
