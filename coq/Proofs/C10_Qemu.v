(* Proofs/C10_Qemu.v — QemuImgInfo._extract_bytes: an explicit "(N bytes)" figure wins.
   The regex SIZE_RE is regenerated from the source; this file only fixes its SHAPE
   (by a pattern-matching function) and checks the character sets by computation. *)
From Coq Require Import String.
From Coq Require Import ZArith SpecFloat.
Require Import OV.Base.Bytes OV.Base.Py OV.Base.PyInt OV.Base.Str OV.Base.Regex OV.Base.PyFloat.
Require Import OV.Model.C10_Regex OV.Gen.C10_Units OV.Model.C10.
Require Import OV.Proofs.C10_Regex OV.Proofs.C10_Form OV.Proofs.C10_Float OV.Proofs.C10.
Open Scope N_scope.

(* ---------- group-free regexes leave the groups alone ---------- *)
Fixpoint gfree (r : re) : bool :=
  match r with
  | Group _ _ => false
  | Seq a b | Alt a b => gfree a && gfree b
  | Opt a => gfree a
  | _ => true
  end.

Lemma mt_gfree r s p g s' p' g' : mt r s p g s' p' g' -> gfree r = true -> g' = g.
Proof.
  induction 1; cbn [gfree]; intros F; try reflexivity; try discriminate.
  - apply andb_true_iff in F. destruct F as [Fa Fb]. rewrite (IHmt2 Fb). apply IHmt1. exact Fa.
  - apply andb_true_iff in F. apply IHmt. tauto.
  - apply andb_true_iff in F. apply IHmt. tauto.
  - apply IHmt. exact F.
Qed.

(* ---------- positions inside the whole subject ---------- *)
Definition at_pos (whole s : str) (p : N) : Prop := exists X, whole = X ++ s /\ blen X = p.

Lemma mt_at whole r s p g s' p' g' : mt r s p g s' p' g' -> at_pos whole s p -> at_pos whole s' p'.
Proof.
  intros H [X [-> <-]]. apply mt_consumes in H. destruct H as [w [-> ->]].
  exists (X ++ w). split; [rewrite app_assoc; reflexivity|apply blen_app].
Qed.

Lemma at_slice whole w s' p : at_pos whole (w ++ s') p -> slice whole p (p + blen w) = w.
Proof. intros [X [-> <-]]. apply slice_mid. Qed.

(* ---------- float() of  digits e sign digits ---------- *)
Definition nosp (c : N) : bool := negb (c_space c) && negb (c =? 95) && (c <? 127).

Lemma strip_us_nosp : forall a prev, forallb nosp a = true -> prev <> 95 -> strip_us a prev = Some a.
Proof.
  induction a as [|c a IH]; intros prev H Hp; cbn [strip_us].
  - replace (prev =? 95) with false by lia. reflexivity.
  - cbn [forallb] in H. apply andb_true_iff in H. destruct H as [Hc Ha].
    assert (c <> 95) by (unfold nosp in Hc; lia).
    replace (c =? 95) with false by lia. replace (prev =? 95) with false by lia. cbn [andb].
    rewrite (IH c Ha) by assumption. reflexivity.
Qed.

Lemma c_strip_nosp s : forallb nosp s = true -> c_strip s = s.
Proof.
  assert (L : forall x, forallb nosp x = true -> c_lstrip x = x).
  { intros [|c x]; [reflexivity|]. cbn [forallb c_lstrip]. intros H. apply andb_true_iff in H. destruct H as [Hc _].
    replace (c_space c) with false; [reflexivity|]. unfold nosp in Hc. destruct (c_space c); [discriminate|reflexivity]. }
  intros H. unfold c_strip. rewrite (L s H). rewrite L; [apply rev_involutive|].
  rewrite forallb_forall in *. intros x Hx. apply H. apply in_rev. exact Hx.
Qed.

Lemma to_ascii_nosp s : forallb nosp s = true -> to_ascii s = Some s.
Proof.
  intros H. apply to_ascii_low. rewrite forallb_forall in *. intros x Hx. specialize (H x Hx).
  unfold nosp in H. lia.
Qed.

Lemma c_digit_nosp c : c_digit c = true -> nosp c = true.
Proof. unfold c_digit, nosp, c_space. lia. Qed.

Lemma float_of_enot w1 ce cs w2 :
  forallb c_digit w1 = true -> w1 <> [] -> (ce = 69 \/ ce = 101) -> (cs = 43 \/ cs = 45) ->
  forallb c_digit w2 = true -> w2 <> [] ->
  py_float_of_str (w1 ++ ce :: cs :: w2) <> None.
Proof.
  intros H1 N1 He Hs H2 N2.
  assert (NS : forallb nosp (w1 ++ ce :: cs :: w2) = true).
  { rewrite forallb_app. cbn [forallb]. rewrite !andb_true_iff. repeat split.
    - rewrite forallb_forall in *. intros x Hx. apply c_digit_nosp. auto.
    - destruct He as [->| ->]; reflexivity.
    - destruct Hs as [->| ->]; reflexivity.
    - rewrite forallb_forall in *. intros x Hx. apply c_digit_nosp. auto. }
  unfold py_float_of_str. rewrite (to_ascii_nosp _ NS), (strip_us_nosp _ 0 NS) by lia. rewrite (c_strip_nosp _ NS).
  destruct w1 as [|c w1']; [congruence|]. cbn [app].
  assert (Hc : c_digit c = true) by (cbn in H1; apply andb_true_iff in H1; tauto).
  replace (c =? 43) with false by (unfold c_digit in Hc; lia).
  replace (c =? 45) with false by (unfold c_digit in Hc; lia).
  unfold parse_unsigned.
  destruct (not_special c (w1' ++ ce :: cs :: w2)) as [S1 S2]; [rewrite Hc; apply orb_true_r|].
  cbn zeta in S1, S2. rewrite S1, S2.
  change (c :: w1' ++ ce :: cs :: w2) with ((c :: w1') ++ ce :: cs :: w2).
  rewrite (digits_run_app (c :: w1') (ce :: cs :: w2) 0 0%Z H1).
  cbn [digits_run]. replace (c_digit ce) with false by (destruct He as [->| ->]; reflexivity).
  replace (ce =? 46) with false by (destruct He as [->| ->]; reflexivity).
  replace ((0 + Z.of_nat (length (c :: w1')) + 0 =? 0)%Z) with false by (cbn [length]; lia).
  unfold parse_exp. replace ((ce =? 101) || (ce =? 69)) with true by (destruct He as [->| ->]; reflexivity).
  assert (T : (let '(neg, t') := if cs =? 43 then (false, w2) else if cs =? 45 then (true, w2) else (false, cs :: w2) in
               let '(v, cnt, rest) := digits_run t' 0 0%Z in
               if (0 <? cnt)%Z && is_nil rest then Some (if neg then (- Z.of_N v)%Z else Z.of_N v) else None) <> None).
  { destruct Hs as [->| ->]; cbn [N.eqb Pos.eqb]; rewrite (digits_run_all w2 0 0%Z H2);
      (replace ((0 <? 0 + Z.of_nat (length w2))%Z) with true by (destruct w2; [congruence|cbn [length]; lia]));
      cbn; discriminate. }
  destruct (let '(neg, t') := if cs =? 43 then (false, w2) else if cs =? 45 then (true, w2) else (false, cs :: w2) in
            let '(v, cnt, rest) := digits_run t' 0 0%Z in
            if (0 <? cnt)%Z && is_nil rest then Some (if neg then (- Z.of_N v)%Z else Z.of_N v) else None) as [ex|] eqn:E;
    [discriminate|congruence].
Qed.

(* ---------- the shape of SIZE_RE ---------- *)
Definition size_shape (e1 ee es e2 d1 dt d2 : cset) (WS G2 A1 A2 A3 : re) (d4 : cset) (REST : re) : re :=
  Seq (Group 1 (Alt (Seq (Rep e1 1 None) (Seq (Chr ee) (Seq (Chr es) (Rep e2 1 None))))
                    (Seq (Rep d1 0 None) (Seq (Rep dt 0 (Some 1%nat)) (Rep d2 1 None)))))
      (Seq WS (Seq (Opt (Group 2 G2))
                   (Opt (Group 3 (Seq A1 (Seq A2 (Seq A3 (Seq (Group 4 (Rep d4 1 None)) REST)))))))).

Definition size_parts (r : re) :=
  match r with
  | Seq (Group 1%nat (Alt (Seq (Rep e1 1%nat None) (Seq (Chr ee) (Seq (Chr es) (Rep e2 1%nat None))))
                          (Seq (Rep d1 0%nat None) (Seq (Rep dt 0%nat (Some 1%nat)) (Rep d2 1%nat None)))))
        (Seq WS (Seq (Opt (Group 2%nat G2))
                     (Opt (Group 3%nat (Seq A1 (Seq A2 (Seq A3 (Seq (Group 4%nat (Rep d4 1%nat None)) REST))))))))
      => Some (e1, ee, es, e2, (d1, dt, d2), (WS, G2, A1, A2, A3), d4, REST)
  | _ => None
  end.

Lemma size_parts_eq r e1 ee es e2 d1 dt d2 WS G2 A1 A2 A3 d4 REST :
  size_parts r = Some (e1, ee, es, e2, (d1, dt, d2), (WS, G2, A1, A2, A3), d4, REST) ->
  r = size_shape e1 ee es e2 d1 dt d2 WS G2 A1 A2 A3 d4 REST.
Proof.
  unfold size_parts. intros H.
  repeat match type of H with context [match ?x with _ => _ end] => destruct x; try discriminate end.
  injection H as <- <- <- <- <- <- <- <- <- <- <- <- <- <-. reflexivity.
Qed.

Definition size_ok (r : re) : bool :=
  match size_parts r with
  | Some (e1, ee, es, e2, (d1, dt, d2), (WS, G2, A1, A2, A3), d4, REST) =>
      cs_incl e1 [(48, 57)] && cs_incl e2 [(48, 57)] && cs_incl ee [(69, 69); (101, 101)] &&
      cs_incl es [(43, 43); (45, 45)] && cs_incl d1 nd_ranges && cs_incl d2 nd_ranges &&
      cs_incl dt [(46, 46)] && cs_incl d4 nd_ranges &&
      gfree WS && gfree G2 && gfree A1 && gfree A2 && gfree A3 && gfree REST
  | None => false
  end.

Lemma size_ok_true : size_ok size_re = true.
Proof. vm_compute. reflexivity. Qed.

Lemma allin_incl A B w : cs_incl A B = true -> allin A w = true -> allin B w = true.
Proof.
  intros I H. unfold allin in *. rewrite forallb_forall in *. intros x Hx.
  apply (cs_incl_sound A B I). apply H. exact Hx.
Qed.

Lemma allin_nd w : allin nd_ranges w = digits w.
Proof.
  unfold allin, digits. induction w as [|c w IH]; cbn [forallb]; [reflexivity|].
  rewrite IH, is_digit_ranges. reflexivity.
Qed.

Lemma allin_ascii_digits w : allin [(48, 57)] w = true -> forallb c_digit w = true.
Proof.
  unfold allin. intros H. rewrite forallb_forall in *. intros x Hx. specialize (H x Hx).
  cbn [cmem] in H. unfold c_digit. lia.
Qed.

Lemma incl_two c cs a b : cs_incl cs [(a, a); (b, b)] = true -> cmem c cs = true -> c = a \/ c = b.
Proof. intros I H. pose proof (cs_incl_sound _ _ I c H) as Q. clear I H. cbn [cmem] in Q. lia. Qed.
Lemma incl_one c cs a : cs_incl cs [(a, a)] = true -> cmem c cs = true -> c = a.
Proof. intros I H. pose proof (cs_incl_sound _ _ I c H) as Q. clear I H. cbn [cmem] in Q. lia. Qed.

(* ---------- the theorem ---------- *)
(* what every match of SIZE_RE looks like: group 1 is a text float() accepts; group 3 is either absent
   or non-empty and then group 4 is a non-empty digit string *)
Lemma size_match_facts details a e g :
  re_search size_re details = Some (a, e, g) ->
  exists w1, group_text details g 1 = Some w1 /\ py_float_of_str w1 <> None /\
    ((gget g 3%nat = None) \/
     exists w3 w4, group_text details g 3 = Some w3 /\ w3 <> [] /\
                   group_text details g 4 = Some w4 /\ digits w4 = true /\ w4 <> []).
Proof.
  intros HSr.
  pose proof size_ok_true as OK. unfold size_ok in OK.
  destruct (size_parts size_re) as [[[[[[[[e1 ee] es] e2] [[d1 dt] d2]] [[[[WS G2] A1] A2] A3]] d4] REST]|] eqn:EP; [|discriminate].
  apply size_parts_eq in EP.
  repeat match goal with Hq : _ && _ = true |- _ => apply andb_true_iff in Hq; destruct Hq end.
  (* turn the computed inclusions into implications (and drop the boolean facts: lia would chew on them) *)
  assert (I1 : forall w, allin e1 w = true -> forallb c_digit w = true)
    by (intros w Hw; apply allin_ascii_digits; apply (allin_incl e1 [(48, 57)] w); assumption).
  assert (I2 : forall w, allin e2 w = true -> forallb c_digit w = true)
    by (intros w Hw; apply allin_ascii_digits; apply (allin_incl e2 [(48, 57)] w); assumption).
  assert (Iee : forall c, cmem c ee = true -> c = 69 \/ c = 101) by (intros c; apply incl_two; assumption).
  assert (Ies : forall c, cmem c es = true -> c = 43 \/ c = 45) by (intros c; apply incl_two; assumption).
  assert (Idt : forall c, cmem c dt = true -> c = 46) by (intros c; apply incl_one; assumption).
  assert (Id1 : forall w, allin d1 w = true -> digits w = true)
    by (intros w Hw; rewrite <- allin_nd; apply (allin_incl d1 nd_ranges w); assumption).
  assert (Id2 : forall w, allin d2 w = true -> digits w = true)
    by (intros w Hw; rewrite <- allin_nd; apply (allin_incl d2 nd_ranges w); assumption).
  assert (Id4 : forall w, allin d4 w = true -> digits w = true)
    by (intros w Hw; rewrite <- allin_nd; apply (allin_incl d4 nd_ranges w); assumption).
  repeat match goal with Hq : cs_incl _ _ = true |- _ => clear Hq end.
  unfold re_search in HSr. apply search_from_sound in HSr.
  destruct HSr as [pre [s1 [s' [Hd [Ha Hm]]]]].
  assert (AT0 : at_pos details s1 a) by (exists pre; split; [exact Hd|lia]).
  rewrite EP in Hm. unfold size_shape in Hm.
  apply mt_seq_inv in Hm. destruct Hm as [sA [pA [gA [HG1 Hm]]]].
  apply mt_group_inv in HG1. destruct HG1 as [gA' [HG1 ->]].
  (* group 1 *)
  assert (ATA : at_pos details sA pA) by (eapply mt_at; eassumption).
  pose proof (mt_consumes _ _ _ _ _ _ _ HG1) as [w1 [Hs1 HpA]].
  assert (G1free : gA' = []).
  { apply mt_alt_inv in HG1. destruct HG1 as [Hq|Hq]; apply (mt_gfree _ _ _ _ _ _ _ Hq); reflexivity. }
  subst gA'.
  assert (FL : py_float_of_str w1 <> None).
  { apply mt_alt_inv in HG1. destruct HG1 as [Hq|Hq].
    - apply mt_seq_inv in Hq. destruct Hq as [sa [pa [ga [R1 Hq]]]].
      apply mt_rep_inv in R1. destruct R1 as [x1 [-> [X1 [L1 [_ [-> ->]]]]]].
      apply mt_seq_inv in Hq. destruct Hq as [sb [pb [gb [C1 Hq]]]].
      apply mt_chr_inv in C1. destruct C1 as [ce [-> [Ce [-> ->]]]].
      apply mt_seq_inv in Hq. destruct Hq as [sc [pc [gc [C2 R2]]]].
      apply mt_chr_inv in C2. destruct C2 as [cs [-> [Cs [-> ->]]]].
      apply mt_rep_inv in R2. destruct R2 as [x2 [-> [X2 [L2 [_ [_ _]]]]]].
      assert (w1 = x1 ++ ce :: cs :: x2).
      { repeat rewrite <- app_assoc in Hs1. cbn [app] in Hs1.
        replace (x1 ++ ce :: cs :: x2 ++ sA) with ((x1 ++ ce :: cs :: x2) ++ sA) in Hs1 by (rewrite <- app_assoc; reflexivity).
        apply app_inv_tail in Hs1. auto. }
      subst w1. apply float_of_enot.
      + apply I1. exact X1.
      + intros ->. cbn in L1. clear - L1. lia.
      + apply Iee. exact Ce.
      + apply Ies. exact Cs.
      + apply I2. exact X2.
      + intros ->. cbn in L2. clear - L2. lia.
    - apply mt_seq_inv in Hq. destruct Hq as [sa [pa [ga [R1 Hq]]]].
      apply mt_rep_inv in R1. destruct R1 as [x1 [-> [X1 [_ [_ [-> ->]]]]]].
      apply mt_seq_inv in Hq. destruct Hq as [sb [pb [gb [R2 R3]]]].
      apply mt_rep_inv in R2. destruct R2 as [xd [-> [Xd [_ [Md [-> ->]]]]]].
      apply mt_rep_inv in R3. destruct R3 as [x2 [-> [X2 [L2 [_ [_ _]]]]]].
      assert (w1 = x1 ++ xd ++ x2).
      { repeat rewrite <- app_assoc in Hs1.
        replace (x1 ++ xd ++ x2 ++ sA) with ((x1 ++ xd ++ x2) ++ sA) in Hs1 by (rewrite <- !app_assoc; reflexivity).
        apply app_inv_tail in Hs1. auto. }
      subst w1. apply float_of_numform_total. exists [], x1, xd, x2.
      split; [reflexivity|]. split; [auto|].
      split; [apply Id1; exact X1|].
      split.
      { cbn in Md. destruct xd as [|c [|c' xd']]; [auto| |cbn in Md; clear - Md; lia].
        cbn [allin forallb] in Xd. rewrite andb_true_r in Xd. right. f_equal. apply Idt. exact Xd. }
      split; [apply Id2; exact X2|].
      intros ->. cbn in L2. clear - L2. lia. }
  (* the rest: whitespace, optional unit, optional figure *)
  apply mt_seq_inv in Hm. destruct Hm as [sB [pB [gB [HWS Hm]]]].
  assert (ATB : at_pos details sB pB) by (eapply mt_at; eassumption).
  rewrite (mt_gfree _ _ _ _ _ _ _ HWS) in * by assumption. clear HWS.
  apply mt_seq_inv in Hm. destruct Hm as [sC [pC [gC [HO2 HO3]]]].
  assert (ATC : at_pos details sC pC) by (eapply mt_at; eassumption).
  assert (G2keys : gget gC 3%nat = None /\ gget gC 1%nat = Some (a, pA)).
  { apply mt_opt_inv in HO2. destruct HO2 as [Hq|[_ [_ ->]]]; [|split; reflexivity].
    apply mt_group_inv in Hq. destruct Hq as [g2' [Hq ->]].
    rewrite (mt_gfree _ _ _ _ _ _ _ Hq) by assumption. split; reflexivity. }
  destruct G2keys as [K3 K1].
  assert (T1 : slice details a pA = w1).
  { rewrite HpA. apply (at_slice details w1 sA a). rewrite <- Hs1. exact AT0. }
  apply mt_opt_inv in HO3. destruct HO3 as [HG3|[_ [_ ->]]].
  2:{ exists w1. unfold group_text. rewrite K1, T1. auto. }
  apply mt_group_inv in HG3. destruct HG3 as [g3' [HG3 ->]].
  pose proof (mt_consumes _ _ _ _ _ _ _ HG3) as [w3 [Hs3 Hp3]].
  apply mt_seq_inv in HG3. destruct HG3 as [sD [pD [gD [HA1 HG3]]]].
  assert (ATD : at_pos details sD pD) by (eapply mt_at; eassumption).
  rewrite (mt_gfree _ _ _ _ _ _ _ HA1) in * by assumption.
  apply mt_seq_inv in HG3. destruct HG3 as [sE [pE [gE [HA2 HG3]]]].
  assert (ATE : at_pos details sE pE) by (eapply mt_at; eassumption).
  rewrite (mt_gfree _ _ _ _ _ _ _ HA2) in * by assumption.
  apply mt_seq_inv in HG3. destruct HG3 as [sF [pF [gF [HA3 HG3]]]].
  assert (ATF : at_pos details sF pF) by (eapply mt_at; eassumption).
  rewrite (mt_gfree _ _ _ _ _ _ _ HA3) in * by assumption.
  apply mt_seq_inv in HG3. destruct HG3 as [sG [pG [gG [HG4 HR]]]].
  apply mt_group_inv in HG4. destruct HG4 as [g4' [HG4 ->]].
  apply mt_rep_inv in HG4. destruct HG4 as [w4 [-> [X4 [L4 [_ [-> ->]]]]]].
  rewrite (mt_gfree _ _ _ _ _ _ _ HR) by assumption.
  (* group texts *)
  exists w1. unfold group_text. cbn [gget Nat.eqb]. rewrite K1, T1.
  assert (T4 : slice details pF (pF + blen w4) = w4) by (apply (at_slice details w4 sG pF); exact ATF).
  rewrite T4.
  assert (T3 : slice details pC e = w3).
  { rewrite Hp3. apply (at_slice details w3 s' pC). rewrite <- Hs3. exact ATC. }
  rewrite T3.
  assert (N3 : w3 <> []).
  { intros ->. rewrite blen_nil in Hp3.
    pose proof (mt_consumes _ _ _ _ _ _ _ HA1) as [x1 [_ Q1]]. pose proof (mt_consumes _ _ _ _ _ _ _ HA2) as [x2 [_ Q2]].
    pose proof (mt_consumes _ _ _ _ _ _ _ HA3) as [x3 [_ Q3]]. pose proof (mt_consumes _ _ _ _ _ _ _ HR) as [x5 [_ Q5]].
    assert (1 <= blen w4) by (unfold blen; clear - L4; lia). clear - Hp3 Q1 Q2 Q3 Q5 H. lia. }
  split; [reflexivity|]. split; [exact FL|]. right. exists w3, w4.
  split; [reflexivity|]. split; [exact N3|]. split; [reflexivity|]. split; [apply Id4; exact X4|].
  intros ->; cbn in L4; clear - L4; lia.
Qed.

Theorem figure_wins details a e g :
  re_search size_re details = Some (a, e, g) -> gget g 3%nat <> None ->
  exists ds, group_text details g 4 = Some ds /\ digits ds = true /\ ds <> [] /\
             extract_bytes details = py_int_lim ds.
Proof.
  intros HS H3. destruct (size_match_facts details a e g HS) as [w1 [G1 [FL [N|[w3 [w4 [G3 [N3 [G4 [D4 N4]]]]]]]]]]; [congruence|].
  exists w4. repeat split; try assumption.
  unfold extract_bytes. rewrite HS, G1, G3, G4.
  destruct w3 as [|c3 w3']; [congruence|]. cbn [truthy].
  destruct (has_e w1); [destruct (py_float_of_str w1); [reflexivity|congruence]|reflexivity].
Qed.

(* without a figure, a unit present: the same arithmetic as string_to_bytes (IEC, return_int),
   a one-letter unit other than B being completed with B *)
Theorem unit_uses_string_to_bytes details a e g g1 c r :
  re_search size_re details = Some (a, e, g) -> group_text details g 1 = Some g1 -> has_e g1 = false ->
  truthy (group_text details g 3) = false -> group_text details g 2 = Some (c :: r) ->
  extract_bytes details =
  match string_to_bytes (g1 ++ (if (zlen (c :: r) =? 1)%Z && negb (beq (c :: r) (lit "B")) then (c :: r) ++ lit "B" else c :: r))
                        (lit "IEC") true with
  | Ok (NInt z) => Ok z
  | Ok (NFloat _) => Exn OtherError
  | Exn ex => Exn ex
  end.
Proof.
  intros HS G1 HE G3 G2. unfold extract_bytes. rewrite HS, G1, HE, G3, G2. reflexivity.
Qed.

Example qemu_figure : extract_bytes (lit "20 GiB (21474836480 bytes)") = Ok 21474836480%Z.
Proof. vm_compute. reflexivity. Qed.
Example qemu_figure_beats_unit : extract_bytes (lit "1.0K (7 bytes)") = Ok 7%Z.
Proof. vm_compute. reflexivity. Qed.
Example qemu_unit : extract_bytes (lit "1.5G") = Ok 1610612736%Z.
Proof. vm_compute. reflexivity. Qed.

(* ---------- _extract_bytes raises nothing but ValueError ---------- *)

Lemma py_int_lim_exn s e : py_int_lim s = Exn e -> e = ValueError.
Proof.
  unfold py_int_lim. destruct (py_int s); [destruct (int_max_str_digits <? count_digits s)|]; intros H; try discriminate;
    injection H as <-; reflexivity.
Qed.

Lemma s2b_false_not_int t u z : string_to_bytes t u false <> Ok (NInt z).
Proof.
  unfold string_to_bytes.
  destruct (lookup u unit_system_info) as [[base rx]|]; [|discriminate].
  destruct (rz_match rx t) as [[e g]|]; [|discriminate].
  destruct (group_text t g 1) as [g1|]; [|discriminate].
  destruct (py_float_of_str g1) as [m|]; [|discriminate].
  destruct (if is_bit_unit (group_text t g 3) then f_div_int m 8 else Ok m) as [m'|ex]; cbn [bind]; [|discriminate].
  destruct (group_text t g 2) as [[|c p']|]; cbn [finish]; try discriminate.
  destruct (lookup (c :: p') unit_prefix_exponent) as [ex|]; [|discriminate].
  destruct (py_pow _ ex) as [pw|]; cbn [bind]; [|discriminate].
  destruct (f_mul_int m' pw) as [r|]; cbn [bind finish]; discriminate.
Qed.

Lemma s2b_int_exn t e : s2b_int t = Exn e -> e = ValueError.
Proof.
  unfold s2b_int. destruct (string_to_bytes t (lit "IEC") true) as [[z|x]|ex] eqn:E; intros H; try discriminate.
  - (* return_int=True never yields a float *)
    rewrite return_int_is_ceil in E.
    destruct (string_to_bytes t (lit "IEC") false) as [[z'|r]|ex'] eqn:E2; try discriminate.
    unfold ceil_or_ValueError in E. destruct (ceil_to_Z r) as [z''|[]]; discriminate.
  - injection H as <-. apply (only_ValueError _ _ _ _ E).
Qed.

Theorem extract_bytes_only_ValueError details e : extract_bytes details = Exn e -> e = ValueError.
Proof.
  unfold extract_bytes. destruct (re_search size_re details) as [[[a en] g]|] eqn:HS; [|intros H; injection H as <-; reflexivity].
  destruct (size_match_facts details a en g HS) as [w1 [G1 [FL F3]]].
  rewrite G1.
  assert (M : exists mag, (if has_e w1 then match py_float_of_str w1 with None => Exn ValueError | Some x => Ok (float_fmt_f0 x) end else Ok w1) = Ok mag).
  { destruct (has_e w1); [destruct (py_float_of_str w1); [eauto|congruence]|eauto]. }
  destruct M as [mag ->]. cbn [bind].
  destruct F3 as [N|[w3 [w4 [G3 [N3 [G4 _]]]]]].
  - assert (G3 : group_text details g 3 = None) by (unfold group_text; rewrite N; reflexivity).
    rewrite G3. cbn [truthy].
    destruct (group_text details g 2) as [[|c r]|]; try apply py_int_lim_exn. apply s2b_int_exn.
  - rewrite G3, G4. destruct w3; [congruence|]. cbn [truthy]. apply py_int_lim_exn.
Qed.

(* ---------- which fields are byte sizes, and what is stored for them ---------- *)

Theorem size_details_fields root_cmd root_details :
  size_details root_cmd root_details <> None <->
  (root_cmd = lit "virtual_size" \/ root_cmd = lit "cluster_size" \/ root_cmd = lit "disk_size").
Proof.
  unfold size_details. destruct (existsb (beq root_cmd) size_fields) eqn:E.
  - split; [intros _|discriminate]. apply existsb_exists in E. destruct E as [x [Hx Hb]]. apply beq_eq in Hb. subst x.
    cbn in Hx. intuition.
  - split; [congruence|]. intros H. exfalso.
    assert (existsb (beq root_cmd) size_fields = true); [|congruence].
    apply existsb_exists. exists root_cmd. split; [cbn; intuition|apply beq_refl].
Qed.

(* the stored value: 0 for 'None' / 'unavailable', otherwise what _extract_bytes returns OR RAISES *)
Theorem size_details_value root_cmd root_details : In root_cmd size_fields ->
  size_details root_cmd root_details =
  Some (if existsb (beq root_details) zero_words then Ok 0%Z else extract_bytes root_details).
Proof.
  intros H. unfold size_details.
  replace (existsb (beq root_cmd) size_fields) with true; [reflexivity|].
  symmetry. apply existsb_exists. exists root_cmd. split; [exact H|apply beq_refl].
Qed.

(* never a silent 0: a stored 0 is one of the two words or a text whose byte count is 0; an unreadable
   size text is a ValueError, nothing else *)
Theorem size_details_no_silent_zero root_cmd root_details v :
  size_details root_cmd root_details = Some v ->
  (v = Ok 0%Z -> In root_details zero_words \/ extract_bytes root_details = Ok 0%Z) /\
  (forall e, v = Exn e -> e = ValueError /\ extract_bytes root_details = Exn e) /\
  (forall e, extract_bytes root_details = Exn e -> ~ In root_details zero_words -> v = Exn e).
Proof.
  unfold size_details. destruct (existsb (beq root_cmd) size_fields); [|discriminate].
  intros H. destruct (existsb (beq root_details) zero_words) eqn:Z; injection H as <-.
  - apply existsb_exists in Z. destruct Z as [x [Hx Hb]]. apply beq_eq in Hb. subst x.
    split; [intros _; left; exact Hx|]. split; [intros e He; discriminate He|]. intros e _ N. contradiction.
  - split; [intros Hv; right; exact Hv|]. split; [|intros e He _; exact He].
    intros e He. split; [apply (extract_bytes_only_ValueError _ _ He)|exact He].
Qed.

(* no figure and no unit: int(magnitude) *)
Theorem no_unit_is_int details a e g g1 :
  re_search size_re details = Some (a, e, g) -> group_text details g 1 = Some g1 -> has_e g1 = false ->
  truthy (group_text details g 3) = false -> truthy (group_text details g 2) = false ->
  extract_bytes details = py_int_lim g1.
Proof.
  intros HS G1 HE G3 G2. unfold extract_bytes. rewrite HS, G1, HE, G3. cbn [bind].
  destruct (group_text details g 2) as [[|c r]|]; try reflexivity. discriminate.
Qed.

Example ex_size_line : size_of_line (lit "virtual size: 1.5G") = Some (lit "virtual_size", Ok 1610612736%Z).
Proof. vm_compute. reflexivity. Qed.
Example ex_size_line_unavailable : size_of_line (lit "Disk-Size:  unavailable ") = Some (lit "disk_size", Ok 0%Z).
Proof. vm_compute. reflexivity. Qed.
Example ex_size_line_garbage : size_of_line (lit "cluster_size: n/a") = Some (lit "cluster_size", Exn ValueError).
Proof. vm_compute. reflexivity. Qed.
Example ex_other_line : size_of_line (lit "file format: qcow2") = None.
Proof. vm_compute. reflexivity. Qed.
