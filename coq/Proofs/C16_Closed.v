(* Proofs/C16_Closed.v — the abstract theorems instantiated with the concrete world of
   Model/C16_Codecs.v: no contract premises are left. *)
From Coq Require Import String.
Require Import OV.Base.Bytes OV.Base.PyInt OV.Base.Str OV.Base.Regex OV.Base.C16_Py.
Require Import OV.Gen.C16_Aliases OV.Gen.C16_Fold OV.Gen.C16_Slug OV.Gen.C16_Code.
Require Import OV.Model.C16 OV.Model.C16_Codecs.
Require Import OV.Gen.C16_Charmaps OV.Proofs.C16 OV.Proofs.C16_Slug OV.Proofs.C16_Utf16 OV.Proofs.C16_Codecs.
Open Scope N_scope.

(* round trip through any ASCII spelling, in any letter case, of a name of one of the three
   codecs, for every text that codec can represent, under any error policy *)
Theorem world3_roundtrip d e c t incoming0 errors :
  forallb is_ascii e = true ->
  lookup3 e = Some c ->
  representable3 c t = true ->
  exists b, safe_encode (world3 d) (PStr t) incoming0 e errors = COk (PBytes b) /\
            safe_decode (world3 d) (PBytes b) (Some e) errors = COk t.
Proof.
  intros Ha Hl Hr.
  apply (encode_decode_roundtrip (world3 d) e c t incoming0 errors).
  - exact (lookup3_nonempty e c Hl).
  - exact Hl.
  - exact (lookup3_lower e Ha).
  - apply world3_enc_policy_irrelevant.
  - apply world3_dec_policy_irrelevant.
  - apply world3_dec_empty.
  - apply world3_represents. exact Hr.
Qed.

(* to_utf8 on str is the UTF-8 encoder (strict); on surrogate-free text it succeeds and the
   UTF-8 decoder gives the text back *)
Theorem world3_to_utf8 d s :
  to_utf8 (world3 d) (PStr s) = cmap PBytes (utf8_enc Strict s) /\
  (valid_text s = true -> exists b, to_utf8 (world3 d) (PStr s) = COk (PBytes b) /\ utf8_dec Strict b = COk s).
Proof.
  assert (H : to_utf8 (world3 d) (PStr s) = cmap PBytes (utf8_enc Strict s)).
  { unfold to_utf8, str_encode. cbn [lookup world3]. rewrite to_utf8_is_utf8. reflexivity. }
  split; [exact H|]. intros Hv. destruct (utf8_roundtrip s Hv) as (b & He & Hd).
  exists b. rewrite H, He. split; [reflexivity|apply Hd].
Qed.

(* the fallback of safe_decode is the UTF-8 decoder *)
Theorem world3_safe_decode_fallback d b incoming errors :
  bytes_decode (world3 d) b (resolve_incoming (world3 d) incoming) errors = CExn EUnicodeDecodeError ->
  safe_decode (world3 d) (PBytes b) incoming errors = utf8_dec (policy_of errors) b.
Proof.
  intros H. rewrite (proj2 (safe_decode_bytes (world3 d) b incoming errors) H).
  unfold bytes_decode in *. destruct b as [|x r]; [discriminate|].
  cbn [lookup world3]. rewrite fallback_is_utf8. reflexivity.
Qed.

Theorem world3_slug_alphabet d value incoming errors o :
  to_slug (world3 d) value incoming errors = COk o ->
  forallb slug_char o = true /\ no_double_hyphen o = true.
Proof. apply to_slug_alphabet. apply world3_fold_ascii_out. Qed.

Theorem world3_slug_idempotent d value incoming errors o incoming' errors' :
  to_slug (world3 d) value incoming errors = COk o ->
  to_slug (world3 d) (PStr o) incoming' errors' = COk o.
Proof. apply to_slug_idempotent; [apply world3_fold_ascii_out|apply world3_fold_ascii_id]. Qed.

(* to_slug of a str always succeeds *)
Theorem world3_slug_str_total d s incoming errors :
  exists o, to_slug (world3 d) (PStr s) incoming errors = COk o.
Proof. eexists. reflexivity. Qed.

(* ================= transcoding between the concrete codecs ================= *)

Lemma lookup3_lower_some name c : forallb is_ascii name = true -> lookup3 name = Some c -> lookup3 (py_lower name) = Some c.
Proof. intros Ha H. rewrite (lookup3_lower _ Ha). exact H. Qed.

(* decode with codec a, encode with codec b: what the transcoding branch computes *)
Lemma world3_transcode_eval d b incoming encoding errors cin cout t :
  b <> [] ->
  forallb is_ascii (resolve_incoming (world3 d) incoming) = true -> forallb is_ascii encoding = true ->
  lookup3 (resolve_incoming (world3 d) incoming) = Some cin -> lookup3 encoding = Some cout ->
  dec3 cin b errors = COk t ->
  transcode (world3 d) b incoming encoding errors = cmap PBytes (enc3 cout t errors).
Proof.
  intros Hb Hai Hae Hcin Hcout Hdec. unfold transcode, safe_decode, decode_with_fallback.
  rewrite resolve_some by (apply py_lower_nonempty; exact (lookup3_nonempty _ _ Hcin)).
  unfold bytes_decode. destruct b as [|x b']; [exfalso; apply Hb; reflexivity|].
  cbn [lookup dec world3]. rewrite (lookup3_lower_some _ _ Hai Hcin), Hdec. cbn [cbind].
  unfold str_encode. cbn [lookup enc world3]. rewrite (lookup3_lower_some _ _ Hae Hcout). reflexivity.
Qed.

(* safe_encode(bytes, incoming=a, encoding=b) = encode_b(decode_a(bytes)) when the lower-cased names differ *)
Theorem world3_transcodes d b incoming encoding errors cin cout t :
  b <> [] ->
  forallb is_ascii (resolve_incoming (world3 d) incoming) = true -> forallb is_ascii encoding = true ->
  py_lower encoding <> py_lower (resolve_incoming (world3 d) incoming) ->
  lookup3 (resolve_incoming (world3 d) incoming) = Some cin -> lookup3 encoding = Some cout ->
  dec3 cin b errors = COk t ->
  safe_encode (world3 d) (PBytes b) incoming encoding errors = cmap PBytes (enc3 cout t errors).
Proof.
  intros Hb Hai Hae Hne Hcin Hcout Hdec. rewrite safe_encode_transcodes by assumption.
  apply (world3_transcode_eval d b incoming encoding errors cin cout t); assumption.
Qed.

(* transcoding from a codec to itself, through any two names of it, is the identity on valid input —
   for the seven codecs without BOM *)
Lemma world3_transcode_same_codec d b incoming encoding errors c t :
  b <> [] -> all_bytes b = true ->
  forallb is_ascii (resolve_incoming (world3 d) incoming) = true -> forallb is_ascii encoding = true ->
  lookup3 (resolve_incoming (world3 d) incoming) = Some c -> lookup3 encoding = Some c ->
  canonical3 c = true ->
  dec3 c b strict_name = COk t ->
  transcode (world3 d) b incoming encoding errors = COk (PBytes b).
Proof.
  intros Hb Hall Hai Hae Hcin Hcout Hcan Hdec.
  rewrite (world3_transcode_eval d b incoming encoding errors c c t Hb Hai Hae Hcin Hcout).
  - pose proof (enc3_after_dec3 c b t Hcan Hall Hdec) as He.
    pose proof (world3_enc_policy_irrelevant d c t errors b He) as He'. change (enc3 c t errors = COk b) in He'.
    rewrite He'. reflexivity.
  - exact (world3_dec_policy_irrelevant d c b errors t Hdec).
Qed.

(* The "same codec" shortcut compares lower-cased NAMES.  Whenever it fires on valid input of a BOM-less
   codec it returns exactly what the transcoding would have returned. *)
Theorem world3_shortcut_sound d b incoming encoding errors c t :
  b <> [] -> all_bytes b = true ->
  forallb is_ascii (resolve_incoming (world3 d) incoming) = true -> forallb is_ascii encoding = true ->
  py_lower encoding = py_lower (resolve_incoming (world3 d) incoming) ->
  lookup3 encoding = Some c -> canonical3 c = true ->
  dec3 c b strict_name = COk t ->
  safe_encode (world3 d) (PBytes b) incoming encoding errors = COk (PBytes b) /\
  transcode (world3 d) b incoming encoding errors = COk (PBytes b).
Proof.
  intros Hb Hall Hai Hae Heq Hc Hcan Hdec. split.
  - apply safe_encode_bytes_same_codec_id. exact Heq.
  - assert (Hcin : lookup3 (resolve_incoming (world3 d) incoming) = Some c).
    { rewrite <- (lookup3_lower _ Hai), <- Heq, (lookup3_lower _ Hae). exact Hc. }
    apply (world3_transcode_same_codec d b incoming encoding errors c t); assumption.
Qed.

(* For 'utf-16' / 'utf-32' (BOM written, either byte order read) the shortcut is NOT what transcoding gives:
   transcoding re-encodes the same text with a native-order BOM *)
Theorem world3_shortcut_bom d b incoming encoding errors c t :
  b <> [] -> all_bytes b = true ->
  forallb is_ascii (resolve_incoming (world3 d) incoming) = true -> forallb is_ascii encoding = true ->
  lookup3 (resolve_incoming (world3 d) incoming) = Some c -> lookup3 encoding = Some c ->
  dec3 c b strict_name = COk t ->
  exists b', transcode (world3 d) b incoming encoding errors = COk (PBytes b') /\
             forall e, dec3 c b' e = COk t.
Proof.
  intros Hb Hall Hai Hae Hcin Hcout Hdec.
  destruct (enc3_dec3_roundtrip c t (dec3_strict_representable c b t Hall Hdec)) as (b' & He & Hd).
  exists b'. split; [|exact Hd].
  rewrite (world3_transcode_eval d b incoming encoding errors c c t Hb Hai Hae Hcin Hcout).
  - rewrite He. reflexivity.
  - exact (world3_dec_policy_irrelevant d c b errors t Hdec).
Qed.

(* names that differ after lower-casing but denote the same BOM-less codec ('utf-8' / 'utf8', 'latin-1' / 'l1'):
   safe_encode transcodes, and the result equals the input for valid input *)
Theorem world3_alias_transcode_identity d b incoming encoding errors c t :
  b <> [] -> all_bytes b = true ->
  forallb is_ascii (resolve_incoming (world3 d) incoming) = true -> forallb is_ascii encoding = true ->
  py_lower encoding <> py_lower (resolve_incoming (world3 d) incoming) ->
  lookup3 (resolve_incoming (world3 d) incoming) = Some c -> lookup3 encoding = Some c ->
  canonical3 c = true ->
  dec3 c b strict_name = COk t ->
  safe_encode (world3 d) (PBytes b) incoming encoding errors = COk (PBytes b).
Proof.
  intros Hb Hall Hai Hae Hne Hcin Hcout Hcan Hdec. rewrite safe_encode_transcodes by assumption.
  apply (world3_transcode_same_codec d b incoming encoding errors c t); assumption.
Qed.

(* ================= the round trip, codec by codec ================= *)
Lemma world3_roundtrip_utf8 d e t incoming0 errors :
  forallb is_ascii e = true -> lookup3 e = Some CUtf8 -> valid_text t = true ->
  exists b, safe_encode (world3 d) (PStr t) incoming0 e errors = COk (PBytes b) /\
            safe_decode (world3 d) (PBytes b) (Some e) errors = COk t.
Proof. intros Ha Hl Hr. exact (world3_roundtrip d e CUtf8 t incoming0 errors Ha Hl Hr). Qed.
Lemma world3_roundtrip_latin1 d e t incoming0 errors :
  forallb is_ascii e = true -> lookup3 e = Some CLatin1 -> forallb (fun x => x <? 256) t = true ->
  exists b, safe_encode (world3 d) (PStr t) incoming0 e errors = COk (PBytes b) /\
            safe_decode (world3 d) (PBytes b) (Some e) errors = COk t.
Proof. intros Ha Hl Hr. exact (world3_roundtrip d e CLatin1 t incoming0 errors Ha Hl Hr). Qed.
Lemma world3_roundtrip_ascii d e t incoming0 errors :
  forallb is_ascii e = true -> lookup3 e = Some CAscii -> forallb (fun x => x <? 128) t = true ->
  exists b, safe_encode (world3 d) (PStr t) incoming0 e errors = COk (PBytes b) /\
            safe_decode (world3 d) (PBytes b) (Some e) errors = COk t.
Proof. intros Ha Hl Hr. exact (world3_roundtrip d e CAscii t incoming0 errors Ha Hl Hr). Qed.
Lemma world3_roundtrip_utf16 d e t incoming0 errors :
  forallb is_ascii e = true -> lookup3 e = Some CUtf16 -> valid_text t = true ->
  exists b, safe_encode (world3 d) (PStr t) incoming0 e errors = COk (PBytes b) /\
            safe_decode (world3 d) (PBytes b) (Some e) errors = COk t.
Proof. intros Ha Hl Hr. exact (world3_roundtrip d e CUtf16 t incoming0 errors Ha Hl Hr). Qed.
Lemma world3_roundtrip_utf16le d e t incoming0 errors :
  forallb is_ascii e = true -> lookup3 e = Some CUtf16LE -> valid_text t = true ->
  exists b, safe_encode (world3 d) (PStr t) incoming0 e errors = COk (PBytes b) /\
            safe_decode (world3 d) (PBytes b) (Some e) errors = COk t.
Proof. intros Ha Hl Hr. exact (world3_roundtrip d e CUtf16LE t incoming0 errors Ha Hl Hr). Qed.
Lemma world3_roundtrip_utf16be d e t incoming0 errors :
  forallb is_ascii e = true -> lookup3 e = Some CUtf16BE -> valid_text t = true ->
  exists b, safe_encode (world3 d) (PStr t) incoming0 e errors = COk (PBytes b) /\
            safe_decode (world3 d) (PBytes b) (Some e) errors = COk t.
Proof. intros Ha Hl Hr. exact (world3_roundtrip d e CUtf16BE t incoming0 errors Ha Hl Hr). Qed.
Lemma world3_roundtrip_utf32 d e t incoming0 errors :
  forallb is_ascii e = true -> lookup3 e = Some CUtf32 -> valid_text t = true ->
  exists b, safe_encode (world3 d) (PStr t) incoming0 e errors = COk (PBytes b) /\
            safe_decode (world3 d) (PBytes b) (Some e) errors = COk t.
Proof. intros Ha Hl Hr. exact (world3_roundtrip d e CUtf32 t incoming0 errors Ha Hl Hr). Qed.
Lemma world3_roundtrip_utf32le d e t incoming0 errors :
  forallb is_ascii e = true -> lookup3 e = Some CUtf32LE -> valid_text t = true ->
  exists b, safe_encode (world3 d) (PStr t) incoming0 e errors = COk (PBytes b) /\
            safe_decode (world3 d) (PBytes b) (Some e) errors = COk t.
Proof. intros Ha Hl Hr. exact (world3_roundtrip d e CUtf32LE t incoming0 errors Ha Hl Hr). Qed.
Lemma world3_roundtrip_utf32be d e t incoming0 errors :
  forallb is_ascii e = true -> lookup3 e = Some CUtf32BE -> valid_text t = true ->
  exists b, safe_encode (world3 d) (PStr t) incoming0 e errors = COk (PBytes b) /\
            safe_decode (world3 d) (PBytes b) (Some e) errors = COk t.
Proof. intros Ha Hl Hr. exact (world3_roundtrip d e CUtf32BE t incoming0 errors Ha Hl Hr). Qed.
Lemma world3_roundtrip_cp1252 d e t incoming0 errors :
  forallb is_ascii e = true -> lookup3 e = Some CCp1252 -> charmap_repr cp1252_table t = true ->
  exists b, safe_encode (world3 d) (PStr t) incoming0 e errors = COk (PBytes b) /\
            safe_decode (world3 d) (PBytes b) (Some e) errors = COk t.
Proof. intros Ha Hl Hr. exact (world3_roundtrip d e CCp1252 t incoming0 errors Ha Hl Hr). Qed.
Lemma world3_roundtrip_koi8r d e t incoming0 errors :
  forallb is_ascii e = true -> lookup3 e = Some CKoi8R -> charmap_repr koi8r_table t = true ->
  exists b, safe_encode (world3 d) (PStr t) incoming0 e errors = COk (PBytes b) /\
            safe_decode (world3 d) (PBytes b) (Some e) errors = COk t.
Proof. intros Ha Hl Hr. exact (world3_roundtrip d e CKoi8R t incoming0 errors Ha Hl Hr). Qed.
