(* Proofs/C16_Closed.v — the abstract theorems instantiated with the concrete world of
   Model/C16_Codecs.v: no contract premises are left. *)
From Coq Require Import String.
Require Import OV.Base.Bytes OV.Base.PyInt OV.Base.Str OV.Base.Regex OV.Base.C16_Py.
Require Import OV.Gen.C16_Aliases OV.Gen.C16_Fold OV.Gen.C16_Slug OV.Gen.C16_Code.
Require Import OV.Model.C16 OV.Model.C16_Codecs.
Require Import OV.Proofs.C16 OV.Proofs.C16_Slug OV.Proofs.C16_Codecs.
Open Scope N_scope.

(* round trip through any ASCII spelling, in any letter case, of a name of one of the three
   codecs, for every text that codec can represent, under any error policy *)
Theorem world3_roundtrip d e c t incoming0 errors :
  forallb is_ascii e = true ->
  lookup3 e = Some c ->
  representable3 c t = true ->
  exists b, safe_encode (world3 d) (PStr t) incoming0 e errors = COk (PBytes b) /\
            safe_decode (world3 d) (PBytes b) (Some e) errors = COk t.
Proof.
  intros Ha Hl Hr.
  apply (encode_decode_roundtrip (world3 d) e c t incoming0 errors).
  - exact (lookup3_nonempty e c Hl).
  - exact Hl.
  - exact (lookup3_lower e Ha).
  - apply world3_enc_policy_irrelevant.
  - apply world3_dec_policy_irrelevant.
  - apply world3_dec_empty.
  - apply world3_represents. exact Hr.
Qed.

(* to_utf8 on str is the UTF-8 encoder (strict); on surrogate-free text it succeeds and the
   UTF-8 decoder gives the text back *)
Theorem world3_to_utf8 d s :
  to_utf8 (world3 d) (PStr s) = cmap PBytes (utf8_enc Strict s) /\
  (valid_text s = true -> exists b, to_utf8 (world3 d) (PStr s) = COk (PBytes b) /\ utf8_dec Strict b = COk s).
Proof.
  assert (H : to_utf8 (world3 d) (PStr s) = cmap PBytes (utf8_enc Strict s)).
  { unfold to_utf8, str_encode. cbn [lookup world3]. rewrite to_utf8_is_utf8. reflexivity. }
  split; [exact H|]. intros Hv. destruct (utf8_roundtrip s Hv) as (b & He & Hd).
  exists b. rewrite H, He. split; [reflexivity|apply Hd].
Qed.

(* the fallback of safe_decode is the UTF-8 decoder *)
Theorem world3_safe_decode_fallback d b incoming errors :
  bytes_decode (world3 d) b (resolve_incoming (world3 d) incoming) errors = CExn EUnicodeDecodeError ->
  safe_decode (world3 d) (PBytes b) incoming errors = utf8_dec (policy_of errors) b.
Proof.
  intros H. rewrite (proj2 (safe_decode_bytes (world3 d) b incoming errors) H).
  unfold bytes_decode in *. destruct b as [|x r]; [discriminate|].
  cbn [lookup world3]. rewrite fallback_is_utf8. reflexivity.
Qed.

Theorem world3_slug_alphabet d value incoming errors o :
  to_slug (world3 d) value incoming errors = COk o ->
  forallb slug_char o = true /\ no_double_hyphen o = true.
Proof. apply to_slug_alphabet. apply world3_fold_ascii_out. Qed.

Theorem world3_slug_idempotent d value incoming errors o incoming' errors' :
  to_slug (world3 d) value incoming errors = COk o ->
  to_slug (world3 d) (PStr o) incoming' errors' = COk o.
Proof. apply to_slug_idempotent; [apply world3_fold_ascii_out|apply world3_fold_ascii_id]. Qed.

(* to_slug of a str always succeeds *)
Theorem world3_slug_str_total d s incoming errors :
  exists o, to_slug (world3 d) (PStr s) incoming errors = COk o.
Proof. eexists. reflexivity. Qed.
