(* Proofs/C04_WholeR.v — the universal whole-function theorems, one per rendering. *)
From Coq Require Import String.
Require Import OV.Base.Bytes OV.Base.PyInt OV.Base.Str OV.Base.Regex OV.Base.C04_Tmpl.
Require Import OV.Gen.Unicode OV.Gen.C04_Sanitize OV.Gen.C04_Concrete OV.Model.C04 OV.Model.C04_Spec.
Require Import OV.Proofs.C11_Regex OV.Proofs.C04_Regex OV.Proofs.C04 OV.Proofs.C04_Quote OV.Proofs.C04_Abs OV.Proofs.C04_Render OV.Proofs.C04_Whole.
Open Scope N_scope.

(* the rendering derivations end in an arbitrary [post]: its first character is constrained by a hypothesis *)
Ltac solve_hd ::=
  lazymatch goal with
  | |- hd_notin _ [] = true => reflexivity
  | |- hd_notin _ (_ ++ _) = true =>
      first [ match goal with H : hd_notin _ _ = true |- _ => exact H end
            | eapply hd_notin_run1; [solve_allin | solve_len | vmr]
            | eapply hd_notin_run; [solve_allin | vmr | solve_hd] ]
  | |- hd_notin _ (?c :: _) = true =>
      tryif is_var c
      then (match goal with H : cmem c _ = true |- _ => eapply hd_notin_sym; [exact H | vmr] end)
      else (cbn [hd_notin]; vmr)
  | |- hd_notin _ ?x = true => match goal with H : hd_notin _ x = true |- _ => exact H end
  end.

(* surrounding text: any code points except quotes, '-', '<', '=', '>' *)
Definition ctx_char (c : N) : bool :=
  valid_cp c && negb (is_quote c) && negb (c =? 45) && negb ((60 <=? c) && (c <=? 62)).
Definition ctx_cs : cset := [(0, 33); (35, 38); (40, 44); (46, 59); (63, 1114111)].
Lemma ctx_in c : ctx_char c = true -> cmem c ctx_cs = true.
Proof. unfold ctx_char, valid_cp, is_quote, ctx_cs. cbn [cmem]. intros H. lia. Qed.

Definition kcs_of (k : str) : list cset := map (ci_lookup gen_ci_table) k.
Definition pats (k : str) : list re := gen_tp2 k ++ gen_tp1 k ++ gen_tpw k.
Definition dig_cs : cset := [(48, 57)].

Fixpoint check_others_go (kcs : list cset) (A : asub) (j i : nat) (l : list re) : bool :=
  match l with
  | [] => true
  | r :: t => (if Nat.eqb i j then true else negb (may_match_somewhere kcs 200 r A)) && check_others_go kcs A j (S i) t
  end.
(* every pattern of the key except the j-th cannot match anywhere in a message of shape A *)
Definition check_others (k : str) (A : asub) (j : nat) : bool := check_others_go (kcs_of k) A j 0 (pats k).
(* the j-th cannot match from inside pre, nor anywhere in post *)
Definition check_self (k : str) (AR : asub) (j : nat) : bool :=
  match nth_error (pats k) j with
  | Some rj => negb (am (kcs_of k) 200 rj (ARun ctx_cs true :: AR ++ [ARun ctx_cs false]) (fun _ => true)) &&
               negb (may_match_somewhere (kcs_of k) 200 rj [ARun ctx_cs false])
  | None => false
  end.

Lemma check_self_spec k AR j rj : check_self k AR j = true -> nth_error (pats k) j = Some rj ->
  am (kcs_of k) 200 rj (ARun ctx_cs true :: AR ++ [ARun ctx_cs false]) (fun _ => true) = false /\
  may_match_somewhere (kcs_of k) 200 rj [ARun ctx_cs false] = false.
Proof.
  unfold check_self. intros H E. rewrite E in H. apply andb_true_iff in H. destruct H as [H1 H2].
  apply negb_true_iff in H1, H2. split; assumption.
Qed.

Lemma map_fst_tagged k s : map fst (tagged k s) = pats k.
Proof. unfold tagged, pats. rewrite !map_app, !map_map. cbn [fst]. rewrite !map_id. reflexivity. Qed.

Lemma check_others_go_spec kcs A j : forall l i0, check_others_go kcs A j i0 l = true ->
  forall i r, nth_error l i = Some r -> (i0 + i)%nat <> j -> may_match_somewhere kcs 200 r A = false.
Proof.
  induction l as [|r0 l IH]; intros i0 H i r Hi Hne; [destruct i; discriminate|].
  cbn [check_others_go] in H. apply andb_true_iff in H. destruct H as [H1 H2]. destruct i as [|i].
  - cbn in Hi. inversion Hi; subst. replace (Nat.eqb i0 j) with false in H1 by (symmetry; apply Nat.eqb_neq; lia).
    apply negb_true_iff in H1. exact H1.
  - apply (IH (S i0) H2 i r Hi). lia.
Qed.

Lemma others_none k A j x secret : k <> [] -> check_others k A j = true -> conc gen_ci_table k A x ->
  forall i r t, nth_error (tagged k secret) i = Some (r, t) -> i <> j -> re_sub r t x = x.
Proof.
  intros Hk Hc HA i r t Hi Hne. apply re_sub_none. intros a b q E.
  assert (Hr : nth_error (pats k) i = Some r).
  { rewrite <- (map_fst_tagged k secret). rewrite nth_error_map, Hi. reflexivity. }
  pose proof (check_others_go_spec _ _ _ _ 0%nat Hc i r Hr Hne) as Hm.
  exact (abs_no_match gen_ci_table k Hk 200 r A x Hm HA a b q E).
Qed.

Lemma gen_key_ok k : In k gen_keys -> k <> [] /\ forallb key_char k = true.
Proof.
  intros Hin. destruct keys_cover_spec as [_ H]. rewrite Forall_forall in H. specialize (H k Hin).
  unfold key_ok in H. apply andb_true_iff in H. destruct H as [H1 H2]. split; [|exact H2].
  intros ->. discriminate.
Qed.

Lemma ctx_all s : forallb ctx_char s = true -> all_in ctx_cs s = true.
Proof. apply all_in_impl. exact ctx_in. Qed.

(* ====================================================================== *)
(* k = v (bare)                                                            *)
(* ====================================================================== *)
Definition shapeR_bare (kcs : list cset) : asub :=
  [AKey kcs; ARun dig_cs false; ARun py_space false; AOne [(61, 61)]; ARun py_space false; ARun cs_bare true].
Definition shape_of (AR : asub) : asub := ARun ctx_cs false :: AR ++ [ARun ctx_cs false].

Lemma checks_bare : forallb (fun k => check_others k (shape_of (shapeR_bare (kcs_of k))) 10 && check_self k (shapeR_bare (kcs_of k)) 10) gen_keys = true.
Proof. vm_cast_no_check (eq_refl true). Qed.

Definition msg_bare (pre K d w1 w2 x post : str) : str := pre ++ K ++ d ++ w1 ++ 61 :: w2 ++ x ++ post.

Lemma whole_bare_step k K d w1 w2 v mask pre post :
  In k gen_keys -> casing_of k K -> forallb ascii_digit d = true ->
  forallb is_space w1 = true -> forallb is_space w2 = true ->
  forallb bare_char v = true -> (1 <= length v)%nat -> forallb bare_char mask = true -> (1 <= length mask)%nat ->
  forallb ctx_char pre = true -> forallb ctx_char post = true -> hd_notin cs_bare post = true ->
  only_at gen_ci_table k (msg_bare pre K d w1 w2 v post) [length pre] = true ->
  only_at gen_ci_table k (msg_bare pre K d w1 w2 mask post) [length pre] = true ->
  others_absent k (msg_bare pre K d w1 w2 v post) = true ->
  others_absent k (msg_bare pre K d w1 w2 mask post) = true ->
  mask_password (msg_bare pre K d w1 w2 v post) mask = msg_bare pre K d w1 w2 mask post.
Proof.
  intros Hin Hcase Hd Hw1 Hw2 Hv Hlv Hmk Hlm Hpre Hpost Hhd Hov Hom Hav Ham.
  destruct (gen_key_ok k Hin) as [Hne Hk].
  pose proof (casing_ok_of k K Hk Hcase) as HK. pose proof (digits_in d Hd) as Hd'.
  pose proof (spaces_in _ Hw1) as Hw1'. pose proof (spaces_in _ Hw2) as Hw2'.
  pose proof (all_in_impl _ _ _ bare_in Hv) as Hv'. pose proof (all_in_impl _ _ _ bare_in Hmk) as Hmk'.
  pose proof (ctx_all _ Hpre) as Hpre'. pose proof (ctx_all _ Hpost) as Hpost'.
  pose proof checks_bare as Hch. rewrite forallb_forall in Hch. specialize (Hch k Hin).
  apply andb_true_iff in Hch. destruct Hch as [Hco Hcs].
  (* the concretisations *)
  assert (Parts : forall x, forallb bare_char x = true -> (1 <= length x)%nat ->
            only_at gen_ci_table k (msg_bare pre K d w1 w2 x post) [length pre] = true ->
            let S := K ++ d ++ w1 ++ 61 :: w2 ++ x ++ post in
            conc gen_ci_table k (shape_of (shapeR_bare (kcs_of k))) (pre ++ S) /\
            (forall a' b', pre = a' ++ b' -> b' <> [] -> conc gen_ci_table k (ARun ctx_cs true :: shapeR_bare (kcs_of k) ++ [ARun ctx_cs false]) (b' ++ S)) /\
            conc gen_ci_table k [ARun ctx_cs false] post).
  { intros x Hx Hlx Hox. pose proof (all_in_impl _ _ _ bare_in Hx) as Hx'.
    pose proof (conc_parts gen_ci_table k Hne ctx_cs false pre
                  [(AKey (kcs_of k), K); (ARun dig_cs false, d); (ARun py_space false, w1); (AOne [(61, 61)], [61]);
                   (ARun py_space false, w2); (ARun cs_bare true, x)] ctx_cs false post (msg_bare pre K d w1 w2 x post)) as P.
    cbn zeta in P. apply P; clear P.
    - reflexivity.
    - repeat constructor; cbn [fst snd]; try assumption; try (intros _; destruct x; [inversion Hlx|discriminate]); try discriminate.
      exists 61. split; reflexivity.
    - intros a b E Hp. pose proof (only_at_spec _ _ _ _ Hox a b E Hp) as Hi. cbn [key_offsets fst snd is_key app Nat.add]. exact Hi. }
  destruct (Parts v Hv Hlv Hov) as (Cv & Cpre & Cpost). destruct (Parts mask Hmk Hlm Hom) as (Cm & _ & _).
  unfold msg_bare.
  apply (mask_password_one_key k _ _ mask Hin); [apply (key_occurs k K pre _ Hk Hcase)|exact Hav|exact Ham|].
  apply (sub_all_one (tagged k mask) 10 _ _ (gen_tp1_0 k) (t1 mask)); [reflexivity| | |].
  - (* the designated pattern *)
    assert (Hrj : nth_error (pats k) 10 = Some (gen_tp1_0 k)) by reflexivity.
    destruct (check_self_spec k _ 10 _ Hcs Hrj) as [Hs1 Hs2].
    replace (pre ++ K ++ d ++ w1 ++ 61 :: w2 ++ mask ++ post) with (pre ++ (K ++ d ++ w1 ++ 61 :: w2) ++ mask ++ post) by norm_app2.
    eapply (gm_sub_one_ctx gen_ci_table (gen_tp1_0 k) pre _ (K ++ d ++ w1 ++ 61 :: w2) v post mask).
    + cbv [gen_tp1_0]. gm_go.
    + norm_app2.
    + norm_app2.
    + destruct v; [inversion Hlv|]. destruct K, d, w1; discriminate.
    + cbn [gget Nat.eqb app]. reflexivity.
    + norm_app2.
    + intros a' b' q E Hb. apply (am_none gen_ci_table k 200 _ _ _ q Hne Hs1). apply (Cpre a' b' E Hb).
    + intros a' b' q E. exact (abs_no_match gen_ci_table k Hne 200 _ _ post Hs2 Cpost a' b' q E).
  - intros i r t Hi Hlt. apply (others_none k _ 10 _ mask Hne Hco Cv i r t Hi). apply Nat.lt_neq. exact Hlt.
  - intros i r t Hi Hlt. apply (others_none k _ 10 _ mask Hne Hco Cm i r t Hi). apply not_eq_sym, Nat.lt_neq. exact Hlt.
Qed.

(* ---------- the common assembly ---------- *)
Lemma whole_frame k j rj tj AR m m1 mask :
  In k gen_keys -> nth_error (tagged k mask) j = Some (rj, tj) ->
  check_others k (shape_of AR) j = true ->
  conc gen_ci_table k (shape_of AR) m -> conc gen_ci_table k (shape_of AR) m1 ->
  re_sub rj tj m = m1 ->
  occursb k (lower m) = true -> others_absent k m = true -> others_absent k m1 = true ->
  mask_password m mask = m1.
Proof.
  intros Hin Hj Hco Cv Cm Hd Hocc Hav Ham. destruct (gen_key_ok k Hin) as [Hne Hk].
  apply (mask_password_one_key k _ _ mask Hin Hocc Hav Ham).
  apply (sub_all_one (tagged k mask) j _ _ rj tj Hj Hd).
  - intros i r t Hi Hlt. apply (others_none k _ j _ mask Hne Hco Cv i r t Hi). apply Nat.lt_neq. exact Hlt.
  - intros i r t Hi Hlt. apply (others_none k _ j _ mask Hne Hco Cm i r t Hi). apply not_eq_sym, Nat.lt_neq. exact Hlt.
Qed.

Definition nomatch_pre (r : re) (pre S : str) : Prop :=
  forall a' b' q, pre = a' ++ b' -> b' <> [] -> match_at r (b' ++ S) q = None.
Definition nomatch_post (r : re) (post : str) : Prop :=
  forall a' b' q, post = a' ++ b' -> match_at r b' q = None.

Lemma self_nomatch k AR j rj pre S post : In k gen_keys ->
  check_self k AR j = true -> nth_error (pats k) j = Some rj ->
  (forall a' b', pre = a' ++ b' -> b' <> [] -> conc gen_ci_table k (ARun ctx_cs true :: AR ++ [ARun ctx_cs false]) (b' ++ S)) ->
  conc gen_ci_table k [ARun ctx_cs false] post ->
  nomatch_pre rj pre S /\ nomatch_post rj post.
Proof.
  intros Hin Hcs Hrj Cpre Cpost. destruct (gen_key_ok k Hin) as [Hne _].
  destruct (check_self_spec k _ j _ Hcs Hrj) as [Hs1 Hs2]. split.
  - intros a' b' q E Hb. apply (am_none gen_ci_table k 200 _ _ _ q Hne Hs1). apply (Cpre a' b' E Hb).
  - intros a' b' q E. exact (abs_no_match gen_ci_table k Hne 200 _ _ post Hs2 Cpost a' b' q E).
Qed.

Ltac valid_segs Hl :=
  repeat constructor; cbn [fst snd]; try assumption; try discriminate;
  try (eexists; split; [reflexivity|first [assumption|reflexivity]]).

(* ====================================================================== *)
(* k 'v'  (white space, then a quoted value)             _FORMAT_PATTERNS_2[3] *)
(* ====================================================================== *)
Definition shapeR_kq (kcs : list cset) : asub :=
  [AKey kcs; ARun dig_cs false; ARun py_space true; AOne cs_quotes; ARun cs_quoted false; AOne cs_quotes].
Lemma checks_kq : forallb (fun k => check_others k (shape_of (shapeR_kq (kcs_of k))) 3 && check_self k (shapeR_kq (kcs_of k)) 3) gen_keys = true.
Proof. vm_cast_no_check (eq_refl true). Qed.

Definition msg_kq (pre K d w1 : str) (q1 : N) (x : str) (q2 : N) (post : str) : str := pre ++ K ++ d ++ w1 ++ q1 :: x ++ q2 :: post.

Lemma whole_kq_step k K d w1 q1 q2 v mask pre post :
  In k gen_keys -> casing_of k K -> forallb ascii_digit d = true ->
  forallb is_space w1 = true -> (1 <= length w1)%nat -> is_quote q1 = true -> is_quote q2 = true ->
  forallb quoted_char v = true -> forallb quoted_char mask = true ->
  forallb ctx_char pre = true -> forallb ctx_char post = true ->
  only_at gen_ci_table k (msg_kq pre K d w1 q1 v q2 post) [length pre] = true ->
  only_at gen_ci_table k (msg_kq pre K d w1 q1 mask q2 post) [length pre] = true ->
  others_absent k (msg_kq pre K d w1 q1 v q2 post) = true ->
  others_absent k (msg_kq pre K d w1 q1 mask q2 post) = true ->
  mask_password (msg_kq pre K d w1 q1 v q2 post) mask = msg_kq pre K d w1 q1 mask q2 post.
Proof.
  intros Hin Hcase Hd Hw1 Hl1 Hq1 Hq2 Hv Hmk Hpre Hpost Hov Hom Hav Ham.
  destruct (gen_key_ok k Hin) as [Hne Hk].
  pose proof (casing_ok_of k K Hk Hcase) as HK. pose proof (digits_in d Hd) as Hd'.
  pose proof (spaces_in _ Hw1) as Hw1'. pose proof (quote_in _ Hq1) as Hq1'. pose proof (quote_in _ Hq2) as Hq2'.
  pose proof (all_in_impl _ _ _ quoted_in Hv) as Hv'. pose proof (all_in_impl _ _ _ quoted_in Hmk) as Hmk'.
  pose proof (ctx_all _ Hpre) as Hpre'. pose proof (ctx_all _ Hpost) as Hpost'.
  pose proof checks_kq as Hch. rewrite forallb_forall in Hch. specialize (Hch k Hin).
  apply andb_true_iff in Hch. destruct Hch as [Hco Hcs].
  assert (Parts : forall x, all_in cs_quoted x = true ->
            only_at gen_ci_table k (msg_kq pre K d w1 q1 x q2 post) [length pre] = true ->
            let S := K ++ d ++ w1 ++ q1 :: x ++ q2 :: post in
            conc gen_ci_table k (shape_of (shapeR_kq (kcs_of k))) (pre ++ S) /\
            (forall a' b', pre = a' ++ b' -> b' <> [] -> conc gen_ci_table k (ARun ctx_cs true :: shapeR_kq (kcs_of k) ++ [ARun ctx_cs false]) (b' ++ S)) /\
            conc gen_ci_table k [ARun ctx_cs false] post).
  { intros x Hx' Hox.
    pose proof (conc_parts gen_ci_table k Hne ctx_cs false pre
                  [(AKey (kcs_of k), K); (ARun dig_cs false, d); (ARun py_space true, w1); (AOne cs_quotes, [q1]);
                   (ARun cs_quoted false, x); (AOne cs_quotes, [q2])] ctx_cs false post (msg_kq pre K d w1 q1 x q2 post)) as P.
    cbn zeta in P. apply P; clear P.
    - reflexivity.
    - valid_segs Hl1. intros _. destruct w1; [inversion Hl1|discriminate].
    - intros a b E Hp. pose proof (only_at_spec _ _ _ _ Hox a b E Hp) as Hi. cbn [key_offsets fst snd is_key app Nat.add]. exact Hi. }
  destruct (Parts v Hv' Hov) as (Cv & Cpre & Cpost). destruct (Parts mask Hmk' Hom) as (Cm & _ & _).
  assert (Hrj : nth_error (pats k) 3 = Some (gen_tp2_3 k)) by reflexivity.
  destruct (self_nomatch k _ 3 _ pre _ post Hin Hcs Hrj Cpre Cpost) as [Npre Npost].
  unfold msg_kq.
  apply (whole_frame k 3 (gen_tp2_3 k) (t2 mask) (shapeR_kq (kcs_of k)) _ _ mask Hin eq_refl Hco Cv Cm);
    [|apply (key_occurs k K pre _ Hk Hcase)|exact Hav|exact Ham].
  replace (pre ++ K ++ d ++ w1 ++ q1 :: mask ++ q2 :: post) with (pre ++ (K ++ d ++ w1 ++ [q1]) ++ mask ++ [q2] ++ post) by norm_app2.
  eapply (gm_sub_two_ctx gen_ci_table (gen_tp2_3 k) pre _ (K ++ d ++ w1 ++ [q1]) v [q2] post mask);
    [cbv [gen_tp2_3]; gm_go|norm_app2|norm_app2| |cbn [gget Nat.eqb app]; reflexivity|norm_app2
    |cbn [gget Nat.eqb app]; reflexivity|norm_app2|norm_app2|exact Npre|exact Npost].
  destruct K, d, w1; discriminate.
Qed.

(* ====================================================================== *)
(* <k>v</k>                                              _FORMAT_PATTERNS_2[5] *)
(* ====================================================================== *)
Definition shapeR_xml (kcs : list cset) : asub :=
  [AOne [(60, 60)]; AKey kcs; ARun dig_cs false; AOne [(62, 62)]; ARun cs_xml false; AOne [(60, 60)]; AOne [(47, 47)];
   AKey kcs; ARun dig_cs false; AOne [(62, 62)]].
Lemma checks_xml : forallb (fun k => check_others k (shape_of (shapeR_xml (kcs_of k))) 5 && check_self k (shapeR_xml (kcs_of k)) 5) gen_keys = true.
Proof. vm_cast_no_check (eq_refl true). Qed.

Definition msg_xml (pre K d x K' d' post : str) : str := pre ++ 60 :: K ++ d ++ 62 :: x ++ 60 :: 47 :: K' ++ d' ++ 62 :: post.
Definition xml_offsets (pre K d x : str) : list nat :=
  [(length pre + 1)%nat; (length pre + 1 + length K + length d + 1 + length x + 2)%nat].

Lemma whole_xml_step k K d K' d' v mask pre post :
  In k gen_keys -> casing_of k K -> forallb ascii_digit d = true -> casing_of k K' -> forallb ascii_digit d' = true ->
  forallb xml_char v = true -> forallb xml_char mask = true ->
  forallb ctx_char pre = true -> forallb ctx_char post = true ->
  only_at gen_ci_table k (msg_xml pre K d v K' d' post) (xml_offsets pre K d v) = true ->
  only_at gen_ci_table k (msg_xml pre K d mask K' d' post) (xml_offsets pre K d mask) = true ->
  others_absent k (msg_xml pre K d v K' d' post) = true ->
  others_absent k (msg_xml pre K d mask K' d' post) = true ->
  mask_password (msg_xml pre K d v K' d' post) mask = msg_xml pre K d mask K' d' post.
Proof.
  intros Hin Hcase Hd Hcase2 Hd2 Hv Hmk Hpre Hpost Hov Hom Hav Ham.
  destruct (gen_key_ok k Hin) as [Hne Hk].
  pose proof (casing_ok_of k K Hk Hcase) as HK. pose proof (digits_in d Hd) as Hd'.
  pose proof (casing_ok_of k K' Hk Hcase2) as HK2. pose proof (digits_in d' Hd2) as Hd2'.
  pose proof (all_in_impl _ _ _ xml_in Hv) as Hv'. pose proof (all_in_impl _ _ _ xml_in Hmk) as Hmk'.
  pose proof (ctx_all _ Hpre) as Hpre'. pose proof (ctx_all _ Hpost) as Hpost'.
  pose proof checks_xml as Hch. rewrite forallb_forall in Hch. specialize (Hch k Hin).
  apply andb_true_iff in Hch. destruct Hch as [Hco Hcs].
  assert (Parts : forall x, all_in cs_xml x = true ->
            only_at gen_ci_table k (msg_xml pre K d x K' d' post) (xml_offsets pre K d x) = true ->
            let S := 60 :: K ++ d ++ 62 :: x ++ 60 :: 47 :: K' ++ d' ++ 62 :: post in
            conc gen_ci_table k (shape_of (shapeR_xml (kcs_of k))) (pre ++ S) /\
            (forall a' b', pre = a' ++ b' -> b' <> [] -> conc gen_ci_table k (ARun ctx_cs true :: shapeR_xml (kcs_of k) ++ [ARun ctx_cs false]) (b' ++ S)) /\
            conc gen_ci_table k [ARun ctx_cs false] post).
  { intros x Hx' Hox.
    pose proof (conc_parts gen_ci_table k Hne ctx_cs false pre
                  [(AOne [(60, 60)], [60]); (AKey (kcs_of k), K); (ARun dig_cs false, d); (AOne [(62, 62)], [62]); (ARun cs_xml false, x);
                   (AOne [(60, 60)], [60]); (AOne [(47, 47)], [47]); (AKey (kcs_of k), K'); (ARun dig_cs false, d'); (AOne [(62, 62)], [62])]
                  ctx_cs false post (msg_xml pre K d x K' d' post)) as P.
    cbn zeta in P. apply P; clear P.
    - reflexivity.
    - valid_segs Hne.
    - intros a b E Hp. pose proof (only_at_spec _ _ _ _ Hox a b E Hp) as Hi. cbn [key_offsets fst snd is_key app].
      clear - Hi. unfold xml_offsets in Hi. destruct Hi as [Hi|[Hi|[]]]; [left|right; left]; rewrite <- Hi; cbn [length]; lia. }
  destruct (Parts v Hv' Hov) as (Cv & Cpre & Cpost). destruct (Parts mask Hmk' Hom) as (Cm & _ & _).
  assert (Hrj : nth_error (pats k) 5 = Some (gen_tp2_5 k)) by reflexivity.
  destruct (self_nomatch k _ 5 _ pre _ post Hin Hcs Hrj Cpre Cpost) as [Npre Npost].
  unfold msg_xml.
  apply (whole_frame k 5 (gen_tp2_5 k) (t2 mask) (shapeR_xml (kcs_of k)) _ _ mask Hin eq_refl Hco Cv Cm);
    [| |exact Hav|exact Ham].
  2:{ replace (pre ++ 60 :: K ++ d ++ 62 :: v ++ 60 :: 47 :: K' ++ d' ++ 62 :: post)
        with ((pre ++ [60]) ++ K ++ (d ++ 62 :: v ++ 60 :: 47 :: K' ++ d' ++ 62 :: post)) by norm_app2.
      apply (key_occurs k K _ _ Hk Hcase). }
  - replace (pre ++ 60 :: K ++ d ++ 62 :: mask ++ 60 :: 47 :: K' ++ d' ++ 62 :: post)
      with (pre ++ (60 :: K ++ d ++ [62]) ++ mask ++ (60 :: 47 :: K' ++ d' ++ [62]) ++ post) by norm_app2.
    eapply (gm_sub_two_ctx gen_ci_table (gen_tp2_5 k) pre _ (60 :: K ++ d ++ [62]) v (60 :: 47 :: K' ++ d' ++ [62]) post mask);
      [cbv [gen_tp2_5]; gm_go|norm_app2|norm_app2|discriminate|cbn [gget Nat.eqb app]; reflexivity|norm_app2
      |cbn [gget Nat.eqb app]; reflexivity|norm_app2|norm_app2|exact Npre|exact Npost].
Qed.

(* ====================================================================== *)
(* k --flag v                                            _FORMAT_PATTERNS_2[9] *)
(* ====================================================================== *)
Definition shapeR_cmd2 (kcs : list cset) : asub :=
  [AKey kcs; ARun dig_cs false; ARun py_space false; AOne [(45, 45)]; ARun [(45, 45)] false; ARun cs_flag true;
   ARun py_space true; ARun cs_nonspace true; ARun py_space false].
Lemma checks_cmd2 : forallb (fun k => check_others k (shape_of (shapeR_cmd2 (kcs_of k))) 9 && check_self k (shapeR_cmd2 (kcs_of k)) 9) gen_keys = true.
Proof. vm_cast_no_check (eq_refl true). Qed.

Definition msg_cmd2 (pre K d w1 dash fl w2 x w3 post : str) : str := pre ++ K ++ d ++ w1 ++ 45 :: dash ++ fl ++ w2 ++ x ++ w3 ++ post.

Lemma whole_cmd2_step k K d w1 dash fl w2 w3 v mask pre post :
  In k gen_keys -> casing_of k K -> forallb ascii_digit d = true ->
  forallb is_space w1 = true -> (dash = [] \/ dash = [45]) -> all_in cs_flag fl = true -> (1 <= length fl)%nat ->
  forallb is_space w2 = true -> (1 <= length w2)%nat -> forallb is_space w3 = true ->
  forallb nonspace_char v = true -> (1 <= length v)%nat -> forallb nonspace_char mask = true -> (1 <= length mask)%nat ->
  forallb ctx_char pre = true -> forallb ctx_char post = true ->
  hd_notin cs_nonspace (w3 ++ post) = true -> hd_notin py_space post = true ->
  only_at gen_ci_table k (msg_cmd2 pre K d w1 dash fl w2 v w3 post) [length pre] = true ->
  only_at gen_ci_table k (msg_cmd2 pre K d w1 dash fl w2 mask w3 post) [length pre] = true ->
  others_absent k (msg_cmd2 pre K d w1 dash fl w2 v w3 post) = true ->
  others_absent k (msg_cmd2 pre K d w1 dash fl w2 mask w3 post) = true ->
  mask_password (msg_cmd2 pre K d w1 dash fl w2 v w3 post) mask = msg_cmd2 pre K d w1 dash fl w2 mask w3 post.
Proof.
  intros Hin Hcase Hd Hw1 Hdash Hfl Hlf Hw2 Hl2 Hw3 Hv Hlv Hmk Hlm Hpre Hpost Hh1 Hh2 Hov Hom Hav Ham.
  destruct (gen_key_ok k Hin) as [Hne Hk].
  pose proof (casing_ok_of k K Hk Hcase) as HK. pose proof (digits_in d Hd) as Hd'.
  pose proof (spaces_in _ Hw1) as Hw1'. pose proof (spaces_in _ Hw2) as Hw2'. pose proof (spaces_in _ Hw3) as Hw3'.
  assert (Hdash' : all_in [(45, 45)] dash = true) by (destruct Hdash as [-> | ->]; reflexivity).
  assert (Hdl : (length dash <= 1)%nat) by (destruct Hdash as [-> | ->]; cbn; repeat constructor).
  pose proof (all_in_impl _ _ _ nonspace_in Hv) as Hv'. pose proof (all_in_impl _ _ _ nonspace_in Hmk) as Hmk'.
  pose proof (ctx_all _ Hpre) as Hpre'. pose proof (ctx_all _ Hpost) as Hpost'.
  pose proof checks_cmd2 as Hch. rewrite forallb_forall in Hch. specialize (Hch k Hin).
  apply andb_true_iff in Hch. destruct Hch as [Hco Hcs].
  assert (Parts : forall x, all_in cs_nonspace x = true -> (1 <= length x)%nat ->
            only_at gen_ci_table k (msg_cmd2 pre K d w1 dash fl w2 x w3 post) [length pre] = true ->
            let S := K ++ d ++ w1 ++ 45 :: dash ++ fl ++ w2 ++ x ++ w3 ++ post in
            conc gen_ci_table k (shape_of (shapeR_cmd2 (kcs_of k))) (pre ++ S) /\
            (forall a' b', pre = a' ++ b' -> b' <> [] -> conc gen_ci_table k (ARun ctx_cs true :: shapeR_cmd2 (kcs_of k) ++ [ARun ctx_cs false]) (b' ++ S)) /\
            conc gen_ci_table k [ARun ctx_cs false] post).
  { intros x Hx' Hlx Hox.
    pose proof (conc_parts gen_ci_table k Hne ctx_cs false pre
                  [(AKey (kcs_of k), K); (ARun dig_cs false, d); (ARun py_space false, w1); (AOne [(45, 45)], [45]); (ARun [(45, 45)] false, dash);
                   (ARun cs_flag true, fl); (ARun py_space true, w2); (ARun cs_nonspace true, x); (ARun py_space false, w3)]
                  ctx_cs false post (msg_cmd2 pre K d w1 dash fl w2 x w3 post)) as P.
    cbn zeta in P. apply P; clear P.
    - reflexivity.
    - valid_segs Hne; intros _.
      + destruct fl; [inversion Hlf|discriminate].
      + destruct w2; [inversion Hl2|discriminate].
      + destruct x; [inversion Hlx|discriminate].
    - intros a b E Hp. pose proof (only_at_spec _ _ _ _ Hox a b E Hp) as Hi. cbn [key_offsets fst snd is_key app Nat.add]. exact Hi. }
  destruct (Parts v Hv' Hlv Hov) as (Cv & Cpre & Cpost). destruct (Parts mask Hmk' Hlm Hom) as (Cm & _ & _).
  assert (Hrj : nth_error (pats k) 9 = Some (gen_tp2_9 k)) by reflexivity.
  destruct (self_nomatch k _ 9 _ pre _ post Hin Hcs Hrj Cpre Cpost) as [Npre Npost].
  unfold msg_cmd2.
  apply (whole_frame k 9 (gen_tp2_9 k) (t2 mask) (shapeR_cmd2 (kcs_of k)) _ _ mask Hin eq_refl Hco Cv Cm);
    [|apply (key_occurs k K pre _ Hk Hcase)|exact Hav|exact Ham].
  replace (pre ++ K ++ d ++ w1 ++ 45 :: dash ++ fl ++ w2 ++ mask ++ w3 ++ post)
    with (pre ++ (K ++ d ++ w1 ++ 45 :: dash ++ fl ++ w2) ++ mask ++ w3 ++ post) by norm_app2.
  eapply (gm_sub_two_ctx gen_ci_table (gen_tp2_9 k) pre _ (K ++ d ++ w1 ++ 45 :: dash ++ fl ++ w2) v w3 post mask);
    [cbv [gen_tp2_9]; gm_go|norm_app2|norm_app2| |cbn [gget Nat.eqb app]; reflexivity|norm_app2
    |cbn [gget Nat.eqb app]; reflexivity|norm_app2|norm_app2|exact Npre|exact Npost].
  destruct K, d, w1; discriminate.
Qed.

(* ====================================================================== *)
(* --k v   (the value does not start with '-')           _FORMAT_PATTERNS_2[4] *)
(* ====================================================================== *)
Definition cs_dd_nodash : cset := filter (fun r => negb ((fst r =? 45) && (snd r =? 45)))
  (flat_map (fun r : N * N => if (fst r <=? 45) && (45 <=? snd r) then [(fst r, 44); (46, snd r)] else [r]) cs_dd).
Lemma dd_nodash_in c : dd_char c = true -> c <> 45 -> cmem c cs_dd_nodash = true.
Proof.
  unfold dd_char, bare_char, valid_cp. intros H Hc. apply andb_true_iff in H. destruct H as [H He].
  apply andb_true_iff in H. destruct H as [H Hq]. apply andb_true_iff in H. destruct H as [Hv Hs]. apply N.leb_le in Hv.
  by_cover (py_space ++ cs_quotes ++ [(61, 61)] ++ [(45, 45)]). rewrite !cmem_app, is_quote_cmem, !cmem_single in Hcov.
  unfold is_space in Hs. apply negb_true_iff in Hs, Hq, He. rewrite Hs, Hq, He in Hcov.
  replace (c =? 45) with false in Hcov by lia. rewrite !orb_false_r in Hcov. exact Hcov.
Qed.

Definition shapeR_dd (kcs : list cset) : asub :=
  [AOne [(45, 45)]; AOne [(45, 45)]; AKey kcs; ARun dig_cs false; ARun py_space true; AOne cs_dd_nodash; ARun cs_dd false; ARun py_space false].
Lemma checks_dd : forallb (fun k => check_others k (shape_of (shapeR_dd (kcs_of k))) 4 && check_self k (shapeR_dd (kcs_of k)) 4) gen_keys = true.
Proof. vm_cast_no_check (eq_refl true). Qed.

Definition msg_dd (pre K d w1 x w2 post : str) : str := pre ++ [45; 45] ++ K ++ d ++ w1 ++ x ++ w2 ++ post.

Lemma whole_dd_step k K d w1 w2 v mask pre post :
  In k gen_keys -> casing_of k K -> forallb ascii_digit d = true ->
  forallb is_space w1 = true -> (1 <= length w1)%nat -> forallb is_space w2 = true ->
  forallb dd_char v = true -> (1 <= length v)%nat -> hd_notin [(45, 45)] v = true ->
  forallb dd_char mask = true -> (1 <= length mask)%nat -> hd_notin [(45, 45)] mask = true ->
  forallb ctx_char pre = true -> forallb ctx_char post = true ->
  hd_notin cs_dd (w2 ++ post) = true -> hd_notin py_space post = true ->
  only_at gen_ci_table k (msg_dd pre K d w1 v w2 post) [(length pre + 2)%nat] = true ->
  only_at gen_ci_table k (msg_dd pre K d w1 mask w2 post) [(length pre + 2)%nat] = true ->
  others_absent k (msg_dd pre K d w1 v w2 post) = true ->
  others_absent k (msg_dd pre K d w1 mask w2 post) = true ->
  mask_password (msg_dd pre K d w1 v w2 post) mask = msg_dd pre K d w1 mask w2 post.
Proof.
  intros Hin Hcase Hd Hw1 Hl1 Hw2 Hv Hlv Hvd Hmk Hlm Hmd Hpre Hpost Hh1 Hh2 Hov Hom Hav Ham.
  destruct (gen_key_ok k Hin) as [Hne Hk].
  pose proof (casing_ok_of k K Hk Hcase) as HK. pose proof (digits_in d Hd) as Hd'.
  pose proof (spaces_in _ Hw1) as Hw1'. pose proof (spaces_in _ Hw2) as Hw2'.
  pose proof (all_in_impl _ _ _ dd_in Hv) as Hv'. pose proof (all_in_impl _ _ _ dd_in Hmk) as Hmk'.
  pose proof (ctx_all _ Hpre) as Hpre'. pose proof (ctx_all _ Hpost) as Hpost'.
  pose proof checks_dd as Hch. rewrite forallb_forall in Hch. specialize (Hch k Hin).
  apply andb_true_iff in Hch. destruct Hch as [Hco Hcs].
  assert (Parts : forall x, forallb dd_char x = true -> (1 <= length x)%nat -> hd_notin [(45, 45)] x = true ->
            only_at gen_ci_table k (msg_dd pre K d w1 x w2 post) [(length pre + 2)%nat] = true ->
            let S := [45; 45] ++ K ++ d ++ w1 ++ x ++ w2 ++ post in
            conc gen_ci_table k (shape_of (shapeR_dd (kcs_of k))) (pre ++ S) /\
            (forall a' b', pre = a' ++ b' -> b' <> [] -> conc gen_ci_table k (ARun ctx_cs true :: shapeR_dd (kcs_of k) ++ [ARun ctx_cs false]) (b' ++ S)) /\
            conc gen_ci_table k [ARun ctx_cs false] post).
  { intros x Hx Hlx Hxd Hox. destruct x as [|x0 x']; [inversion Hlx|].
    cbn [forallb] in Hx. apply andb_true_iff in Hx. destruct Hx as [Hx0 Hx'].
    assert (Hx0' : cmem x0 cs_dd_nodash = true).
    { apply dd_nodash_in; [exact Hx0|]. cbn [hd_notin cmem] in Hxd. intros ->. discriminate. }
    pose proof (all_in_impl _ _ _ dd_in Hx') as Hx''.
    pose proof (conc_parts gen_ci_table k Hne ctx_cs false pre
                  [(AOne [(45, 45)], [45]); (AOne [(45, 45)], [45]); (AKey (kcs_of k), K); (ARun dig_cs false, d); (ARun py_space true, w1);
                   (AOne cs_dd_nodash, [x0]); (ARun cs_dd false, x'); (ARun py_space false, w2)]
                  ctx_cs false post (msg_dd pre K d w1 (x0 :: x') w2 post)) as P.
    cbn zeta in P. apply P; clear P.
    - reflexivity.
    - valid_segs Hne. intros _. destruct w1; [inversion Hl1|discriminate].
    - intros a b E Hp. pose proof (only_at_spec _ _ _ _ Hox a b E Hp) as Hi. cbn [key_offsets fst snd is_key app].
      clear - Hi. destruct Hi as [Hi|[]]. left. rewrite <- Hi. cbn [length]. lia. }
  destruct (Parts v Hv Hlv Hvd Hov) as (Cv & Cpre & Cpost). destruct (Parts mask Hmk Hlm Hmd Hom) as (Cm & _ & _).
  assert (Hrj : nth_error (pats k) 4 = Some (gen_tp2_4 k)) by reflexivity.
  destruct (self_nomatch k _ 4 _ pre _ post Hin Hcs Hrj Cpre Cpost) as [Npre Npost].
  unfold msg_dd.
  apply (whole_frame k 4 (gen_tp2_4 k) (t2 mask) (shapeR_dd (kcs_of k)) _ _ mask Hin eq_refl Hco Cv Cm);
    [| |exact Hav|exact Ham].
  2:{ replace (pre ++ [45; 45] ++ K ++ d ++ w1 ++ v ++ w2 ++ post) with ((pre ++ [45; 45]) ++ K ++ (d ++ w1 ++ v ++ w2 ++ post)) by norm_app2.
      apply (key_occurs k K _ _ Hk Hcase). }
  replace (pre ++ [45; 45] ++ K ++ d ++ w1 ++ mask ++ w2 ++ post)
    with (pre ++ ([45; 45] ++ K ++ d ++ w1) ++ mask ++ w2 ++ post) by (rewrite <- !app_assoc; reflexivity).
  eapply (gm_sub_two_ctx gen_ci_table (gen_tp2_4 k) pre _ ([45; 45] ++ K ++ d ++ w1) v w2 post mask);
    [cbv [gen_tp2_4]; gm_go|rewrite <- !app_assoc; reflexivity|rewrite <- !app_assoc; reflexivity|discriminate
    |cbn [gget Nat.eqb app]; reflexivity|norm_app2
    |cbn [gget Nat.eqb app]; reflexivity|norm_app2|norm_app2|exact Npre|exact Npost].
Qed.

(* ====================================================================== *)
(* '…k': u'v'  (non-empty prefix inside the key string)  _FORMAT_PATTERNS_2[7] *)
(* ====================================================================== *)
Definition cs_u : cset := [(85, 85); (117, 117)].
Definition shapeR_jp (kcs : list cset) : asub :=
  [AOne cs_quotes; ARun cs_quoted true; AKey kcs; ARun dig_cs false; AOne cs_quotes; ARun py_space false; AOne [(58, 58)];
   ARun py_space false; ARun cs_u false; AOne cs_quotes; ARun cs_quoted false; AOne cs_quotes].
Lemma checks_jp : forallb (fun k => check_others k (shape_of (shapeR_jp (kcs_of k))) 7 && check_self k (shapeR_jp (kcs_of k)) 7) gen_keys = true.
Proof. vm_cast_no_check (eq_refl true). Qed.

Definition msg_jp (pre : str) (q1 : N) (pfx K d : str) (q2 : N) (w1 w2 u : str) (q3 : N) (x : str) (q4 : N) (post : str) : str :=
  pre ++ q1 :: pfx ++ K ++ d ++ q2 :: w1 ++ 58 :: w2 ++ u ++ q3 :: x ++ q4 :: post.

Lemma whole_jp_step k K d q1 pfx q2 w1 w2 u q3 q4 v mask pre post :
  In k gen_keys -> casing_of k K -> forallb ascii_digit d = true ->
  is_quote q1 = true -> is_quote q2 = true -> is_quote q3 = true -> is_quote q4 = true ->
  forallb quoted_char pfx = true -> (1 <= length pfx)%nat ->
  forallb is_space w1 = true -> forallb is_space w2 = true -> opt_u u ->
  forallb quoted_char v = true -> forallb quoted_char mask = true ->
  forallb ctx_char pre = true -> forallb ctx_char post = true ->
  only_at gen_ci_table k (msg_jp pre q1 pfx K d q2 w1 w2 u q3 v q4 post) [(length pre + 1 + length pfx)%nat] = true ->
  only_at gen_ci_table k (msg_jp pre q1 pfx K d q2 w1 w2 u q3 mask q4 post) [(length pre + 1 + length pfx)%nat] = true ->
  others_absent k (msg_jp pre q1 pfx K d q2 w1 w2 u q3 v q4 post) = true ->
  others_absent k (msg_jp pre q1 pfx K d q2 w1 w2 u q3 mask q4 post) = true ->
  mask_password (msg_jp pre q1 pfx K d q2 w1 w2 u q3 v q4 post) mask = msg_jp pre q1 pfx K d q2 w1 w2 u q3 mask q4 post.
Proof.
  intros Hin Hcase Hd Hq1 Hq2 Hq3 Hq4 Hp Hlp Hw1 Hw2 Hu Hv Hmk Hpre Hpost Hov Hom Hav Ham.
  destruct (gen_key_ok k Hin) as [Hne Hk].
  pose proof (casing_ok_of k K Hk Hcase) as HK. pose proof (digits_in d Hd) as Hd'.
  pose proof (spaces_in _ Hw1) as Hw1'. pose proof (spaces_in _ Hw2) as Hw2'.
  pose proof (quote_in _ Hq1) as Hq1'. pose proof (quote_in _ Hq2) as Hq2'.
  pose proof (quote_in _ Hq3) as Hq3'. pose proof (quote_in _ Hq4) as Hq4'.
  pose proof (all_in_impl _ _ _ quoted_in Hp) as Hp'.
  pose proof (all_in_impl _ _ _ quoted_in Hv) as Hv'. pose proof (all_in_impl _ _ _ quoted_in Hmk) as Hmk'.
  destruct (opt_u_in u Hu) as [Hu' Hul].
  pose proof (ctx_all _ Hpre) as Hpre'. pose proof (ctx_all _ Hpost) as Hpost'.
  pose proof checks_jp as Hch. rewrite forallb_forall in Hch. specialize (Hch k Hin).
  apply andb_true_iff in Hch. destruct Hch as [Hco Hcs].
  assert (Parts : forall x, all_in cs_quoted x = true ->
            only_at gen_ci_table k (msg_jp pre q1 pfx K d q2 w1 w2 u q3 x q4 post) [(length pre + 1 + length pfx)%nat] = true ->
            let S := q1 :: pfx ++ K ++ d ++ q2 :: w1 ++ 58 :: w2 ++ u ++ q3 :: x ++ q4 :: post in
            conc gen_ci_table k (shape_of (shapeR_jp (kcs_of k))) (pre ++ S) /\
            (forall a' b', pre = a' ++ b' -> b' <> [] -> conc gen_ci_table k (ARun ctx_cs true :: shapeR_jp (kcs_of k) ++ [ARun ctx_cs false]) (b' ++ S)) /\
            conc gen_ci_table k [ARun ctx_cs false] post).
  { intros x Hx' Hox.
    pose proof (conc_parts gen_ci_table k Hne ctx_cs false pre
                  [(AOne cs_quotes, [q1]); (ARun cs_quoted true, pfx); (AKey (kcs_of k), K); (ARun dig_cs false, d); (AOne cs_quotes, [q2]);
                   (ARun py_space false, w1); (AOne [(58, 58)], [58]); (ARun py_space false, w2); (ARun cs_u false, u); (AOne cs_quotes, [q3]);
                   (ARun cs_quoted false, x); (AOne cs_quotes, [q4])]
                  ctx_cs false post (msg_jp pre q1 pfx K d q2 w1 w2 u q3 x q4 post)) as P.
    cbn zeta in P. apply P; clear P.
    - reflexivity.
    - valid_segs Hne. intros _. destruct pfx; [inversion Hlp|discriminate].
    - intros a b E Hp0. pose proof (only_at_spec _ _ _ _ Hox a b E Hp0) as Hi. cbn [key_offsets fst snd is_key app].
      clear - Hi. destruct Hi as [Hi|[]]. left. rewrite <- Hi. cbn [length]. lia. }
  destruct (Parts v Hv' Hov) as (Cv & Cpre & Cpost). destruct (Parts mask Hmk' Hom) as (Cm & _ & _).
  assert (Hrj : nth_error (pats k) 7 = Some (gen_tp2_7 k)) by reflexivity.
  destruct (self_nomatch k _ 7 _ pre _ post Hin Hcs Hrj Cpre Cpost) as [Npre Npost].
  unfold msg_jp.
  apply (whole_frame k 7 (gen_tp2_7 k) (t2 mask) (shapeR_jp (kcs_of k)) _ _ mask Hin eq_refl Hco Cv Cm);
    [| |exact Hav|exact Ham].
  2:{ replace (pre ++ q1 :: pfx ++ K ++ d ++ q2 :: w1 ++ 58 :: w2 ++ u ++ q3 :: v ++ q4 :: post)
        with ((pre ++ q1 :: pfx) ++ K ++ (d ++ q2 :: w1 ++ 58 :: w2 ++ u ++ q3 :: v ++ q4 :: post)) by norm_app2.
      apply (key_occurs k K _ _ Hk Hcase). }
  set (h := [q1] ++ pfx ++ K ++ d ++ [q2] ++ w1 ++ [58] ++ w2 ++ u ++ [q3]).
  assert (QD : exists g, match_at (gen_tp2_7 k) (h ++ v ++ q4 :: post) (blen pre) = Some (blen (pre ++ h ++ v ++ [q4]), g) /\
            gget g 1 = Some (blen pre, blen (pre ++ h)) /\ gget g 2 = Some (blen (pre ++ h ++ v), blen (pre ++ h ++ v ++ [q4]))).
  { cbv [gen_tp2_7].
    eapply (quote_delimited_at cs_quotes) with (h0 := [q1] ++ pfx ++ K ++ d ++ [q2] ++ w1 ++ [58] ++ w2 ++ u) (q3 := q3).
    - cbn [qcount]. rewrite (qcount_keyseq _ _ Hk). vm_compute. reflexivity.
    - cbn [last_q]. rewrite last_q_keyseq by (right; exact I). vm_compute. reflexivity.
    - vmr.
    - vmr.
    - replace (h ++ v ++ q4 :: post) with (q1 :: pfx ++ K ++ d ++ q2 :: w1 ++ 58 :: w2 ++ u ++ q3 :: v ++ q4 :: post) by (unfold h; norm_app2).
      mt_go.
    - unfold h. rewrite !countq_app.
      rewrite (countq_one cs_quotes _ Hq1'), (countq_one cs_quotes _ Hq2'), (countq_one cs_quotes _ Hq3').
      rewrite (countq_none cs_quotes _ _ Hp' ltac:(vmr)), (countq_casing _ _ Hk HK), (countq_none cs_quotes _ _ Hd' ltac:(vmr)).
      rewrite (countq_none cs_quotes _ _ Hw1' ltac:(vmr)), (countq_none cs_quotes _ _ Hw2' ltac:(vmr)), (countq_none cs_quotes _ _ Hu' ltac:(vmr)).
      reflexivity.
    - unfold h. norm_app2.
    - exact Hq3'.
    - exact Hv'.
    - exact Hq4'. }
  destruct QD as (g & Hm & G1 & G2).
  replace (pre ++ q1 :: pfx ++ K ++ d ++ q2 :: w1 ++ 58 :: w2 ++ u ++ q3 :: v ++ q4 :: post) with (pre ++ (h ++ v ++ [q4]) ++ post) by (unfold h; norm_app2).
  replace (pre ++ q1 :: pfx ++ K ++ d ++ q2 :: w1 ++ 58 :: w2 ++ u ++ q3 :: mask ++ q4 :: post) with (pre ++ h ++ mask ++ [q4] ++ post) by (unfold h; norm_app2).
  apply (two_group_ctx (gen_tp2_7 k) pre h v [q4] post mask g).
  - replace ((h ++ v ++ [q4]) ++ post) with (h ++ v ++ q4 :: post) by norm_app2. exact Hm.
  - unfold h. discriminate.
  - exact G1.
  - exact G2.
  - intros a' b' q E Hb. replace (b' ++ (h ++ v ++ [q4]) ++ post) with (b' ++ q1 :: pfx ++ K ++ d ++ q2 :: w1 ++ 58 :: w2 ++ u ++ q3 :: v ++ q4 :: post) by (unfold h; norm_app2).
    apply (Npre a' b' q E Hb).
  - exact Npost.
Qed.

(* ====================================================================== *)
(* renderings that TWO patterns of the key read: the first rewrites the value, the second finds the
   mask in its place and rewrites it to itself                                                        *)
(* ====================================================================== *)
Fixpoint check_ex_go (kcs : list cset) (A : asub) (ex : list nat) (i : nat) (l : list re) : bool :=
  match l with
  | [] => true
  | r :: t => (if existsb (Nat.eqb i) ex then true else negb (may_match_somewhere kcs 200 r A)) && check_ex_go kcs A ex (S i) t
  end.
Definition check_ex (k : str) (A : asub) (ex : list nat) : bool := check_ex_go (kcs_of k) A ex 0 (pats k).

Lemma check_ex_go_spec kcs A ex : forall l i0, check_ex_go kcs A ex i0 l = true ->
  forall i r, nth_error l i = Some r -> ~ In (i0 + i)%nat ex -> may_match_somewhere kcs 200 r A = false.
Proof.
  induction l as [|r0 l IH]; intros i0 H i r Hi Hne; [destruct i; discriminate|].
  cbn [check_ex_go] in H. apply andb_true_iff in H. destruct H as [H1 H2]. destruct i as [|i].
  - cbn in Hi. inversion Hi; subst. rewrite Nat.add_0_r in Hne.
    destruct (existsb (Nat.eqb i0) ex) eqn:E.
    + exfalso. apply Hne. apply existsb_exists in E. destruct E as (x & Hx & Ex). apply Nat.eqb_eq in Ex. subst. exact Hx.
    + apply negb_true_iff in H1. exact H1.
  - apply (IH (S i0) H2 i r Hi). replace (S i0 + i)%nat with (i0 + S i)%nat by lia. exact Hne.
Qed.

Lemma ex_none k A ex x secret : k <> [] -> check_ex k A ex = true -> conc gen_ci_table k A x ->
  forall i r t, nth_error (tagged k secret) i = Some (r, t) -> ~ In i ex -> re_sub r t x = x.
Proof.
  intros Hk Hc HA i r t Hi Hne. apply re_sub_none. intros a b q E.
  assert (Hr : nth_error (pats k) i = Some r).
  { rewrite <- (map_fst_tagged k secret). rewrite nth_error_map, Hi. reflexivity. }
  pose proof (check_ex_go_spec _ _ _ _ 0%nat Hc i r Hr Hne) as Hm.
  exact (abs_no_match gen_ci_table k Hk 200 r A x Hm HA a b q E).
Qed.

Lemma sub_all_two L : forall j j2 m m1 rj tj r2 tt2,
  (j < j2)%nat -> nth_error L j = Some (rj, tj) -> nth_error L j2 = Some (r2, tt2) ->
  re_sub rj tj m = m1 -> re_sub r2 tt2 m1 = m1 ->
  (forall i r t, nth_error L i = Some (r, t) -> i <> j -> i <> j2 -> re_sub r t m = m /\ re_sub r t m1 = m1) ->
  sub_all L m = m1.
Proof.
  intros j j2 m m1 rj tj r2 tt2 Hlt Hj Hj2 Hs Hs2 Ho.
  apply (sub_all_one L j m m1 rj tj Hj Hs).
  - intros i r t Hi Hi_lt. apply (Ho i r t Hi); lia.
  - intros i r t Hi Hi_gt. destruct (Nat.eq_dec i j2) as [->|Hne].
    + rewrite Hj2 in Hi. inversion Hi; subst. exact Hs2.
    + apply (Ho i r t Hi); lia.
Qed.

Lemma whole_frame2 k j j2 rj tj r2 tt2 AR m m1 mask :
  In k gen_keys -> (j < j2)%nat -> nth_error (tagged k mask) j = Some (rj, tj) -> nth_error (tagged k mask) j2 = Some (r2, tt2) ->
  check_ex k (shape_of AR) [j; j2] = true ->
  conc gen_ci_table k (shape_of AR) m -> conc gen_ci_table k (shape_of AR) m1 ->
  re_sub rj tj m = m1 -> re_sub r2 tt2 m1 = m1 ->
  occursb k (lower m) = true -> others_absent k m = true -> others_absent k m1 = true ->
  mask_password m mask = m1.
Proof.
  intros Hin Hlt Hj Hj2 Hco Cv Cm Hd Hd2 Hocc Hav Ham. destruct (gen_key_ok k Hin) as [Hne Hk].
  apply (mask_password_one_key k _ _ mask Hin Hocc Hav Ham).
  apply (sub_all_two (tagged k mask) j j2 _ _ rj tj r2 tt2 Hlt Hj Hj2 Hd Hd2).
  intros i r t Hi N1 N2.
  assert (Hnin : ~ In i [j; j2]) by (intros [E|[E|[]]]; congruence).
  split; [apply (ex_none k _ _ _ mask Hne Hco Cv i r t Hi Hnin)|apply (ex_none k _ _ _ mask Hne Hco Cm i r t Hi Hnin)].
Qed.

(* k = "v" (both quotes double) / k = 'v' (both single): patterns 2[0] then 2[1] resp. 2[2] *)
Definition shapeR_eq (q : N) (kcs : list cset) : asub :=
  [AKey kcs; ARun dig_cs false; ARun py_space false; AOne [(61, 61)]; ARun py_space false; AOne [(q, q)]; ARun cs_quoted false; AOne [(q, q)]].
Definition eq_second (q : N) : nat := if q =? 34 then 1%nat else 2%nat.
Lemma checks_eq : forallb (fun q => forallb (fun k =>
    check_ex k (shape_of (shapeR_eq q (kcs_of k))) [0%nat; eq_second q] && check_self k (shapeR_eq q (kcs_of k)) 0 &&
    check_self k (shapeR_eq q (kcs_of k)) (eq_second q)) gen_keys) [34; 39] = true.
Proof. vm_cast_no_check (eq_refl true). Qed.

Definition msg_eq (pre K d w1 w2 : str) (q : N) (x : str) (post : str) : str := pre ++ K ++ d ++ w1 ++ 61 :: w2 ++ q :: x ++ q :: post.

Lemma whole_eq_step k K d w1 w2 q v mask pre post :
  In k gen_keys -> casing_of k K -> forallb ascii_digit d = true ->
  forallb is_space w1 = true -> forallb is_space w2 = true -> (q = 34 \/ q = 39) ->
  forallb quoted_char v = true -> forallb quoted_char mask = true ->
  forallb ctx_char pre = true -> forallb ctx_char post = true ->
  only_at gen_ci_table k (msg_eq pre K d w1 w2 q v post) [length pre] = true ->
  only_at gen_ci_table k (msg_eq pre K d w1 w2 q mask post) [length pre] = true ->
  others_absent k (msg_eq pre K d w1 w2 q v post) = true ->
  others_absent k (msg_eq pre K d w1 w2 q mask post) = true ->
  mask_password (msg_eq pre K d w1 w2 q v post) mask = msg_eq pre K d w1 w2 q mask post.
Proof.
  intros Hin Hcase Hd Hw1 Hw2 Hq Hv Hmk Hpre Hpost Hov Hom Hav Ham.
  destruct (gen_key_ok k Hin) as [Hne Hk].
  pose proof (casing_ok_of k K Hk Hcase) as HK. pose proof (digits_in d Hd) as Hd'.
  pose proof (spaces_in _ Hw1) as Hw1'. pose proof (spaces_in _ Hw2) as Hw2'.
  pose proof (all_in_impl _ _ _ quoted_in Hv) as Hv'. pose proof (all_in_impl _ _ _ quoted_in Hmk) as Hmk'.
  pose proof (ctx_all _ Hpre) as Hpre'. pose proof (ctx_all _ Hpost) as Hpost'.
  assert (Hqin : In q [34; 39]) by (destruct Hq as [-> | ->]; [left|right; left]; reflexivity).
  pose proof checks_eq as Hch. rewrite forallb_forall in Hch. specialize (Hch q Hqin). rewrite forallb_forall in Hch. specialize (Hch k Hin).
  apply andb_true_iff in Hch. destruct Hch as [Hch Hcs2]. apply andb_true_iff in Hch. destruct Hch as [Hco Hcs].
  assert (Hqq : cmem q cs_quotes = true) by (destruct Hq as [-> | ->]; reflexivity).
  assert (Hq1 : cmem q [(q, q)] = true) by (cbn [cmem]; rewrite !N.leb_refl; reflexivity).
  assert (Parts : forall x, all_in cs_quoted x = true ->
            only_at gen_ci_table k (msg_eq pre K d w1 w2 q x post) [length pre] = true ->
            let S := K ++ d ++ w1 ++ 61 :: w2 ++ q :: x ++ q :: post in
            conc gen_ci_table k (shape_of (shapeR_eq q (kcs_of k))) (pre ++ S) /\
            (forall a' b', pre = a' ++ b' -> b' <> [] -> conc gen_ci_table k (ARun ctx_cs true :: shapeR_eq q (kcs_of k) ++ [ARun ctx_cs false]) (b' ++ S)) /\
            conc gen_ci_table k [ARun ctx_cs false] post).
  { intros x Hx' Hox.
    pose proof (conc_parts gen_ci_table k Hne ctx_cs false pre
                  [(AKey (kcs_of k), K); (ARun dig_cs false, d); (ARun py_space false, w1); (AOne [(61, 61)], [61]); (ARun py_space false, w2);
                   (AOne [(q, q)], [q]); (ARun cs_quoted false, x); (AOne [(q, q)], [q])]
                  ctx_cs false post (msg_eq pre K d w1 w2 q x post)) as P.
    cbn zeta in P. apply P; clear P.
    - reflexivity.
    - valid_segs Hne.
    - intros a b E Hp. pose proof (only_at_spec _ _ _ _ Hox a b E Hp) as Hi. cbn [key_offsets fst snd is_key app Nat.add]. exact Hi. }
  destruct (Parts v Hv' Hov) as (Cv & Cpre & Cpost). destruct (Parts mask Hmk' Hom) as (Cm & Cpre1 & _).
  assert (Hrj : nth_error (pats k) 0 = Some (gen_tp2_0 k)) by reflexivity.
  destruct (self_nomatch k _ 0 _ pre _ post Hin Hcs Hrj Cpre Cpost) as [Npre Npost].
  unfold msg_eq.
  (* the first pattern, on the message; the second, on the masked message *)
  assert (D1 : forall x, all_in cs_quoted x = true -> nomatch_pre (gen_tp2_0 k) pre (K ++ d ++ w1 ++ 61 :: w2 ++ q :: x ++ q :: post) ->
           re_sub (gen_tp2_0 k) (t2 mask) (pre ++ K ++ d ++ w1 ++ 61 :: w2 ++ q :: x ++ q :: post)
           = pre ++ K ++ d ++ w1 ++ 61 :: w2 ++ q :: mask ++ q :: post).
  { intros x Hx' Np.
    replace (pre ++ K ++ d ++ w1 ++ 61 :: w2 ++ q :: mask ++ q :: post) with (pre ++ (K ++ d ++ w1 ++ 61 :: w2 ++ [q]) ++ mask ++ [q] ++ post) by norm_app2.
    eapply (gm_sub_two_ctx gen_ci_table (gen_tp2_0 k) pre _ (K ++ d ++ w1 ++ 61 :: w2 ++ [q]) x [q] post mask);
      [cbv [gen_tp2_0]; gm_go|norm_app2|norm_app2| |cbn [gget Nat.eqb app]; reflexivity|norm_app2
      |cbn [gget Nat.eqb app]; reflexivity|norm_app2|norm_app2|exact Np|exact Npost].
    destruct K, d, w1; discriminate. }
  destruct Hq as [-> | ->].
  - (* double quotes: 2[0] then 2[1] *)
    assert (Hr2 : nth_error (pats k) 1 = Some (gen_tp2_1 k)) by reflexivity.
    destruct (self_nomatch k _ 1 _ pre _ post Hin Hcs2 Hr2 Cpre1 Cpost) as [Npre2 Npost2].
    apply (whole_frame2 k 0 1 (gen_tp2_0 k) (t2 mask) (gen_tp2_1 k) (t2 mask) (shapeR_eq 34 (kcs_of k)) _ _ mask Hin ltac:(repeat constructor) eq_refl eq_refl Hco Cv Cm);
      [exact (D1 v Hv' Npre)| |apply (key_occurs k K pre _ Hk Hcase)|exact Hav|exact Ham].
    pose proof (all_in_impl dq_char cs_dq mask dq_in) as Hdq.
    assert (Hmdq : all_in cs_dq mask = true).
    { apply Hdq. rewrite forallb_forall in Hmk |- *. intros c Hc. specialize (Hmk c Hc). unfold quoted_char, dq_char, is_quote in *.
      apply andb_true_iff in Hmk. destruct Hmk as [H1 H2]. rewrite H1. apply negb_true_iff in H2. apply orb_false_iff in H2. destruct H2 as [H2 _]. rewrite H2. reflexivity. }
    replace (pre ++ K ++ d ++ w1 ++ 61 :: w2 ++ 34 :: mask ++ 34 :: post) with (pre ++ (K ++ d ++ w1 ++ 61 :: w2 ++ [34]) ++ mask ++ [34] ++ post) at 2 by norm_app2.
    eapply (gm_sub_two_ctx gen_ci_table (gen_tp2_1 k) pre _ (K ++ d ++ w1 ++ 61 :: w2 ++ [34]) mask [34] post mask);
      [cbv [gen_tp2_1]; gm_go|norm_app2|norm_app2| |cbn [gget Nat.eqb app]; reflexivity|norm_app2
      |cbn [gget Nat.eqb app]; reflexivity|norm_app2|norm_app2|exact Npre2|exact Npost2].
    destruct K, d, w1; discriminate.
  - (* single quotes: 2[0] then 2[2] *)
    assert (Hr2 : nth_error (pats k) 2 = Some (gen_tp2_2 k)) by reflexivity.
    destruct (self_nomatch k _ 2 _ pre _ post Hin Hcs2 Hr2 Cpre1 Cpost) as [Npre2 Npost2].
    apply (whole_frame2 k 0 2 (gen_tp2_0 k) (t2 mask) (gen_tp2_2 k) (t2 mask) (shapeR_eq 39 (kcs_of k)) _ _ mask Hin ltac:(repeat constructor) eq_refl eq_refl Hco Cv Cm);
      [exact (D1 v Hv' Npre)| |apply (key_occurs k K pre _ Hk Hcase)|exact Hav|exact Ham].
    pose proof (all_in_impl sq_char cs_sq mask sq_in) as Hsq.
    assert (Hmsq : all_in cs_sq mask = true).
    { apply Hsq. rewrite forallb_forall in Hmk |- *. intros c Hc. specialize (Hmk c Hc). unfold quoted_char, sq_char, is_quote in *.
      apply andb_true_iff in Hmk. destruct Hmk as [H1 H2]. rewrite H1. apply negb_true_iff in H2. apply orb_false_iff in H2. destruct H2 as [_ H2]. rewrite H2. reflexivity. }
    replace (pre ++ K ++ d ++ w1 ++ 61 :: w2 ++ 39 :: mask ++ 39 :: post) with (pre ++ (K ++ d ++ w1 ++ 61 :: w2 ++ [39]) ++ mask ++ [39] ++ post) at 2 by norm_app2.
    eapply (gm_sub_two_ctx gen_ci_table (gen_tp2_2 k) pre _ (K ++ d ++ w1 ++ 61 :: w2 ++ [39]) mask [39] post mask);
      [cbv [gen_tp2_2]; gm_go|norm_app2|norm_app2| |cbn [gget Nat.eqb app]; reflexivity|norm_app2
      |cbn [gget Nat.eqb app]; reflexivity|norm_app2|norm_app2|exact Npre2|exact Npost2].
    destruct K, d, w1; discriminate.
Qed.

(* ====================================================================== *)
(* "k": "v" / 'k' : 'v'  (dict / JSON style): patterns 2[6] then 2[7]        *)
(* ====================================================================== *)
Definition shapeR_json (kcs : list cset) : asub :=
  [AOne cs_quotes; AKey kcs; ARun dig_cs false; AOne cs_quotes; ARun py_space false; AOne [(58, 58)]; ARun py_space false;
   AOne cs_quotes; ARun cs_quoted false; AOne cs_quotes].
Lemma checks_json : forallb (fun k => check_ex k (shape_of (shapeR_json (kcs_of k))) [6%nat; 7%nat] &&
    check_self k (shapeR_json (kcs_of k)) 6 && check_self k (shapeR_json (kcs_of k)) 7) gen_keys = true.
Proof. vm_cast_no_check (eq_refl true). Qed.

Definition msg_json (pre : str) (q1 : N) (K d : str) (q2 : N) (w1 w2 : str) (q3 : N) (x : str) (q4 : N) (post : str) : str :=
  pre ++ q1 :: K ++ d ++ q2 :: w1 ++ 58 :: w2 ++ q3 :: x ++ q4 :: post.

Lemma whole_json_step k K d q1 q2 w1 w2 q3 q4 v mask pre post :
  In k gen_keys -> casing_of k K -> forallb ascii_digit d = true ->
  is_quote q1 = true -> is_quote q2 = true -> is_quote q3 = true -> is_quote q4 = true ->
  forallb is_space w1 = true -> forallb is_space w2 = true ->
  forallb quoted_char v = true -> forallb quoted_char mask = true ->
  forallb ctx_char pre = true -> forallb ctx_char post = true ->
  only_at gen_ci_table k (msg_json pre q1 K d q2 w1 w2 q3 v q4 post) [(length pre + 1)%nat] = true ->
  only_at gen_ci_table k (msg_json pre q1 K d q2 w1 w2 q3 mask q4 post) [(length pre + 1)%nat] = true ->
  others_absent k (msg_json pre q1 K d q2 w1 w2 q3 v q4 post) = true ->
  others_absent k (msg_json pre q1 K d q2 w1 w2 q3 mask q4 post) = true ->
  mask_password (msg_json pre q1 K d q2 w1 w2 q3 v q4 post) mask = msg_json pre q1 K d q2 w1 w2 q3 mask q4 post.
Proof.
  intros Hin Hcase Hd Hq1 Hq2 Hq3 Hq4 Hw1 Hw2 Hv Hmk Hpre Hpost Hov Hom Hav Ham.
  destruct (gen_key_ok k Hin) as [Hne Hk].
  pose proof (casing_ok_of k K Hk Hcase) as HK. pose proof (digits_in d Hd) as Hd'.
  pose proof (spaces_in _ Hw1) as Hw1'. pose proof (spaces_in _ Hw2) as Hw2'.
  pose proof (quote_in _ Hq1) as Hq1'. pose proof (quote_in _ Hq2) as Hq2'.
  pose proof (quote_in _ Hq3) as Hq3'. pose proof (quote_in _ Hq4) as Hq4'.
  pose proof (all_in_impl _ _ _ quoted_in Hv) as Hv'. pose proof (all_in_impl _ _ _ quoted_in Hmk) as Hmk'.
  pose proof (ctx_all _ Hpre) as Hpre'. pose proof (ctx_all _ Hpost) as Hpost'.
  pose proof checks_json as Hch. rewrite forallb_forall in Hch. specialize (Hch k Hin).
  apply andb_true_iff in Hch. destruct Hch as [Hch Hcs2]. apply andb_true_iff in Hch. destruct Hch as [Hco Hcs].
  assert (Parts : forall x, all_in cs_quoted x = true ->
            only_at gen_ci_table k (msg_json pre q1 K d q2 w1 w2 q3 x q4 post) [(length pre + 1)%nat] = true ->
            let S := q1 :: K ++ d ++ q2 :: w1 ++ 58 :: w2 ++ q3 :: x ++ q4 :: post in
            conc gen_ci_table k (shape_of (shapeR_json (kcs_of k))) (pre ++ S) /\
            (forall a' b', pre = a' ++ b' -> b' <> [] -> conc gen_ci_table k (ARun ctx_cs true :: shapeR_json (kcs_of k) ++ [ARun ctx_cs false]) (b' ++ S)) /\
            conc gen_ci_table k [ARun ctx_cs false] post).
  { intros x Hx' Hox.
    pose proof (conc_parts gen_ci_table k Hne ctx_cs false pre
                  [(AOne cs_quotes, [q1]); (AKey (kcs_of k), K); (ARun dig_cs false, d); (AOne cs_quotes, [q2]);
                   (ARun py_space false, w1); (AOne [(58, 58)], [58]); (ARun py_space false, w2); (AOne cs_quotes, [q3]);
                   (ARun cs_quoted false, x); (AOne cs_quotes, [q4])]
                  ctx_cs false post (msg_json pre q1 K d q2 w1 w2 q3 x q4 post)) as P.
    cbn zeta in P. apply P; clear P.
    - reflexivity.
    - valid_segs Hne.
    - intros a b E Hp0. pose proof (only_at_spec _ _ _ _ Hox a b E Hp0) as Hi. cbn [key_offsets fst snd is_key app].
      clear - Hi. destruct Hi as [Hi|[]]. left. rewrite <- Hi. cbn [length]. lia. }
  destruct (Parts v Hv' Hov) as (Cv & Cpre & Cpost). destruct (Parts mask Hmk' Hom) as (Cm & Cpre1 & _).
  assert (Hrj : nth_error (pats k) 6 = Some (gen_tp2_6 k)) by reflexivity.
  destruct (self_nomatch k _ 6 _ pre _ post Hin Hcs Hrj Cpre Cpost) as [Npre Npost].
  assert (Hr2 : nth_error (pats k) 7 = Some (gen_tp2_7 k)) by reflexivity.
  destruct (self_nomatch k _ 7 _ pre _ post Hin Hcs2 Hr2 Cpre1 Cpost) as [Npre2 Npost2].
  unfold msg_json.
  apply (whole_frame2 k 6 7 (gen_tp2_6 k) (t2 mask) (gen_tp2_7 k) (t2 mask) (shapeR_json (kcs_of k)) _ _ mask Hin ltac:(repeat constructor) eq_refl eq_refl Hco Cv Cm);
    [| | |exact Hav|exact Ham].
  3:{ replace (pre ++ q1 :: K ++ d ++ q2 :: w1 ++ 58 :: w2 ++ q3 :: v ++ q4 :: post)
        with ((pre ++ [q1]) ++ K ++ (d ++ q2 :: w1 ++ 58 :: w2 ++ q3 :: v ++ q4 :: post)) by norm_app2.
      apply (key_occurs k K _ _ Hk Hcase). }
  - (* 2[6] rewrites the value *)
    replace (pre ++ q1 :: K ++ d ++ q2 :: w1 ++ 58 :: w2 ++ q3 :: mask ++ q4 :: post)
      with (pre ++ (q1 :: K ++ d ++ q2 :: w1 ++ 58 :: w2 ++ [q3]) ++ mask ++ [q4] ++ post) by norm_app2.
    eapply (gm_sub_two_ctx gen_ci_table (gen_tp2_6 k) pre _ (q1 :: K ++ d ++ q2 :: w1 ++ 58 :: w2 ++ [q3]) v [q4] post mask);
      [cbv [gen_tp2_6]; gm_go|norm_app2|norm_app2|discriminate|cbn [gget Nat.eqb app]; reflexivity|norm_app2
      |cbn [gget Nat.eqb app]; reflexivity|norm_app2|norm_app2|exact Npre|exact Npost].
  - (* 2[7] finds the mask in its place (empty prefix, no u) and rewrites it to itself *)
    set (pfx := @nil N). set (u := @nil N).
    assert (Hp' : all_in cs_quoted pfx = true) by reflexivity. assert (Hu' : all_in [(85, 85); (117, 117)] u = true) by reflexivity.
    assert (Hul : (length u <= 1)%nat) by (cbn; repeat constructor).
    set (h := [q1] ++ pfx ++ K ++ d ++ [q2] ++ w1 ++ [58] ++ w2 ++ u ++ [q3]).
    assert (QD : exists g, match_at (gen_tp2_7 k) (h ++ mask ++ q4 :: post) (blen pre) = Some (blen (pre ++ h ++ mask ++ [q4]), g) /\
              gget g 1 = Some (blen pre, blen (pre ++ h)) /\ gget g 2 = Some (blen (pre ++ h ++ mask), blen (pre ++ h ++ mask ++ [q4]))).
    { cbv [gen_tp2_7].
      eapply (quote_delimited_at cs_quotes) with (h0 := [q1] ++ pfx ++ K ++ d ++ [q2] ++ w1 ++ [58] ++ w2 ++ u) (q3 := q3).
      - cbn [qcount]. rewrite (qcount_keyseq _ _ Hk). vm_compute. reflexivity.
      - cbn [last_q]. rewrite last_q_keyseq by (right; exact I). vm_compute. reflexivity.
      - vmr.
      - vmr.
      - replace (h ++ mask ++ q4 :: post) with (q1 :: pfx ++ K ++ d ++ q2 :: w1 ++ 58 :: w2 ++ u ++ q3 :: mask ++ q4 :: post)
          by (unfold h; repeat rewrite <- app_assoc; reflexivity).
        mt_go.
      - unfold h. rewrite !countq_app.
        rewrite (countq_one cs_quotes _ Hq1'), (countq_one cs_quotes _ Hq2'), (countq_one cs_quotes _ Hq3').
        rewrite (countq_none cs_quotes _ _ Hp' ltac:(vmr)), (countq_casing _ _ Hk HK), (countq_none cs_quotes _ _ Hd' ltac:(vmr)).
        rewrite (countq_none cs_quotes _ _ Hw1' ltac:(vmr)), (countq_none cs_quotes _ _ Hw2' ltac:(vmr)), (countq_none cs_quotes _ _ Hu' ltac:(vmr)).
        reflexivity.
      - unfold h. repeat rewrite <- app_assoc. reflexivity.
      - exact Hq3'.
      - exact Hmk'.
      - exact Hq4'. }
    destruct QD as (g & Hm & G1 & G2).
    replace (pre ++ q1 :: K ++ d ++ q2 :: w1 ++ 58 :: w2 ++ q3 :: mask ++ q4 :: post) with (pre ++ (h ++ mask ++ [q4]) ++ post) at 1 by (unfold h, pfx, u; norm_app2).
    replace (pre ++ q1 :: K ++ d ++ q2 :: w1 ++ 58 :: w2 ++ q3 :: mask ++ q4 :: post) with (pre ++ h ++ mask ++ [q4] ++ post) by (unfold h, pfx, u; norm_app2).
    apply (two_group_ctx (gen_tp2_7 k) pre h mask [q4] post mask g).
    + replace ((h ++ mask ++ [q4]) ++ post) with (h ++ mask ++ q4 :: post) by norm_app2. exact Hm.
    + unfold h. discriminate.
    + exact G1.
    + exact G2.
    + intros a' b' q E Hb. replace (b' ++ (h ++ mask ++ [q4]) ++ post) with (b' ++ q1 :: K ++ d ++ q2 :: w1 ++ 58 :: w2 ++ q3 :: mask ++ q4 :: post) by (unfold h, pfx, u; norm_app2).
      apply (Npre2 a' b' q E Hb).
    + exact Npost2.
Qed.

(* ====================================================================== *)
(* 'k', '--flag', 'v'                                     _FORMAT_PATTERNS_2[8] *)
(* ====================================================================== *)
Definition shapeR_cmd1 (kcs : list cset) : asub :=
  [AOne cs_quotes; ARun cs_quoted false; AKey kcs; ARun dig_cs false; AOne cs_quotes; ARun py_space false; AOne [(44, 44)];
   ARun py_space false; AOne [(39, 39)]; AOne [(45, 45)]; ARun [(45, 45)] false; ARun cs_flag true; AOne [(39, 39)];
   ARun py_space false; AOne [(44, 44)]; ARun py_space false; ARun cs_u false; AOne cs_quotes; ARun cs_quoted false; AOne cs_quotes].
Lemma checks_cmd1 : forallb (fun k => check_others k (shape_of (shapeR_cmd1 (kcs_of k))) 8 && check_self k (shapeR_cmd1 (kcs_of k)) 8) gen_keys = true.
Proof. vm_cast_no_check (eq_refl true). Qed.

Definition msg_cmd1 (pre : str) (q1 : N) (pfx K d : str) (q2 : N) (w1 w2 dash fl w3 w4 u : str) (q3 : N) (x : str) (q4 : N) (post : str) : str :=
  pre ++ q1 :: pfx ++ K ++ d ++ q2 :: w1 ++ 44 :: w2 ++ 39 :: 45 :: dash ++ fl ++ 39 :: w3 ++ 44 :: w4 ++ u ++ q3 :: x ++ q4 :: post.

Lemma whole_cmd1_step k K d q1 pfx q2 w1 w2 dash fl w3 w4 u q3 q4 v mask pre post :
  In k gen_keys -> casing_of k K -> forallb ascii_digit d = true ->
  is_quote q1 = true -> is_quote q2 = true -> is_quote q3 = true -> is_quote q4 = true ->
  forallb quoted_char pfx = true -> forallb is_space w1 = true -> forallb is_space w2 = true ->
  (dash = [] \/ dash = [45]) -> all_in cs_flag fl = true -> (1 <= length fl)%nat ->
  forallb is_space w3 = true -> forallb is_space w4 = true -> opt_u u ->
  forallb quoted_char v = true -> forallb quoted_char mask = true ->
  forallb ctx_char pre = true -> forallb ctx_char post = true ->
  only_at gen_ci_table k (msg_cmd1 pre q1 pfx K d q2 w1 w2 dash fl w3 w4 u q3 v q4 post) [(length pre + 1 + length pfx)%nat] = true ->
  only_at gen_ci_table k (msg_cmd1 pre q1 pfx K d q2 w1 w2 dash fl w3 w4 u q3 mask q4 post) [(length pre + 1 + length pfx)%nat] = true ->
  others_absent k (msg_cmd1 pre q1 pfx K d q2 w1 w2 dash fl w3 w4 u q3 v q4 post) = true ->
  others_absent k (msg_cmd1 pre q1 pfx K d q2 w1 w2 dash fl w3 w4 u q3 mask q4 post) = true ->
  mask_password (msg_cmd1 pre q1 pfx K d q2 w1 w2 dash fl w3 w4 u q3 v q4 post) mask
  = msg_cmd1 pre q1 pfx K d q2 w1 w2 dash fl w3 w4 u q3 mask q4 post.
Proof.
  intros Hin Hcase Hd Hq1 Hq2 Hq3 Hq4 Hp Hw1 Hw2 Hdash Hfl Hlf Hw3 Hw4 Hu Hv Hmk Hpre Hpost Hov Hom Hav Ham.
  destruct (gen_key_ok k Hin) as [Hne Hk].
  pose proof (casing_ok_of k K Hk Hcase) as HK. pose proof (digits_in d Hd) as Hd'.
  pose proof (spaces_in _ Hw1) as Hw1'. pose proof (spaces_in _ Hw2) as Hw2'.
  pose proof (spaces_in _ Hw3) as Hw3'. pose proof (spaces_in _ Hw4) as Hw4'.
  pose proof (quote_in _ Hq1) as Hq1'. pose proof (quote_in _ Hq2) as Hq2'.
  pose proof (quote_in _ Hq3) as Hq3'. pose proof (quote_in _ Hq4) as Hq4'.
  pose proof (all_in_impl _ _ _ quoted_in Hp) as Hp'.
  pose proof (all_in_impl _ _ _ quoted_in Hv) as Hv'. pose proof (all_in_impl _ _ _ quoted_in Hmk) as Hmk'.
  destruct (opt_u_in u Hu) as [Hu' Hul].
  assert (Hdash' : all_in [(45, 45)] dash = true) by (destruct Hdash as [-> | ->]; reflexivity).
  assert (Hdl : (length dash <= 1)%nat) by (destruct Hdash as [-> | ->]; cbn; repeat constructor).
  pose proof (ctx_all _ Hpre) as Hpre'. pose proof (ctx_all _ Hpost) as Hpost'.
  pose proof checks_cmd1 as Hch. rewrite forallb_forall in Hch. specialize (Hch k Hin).
  apply andb_true_iff in Hch. destruct Hch as [Hco Hcs].
  assert (Parts : forall x, all_in cs_quoted x = true ->
            only_at gen_ci_table k (msg_cmd1 pre q1 pfx K d q2 w1 w2 dash fl w3 w4 u q3 x q4 post) [(length pre + 1 + length pfx)%nat] = true ->
            let S := q1 :: pfx ++ K ++ d ++ q2 :: w1 ++ 44 :: w2 ++ 39 :: 45 :: dash ++ fl ++ 39 :: w3 ++ 44 :: w4 ++ u ++ q3 :: x ++ q4 :: post in
            conc gen_ci_table k (shape_of (shapeR_cmd1 (kcs_of k))) (pre ++ S) /\
            (forall a' b', pre = a' ++ b' -> b' <> [] -> conc gen_ci_table k (ARun ctx_cs true :: shapeR_cmd1 (kcs_of k) ++ [ARun ctx_cs false]) (b' ++ S)) /\
            conc gen_ci_table k [ARun ctx_cs false] post).
  { intros x Hx' Hox.
    pose proof (conc_parts gen_ci_table k Hne ctx_cs false pre
                  [(AOne cs_quotes, [q1]); (ARun cs_quoted false, pfx); (AKey (kcs_of k), K); (ARun dig_cs false, d); (AOne cs_quotes, [q2]);
                   (ARun py_space false, w1); (AOne [(44, 44)], [44]); (ARun py_space false, w2); (AOne [(39, 39)], [39]); (AOne [(45, 45)], [45]);
                   (ARun [(45, 45)] false, dash); (ARun cs_flag true, fl); (AOne [(39, 39)], [39]); (ARun py_space false, w3); (AOne [(44, 44)], [44]);
                   (ARun py_space false, w4); (ARun cs_u false, u); (AOne cs_quotes, [q3]); (ARun cs_quoted false, x); (AOne cs_quotes, [q4])]
                  ctx_cs false post (msg_cmd1 pre q1 pfx K d q2 w1 w2 dash fl w3 w4 u q3 x q4 post)) as P.
    cbn zeta in P. apply P; clear P.
    - reflexivity.
    - valid_segs Hne. intros _. destruct fl; [inversion Hlf|discriminate].
    - intros a b E Hp0. pose proof (only_at_spec _ _ _ _ Hox a b E Hp0) as Hi. cbn [key_offsets fst snd is_key app].
      clear - Hi. destruct Hi as [Hi|[]]. left. rewrite <- Hi. cbn [length]. lia. }
  destruct (Parts v Hv' Hov) as (Cv & Cpre & Cpost). destruct (Parts mask Hmk' Hom) as (Cm & _ & _).
  assert (Hrj : nth_error (pats k) 8 = Some (gen_tp2_8 k)) by reflexivity.
  destruct (self_nomatch k _ 8 _ pre _ post Hin Hcs Hrj Cpre Cpost) as [Npre Npost].
  unfold msg_cmd1.
  apply (whole_frame k 8 (gen_tp2_8 k) (t2 mask) (shapeR_cmd1 (kcs_of k)) _ _ mask Hin eq_refl Hco Cv Cm);
    [| |exact Hav|exact Ham].
  2:{ replace (pre ++ q1 :: pfx ++ K ++ d ++ q2 :: w1 ++ 44 :: w2 ++ 39 :: 45 :: dash ++ fl ++ 39 :: w3 ++ 44 :: w4 ++ u ++ q3 :: v ++ q4 :: post)
        with ((pre ++ q1 :: pfx) ++ K ++ (d ++ q2 :: w1 ++ 44 :: w2 ++ 39 :: 45 :: dash ++ fl ++ 39 :: w3 ++ 44 :: w4 ++ u ++ q3 :: v ++ q4 :: post)) by norm_app2.
      apply (key_occurs k K _ _ Hk Hcase). }
  set (h := [q1] ++ pfx ++ K ++ d ++ [q2] ++ w1 ++ [44] ++ w2 ++ [39] ++ [45] ++ dash ++ fl ++ [39] ++ w3 ++ [44] ++ w4 ++ u ++ [q3]).
  assert (QD : exists g, match_at (gen_tp2_8 k) (h ++ v ++ q4 :: post) (blen pre) = Some (blen (pre ++ h ++ v ++ [q4]), g) /\
            gget g 1 = Some (blen pre, blen (pre ++ h)) /\ gget g 2 = Some (blen (pre ++ h ++ v), blen (pre ++ h ++ v ++ [q4]))).
  { cbv [gen_tp2_8].
    eapply (quote_delimited_at cs_quotes)
      with (h0 := [q1] ++ pfx ++ K ++ d ++ [q2] ++ w1 ++ [44] ++ w2 ++ [39] ++ [45] ++ dash ++ fl ++ [39] ++ w3 ++ [44] ++ w4 ++ u) (q3 := q3).
    - cbn [qcount]. rewrite (qcount_keyseq _ _ Hk). vm_compute. reflexivity.
    - cbn [last_q]. rewrite last_q_keyseq by (right; exact I). vm_compute. reflexivity.
    - vmr.
    - vmr.
    - replace (h ++ v ++ q4 :: post)
        with (q1 :: pfx ++ K ++ d ++ q2 :: w1 ++ 44 :: w2 ++ 39 :: 45 :: dash ++ fl ++ 39 :: w3 ++ 44 :: w4 ++ u ++ q3 :: v ++ q4 :: post)
        by (unfold h; norm_app2).
      mt_go.
    - unfold h. rewrite !countq_app.
      rewrite (countq_one cs_quotes _ Hq1'), (countq_one cs_quotes _ Hq2'), (countq_one cs_quotes _ Hq3').
      rewrite (countq_none cs_quotes _ _ Hp' ltac:(vmr)), (countq_casing _ _ Hk HK), (countq_none cs_quotes _ _ Hd' ltac:(vmr)).
      rewrite (countq_none cs_quotes _ _ Hw1' ltac:(vmr)), (countq_none cs_quotes _ _ Hw2' ltac:(vmr)), (countq_none cs_quotes _ _ Hu' ltac:(vmr)).
      rewrite (countq_none cs_quotes _ _ Hw3' ltac:(vmr)), (countq_none cs_quotes _ _ Hw4' ltac:(vmr)).
      rewrite (countq_none cs_quotes _ _ Hdash' ltac:(vmr)), (countq_none cs_quotes _ _ Hfl ltac:(vmr)).
      reflexivity.
    - unfold h. norm_app2.
    - exact Hq3'.
    - exact Hv'.
    - exact Hq4'. }
  destruct QD as (g & Hm & G1 & G2).
  replace (pre ++ q1 :: pfx ++ K ++ d ++ q2 :: w1 ++ 44 :: w2 ++ 39 :: 45 :: dash ++ fl ++ 39 :: w3 ++ 44 :: w4 ++ u ++ q3 :: v ++ q4 :: post)
    with (pre ++ (h ++ v ++ [q4]) ++ post) by (unfold h; norm_app2).
  replace (pre ++ q1 :: pfx ++ K ++ d ++ q2 :: w1 ++ 44 :: w2 ++ 39 :: 45 :: dash ++ fl ++ 39 :: w3 ++ 44 :: w4 ++ u ++ q3 :: mask ++ q4 :: post)
    with (pre ++ h ++ mask ++ [q4] ++ post) by (unfold h; norm_app2).
  apply (two_group_ctx (gen_tp2_8 k) pre h v [q4] post mask g).
  - replace ((h ++ v ++ [q4]) ++ post) with (h ++ v ++ q4 :: post) by norm_app2. exact Hm.
  - unfold h. discriminate.
  - exact G1.
  - exact G2.
  - intros a' b' q E Hb.
    replace (b' ++ (h ++ v ++ [q4]) ++ post)
      with (b' ++ q1 :: pfx ++ K ++ d ++ q2 :: w1 ++ 44 :: w2 ++ 39 :: 45 :: dash ++ fl ++ 39 :: w3 ++ 44 :: w4 ++ u ++ q3 :: v ++ q4 :: post) by (unfold h; norm_app2).
    apply (Npre a' b' q E Hb).
  - exact Npost.
Qed.

(* ====================================================================== *)
(* both halves: the value is replaced exactly, and masking the result again changes nothing *)
(* ====================================================================== *)
Lemma whole_bare k K d w1 w2 v mask pre post :
  In k gen_keys ->
  casing_of k K ->
  forallb ascii_digit d = true ->
  forallb is_space w1 = true ->
  forallb is_space w2 = true ->
  forallb bare_char v = true ->
  (1 <= length v)%nat ->
  forallb bare_char mask = true ->
  (1 <= length mask)%nat ->
  forallb ctx_char pre = true ->
  forallb ctx_char post = true ->
  hd_notin cs_bare post = true ->
  only_at gen_ci_table k (msg_bare pre K d w1 w2 v post) [length pre] = true ->
  only_at gen_ci_table k (msg_bare pre K d w1 w2 mask post) [length pre] = true ->
  others_absent k (msg_bare pre K d w1 w2 v post) = true ->
  others_absent k (msg_bare pre K d w1 w2 mask post) = true ->
  mask_password (msg_bare pre K d w1 w2 v post) mask = msg_bare pre K d w1 w2 mask post /\ mask_password (msg_bare pre K d w1 w2 mask post) mask = msg_bare pre K d w1 w2 mask post.
Proof.
  intros H0 H1 H2 H3 H4 H5 H6 H7 H8 H9 H10 H11 H12 H13 H14 H15. split.
  - exact (whole_bare_step k K d w1 w2 v mask pre post H0 H1 H2 H3 H4 H5 H6 H7 H8 H9 H10 H11 H12 H13 H14 H15).
  - exact (whole_bare_step k K d w1 w2 mask mask pre post H0 H1 H2 H3 H4 H7 H8 H7 H8 H9 H10 H11 H13 H13 H15 H15).
Qed.

Lemma whole_kq k K d w1 q1 q2 v mask pre post :
  In k gen_keys ->
  casing_of k K ->
  forallb ascii_digit d = true ->
  forallb is_space w1 = true ->
  (1 <= length w1)%nat ->
  is_quote q1 = true ->
  is_quote q2 = true ->
  forallb quoted_char v = true ->
  forallb quoted_char mask = true ->
  forallb ctx_char pre = true ->
  forallb ctx_char post = true ->
  only_at gen_ci_table k (msg_kq pre K d w1 q1 v q2 post) [length pre] = true ->
  only_at gen_ci_table k (msg_kq pre K d w1 q1 mask q2 post) [length pre] = true ->
  others_absent k (msg_kq pre K d w1 q1 v q2 post) = true ->
  others_absent k (msg_kq pre K d w1 q1 mask q2 post) = true ->
  mask_password (msg_kq pre K d w1 q1 v q2 post) mask = msg_kq pre K d w1 q1 mask q2 post /\ mask_password (msg_kq pre K d w1 q1 mask q2 post) mask = msg_kq pre K d w1 q1 mask q2 post.
Proof.
  intros H0 H1 H2 H3 H4 H5 H6 H7 H8 H9 H10 H11 H12 H13 H14. split.
  - exact (whole_kq_step k K d w1 q1 q2 v mask pre post H0 H1 H2 H3 H4 H5 H6 H7 H8 H9 H10 H11 H12 H13 H14).
  - exact (whole_kq_step k K d w1 q1 q2 mask mask pre post H0 H1 H2 H3 H4 H5 H6 H8 H8 H9 H10 H12 H12 H14 H14).
Qed.

Lemma whole_xml k K d K' d' v mask pre post :
  In k gen_keys ->
  casing_of k K ->
  forallb ascii_digit d = true ->
  casing_of k K' ->
  forallb ascii_digit d' = true ->
  forallb xml_char v = true ->
  forallb xml_char mask = true ->
  forallb ctx_char pre = true ->
  forallb ctx_char post = true ->
  only_at gen_ci_table k (msg_xml pre K d v K' d' post) (xml_offsets pre K d v) = true ->
  only_at gen_ci_table k (msg_xml pre K d mask K' d' post) (xml_offsets pre K d mask) = true ->
  others_absent k (msg_xml pre K d v K' d' post) = true ->
  others_absent k (msg_xml pre K d mask K' d' post) = true ->
  mask_password (msg_xml pre K d v K' d' post) mask = msg_xml pre K d mask K' d' post /\ mask_password (msg_xml pre K d mask K' d' post) mask = msg_xml pre K d mask K' d' post.
Proof.
  intros H0 H1 H2 H3 H4 H5 H6 H7 H8 H9 H10 H11 H12. split.
  - exact (whole_xml_step k K d K' d' v mask pre post H0 H1 H2 H3 H4 H5 H6 H7 H8 H9 H10 H11 H12).
  - exact (whole_xml_step k K d K' d' mask mask pre post H0 H1 H2 H3 H4 H6 H6 H7 H8 H10 H10 H12 H12).
Qed.

Lemma whole_cmd2 k K d w1 dash fl w2 w3 v mask pre post :
  In k gen_keys ->
  casing_of k K ->
  forallb ascii_digit d = true ->
  forallb is_space w1 = true ->
  (dash = [] \/ dash = [45]) ->
  all_in cs_flag fl = true ->
  (1 <= length fl)%nat ->
  forallb is_space w2 = true ->
  (1 <= length w2)%nat ->
  forallb is_space w3 = true ->
  forallb nonspace_char v = true ->
  (1 <= length v)%nat ->
  forallb nonspace_char mask = true ->
  (1 <= length mask)%nat ->
  forallb ctx_char pre = true ->
  forallb ctx_char post = true ->
  hd_notin cs_nonspace (w3 ++ post) = true ->
  hd_notin py_space post = true ->
  only_at gen_ci_table k (msg_cmd2 pre K d w1 dash fl w2 v w3 post) [length pre] = true ->
  only_at gen_ci_table k (msg_cmd2 pre K d w1 dash fl w2 mask w3 post) [length pre] = true ->
  others_absent k (msg_cmd2 pre K d w1 dash fl w2 v w3 post) = true ->
  others_absent k (msg_cmd2 pre K d w1 dash fl w2 mask w3 post) = true ->
  mask_password (msg_cmd2 pre K d w1 dash fl w2 v w3 post) mask = msg_cmd2 pre K d w1 dash fl w2 mask w3 post /\ mask_password (msg_cmd2 pre K d w1 dash fl w2 mask w3 post) mask = msg_cmd2 pre K d w1 dash fl w2 mask w3 post.
Proof.
  intros H0 H1 H2 H3 H4 H5 H6 H7 H8 H9 H10 H11 H12 H13 H14 H15 H16 H17 H18 H19 H20 H21. split.
  - exact (whole_cmd2_step k K d w1 dash fl w2 w3 v mask pre post H0 H1 H2 H3 H4 H5 H6 H7 H8 H9 H10 H11 H12 H13 H14 H15 H16 H17 H18 H19 H20 H21).
  - exact (whole_cmd2_step k K d w1 dash fl w2 w3 mask mask pre post H0 H1 H2 H3 H4 H5 H6 H7 H8 H9 H12 H13 H12 H13 H14 H15 H16 H17 H19 H19 H21 H21).
Qed.

Lemma whole_dd k K d w1 w2 v mask pre post :
  In k gen_keys ->
  casing_of k K ->
  forallb ascii_digit d = true ->
  forallb is_space w1 = true ->
  (1 <= length w1)%nat ->
  forallb is_space w2 = true ->
  forallb dd_char v = true ->
  (1 <= length v)%nat ->
  hd_notin [(45, 45)] v = true ->
  forallb dd_char mask = true ->
  (1 <= length mask)%nat ->
  hd_notin [(45, 45)] mask = true ->
  forallb ctx_char pre = true ->
  forallb ctx_char post = true ->
  hd_notin cs_dd (w2 ++ post) = true ->
  hd_notin py_space post = true ->
  only_at gen_ci_table k (msg_dd pre K d w1 v w2 post) [(length pre + 2)%nat] = true ->
  only_at gen_ci_table k (msg_dd pre K d w1 mask w2 post) [(length pre + 2)%nat] = true ->
  others_absent k (msg_dd pre K d w1 v w2 post) = true ->
  others_absent k (msg_dd pre K d w1 mask w2 post) = true ->
  mask_password (msg_dd pre K d w1 v w2 post) mask = msg_dd pre K d w1 mask w2 post /\ mask_password (msg_dd pre K d w1 mask w2 post) mask = msg_dd pre K d w1 mask w2 post.
Proof.
  intros H0 H1 H2 H3 H4 H5 H6 H7 H8 H9 H10 H11 H12 H13 H14 H15 H16 H17 H18 H19. split.
  - exact (whole_dd_step k K d w1 w2 v mask pre post H0 H1 H2 H3 H4 H5 H6 H7 H8 H9 H10 H11 H12 H13 H14 H15 H16 H17 H18 H19).
  - exact (whole_dd_step k K d w1 w2 mask mask pre post H0 H1 H2 H3 H4 H5 H9 H10 H11 H9 H10 H11 H12 H13 H14 H15 H17 H17 H19 H19).
Qed.

Lemma whole_jp k K d q1 pfx q2 w1 w2 u q3 q4 v mask pre post :
  In k gen_keys ->
  casing_of k K ->
  forallb ascii_digit d = true ->
  is_quote q1 = true ->
  is_quote q2 = true ->
  is_quote q3 = true ->
  is_quote q4 = true ->
  forallb quoted_char pfx = true ->
  (1 <= length pfx)%nat ->
  forallb is_space w1 = true ->
  forallb is_space w2 = true ->
  opt_u u ->
  forallb quoted_char v = true ->
  forallb quoted_char mask = true ->
  forallb ctx_char pre = true ->
  forallb ctx_char post = true ->
  only_at gen_ci_table k (msg_jp pre q1 pfx K d q2 w1 w2 u q3 v q4 post) [(length pre + 1 + length pfx)%nat] = true ->
  only_at gen_ci_table k (msg_jp pre q1 pfx K d q2 w1 w2 u q3 mask q4 post) [(length pre + 1 + length pfx)%nat] = true ->
  others_absent k (msg_jp pre q1 pfx K d q2 w1 w2 u q3 v q4 post) = true ->
  others_absent k (msg_jp pre q1 pfx K d q2 w1 w2 u q3 mask q4 post) = true ->
  mask_password (msg_jp pre q1 pfx K d q2 w1 w2 u q3 v q4 post) mask = msg_jp pre q1 pfx K d q2 w1 w2 u q3 mask q4 post /\ mask_password (msg_jp pre q1 pfx K d q2 w1 w2 u q3 mask q4 post) mask = msg_jp pre q1 pfx K d q2 w1 w2 u q3 mask q4 post.
Proof.
  intros H0 H1 H2 H3 H4 H5 H6 H7 H8 H9 H10 H11 H12 H13 H14 H15 H16 H17 H18 H19. split.
  - exact (whole_jp_step k K d q1 pfx q2 w1 w2 u q3 q4 v mask pre post H0 H1 H2 H3 H4 H5 H6 H7 H8 H9 H10 H11 H12 H13 H14 H15 H16 H17 H18 H19).
  - exact (whole_jp_step k K d q1 pfx q2 w1 w2 u q3 q4 mask mask pre post H0 H1 H2 H3 H4 H5 H6 H7 H8 H9 H10 H11 H13 H13 H14 H15 H17 H17 H19 H19).
Qed.

Lemma whole_eq k K d w1 w2 q v mask pre post :
  In k gen_keys ->
  casing_of k K ->
  forallb ascii_digit d = true ->
  forallb is_space w1 = true ->
  forallb is_space w2 = true ->
  (q = 34 \/ q = 39) ->
  forallb quoted_char v = true ->
  forallb quoted_char mask = true ->
  forallb ctx_char pre = true ->
  forallb ctx_char post = true ->
  only_at gen_ci_table k (msg_eq pre K d w1 w2 q v post) [length pre] = true ->
  only_at gen_ci_table k (msg_eq pre K d w1 w2 q mask post) [length pre] = true ->
  others_absent k (msg_eq pre K d w1 w2 q v post) = true ->
  others_absent k (msg_eq pre K d w1 w2 q mask post) = true ->
  mask_password (msg_eq pre K d w1 w2 q v post) mask = msg_eq pre K d w1 w2 q mask post /\ mask_password (msg_eq pre K d w1 w2 q mask post) mask = msg_eq pre K d w1 w2 q mask post.
Proof.
  intros H0 H1 H2 H3 H4 H5 H6 H7 H8 H9 H10 H11 H12 H13. split.
  - exact (whole_eq_step k K d w1 w2 q v mask pre post H0 H1 H2 H3 H4 H5 H6 H7 H8 H9 H10 H11 H12 H13).
  - exact (whole_eq_step k K d w1 w2 q mask mask pre post H0 H1 H2 H3 H4 H5 H7 H7 H8 H9 H11 H11 H13 H13).
Qed.

Lemma whole_json k K d q1 q2 w1 w2 q3 q4 v mask pre post :
  In k gen_keys ->
  casing_of k K ->
  forallb ascii_digit d = true ->
  is_quote q1 = true ->
  is_quote q2 = true ->
  is_quote q3 = true ->
  is_quote q4 = true ->
  forallb is_space w1 = true ->
  forallb is_space w2 = true ->
  forallb quoted_char v = true ->
  forallb quoted_char mask = true ->
  forallb ctx_char pre = true ->
  forallb ctx_char post = true ->
  only_at gen_ci_table k (msg_json pre q1 K d q2 w1 w2 q3 v q4 post) [(length pre + 1)%nat] = true ->
  only_at gen_ci_table k (msg_json pre q1 K d q2 w1 w2 q3 mask q4 post) [(length pre + 1)%nat] = true ->
  others_absent k (msg_json pre q1 K d q2 w1 w2 q3 v q4 post) = true ->
  others_absent k (msg_json pre q1 K d q2 w1 w2 q3 mask q4 post) = true ->
  mask_password (msg_json pre q1 K d q2 w1 w2 q3 v q4 post) mask = msg_json pre q1 K d q2 w1 w2 q3 mask q4 post /\ mask_password (msg_json pre q1 K d q2 w1 w2 q3 mask q4 post) mask = msg_json pre q1 K d q2 w1 w2 q3 mask q4 post.
Proof.
  intros H0 H1 H2 H3 H4 H5 H6 H7 H8 H9 H10 H11 H12 H13 H14 H15 H16. split.
  - exact (whole_json_step k K d q1 q2 w1 w2 q3 q4 v mask pre post H0 H1 H2 H3 H4 H5 H6 H7 H8 H9 H10 H11 H12 H13 H14 H15 H16).
  - exact (whole_json_step k K d q1 q2 w1 w2 q3 q4 mask mask pre post H0 H1 H2 H3 H4 H5 H6 H7 H8 H10 H10 H11 H12 H14 H14 H16 H16).
Qed.

Lemma whole_cmd1 k K d q1 pfx q2 w1 w2 dash fl w3 w4 u q3 q4 v mask pre post :
  In k gen_keys ->
  casing_of k K ->
  forallb ascii_digit d = true ->
  is_quote q1 = true ->
  is_quote q2 = true ->
  is_quote q3 = true ->
  is_quote q4 = true ->
  forallb quoted_char pfx = true ->
  forallb is_space w1 = true ->
  forallb is_space w2 = true ->
  (dash = [] \/ dash = [45]) ->
  all_in cs_flag fl = true ->
  (1 <= length fl)%nat ->
  forallb is_space w3 = true ->
  forallb is_space w4 = true ->
  opt_u u ->
  forallb quoted_char v = true ->
  forallb quoted_char mask = true ->
  forallb ctx_char pre = true ->
  forallb ctx_char post = true ->
  only_at gen_ci_table k (msg_cmd1 pre q1 pfx K d q2 w1 w2 dash fl w3 w4 u q3 v q4 post) [(length pre + 1 + length pfx)%nat] = true ->
  only_at gen_ci_table k (msg_cmd1 pre q1 pfx K d q2 w1 w2 dash fl w3 w4 u q3 mask q4 post) [(length pre + 1 + length pfx)%nat] = true ->
  others_absent k (msg_cmd1 pre q1 pfx K d q2 w1 w2 dash fl w3 w4 u q3 v q4 post) = true ->
  others_absent k (msg_cmd1 pre q1 pfx K d q2 w1 w2 dash fl w3 w4 u q3 mask q4 post) = true ->
  mask_password (msg_cmd1 pre q1 pfx K d q2 w1 w2 dash fl w3 w4 u q3 v q4 post) mask = msg_cmd1 pre q1 pfx K d q2 w1 w2 dash fl w3 w4 u q3 mask q4 post /\ mask_password (msg_cmd1 pre q1 pfx K d q2 w1 w2 dash fl w3 w4 u q3 mask q4 post) mask = msg_cmd1 pre q1 pfx K d q2 w1 w2 dash fl w3 w4 u q3 mask q4 post.
Proof.
  intros H0 H1 H2 H3 H4 H5 H6 H7 H8 H9 H10 H11 H12 H13 H14 H15 H16 H17 H18 H19 H20 H21 H22 H23. split.
  - exact (whole_cmd1_step k K d q1 pfx q2 w1 w2 dash fl w3 w4 u q3 q4 v mask pre post H0 H1 H2 H3 H4 H5 H6 H7 H8 H9 H10 H11 H12 H13 H14 H15 H16 H17 H18 H19 H20 H21 H22 H23).
  - exact (whole_cmd1_step k K d q1 pfx q2 w1 w2 dash fl w3 w4 u q3 q4 mask mask pre post H0 H1 H2 H3 H4 H5 H6 H7 H8 H9 H10 H11 H12 H13 H14 H15 H17 H17 H18 H19 H21 H21 H23 H23).
Qed.

Lemma in_gen_keys k : existsb (beq k) gen_keys = true -> In k gen_keys.
Proof. intros H. apply existsb_exists in H. destruct H as (x & Hx & E). apply beq_eq in E. subst. exact Hx. Qed.
